package main

import (
	"os"
	"path/filepath"
	"regexp"
	"sort"
	"strings"
	"testing"
)

const lockSrc = `package p

import (
	"sync"
	"sync/atomic"
)

type T struct {
	mu    sync.RWMutex
	wg    sync.WaitGroup
	ch    chan int
	n     int
	m     map[int]int
	hits  atomic.Uint32
	raw   uint64
	cfg   string
	arr   [4][2]int
}

func NewT() *T {
	t := &T{cfg: "x", m: map[int]int{}}
	t.n = 1
	go t.loop()
	t.n = 2
	return t
}

func (t *T) loop() {
	for {
		t.mu.Lock()
		t.n++
		t.mu.Unlock()
		_ = t.cfg
	}
}

func (t *T) Guarded() int {
	t.mu.RLock()
	defer t.mu.RUnlock()
	return t.n + t.m[1]
}

func (t *T) BranchLock(c bool) {
	if c {
		t.mu.Lock()
	}
	t.n = 3
}

func (t *T) EarlyUnlock(c bool) int {
	t.mu.Lock()
	if c {
		t.mu.Unlock()
		return 0
	}
	v := t.n
	t.mu.Unlock()
	return v + len(t.cfg)
}

func (t *T) LoopUnlock() {
	t.mu.Lock()
	for i := 0; i < 3; i++ {
		t.n = i
		t.mu.Unlock()
	}
}

func (t *T) Atomics() {
	t.hits.Add(1)
	_ = t.hits.Load()
	atomic.AddUint64(&t.raw, 1)
	_ = atomic.LoadUint64(&t.raw)
}

func (t *T) Helper() {
	t.mu.Lock()
	defer t.mu.Unlock()
	t.bump()
}

func (t *T) bump() { delete(t.m, 1); t.n += 1 }

func (t *T) Closures() {
	t.mu.Lock()
	func() { t.n = 4 }()
	go func() { t.n = 5 }()
	t.mu.Unlock()
}

func (t *T) Ptr() {
	t.mu.RLock()
	e := &t.arr[1]
	_ = e[0]
	t.mu.RUnlock()
	use(&t.n)
}

func (t *T) Sync() { t.wg.Wait(); <-t.ch }

// (a) reference-typed field value taken under the lock, mutated after Unlock
func (t *T) AliasAfterUnlock() {
	t.mu.Lock()
	m := t.m
	t.mu.Unlock()
	delete(m, 1)
}

func (t *T) AliasIndexAssign() {
	t.mu.Lock()
	m := t.m
	t.mu.Unlock()
	m[2] = 3
}

// the same under the lock is fine
func (t *T) AliasUnderLock() {
	t.mu.Lock()
	m := t.m
	m[2] = 3
	t.mu.Unlock()
}

// (b) struct copy outside the lock
func (t *T) CopyOutside() int {
	g := *t
	return g.n
}

// (c) method value taken, called later
func (t *T) used() bool { return t.n > 0 }
func (t *T) MethodValue() bool {
	u := t.used
	t.mu.RLock()
	defer t.mu.RUnlock()
	return u()
}

// (d) unlock through an alias of the mutex
func (t *T) MutexAlias() {
	t.mu.Lock()
	mu := &t.mu
	mu.Unlock()
	t.n = 7
}

// (e) the lock is taken inside an own method
func (t *T) lock() { t.mu.Lock() }
func (t *T) LockInCallee() {
	t.lock()
	defer t.mu.Unlock()
	t.n = 8
}

func (t *T) withLock() {
	t.mu.Lock()
	defer t.mu.Unlock()
	t.n = 9
}
func (t *T) AfterCalleeReleased() {
	t.withLock()
	t.n = 10
}

func use(*int) {}
`

func runLocks(t *testing.T, src string, args ...string) string {
	t.Helper()
	dir := t.TempDir()
	if err := os.MkdirAll(filepath.Join(dir, "p"), 0o755); err != nil {
		t.Fatal(err)
	}
	if err := os.WriteFile(filepath.Join(dir, "p", "x.go"), []byte(src), 0o644); err != nil {
		t.Fatal(err)
	}
	out := filepath.Join(dir, "out.txt")
	f, err := os.Create(out)
	if err != nil {
		t.Fatal(err)
	}
	saved := os.Stdout
	os.Stdout = f
	err = cmdLocks(dir, "p/x.go", args[0], args[1])
	os.Stdout = saved
	f.Close()
	if err != nil {
		t.Fatal(err)
	}
	b, _ := os.ReadFile(out)
	return string(b)
}

func TestLocks(t *testing.T) {
	out := runLocks(t, lockSrc, "T", "mu")
	want := []string{
		// constructor: before and after publication by `go`
		`mkAcc "NewT" "cfg" true false [] true`,
		`mkAcc "NewT" "n" true false [] true`,
		`mkAcc "NewT" "n" true false [] false`,
		// lock / unlock inside the loop body
		`mkAcc "loop" "n" true false [("mu", Ex)] false`,
		`mkAcc "loop" "cfg" false false [] false`,
		// defer RUnlock keeps the lock to the end
		`mkAcc "Guarded" "n" false false [("mu", Sh)] false`,
		`mkAcc "Guarded" "m" false false [("mu", Sh)] false`,
		// a lock taken in one branch only does not count afterwards
		`mkAcc "BranchLock" "n" true false [] false`,
		// unlock + return inside a branch does not flow on; after the final Unlock nothing is held
		`mkAcc "EarlyUnlock" "n" false false [("mu", Ex)] false`,
		`mkAcc "EarlyUnlock" "cfg" false false [] false`,
		// the loop head is reached with the lock released by the previous iteration
		`mkAcc "LoopUnlock" "n" true false [] false`,
		// atomics
		`mkAcc "Atomics" "hits" true true [] false`,
		`mkAcc "Atomics" "hits" false true [] false`,
		`mkAcc "Atomics" "raw" true true [] false`,
		`mkAcc "Atomics" "raw" false true [] false`,
		// inlined helper carries the caller's lock; on its own it has none
		`mkAcc "Helper" "m" true false [("mu", Ex)] false`,
		`mkAcc "Helper" "n" true false [("mu", Ex)] false`,
		`mkAcc "bump" "n" true false [] false`,
		// closure called on the spot vs goroutine
		`mkAcc "Closures" "n" true false [("mu", Ex)] false`,
		`mkAcc "Closures" "n" true false [] false`,
		// local pointer followed; address handed to other code is not
		`mkAcc "Ptr" "arr" false false [("mu", Sh)] false`,
		`mkAcc "Ptr" "n" true false [] false`,
		`spawned: loop`,
	}
	for _, w := range want {
		if !strings.Contains(out, w) {
			t.Errorf("missing %q in\n%s", w, out)
		}
	}
	for _, bad := range []string{`"wg"`, `"ch"`, `mkAcc "LoopUnlock" "n" true false [("mu", Ex)]`, `mkAcc "Ptr" "arr" true`} {
		if strings.Contains(out, "mkAcc") && strings.Contains(out, bad) && !strings.Contains(bad, "skipped") {
			// wg / ch appear in the header's skipped list only
			for _, line := range strings.Split(out, "\n") {
				if strings.Contains(line, "mkAcc") && strings.Contains(line, bad) {
					t.Errorf("unexpected %q: %s", bad, line)
				}
			}
		}
	}
}

// a Go rendering of Glb.Lib.Lockset.check_discipline restricted to a scope, for the tests only
var recRe = regexp.MustCompile(`mkAcc "([^"]*)" "([^"]*)" (true|false) (true|false) (\[[^\]]*\]) (true|false)`)

type rec struct {
	fn, loc       string
	write, atomic bool
	held          map[string]string
	prepub        bool
}

func parseRecs(out string) []rec {
	var rs []rec
	for _, m := range recRe.FindAllStringSubmatch(out, -1) {
		r := rec{fn: m[1], loc: m[2], write: m[3] == "true", atomic: m[4] == "true", prepub: m[6] == "true", held: map[string]string{}}
		for _, h := range regexp.MustCompile(`\("([^"]*)", (Sh|Ex)\)`).FindAllStringSubmatch(m[5], -1) {
			r.held[h[1]] = h[2]
		}
		rs = append(rs, r)
	}
	return rs
}

func disciplineFails(rs []rec, scope ...string) []string {
	in := map[string]bool{}
	for _, s := range scope {
		in[s] = true
	}
	byLoc := map[string][]rec{}
	for _, r := range rs {
		if in[r.fn] && !r.prepub {
			byLoc[r.loc] = append(byLoc[r.loc], r)
		}
	}
	var bad []string
	for loc, A := range byLoc {
		allAtomic, noWrite := true, true
		locks := map[string]bool{}
		for _, a := range A {
			allAtomic = allAtomic && a.atomic
			noWrite = noWrite && !a.write
			for l := range a.held {
				locks[l] = true
			}
		}
		guarded := false
		for l := range locks {
			ok := true
			for _, a := range A {
				md, has := a.held[l]
				if !has || (a.write && md != "Ex") {
					ok = false
				}
			}
			guarded = guarded || ok
		}
		if !(allAtomic || noWrite || guarded) {
			bad = append(bad, loc)
		}
	}
	sort.Strings(bad)
	return bad
}

func TestBlindSpots(t *testing.T) {
	rs := parseRecs(runLocks(t, lockSrc, "T", "mu"))
	base := []string{"Helper", "Guarded"}
	if bad := disciplineFails(rs, base...); len(bad) != 0 {
		t.Fatalf("baseline scope must pass, fails on %v", bad)
	}
	for _, racy := range []string{"AliasAfterUnlock", "AliasIndexAssign", "CopyOutside", "MethodValue", "MutexAlias", "AfterCalleeReleased"} {
		if bad := disciplineFails(rs, append(base, racy)...); len(bad) == 0 {
			t.Errorf("%s is racy against Helper/Guarded but the discipline passes", racy)
		} else {
			t.Logf("%s: fails on %v", racy, bad)
		}
	}
	for _, fine := range []string{"LockInCallee", "AliasUnderLock", "EarlyUnlock"} {
		if bad := disciplineFails(rs, append(base, fine)...); len(bad) != 0 {
			t.Errorf("%s is race free but the discipline fails on %v", fine, bad)
		}
	}
}

// shapes of the harmless-rewrite battery (review_rf_netutil 13–16, 18) and their racy counterparts
const lockSrc2 = `package p

import "sync"

type state struct {
	sync.RWMutex
	mode int
	list [8][2]int
	maps [4]map[int]bool
}

type U struct {
	hits int
	st   state
}

func NewU() *U { return &U{st: state{mode: 1}} }

func (u *U) Set() {
	u.st.Lock()
	defer u.st.Unlock()
	u.st.mode = 2
	u.st.maps[0][1] = true
}

func (u *U) Get() int {
	u.st.RLock()
	defer u.st.RUnlock()
	return u.st.mode
}

func (u *U) GetUnlocked() int { return u.st.mode }

type V struct {
	mu   sync.RWMutex
	n    int
	list [8][2]int
	maps [4]map[int]bool
}

// B1: defer v.lock()()
func (v *V) lock() func()  { v.mu.Lock(); return v.mu.Unlock }
func (v *V) rlock() func() { v.mu.RLock(); return v.mu.RUnlock }
func (v *V) SetDeferLock() {
	defer v.lock()()
	v.n = 1
}
func (v *V) GetDeferRLock() int {
	defer v.rlock()()
	return v.n
}
func (v *V) SetUnlockVar() {
	unlock := v.lock()
	v.n = 2
	unlock()
	v.n = 3 // after the unlock: unguarded
}

// B2: function literal run by an own method under the lock
func (v *V) update(fn func()) {
	v.mu.Lock()
	defer v.mu.Unlock()
	fn()
}
func (v *V) view(fn func() int) int {
	v.mu.RLock()
	defer v.mu.RUnlock()
	return fn()
}
func (v *V) later(fn func()) { go fn() }
func (v *V) SetUpdate()     { v.update(func() { v.n = 4 }) }
func (v *V) GetView() int   { return v.view(func() int { return v.n }) }
func (v *V) SetLater()      { v.later(func() { v.n = 5 }) }

// B4: local alias of the lock
func (v *V) SetAlias() {
	mu := &v.mu
	mu.Lock()
	defer mu.Unlock()
	v.n = 6
}
func (v *V) SetAliasEscapes() {
	mu := &v.mu
	mu.Lock()
	hand(mu)
	v.n = 7
}

// B5: pointers into arrays, slices of arrays, range over a pointer to an array
func (v *V) SetThroughPointers() {
	v.mu.Lock()
	defer v.mu.Unlock()
	list, maps := &v.list, &v.maps
	list[0] = [2]int{1, 2}
	for i := range maps {
		maps[i] = map[int]bool{}
	}
	l2 := v.list[:4]
	for i := range l2 {
		if e := &l2[i]; e[0] == 1 {
			*e = [2]int{0, 0}
		}
	}
}
func (v *V) GetThroughPointers() bool {
	v.mu.RLock()
	defer v.mu.RUnlock()
	l2 := v.list[:4]
	for i := range l2 {
		if e := &l2[i]; e[1] > 0 {
			return true
		}
	}
	for i, set := range &v.maps {
		if set[i] {
			return true
		}
	}
	return false
}
func (v *V) WriteUnderRLock() {
	v.mu.RLock()
	defer v.mu.RUnlock()
	l2 := v.list[:4]
	for i := range l2 {
		if e := &l2[i]; e[1] > 0 {
			*e = [2]int{0, 0}
		}
	}
}

func hand(*sync.RWMutex) {}
`

func runLocksSrc(t *testing.T, src, typ string) []rec {
	t.Helper()
	return parseRecs(runLocks(t, src, typ, "-"))
}

func TestRewriteShapes(t *testing.T) {
	// B3: mutex embedded in a nested struct field
	ru := runLocksSrc(t, lockSrc2, "U")
	if bad := disciplineFails(ru, "Set", "Get"); len(bad) != 0 {
		t.Errorf("embedded mutex in a nested struct: fails on %v", bad)
	}
	if bad := disciplineFails(ru, "Set", "Get", "GetUnlocked"); len(bad) == 0 {
		t.Errorf("unlocked read of u.st.mode must fail")
	}
	found := false
	for _, r := range ru {
		if r.fn == "Set" && r.loc == "st.mode" && r.write && r.held["st.RWMutex"] == "Ex" {
			found = true
		}
	}
	if !found {
		t.Errorf("u.st.mode = 2 under u.st.Lock() not recorded as a write of st.mode under st.RWMutex:Ex")
	}
	rv := runLocksSrc(t, lockSrc2, "V")
	pass := [][]string{
		{"SetDeferLock", "GetDeferRLock"},            // B1
		{"SetUpdate", "GetView", "SetDeferLock"},     // B2
		{"SetAlias", "GetDeferRLock"},                // B4
		{"SetThroughPointers", "GetThroughPointers"}, // B5
	}
	for _, sc := range pass {
		if bad := disciplineFails(rv, sc...); len(bad) != 0 {
			t.Errorf("scope %v is race free but fails on %v", sc, bad)
		}
	}
	fail := [][]string{
		{"SetUnlockVar", "GetDeferRLock"},         // write after unlock()
		{"SetLater", "GetDeferRLock"},             // closure run in a goroutine by the own method
		{"SetAliasEscapes", "GetDeferRLock"},      // lock alias handed to other code
		{"WriteUnderRLock", "GetThroughPointers"}, // *e = … through a pointer into a slice of the array, under RLock
	}
	for _, sc := range fail {
		if bad := disciplineFails(rv, sc...); len(bad) == 0 {
			t.Errorf("scope %v is racy but the discipline passes", sc)
		}
	}
	// the write through the pointer is a WRITE of the field with the lock held there
	w := false
	for _, r := range rv {
		if r.fn == "WriteUnderRLock" && r.loc == "list" && r.write && r.held["mu"] == "Sh" {
			w = true
		}
	}
	if !w {
		t.Errorf("*e = … under RLock must be recorded as a write of list held Sh")
	}
}

// battery 2: package functions taking the object, RLocker, element pointers handed to helpers, methods of nested structs
const lockSrc3 = `package p

import (
	"sync"
	"sync/atomic"
)

type lane struct{ ch chan int }

type idSource struct {
	seq   atomic.Uint64
	plain int
}

func (src *idSource) next() uint64 { return src.seq.Add(1) }
func (src *idSource) bump()        { src.plain++ }

type W struct {
	mu    sync.RWMutex
	n     int
	lanes []lane
	ids   idSource
}

func setLocked(w *W, v int) { w.n = v }
func getLocked(w *W) int    { return w.n }

func (w *W) update(fn func(w *W)) {
	w.mu.Lock()
	defer w.mu.Unlock()
	fn(w)
}
func view[R any](w *W, fn func(w *W) R) R {
	w.mu.RLock()
	defer w.mu.RUnlock()
	return fn(w)
}

func (w *W) SetFn() {
	w.mu.Lock()
	defer w.mu.Unlock()
	setLocked(w, 1)
}
func (w *W) SetFnNoLock()  { setLocked(w, 2) }
func (w *W) SetViaUpdate() { w.update(func(w *W) { setLocked(w, 3) }) }
func (w *W) GetViaView() int {
	return view(w, func(w *W) int { return getLocked(w) })
}
func (w *W) GetRL() int {
	rl := w.mu.RLocker()
	rl.Lock()
	defer rl.Unlock()
	return w.n
}
func (w *W) SetUnderRLocker() {
	rl := w.mu.RLocker()
	rl.Lock()
	defer rl.Unlock()
	w.n = 4
}

func offer(ln *lane, v int) bool {
	select {
	case ln.ch <- v:
		return true
	default:
		return false
	}
}
func clobber(ln *lane) { *ln = lane{} }
func (w *W) Offer(i int) bool { ln := &w.lanes[i]; return offer(ln, 1) }
func (w *W) Peek(i int) int   { return len(w.lanes[i].ch) }
func (w *W) Clobber(i int)    { ln := &w.lanes[i]; clobber(ln) }

func (w *W) Enter() {
	w.ids.seq.Add(1)
	defer w.ids.seq.Add(^uint64(0)) // directly deferred call on an atomic field
	go w.ids.seq.Store(0)
}
func (w *W) NextID() uint64 { return w.ids.next() }
func (w *W) Bump()          { w.ids.bump() }
`

func TestBattery2Locks(t *testing.T) {
	r := runLocksSrc(t, lockSrc3, "W")
	pass := [][]string{
		{"SetFn", "GetRL"},             // function taking the object inlined with the caller's lock; RLocker = shared hold
		{"SetViaUpdate", "GetViaView"}, // literal with the object as parameter, generic helper function
		{"Offer", "Peek"},              // element pointer handed to a helper that only sends on a channel inside
		{"NextID"},                     // method of a nested struct: atomic sub-field
	}
	for _, sc := range pass {
		if bad := disciplineFails(r, sc...); len(bad) != 0 {
			t.Errorf("scope %v is race free but fails on %v", sc, bad)
		}
	}
	fail := [][]string{
		{"SetFnNoLock", "GetRL"},     // same helper called without the lock
		{"SetUnderRLocker", "GetRL"}, // a write under the read side
		{"Clobber", "Peek"},          // helper writes through the element pointer
		{"Bump"},                     // nested struct method increments a plain sub-field
	}
	for _, sc := range fail {
		if bad := disciplineFails(r, sc...); len(bad) == 0 {
			t.Errorf("scope %v is racy but the discipline passes", sc)
		}
	}
	has := func(fn, loc string, write, atomic bool, lock, mode string) bool {
		for _, x := range r {
			if x.fn == fn && x.loc == loc && x.write == write && x.atomic == atomic && x.held[lock] == mode {
				return true
			}
		}
		return false
	}
	if !has("SetFn", "n", true, false, "mu", "Ex") {
		t.Errorf("setLocked(w, 1) under Lock must be a write of n held Ex")
	}
	if !has("GetRL", "n", false, false, "mu", "Sh") {
		t.Errorf("read under RLocker().Lock() must be held Sh")
	}
	if bad := disciplineFails(r, "Enter", "NextID"); len(bad) != 0 {
		t.Errorf("defer / go of a method of an atomic field must be atomic accesses, fails on %v", bad)
	}
	for _, x := range r {
		if x.fn == "Enter" && x.loc == "ids.seq" && !x.atomic {
			t.Errorf("Enter: non-atomic access of ids.seq recorded: %+v", x)
		}
	}
	if !has("NextID", "ids.seq", true, true, "", "") {
		t.Errorf("w.ids.next() must be an atomic write of ids.seq")
	}
	for _, x := range r {
		if x.fn == "Offer" && x.loc == "lanes" && x.write {
			t.Errorf("offer(ln, …) only sends on ln.ch: not a write of lanes")
		}
	}
}

// battery 3: TryLock / TryRLock guard idioms, and look-alikes that must NOT count as held
const lockSrc4 = `package p

import "sync"

type memo struct {
	guard sync.Mutex
	val   int
}

func (m *memo) get() (int, bool) {
	if !m.guard.TryLock() {
		return 0, false
	}
	v := m.val
	m.guard.Unlock()
	return v, true
}
func (m *memo) put(v int) {
	if !m.guard.TryLock() {
		return
	}
	m.val = v
	m.guard.Unlock()
}

type X struct {
	g    sync.RWMutex
	n    int
	memo memo
}

// (a) if !x.TryLock() { terminating branch }
func (x *X) SetGuard() {
	if !x.g.TryLock() {
		return
	}
	x.n = 1
	x.g.Unlock()
}
func (x *X) SetGuardLoop(items []int) {
	for _, it := range items {
		if !x.g.TryLock() {
			continue
		}
		x.n = it
		x.g.Unlock()
	}
}
func (x *X) GetGuardR() int {
	if !x.g.TryRLock() {
		return -1
	}
	defer x.g.RUnlock()
	return x.n
}

// (b) if x.TryLock() { … }
func (x *X) SetThenDefer() {
	if x.g.TryLock() {
		defer x.g.Unlock()
		x.n = 2
	}
}
func (x *X) SetThenExplicit() {
	if x.g.TryLock() {
		x.n = 3
		x.g.Unlock()
	}
}

// (c) through a bool that is assigned once
func (x *X) SetBoolNeg() {
	ok := x.g.TryLock()
	if !ok {
		return
	}
	x.n = 4
	x.g.Unlock()
}
func (x *X) SetBoolPos() {
	ok := x.g.TryLock()
	if ok {
		x.n = 5
		x.g.Unlock()
	}
}

// the memo of rewrite 12: a nested struct with its own guard
func (x *X) MemoGet() (int, bool) { return x.memo.get() }
func (x *X) MemoPut(v int)        { x.memo.put(v) }

// look-alikes: none of these holds the lock at the write
func (x *X) BadIgnored() {
	x.g.TryLock()
	x.n = 10
}
func (x *X) BadAfterBranch() {
	if x.g.TryLock() {
	}
	x.n = 11
}
func (x *X) BadFallsThrough() {
	if !x.g.TryLock() {
		println("busy")
	}
	x.n = 12
}
func (x *X) BadReassigned() {
	ok := x.g.TryLock()
	ok = true
	if ok {
		x.n = 13
	}
}
func (x *X) BadCompound(c bool) {
	if !x.g.TryLock() && c {
		return
	}
	x.n = 14
}
func (x *X) BadReadTry() {
	if !x.g.TryRLock() {
		return
	}
	x.n = 15 // a write under the read side
	x.g.RUnlock()
}
`

func TestTryLockShapes(t *testing.T) {
	r := runLocksSrc(t, lockSrc4, "X")
	good := []string{"SetGuard", "SetGuardLoop", "SetThenDefer", "SetThenExplicit", "SetBoolNeg", "SetBoolPos"}
	for _, fn := range good {
		if bad := disciplineFails(r, fn, "GetGuardR"); len(bad) != 0 {
			t.Errorf("%s with GetGuardR is race free but fails on %v", fn, bad)
		}
		ok := false
		for _, x := range r {
			if x.fn == fn && x.loc == "n" && x.write && x.held["g"] == "Ex" {
				ok = true
			}
			if x.fn == fn && x.loc == "n" && x.write && x.held["g"] != "Ex" {
				t.Errorf("%s: a write of n without g:Ex recorded: %+v", fn, x)
			}
		}
		if !ok {
			t.Errorf("%s: the write of n must be held g:Ex", fn)
		}
	}
	if bad := disciplineFails(r, "MemoGet", "MemoPut"); len(bad) != 0 {
		t.Errorf("memo with its own TryLock guard fails on %v", bad)
	}
	found := false
	for _, x := range r {
		if x.fn == "MemoPut" && x.loc == "memo.val" && x.write && x.held["memo.guard"] == "Ex" {
			found = true
		}
	}
	if !found {
		t.Errorf("m.val = v after the guard idiom must be a write of memo.val held memo.guard:Ex")
	}
	for _, fn := range []string{"BadIgnored", "BadAfterBranch", "BadFallsThrough", "BadReassigned", "BadCompound", "BadReadTry"} {
		if bad := disciplineFails(r, fn, "GetGuardR"); len(bad) == 0 {
			t.Errorf("%s does not hold the lock at its write but the discipline passes", fn)
		}
		for _, x := range r {
			if x.fn == fn && x.loc == "n" && x.write && x.held["g"] == "Ex" {
				t.Errorf("%s: the lock must NOT count as held: %+v", fn, x)
			}
		}
	}
}

// B6: the struct type may live in another file than the one named
func TestTypeInOtherFile(t *testing.T) {
	dir := t.TempDir()
	os.MkdirAll(filepath.Join(dir, "p"), 0o755)
	os.WriteFile(filepath.Join(dir, "p", "x.go"), []byte("package p\nfunc (t *T) Get() int { return t.n }\n"), 0o644)
	os.WriteFile(filepath.Join(dir, "p", "types.go"), []byte("package p\ntype T struct{ n int }\n"), 0o644)
	out := filepath.Join(dir, "out.txt")
	f, _ := os.Create(out)
	saved := os.Stdout
	os.Stdout = f
	err := cmdLocks(dir, "p/x.go", "T", "-")
	os.Stdout = saved
	f.Close()
	if err != nil {
		t.Fatal(err)
	}
	b, _ := os.ReadFile(out)
	if !strings.Contains(string(b), `mkAcc "Get" "n" false false [] false`) {
		t.Errorf("type declared in another file: %s", b)
	}
}

const launchFixed = `package daemon
func launch(name string) {
	interrupt := make(chan os.Signal, 1)
	signal.Notify(interrupt, os.Interrupt)
	defer signal.Stop(interrupt)
	cmd := exec.Command(os.Args[0])
	if err := cmd.Start(); err != nil {
		os.Stderr.Write([]byte("start daemon: " + err.Error()))
		return
	} else {
		binary.Write(os.Stdout, binary.LittleEndian, uint32(cmd.Process.Pid))
	}
	verifPause("launch.afterStart")
	finished := make(chan struct{})
	go func() {
		if err := cmd.Wait(); err != nil {
			os.Stderr.Write([]byte("daemon: " + err.Error()))
		}
		close(finished)
	}()
	select {
	case <-finished:
	case <-interrupt:
	}
}

func Done() (err error) {
	var p *os.Process
	if p, err = os.FindProcess(os.Getppid()); err == nil {
		if err = p.Signal(os.Interrupt); err == nil {
			return nil
		}
	}
	return err
}
`

// readingOf: the "reading:" verdict of the launch extractor for a source
func readingOf(t *testing.T, src string) string {
	t.Helper()
	dir := t.TempDir()
	os.MkdirAll(filepath.Join(dir, "daemon"), 0o755)
	os.WriteFile(filepath.Join(dir, "daemon", "daemon.go"), []byte(src), 0o644)
	out := filepath.Join(dir, "out.txt")
	f, _ := os.Create(out)
	saved := os.Stdout
	os.Stdout = f
	err := cmdLaunch(dir)
	os.Stdout = saved
	f.Close()
	if err != nil {
		t.Fatal(err)
	}
	b, _ := os.ReadFile(out)
	for _, l := range strings.Split(string(b), "\n") {
		if strings.HasPrefix(l, "(* reading: ") {
			return strings.TrimSuffix(strings.TrimPrefix(l, "(* reading: "), " *)")
		}
	}
	return "?"
}

func TestLaunchReading(t *testing.T) {
	if r := readingOf(t, launchFixed); r != "complete" {
		t.Errorf("fixed order: reading %q", r)
	}
	for name, src := range map[string]string{
		"start before notify": strings.Replace(strings.Replace(launchFixed, "\tinterrupt := make(chan os.Signal, 1)\n\tsignal.Notify(interrupt, os.Interrupt)\n\tdefer signal.Stop(interrupt)\n", "", 1),
			"\tselect {", "\tinterrupt := make(chan os.Signal, 1)\n\tsignal.Notify(interrupt, os.Interrupt)\n\tdefer signal.Stop(interrupt)\n\tselect {", 1),
		"unbuffered":         strings.Replace(launchFixed, "make(chan os.Signal, 1)", "make(chan os.Signal)", 1),
		"timer":              strings.Replace(launchFixed, "\tcase <-interrupt:\n", "\tcase <-interrupt:\n\tcase <-time.After(time.Second):\n", 1),
		"timer var":          strings.Replace(strings.Replace(launchFixed, "\tselect {", "\tgrace := time.NewTimer(3 * time.Second)\n\tselect {", 1), "\tcase <-interrupt:\n", "\tcase <-interrupt:\n\tcase <-grace.C:\n", 1),
		"default":            strings.Replace(launchFixed, "\tcase <-interrupt:\n", "\tcase <-interrupt:\n\tdefault:\n", 1),
		"stop before select": strings.Replace(launchFixed, "\tdefer signal.Stop(interrupt)\n", "\tsignal.Stop(interrupt)\n", 1),
		"signal mismatch":    strings.Replace(launchFixed, "p.Signal(os.Interrupt)", "p.Signal(syscall.SIGTERM)", 1),
		"uncatchable":        strings.Replace(strings.Replace(launchFixed, "p.Signal(os.Interrupt)", "p.Signal(os.Kill)", 1), "signal.Notify(interrupt, os.Interrupt)", "signal.Notify(interrupt, os.Kill)", 1),
		"no waiter at all":   strings.Replace(launchFixed, "\tgo func() {\n\t\tif err := cmd.Wait(); err != nil {\n\t\t\tos.Stderr.Write([]byte(\"daemon: \" + err.Error()))\n\t\t}\n\t\tclose(finished)\n\t}()\n", "", 1),
	} {
		if r := readingOf(t, src); !strings.HasPrefix(r, "wrong: ") {
			t.Errorf("%s: must be read as wrong, got %q", name, r)
		}
	}
	// any catchable signal, used consistently (battery 4, rewrite 11)
	usr1 := strings.Replace(strings.Replace(launchFixed, "p.Signal(os.Interrupt)", "p.Signal(handshake)", 1), "signal.Notify(interrupt, os.Interrupt)", "signal.Notify(interrupt, handshake)", 1) +
		"\nconst handshake = syscall.SIGUSR1\n"
	if r := readingOf(t, usr1); r != "complete" {
		t.Errorf("SIGUSR1 used consistently: reading %q", r)
	}
	if got := runLaunch(t, usr1); got != "[ANotify; AStart; AWritePid; ASpawnWait; ASelect]" {
		t.Errorf("SIGUSR1 used consistently: %s", got)
	}
	// unreadable shapes: incomplete, not wrong
	for name, src := range map[string]string{
		"os.StartProcess":      strings.Replace(launchFixed, "cmd.Start()", "startWith(os.StartProcess)", 1),
		"select on a call":     strings.Replace(launchFixed, "\tcase <-finished:\n", "\tcase <-watch(cmd):\n", 1),
		"unknown call":         strings.Replace(launchFixed, "\tverifPause(", "\tprepare()\n\tverifPause(", 1),
		"NotifyContext parent": strings.Replace(launchFixed, "\tsignal.Notify(interrupt, os.Interrupt)\n", "\tover, stop := signal.NotifyContext(parentCtx, os.Interrupt)\n\t_, _ = over, stop\n", 1),
	} {
		if r := readingOf(t, src); r != "incomplete" {
			t.Errorf("%s: must be read as incomplete, got %q", name, r)
		}
	}
}

func runLaunch(t *testing.T, src string) string {
	t.Helper()
	dir := t.TempDir()
	os.MkdirAll(filepath.Join(dir, "daemon"), 0o755)
	os.WriteFile(filepath.Join(dir, "daemon", "daemon.go"), []byte(src), 0o644)
	out := filepath.Join(dir, "out.txt")
	f, _ := os.Create(out)
	saved := os.Stdout
	os.Stdout = f
	err := cmdLaunch(dir)
	os.Stdout = saved
	f.Close()
	if err != nil {
		t.Fatal(err)
	}
	b, _ := os.ReadFile(out)
	lines := strings.Split(strings.TrimSpace(string(b)), "\n")
	return lines[len(lines)-1]
}

func TestLaunchDoneInOtherFile(t *testing.T) {
	dir := t.TempDir()
	os.MkdirAll(filepath.Join(dir, "daemon"), 0o755)
	i := strings.Index(launchFixed, "func Done()")
	os.WriteFile(filepath.Join(dir, "daemon", "daemon.go"), []byte(launchFixed[:i]), 0o644)
	os.WriteFile(filepath.Join(dir, "daemon", "done.go"), []byte("package daemon\n"+launchFixed[i:]), 0o644)
	out := filepath.Join(dir, "out.txt")
	f, _ := os.Create(out)
	saved := os.Stdout
	os.Stdout = f
	err := cmdLaunch(dir)
	os.Stdout = saved
	f.Close()
	if err != nil {
		t.Fatal(err)
	}
	b, _ := os.ReadFile(out)
	if !strings.Contains(string(b), "[ANotify; AStart; AWritePid; ASpawnWait; ASelect]") || !strings.Contains(string(b), "hook launch.afterStart: present") {
		t.Errorf("Done in another file: %s", b)
	}
}

func TestLaunch(t *testing.T) {
	if got := runLaunch(t, launchFixed); got != "[ANotify; AStart; AWritePid; ASpawnWait; ASelect]" {
		t.Errorf("fixed order: %s", got)
	}
	pinned := strings.Replace(launchFixed, "\tinterrupt := make(chan os.Signal, 1)\n\tsignal.Notify(interrupt, os.Interrupt)\n\tdefer signal.Stop(interrupt)\n", "", 1)
	pinned = strings.Replace(pinned, "\tselect {", "\tinterrupt := make(chan os.Signal, 1)\n\tsignal.Notify(interrupt, os.Interrupt)\n\tdefer signal.Stop(interrupt)\n\tselect {", 1)
	if got := runLaunch(t, pinned); got != "[AStart; AWritePid; ASpawnWait; ANotify; ASelect]" {
		t.Errorf("pinned order: %s", got)
	}
	noSelect := strings.Replace(launchFixed, "\tcase <-interrupt:\n", "", 1)
	if got := runLaunch(t, noSelect); !strings.Contains(got, "AUnknown") || strings.Contains(got, "ASelect]") {
		t.Errorf("select without the signal channel must be unknown: %s", got)
	}
	// seeded C20a: unbuffered Notify channel
	unbuf := strings.Replace(launchFixed, "make(chan os.Signal, 1)", "make(chan os.Signal)", 1)
	if got := runLaunch(t, unbuf); got != "[ANotifyUnbuffered; AStart; AWritePid; ASpawnWait; ASelect]" {
		t.Errorf("unbuffered: %s", got)
	}
	// seeded C20d / grace timers: a select case on anything but the two channels
	for _, c := range []string{"\tcase <-time.After(100 * time.Millisecond):\n", "\tcase <-grace.C:\n", "\tdefault:\n"} {
		timer := strings.Replace(launchFixed, "\tcase <-interrupt:\n", "\tcase <-interrupt:\n"+c, 1)
		if got := runLaunch(t, timer); !strings.Contains(got, "select case") || strings.Contains(strings.ReplaceAll(got, "missing ASelect", ""), "ASelect") {
			t.Errorf("select with %q must be unknown: %s", c, got)
		}
	}
	// Done() sending another signal than Notify listens for
	term := strings.Replace(launchFixed, "p.Signal(os.Interrupt)", "p.Signal(syscall.SIGTERM)", 1)
	if got := runLaunch(t, term); !strings.Contains(got, "AUnknown") {
		t.Errorf("Done with SIGTERM must be unknown: %s", got)
	}
	sigint := strings.Replace(launchFixed, "p.Signal(os.Interrupt)", "p.Signal(syscall.SIGINT)", 1)
	if got := runLaunch(t, sigint); got != "[ANotify; AStart; AWritePid; ASpawnWait; ASelect]" {
		t.Errorf("syscall.SIGINT is os.Interrupt: %s", got)
	}
	other := strings.Replace(launchFixed, "signal.Notify(interrupt, os.Interrupt)", "signal.Notify(interrupt, syscall.SIGHUP)", 1)
	if got := runLaunch(t, other); !strings.Contains(got, "listens for") {
		t.Errorf("Notify for another signal must be unknown: %s", got)
	}
	// a non-deferred signal.Stop before the select
	stop := strings.Replace(launchFixed, "\tdefer signal.Stop(interrupt)\n", "\tsignal.Stop(interrupt)\n", 1)
	if got := runLaunch(t, stop); !strings.Contains(got, `AUnknown "WRONG: signal.Stop before`) {
		t.Errorf("non-deferred signal.Stop must be unknown: %s", got)
	}
	// harmless: pid written after the select
	late := strings.Replace(launchFixed, "\t} else {\n\t\tbinary.Write(os.Stdout, binary.LittleEndian, uint32(cmd.Process.Pid))\n\t}\n", "\t}\n", 1)
	late = strings.Replace(late, "\tcase <-interrupt:\n\t}\n}", "\tcase <-interrupt:\n\t}\n\tbinary.Write(os.Stdout, binary.LittleEndian, uint32(cmd.Process.Pid))\n}", 1)
	if got := runLaunch(t, late); got != "[ANotify; AStart; ASpawnWait; ASelect; AWritePid]" {
		t.Errorf("late WritePid: %s", got)
	}
	// harmless-rewrite battery (review_rf_util d2-d7)
	// d2/d7: chan error waiter, stderr written in the select arm, pid via PutUint32 + os.Stdout.Write, fmt to stderr
	d2 := `package daemon
var launches atomic.Int64
func launch(name string) {
	sigCh := make(chan os.Signal, 1)
	signal.Notify(sigCh, syscall.SIGINT)
	defer signal.Stop(sigCh)
	launches.Add(1)
	cmd := exec.Command(os.Args[0])
	cmd.Env = roleEnv(name, "isDaemon")
	err := cmd.Start()
	if err != nil {
		fmt.Fprint(os.Stderr, "start daemon: "+err.Error())
		return
	}
	var pid [4]byte
	binary.LittleEndian.PutUint32(pid[:], uint32(cmd.Process.Pid))
	os.Stdout.Write(pid[:])
	verifPause("launch.afterStart")
	exited := make(chan error, 1)
	go func() { exited <- cmd.Wait() }()
	select {
	case err := <-exited:
		if err != nil {
			fmt.Fprint(os.Stderr, "daemon: "+err.Error())
		}
	case <-sigCh:
	}
}
func roleEnv(name, role string) []string { return append(os.Environ(), "A="+name, "B="+role) }
func Done() error {
	p, err := os.FindProcess(os.Getppid())
	if err != nil {
		return err
	}
	return p.Signal(os.Interrupt)
}
`
	if got := runLaunch(t, d2); got != "[ANotify; AStart; AWritePid; ASpawnWait; ASelect]" {
		t.Errorf("d2 shape: %s", got)
	}
	// d3: helpers startDaemon / awaitDone inlined (the Notify channel travels as a parameter)
	d3 := `package daemon
func startDaemon(name string) (*exec.Cmd, error) {
	cmd := exec.Command(os.Args[0])
	if err := cmd.Start(); err != nil {
		return nil, err
	}
	return cmd, nil
}
func awaitDone(cmd *exec.Cmd, intr <-chan os.Signal) {
	finished := make(chan struct{})
	go func() {
		if err := cmd.Wait(); err != nil {
			os.Stderr.Write([]byte("daemon: " + err.Error()))
		}
		close(finished)
	}()
	select {
	case <-finished:
	case <-intr:
	}
}
func launch(name string) {
	interrupt := make(chan os.Signal, 1)
	signal.Notify(interrupt, os.Interrupt)
	defer signal.Stop(interrupt)
	cmd, err := startDaemon(name)
	if err != nil {
		os.Stderr.Write([]byte("start daemon: " + err.Error()))
		return
	}
	binary.Write(os.Stdout, binary.LittleEndian, uint32(cmd.Process.Pid))
	verifPause("launch.afterStart")
	awaitDone(cmd, interrupt)
}
func Done() error { p, _ := os.FindProcess(os.Getppid()); return p.Signal(os.Interrupt) }
`
	if got := runLaunch(t, d3); got != "[ANotify; AStart; AWritePid; ASpawnWait; ASelect]" {
		t.Errorf("d3 shape: %s", got)
	}
	// still alarms: a helper that touches os/exec in an unknown way, a timer in an inlined helper, cmd.Stderr set
	for _, m := range []struct{ old, new, want string }{
		{"\tawaitDone(cmd, interrupt)\n", "\tcmd.Process.Kill()\n\tawaitDone(cmd, interrupt)\n", `AUnknown "call cmd.Process.Kill`},
		{"\tcase <-intr:\n", "\tcase <-intr:\n\tcase <-time.After(time.Second):\n", `select case on a timer <-time.After()`},
		{"\tif err := cmd.Start(); err != nil {\n\t\treturn nil, err", "\tcmd.Stderr = os.Stderr\n\tif err := cmd.Start(); err != nil {\n\t\treturn nil, err", `AUnknown "field Stderr`},
	} {
		if got := runLaunch(t, strings.Replace(d3, m.old, m.new, 1)); !strings.Contains(got, m.want) {
			t.Errorf("expected %s in %s", m.want, got)
		}
	}
	// battery 2 (review_rf2_util 14-22)
	// k=15: the steps as methods of a small struct; k=16/21: named waiter; k=17: parent() helper; k=18: constant capacity;
	// k=19: one package-level signal variable for Notify and Done; k=22: the channel returned by a helper
	b15 := `package daemon
type launcher struct {
	cmd       *exec.Cmd
	interrupt chan os.Signal
	finished  chan struct{}
}
const backlog = 1
var handshake os.Signal = os.Interrupt
func newLauncher(name string) *launcher {
	return &launcher{interrupt: make(chan os.Signal, backlog), finished: make(chan struct{})}
}
func (l *launcher) run() {
	l.listen()
	defer l.unlisten()
	if err := l.start(); err != nil {
		os.Stderr.Write([]byte(err.Error()))
		return
	}
	l.reportPid()
	verifPause("launch.afterStart")
	go l.watch()
	l.wait()
}
func (l *launcher) listen()   { signal.Notify(l.interrupt, handshake) }
func (l *launcher) unlisten() { signal.Stop(l.interrupt) }
func (l *launcher) start() error {
	l.cmd = exec.Command(os.Args[0])
	return l.cmd.Start()
}
func (l *launcher) reportPid() { binary.Write(os.Stdout, binary.LittleEndian, uint32(l.cmd.Process.Pid)) }
func (l *launcher) watch() {
	defer close(l.finished)
	l.cmd.Wait()
}
func (l *launcher) wait() {
	select {
	case <-l.finished:
	case <-l.interrupt:
	}
}
func launch(name string) { newLauncher(name).run() }
func parent() (*os.Process, error) { return os.FindProcess(os.Getppid()) }
func Done() error {
	p, err := parent()
	if err != nil {
		return err
	}
	return p.Signal(handshake)
}
`
	if got := runLaunch(t, b15); got != "[ANotify; AStart; AWritePid; ASpawnWait; ASelect]" {
		t.Errorf("methods of a launcher struct: %s", got)
	}
	// ill-ordered counterpart: listen() after start()
	ill := strings.Replace(strings.Replace(b15, "\tl.listen()\n\tdefer l.unlisten()\n", "", 1), "\tl.reportPid()\n", "\tl.listen()\n\tdefer l.unlisten()\n\tl.reportPid()\n", 1)
	if got := runLaunch(t, ill); got != "[AStart; ANotify; AWritePid; ASpawnWait; ASelect]" {
		t.Errorf("listen after start must be extracted in that order: %s", got)
	}
	for _, m := range []struct{ old, new, want string }{
		{"const backlog = 1", "const backlog = 0", "ANotifyUnbuffered"},
		{"p.Signal(handshake)", "p.Signal(other)", "AUnknown"},
		{"\tl.cmd.Wait()\n", "", `AUnknown "go l.watch`},
		{"\tcase <-l.interrupt:\n", "\tcase <-l.interrupt:\n\tcase <-l.timer.C:\n", `AUnknown "select case`},
	} {
		if got := runLaunch(t, strings.Replace(b15, m.old, m.new, 1)); !strings.Contains(got, m.want) {
			t.Errorf("expected %s in %s", m.want, got)
		}
	}
	b16 := `package daemon
func subscribe() chan os.Signal {
	ch := make(chan os.Signal, 1)
	signal.Notify(ch, os.Interrupt)
	return ch
}
func announce(pid int) {
	var rec [4]byte
	binary.LittleEndian.PutUint32(rec[:], uint32(pid))
	os.Stdout.Write(rec[:])
}
func waitDaemon(cmd *exec.Cmd, finished chan<- struct{}) {
	if err := cmd.Wait(); err != nil {
		fmt.Fprint(os.Stderr, "daemon: "+err.Error())
	}
	close(finished)
}
func launch(name string) {
	interrupt := subscribe()
	defer signal.Stop(interrupt)
	cmd := exec.Command(os.Args[0])
	if err := cmd.Start(); err != nil {
		return
	}
	announce(cmd.Process.Pid)
	verifPause("launch.afterStart")
	finished := make(chan struct{})
	go func() { waitDaemon(cmd, finished) }()
	select {
	case <-interrupt:
	case <-finished:
	}
}
func Done() error { p, _ := os.FindProcess(os.Getppid()); return p.Signal(os.Interrupt) }
`
	if got := runLaunch(t, b16); got != "[ANotify; AStart; AWritePid; ASpawnWait; ASelect]" {
		t.Errorf("returned channel + named waiter: %s", got)
	}
	if got := runLaunch(t, strings.Replace(b16, "go func() { waitDaemon(cmd, finished) }()", "go waitDaemon(cmd, finished)", 1)); got != "[ANotify; AStart; AWritePid; ASpawnWait; ASelect]" {
		t.Errorf("go waitDaemon(cmd, finished): %s", got)
	}
	if got := runLaunch(t, strings.Replace(b16, "\tcase <-interrupt:\n", "\tcase <-other:\n", 1)); !strings.Contains(got, "AUnknown") {
		t.Errorf("select on another channel than the one subscribe() returned: %s", got)
	}
	// k=14: signal.NotifyContext + <-ctx.Done()
	b14 := strings.Replace(strings.Replace(strings.Replace(launchFixed,
		"\tinterrupt := make(chan os.Signal, 1)\n\tsignal.Notify(interrupt, os.Interrupt)\n\tdefer signal.Stop(interrupt)\n",
		"\tctx, stop := signal.NotifyContext(context.Background(), os.Interrupt)\n\tdefer stop()\n", 1),
		"\tcase <-interrupt:\n", "\tcase <-ctx.Done():\n", 1), "XX", "", 1)
	if got := runLaunch(t, b14); got != "[ANotify; AStart; AWritePid; ASpawnWait; ASelect]" {
		t.Errorf("NotifyContext: %s", got)
	}
	if got := runLaunch(t, strings.Replace(b14, "context.Background()", "timeoutCtx", 1)); !strings.Contains(got, "AUnknown") {
		t.Errorf("NotifyContext on a context that may end by itself must be unknown: %s", got)
	}
	// battery 3: the waiter looks at *os.ProcessState; the daemon gets a session of its own
	b3 := strings.Replace(launchFixed, "\t\tif err := cmd.Wait(); err != nil {\n\t\t\tos.Stderr.Write([]byte(\"daemon: \" + err.Error()))\n\t\t}\n",
		"\t\tstate, err := cmd.Process.Wait()\n\t\tif err == nil && !state.Success() && state.ExitCode() != 0 {\n\t\t\tos.Stderr.Write([]byte(\"daemon: \" + state.String()))\n\t\t}\n", 1)
	if !strings.Contains(b3, "state.Success()") {
		t.Fatal("fixture not built")
	}
	if got := runLaunch(t, b3); got != "[ANotify; AStart; AWritePid; ASpawnWait; ASelect]" {
		t.Errorf("ProcessState methods in the waiter: %s", got)
	}
	if got := runLaunch(t, strings.Replace(b3, "state.ExitCode() != 0", "cmd.Process.Kill() == nil", 1)); !strings.Contains(got, "AUnknown") {
		t.Errorf("cmd.Process.Kill in the waiter must stay unknown: %s", got)
	}
	for _, m := range []struct {
		attr string
		ok   bool
	}{
		{"&syscall.SysProcAttr{Setsid: true}", true},
		{"&syscall.SysProcAttr{Setpgid: true, Pgid: 0}", true},
		{"&syscall.SysProcAttr{Setsid: true, Pdeathsig: syscall.SIGKILL}", false},
		{"&syscall.SysProcAttr{Foreground: true}", false},
		{"attrs", false},
	} {
		src := strings.Replace(launchFixed, "\tif err := cmd.Start(); err != nil {", "\tcmd.SysProcAttr = "+m.attr+"\n\tif err := cmd.Start(); err != nil {", 1)
		got := runLaunch(t, src)
		if m.ok && got != "[ANotify; AStart; AWritePid; ASpawnWait; ASelect]" {
			t.Errorf("SysProcAttr %s must be accepted: %s", m.attr, got)
		}
		if !m.ok && !strings.Contains(got, `AUnknown "field SysProcAttr`) {
			t.Errorf("SysProcAttr %s must stay unknown: %s", m.attr, got)
		}
	}
	extra := strings.Replace(launchFixed, "\tverifPause(", "\tos.Exit(0)\n\tverifPause(", 1)
	if got := runLaunch(t, extra); !strings.Contains(got, `AUnknown "call os.Exit`) {
		t.Errorf("unrecognised call must be unknown: %s", got)
	}
}
