package main

import (
	"os"
	"path/filepath"
	"strings"
	"testing"
)

const lockSrc = `package p

import (
	"sync"
	"sync/atomic"
)

type T struct {
	mu    sync.RWMutex
	wg    sync.WaitGroup
	ch    chan int
	n     int
	m     map[int]int
	hits  atomic.Uint32
	raw   uint64
	cfg   string
	arr   [4][2]int
}

func NewT() *T {
	t := &T{cfg: "x", m: map[int]int{}}
	t.n = 1
	go t.loop()
	t.n = 2
	return t
}

func (t *T) loop() {
	for {
		t.mu.Lock()
		t.n++
		t.mu.Unlock()
		_ = t.cfg
	}
}

func (t *T) Guarded() int {
	t.mu.RLock()
	defer t.mu.RUnlock()
	return t.n + t.m[1]
}

func (t *T) BranchLock(c bool) {
	if c {
		t.mu.Lock()
	}
	t.n = 3
}

func (t *T) EarlyUnlock(c bool) int {
	t.mu.Lock()
	if c {
		t.mu.Unlock()
		return 0
	}
	v := t.n
	t.mu.Unlock()
	return v + len(t.cfg)
}

func (t *T) LoopUnlock() {
	t.mu.Lock()
	for i := 0; i < 3; i++ {
		t.n = i
		t.mu.Unlock()
	}
}

func (t *T) Atomics() {
	t.hits.Add(1)
	_ = t.hits.Load()
	atomic.AddUint64(&t.raw, 1)
	_ = atomic.LoadUint64(&t.raw)
}

func (t *T) Helper() {
	t.mu.Lock()
	defer t.mu.Unlock()
	t.bump()
}

func (t *T) bump() { delete(t.m, 1); t.n += 1 }

func (t *T) Closures() {
	t.mu.Lock()
	func() { t.n = 4 }()
	go func() { t.n = 5 }()
	t.mu.Unlock()
}

func (t *T) Ptr() {
	t.mu.RLock()
	e := &t.arr[1]
	_ = e[0]
	t.mu.RUnlock()
	use(&t.n)
}

func (t *T) Sync() { t.wg.Wait(); <-t.ch }

func use(*int) {}
`

func runLocks(t *testing.T, src string, args ...string) string {
	t.Helper()
	dir := t.TempDir()
	if err := os.MkdirAll(filepath.Join(dir, "p"), 0o755); err != nil {
		t.Fatal(err)
	}
	if err := os.WriteFile(filepath.Join(dir, "p", "x.go"), []byte(src), 0o644); err != nil {
		t.Fatal(err)
	}
	out := filepath.Join(dir, "out.txt")
	f, err := os.Create(out)
	if err != nil {
		t.Fatal(err)
	}
	saved := os.Stdout
	os.Stdout = f
	err = cmdLocks(dir, "p/x.go", args[0], args[1])
	os.Stdout = saved
	f.Close()
	if err != nil {
		t.Fatal(err)
	}
	b, _ := os.ReadFile(out)
	return string(b)
}

func TestLocks(t *testing.T) {
	out := runLocks(t, lockSrc, "T", "mu")
	want := []string{
		// constructor: before and after publication by `go`
		`mkAcc "NewT" "cfg" true false [] true`,
		`mkAcc "NewT" "n" true false [] true`,
		`mkAcc "NewT" "n" true false [] false`,
		// lock / unlock inside the loop body
		`mkAcc "loop" "n" true false [("mu", Ex)] false`,
		`mkAcc "loop" "cfg" false false [] false`,
		// defer RUnlock keeps the lock to the end
		`mkAcc "Guarded" "n" false false [("mu", Sh)] false`,
		`mkAcc "Guarded" "m" false false [("mu", Sh)] false`,
		// a lock taken in one branch only does not count afterwards
		`mkAcc "BranchLock" "n" true false [] false`,
		// unlock + return inside a branch does not flow on; after the final Unlock nothing is held
		`mkAcc "EarlyUnlock" "n" false false [("mu", Ex)] false`,
		`mkAcc "EarlyUnlock" "cfg" false false [] false`,
		// the loop head is reached with the lock released by the previous iteration
		`mkAcc "LoopUnlock" "n" true false [] false`,
		// atomics
		`mkAcc "Atomics" "hits" true true [] false`,
		`mkAcc "Atomics" "hits" false true [] false`,
		`mkAcc "Atomics" "raw" true true [] false`,
		`mkAcc "Atomics" "raw" false true [] false`,
		// inlined helper carries the caller's lock; on its own it has none
		`mkAcc "Helper" "m" true false [("mu", Ex)] false`,
		`mkAcc "Helper" "n" true false [("mu", Ex)] false`,
		`mkAcc "bump" "n" true false [] false`,
		// closure called on the spot vs goroutine
		`mkAcc "Closures" "n" true false [("mu", Ex)] false`,
		`mkAcc "Closures" "n" true false [] false`,
		// local pointer followed; address handed to other code is not
		`mkAcc "Ptr" "arr" false false [("mu", Sh)] false`,
		`mkAcc "Ptr" "n" true false [] false`,
		`spawned: loop`,
	}
	for _, w := range want {
		if !strings.Contains(out, w) {
			t.Errorf("missing %q in\n%s", w, out)
		}
	}
	for _, bad := range []string{`"wg"`, `"ch"`, `mkAcc "LoopUnlock" "n" true false [("mu", Ex)]`, `mkAcc "Ptr" "arr" true`} {
		if strings.Contains(out, "mkAcc") && strings.Contains(out, bad) && !strings.Contains(bad, "skipped") {
			// wg / ch appear in the header's skipped list only
			for _, line := range strings.Split(out, "\n") {
				if strings.Contains(line, "mkAcc") && strings.Contains(line, bad) {
					t.Errorf("unexpected %q: %s", bad, line)
				}
			}
		}
	}
}

const launchFixed = `package daemon
func launch(name string) {
	interrupt := make(chan os.Signal, 1)
	signal.Notify(interrupt, os.Interrupt)
	defer signal.Stop(interrupt)
	cmd := exec.Command(os.Args[0])
	if err := cmd.Start(); err != nil {
		os.Stderr.Write([]byte("start daemon: " + err.Error()))
		return
	} else {
		binary.Write(os.Stdout, binary.LittleEndian, uint32(cmd.Process.Pid))
	}
	verifPause("launch.afterStart")
	finished := make(chan struct{})
	go func() {
		if err := cmd.Wait(); err != nil {
			os.Stderr.Write([]byte("daemon: " + err.Error()))
		}
		close(finished)
	}()
	select {
	case <-finished:
	case <-interrupt:
	}
}
`

func runLaunch(t *testing.T, src string) string {
	t.Helper()
	dir := t.TempDir()
	os.MkdirAll(filepath.Join(dir, "daemon"), 0o755)
	os.WriteFile(filepath.Join(dir, "daemon", "daemon.go"), []byte(src), 0o644)
	out := filepath.Join(dir, "out.txt")
	f, _ := os.Create(out)
	saved := os.Stdout
	os.Stdout = f
	err := cmdLaunch(dir)
	os.Stdout = saved
	f.Close()
	if err != nil {
		t.Fatal(err)
	}
	b, _ := os.ReadFile(out)
	lines := strings.Split(strings.TrimSpace(string(b)), "\n")
	return lines[len(lines)-1]
}

func TestLaunch(t *testing.T) {
	if got := runLaunch(t, launchFixed); got != "[ANotify; AStart; AWritePid; ASpawnWait; ASelect]" {
		t.Errorf("fixed order: %s", got)
	}
	pinned := strings.Replace(launchFixed, "\tinterrupt := make(chan os.Signal, 1)\n\tsignal.Notify(interrupt, os.Interrupt)\n\tdefer signal.Stop(interrupt)\n", "", 1)
	pinned = strings.Replace(pinned, "\tselect {", "\tinterrupt := make(chan os.Signal, 1)\n\tsignal.Notify(interrupt, os.Interrupt)\n\tdefer signal.Stop(interrupt)\n\tselect {", 1)
	if got := runLaunch(t, pinned); got != "[AStart; AWritePid; ASpawnWait; ANotify; ASelect]" {
		t.Errorf("pinned order: %s", got)
	}
	noSelect := strings.Replace(launchFixed, "\tcase <-interrupt:\n", "", 1)
	if got := runLaunch(t, noSelect); !strings.Contains(got, "AUnknown") || strings.Contains(got, "ASelect]") {
		t.Errorf("select without the signal channel must be unknown: %s", got)
	}
	extra := strings.Replace(launchFixed, "\tverifPause(", "\tos.Exit(0)\n\tverifPause(", 1)
	if got := runLaunch(t, extra); !strings.Contains(got, `AUnknown "call os.Exit`) {
		t.Errorf("unrecognised call must be unknown: %s", got)
	}
}
