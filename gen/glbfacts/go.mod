module glbfacts

go 1.23
