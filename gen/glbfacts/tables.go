package main

import (
	"fmt"
	"go/ast"
	"go/constant"
	"go/parser"
	"go/token"
	"os"
	"path/filepath"
	"sort"
	"strconv"
	"strings"
)

// ---------------------------------------------------------------------------------------------
// tables: the DATA of the code under verification -- constant tables and literals -- printed as a
// Coq source fragment (one `Definition <name>_src : <type> := <value>.` per line; types are only
// N, bool, list N, list bool, list (list N), list (list N * list N); strings are byte lists).
// lib/tables.py puts the definitions into a generated .v and has Coq prove that they are exactly
// what the executable models assume.
//
// Only go/ast + go/constant: constant expressions are evaluated here (integer / char / string
// literals incl. raw strings, + - * / % & | ^ &^ << >>, unary + - ^, parentheses, iota incl. the
// implicit repetition of the previous ConstSpec, conversions T(x) to integer types / string-free
// named types, len("..."), constants of the same package, constants of other packages of the
// module (e.g. ansi.RedFG: the package directory is parsed on demand)).  No go/types.
//
// Constants of the standard library cannot be read from the tree under verification; the few that
// occur are HARD-CODED below (stdConsts): the net/http method names, unicode/utf8, time.Duration
// units.  They are part of the trusted base of the extractor (they have been stable since Go 1.0).
//
// Whatever is missing or has an unexpected shape is printed as
//
//	(* MISSING <name>: <why> *)
//	Definition <name> : <type> := <empty / impossible value>.
//
// so that the obligation on the Coq side FAILS; there is never a silent default.
// ---------------------------------------------------------------------------------------------

// net/http, unicode/utf8, time: hard-coded (see above).
var stdConsts = map[string]map[string]constant.Value{
	"net/http": {
		"MethodGet":     constant.MakeString("GET"),
		"MethodHead":    constant.MakeString("HEAD"),
		"MethodPost":    constant.MakeString("POST"),
		"MethodPut":     constant.MakeString("PUT"),
		"MethodPatch":   constant.MakeString("PATCH"),
		"MethodDelete":  constant.MakeString("DELETE"),
		"MethodConnect": constant.MakeString("CONNECT"),
		"MethodOptions": constant.MakeString("OPTIONS"),
		"MethodTrace":   constant.MakeString("TRACE"),
	},
	"unicode/utf8": {
		"RuneSelf":  constant.MakeInt64(0x80),
		"UTFMax":    constant.MakeInt64(4),
		"RuneError": constant.MakeInt64(0xFFFD),
		"MaxRune":   constant.MakeInt64(0x10FFFF),
	},
	"time": {
		"Nanosecond":  constant.MakeInt64(1),
		"Microsecond": constant.MakeInt64(1000),
		"Millisecond": constant.MakeInt64(1000 * 1000),
		"Second":      constant.MakeInt64(1000 * 1000 * 1000),
		"Minute":      constant.MakeInt64(60 * 1000 * 1000 * 1000),
		"Hour":        constant.MakeInt64(3600 * 1000 * 1000 * 1000),
	},
}

// type names whose conversion T(x) of a constant keeps the constant's value
var intTypeNames = map[string]bool{
	"int": true, "int8": true, "int16": true, "int32": true, "int64": true,
	"uint": true, "uint8": true, "uint16": true, "uint32": true, "uint64": true, "uintptr": true,
	"byte": true, "rune": true,
	"slog.Level": true, "time.Duration": true,
}

const modulePath = "github.com/whoisnian/glb"

type constDef struct {
	expr ast.Expr
	iota int64
	file *ast.File
}

type tpkg struct {
	dir    string
	files  map[string]*ast.File // base name -> file
	consts map[string]*constDef
	vars   map[string]ast.Expr // package-level `var x = <expr>` (single name, single value)
	vfile  map[string]*ast.File
	funcs  map[string]*ast.FuncDecl // plain functions and methods by bare name (methods: "Recv.Name" too)
	busy   map[string]bool
}

type tabCtx struct {
	repo string
	fset *token.FileSet
	pkgs map[string]*tpkg // relative dir -> package
	out  strings.Builder
}

func (c *tabCtx) load(rel string) (*tpkg, error) {
	if p, ok := c.pkgs[rel]; ok {
		return p, nil
	}
	dir := filepath.Join(c.repo, rel)
	ents, err := os.ReadDir(dir)
	if err != nil {
		return nil, err
	}
	p := &tpkg{dir: rel, files: map[string]*ast.File{}, consts: map[string]*constDef{}, vars: map[string]ast.Expr{},
		vfile: map[string]*ast.File{}, funcs: map[string]*ast.FuncDecl{}, busy: map[string]bool{}}
	var names []string
	for _, e := range ents {
		n := e.Name()
		if e.IsDir() || !strings.HasSuffix(n, ".go") || strings.HasSuffix(n, "_test.go") {
			continue
		}
		names = append(names, n)
	}
	sort.Strings(names)
	for _, n := range names {
		f, err := parser.ParseFile(c.fset, filepath.Join(dir, n), nil, parser.SkipObjectResolution)
		if err != nil {
			return nil, err
		}
		p.files[n] = f
		for _, d := range f.Decls {
			switch t := d.(type) {
			case *ast.GenDecl:
				switch t.Tok {
				case token.CONST:
					var prev []ast.Expr
					for i, s := range t.Specs {
						vs := s.(*ast.ValueSpec)
						vals := vs.Values
						if len(vals) == 0 {
							vals = prev // implicit repetition
						} else {
							prev = vals
						}
						for j, nm := range vs.Names {
							if nm.Name == "_" || j >= len(vals) {
								continue
							}
							if _, dup := p.consts[nm.Name]; !dup {
								p.consts[nm.Name] = &constDef{expr: vals[j], iota: int64(i), file: f}
							}
						}
					}
				case token.VAR:
					for _, s := range t.Specs {
						vs := s.(*ast.ValueSpec)
						if len(vs.Names) == len(vs.Values) {
							for j, nm := range vs.Names {
								if _, dup := p.vars[nm.Name]; !dup {
									p.vars[nm.Name] = vs.Values[j]
									p.vfile[nm.Name] = f
								}
							}
						}
					}
				}
			case *ast.FuncDecl:
				name := t.Name.Name
				if t.Recv != nil && len(t.Recv.List) == 1 {
					name = tabRecvName(t.Recv.List[0].Type) + "." + name
				}
				if _, dup := p.funcs[name]; !dup {
					p.funcs[name] = t
				}
			}
		}
	}
	c.pkgs[rel] = p
	return p, nil
}

func tabRecvName(e ast.Expr) string {
	switch t := e.(type) {
	case *ast.StarExpr:
		return tabRecvName(t.X)
	case *ast.Ident:
		return t.Name
	case *ast.IndexExpr:
		return tabRecvName(t.X)
	}
	return "?"
}

// importPathOf resolves the package identifier used in file f (explicit name or last path element).
func importPathOf(f *ast.File, ident string) (string, bool) {
	for _, im := range f.Imports {
		path, err := strconv.Unquote(im.Path.Value)
		if err != nil {
			continue
		}
		name := path[strings.LastIndex(path, "/")+1:]
		if im.Name != nil {
			name = im.Name.Name
		}
		if name == ident {
			return path, true
		}
	}
	return "", false
}

type evalErr struct{ msg string }

func (e *evalErr) Error() string { return e.msg }

func evalFail(format string, a ...any) (constant.Value, error) {
	return nil, &evalErr{fmt.Sprintf(format, a...)}
}

// evalConst evaluates the constant expression e occurring in file f of package p.
func (c *tabCtx) evalConst(p *tpkg, f *ast.File, e ast.Expr, iota int64) (constant.Value, error) {
	switch t := e.(type) {
	case *ast.BasicLit:
		v := constant.MakeFromLiteral(t.Value, t.Kind, 0)
		if v.Kind() == constant.Unknown {
			return evalFail("literal %s not understood", t.Value)
		}
		return v, nil
	case *ast.ParenExpr:
		return c.evalConst(p, f, t.X, iota)
	case *ast.Ident:
		switch t.Name {
		case "iota":
			if iota < 0 {
				return evalFail("iota outside a constant declaration")
			}
			return constant.MakeInt64(iota), nil
		case "true":
			if _, shadow := p.consts["true"]; !shadow {
				return constant.MakeBool(true), nil
			}
		case "false":
			if _, shadow := p.consts["false"]; !shadow {
				return constant.MakeBool(false), nil
			}
		}
		return c.constByName(p, t.Name)
	case *ast.SelectorExpr:
		pk, ok := t.X.(*ast.Ident)
		if !ok {
			return evalFail("selector %s is not pkg.Name", callName(t))
		}
		path, ok := importPathOf(f, pk.Name)
		if !ok {
			return evalFail("%s.%s: %s is not an imported package of the file", pk.Name, t.Sel.Name, pk.Name)
		}
		if std, ok := stdConsts[path]; ok {
			if v, ok := std[t.Sel.Name]; ok {
				return v, nil
			}
			return evalFail("%s.%s is not in the extractor's hard-coded table of %s constants", pk.Name, t.Sel.Name, path)
		}
		if path == modulePath || strings.HasPrefix(path, modulePath+"/") {
			rel := strings.TrimPrefix(strings.TrimPrefix(path, modulePath), "/")
			q, err := c.load(rel)
			if err != nil {
				return evalFail("package %s: %v", path, err)
			}
			return c.constByName(q, t.Sel.Name)
		}
		return evalFail("%s.%s: constants of package %s are not known to the extractor", pk.Name, t.Sel.Name, path)
	case *ast.UnaryExpr:
		x, err := c.evalConst(p, f, t.X, iota)
		if err != nil {
			return nil, err
		}
		switch t.Op {
		case token.ADD, token.SUB, token.XOR:
			if x.Kind() != constant.Int {
				return evalFail("unary %s on a non-integer constant", t.Op)
			}
			return constant.UnaryOp(t.Op, x, 0), nil
		case token.NOT:
			if x.Kind() != constant.Bool {
				return evalFail("! on a non-boolean constant")
			}
			return constant.UnaryOp(t.Op, x, 0), nil
		}
		return evalFail("unary operator %s", t.Op)
	case *ast.BinaryExpr:
		x, err := c.evalConst(p, f, t.X, iota)
		if err != nil {
			return nil, err
		}
		y, err := c.evalConst(p, f, t.Y, iota)
		if err != nil {
			return nil, err
		}
		switch t.Op {
		case token.SHL, token.SHR:
			if x.Kind() != constant.Int || y.Kind() != constant.Int {
				return evalFail("shift of non-integer constants")
			}
			s, ok := constant.Uint64Val(y)
			if !ok || s > 4096 {
				return evalFail("shift count out of range")
			}
			return constant.Shift(x, t.Op, uint(s)), nil
		case token.ADD:
			if x.Kind() == constant.String && y.Kind() == constant.String {
				return constant.BinaryOp(x, token.ADD, y), nil
			}
			fallthrough
		case token.SUB, token.MUL, token.AND, token.OR, token.XOR, token.AND_NOT:
			if x.Kind() != constant.Int || y.Kind() != constant.Int {
				return evalFail("operator %s on constants that are not both integers", t.Op)
			}
			return constant.BinaryOp(x, t.Op, y), nil
		case token.QUO, token.REM:
			if x.Kind() != constant.Int || y.Kind() != constant.Int {
				return evalFail("operator %s on constants that are not both integers", t.Op)
			}
			if constant.Sign(y) == 0 {
				return evalFail("division by zero")
			}
			op := t.Op
			if op == token.QUO {
				op = token.QUO_ASSIGN // integer division in go/constant
			}
			return constant.BinaryOp(x, op, y), nil
		case token.EQL, token.NEQ, token.LSS, token.LEQ, token.GTR, token.GEQ:
			if x.Kind() != y.Kind() {
				return evalFail("comparison of constants of different kinds")
			}
			return constant.MakeBool(constant.Compare(x, t.Op, y)), nil
		case token.LAND, token.LOR:
			if x.Kind() != constant.Bool || y.Kind() != constant.Bool {
				return evalFail("operator %s on non-boolean constants", t.Op)
			}
			return constant.BinaryOp(x, t.Op, y), nil
		}
		return evalFail("binary operator %s", t.Op)
	case *ast.CallExpr:
		if len(t.Args) != 1 || t.Ellipsis != token.NoPos {
			return evalFail("call %s(...) is not a constant expression the extractor understands", callName(t.Fun))
		}
		fn := callName(t.Fun)
		if fn == "len" {
			if _, shadow := p.funcs["len"]; shadow {
				return evalFail("len is redefined in the package")
			}
			x, err := c.evalConst(p, f, t.Args[0], iota)
			if err != nil {
				return nil, err
			}
			if x.Kind() != constant.String {
				return evalFail("len of a non-string constant")
			}
			return constant.MakeInt64(int64(len(constant.StringVal(x)))), nil
		}
		if intTypeNames[fn] {
			x, err := c.evalConst(p, f, t.Args[0], iota)
			if err != nil {
				return nil, err
			}
			if x.Kind() != constant.Int {
				return evalFail("conversion %s(x) of a non-integer constant", fn)
			}
			return x, nil
		}
		if fn == "string" {
			x, err := c.evalConst(p, f, t.Args[0], iota)
			if err != nil {
				return nil, err
			}
			if x.Kind() == constant.String {
				return x, nil
			}
			return evalFail("string(x) of a non-string constant")
		}
		return evalFail("call %s(...) is not a constant expression the extractor understands", fn)
	}
	return evalFail("expression of kind %T is not a constant expression the extractor understands", e)
}

func (c *tabCtx) constByName(p *tpkg, name string) (constant.Value, error) {
	d, ok := p.consts[name]
	if !ok {
		return evalFail("constant %s is not declared in package %s", name, p.dir)
	}
	if p.busy[name] {
		return evalFail("constant %s is defined in terms of itself", name)
	}
	p.busy[name] = true
	defer delete(p.busy, name)
	return c.evalConst(p, d.file, d.expr, d.iota)
}

// ---- Coq printing -----------------------------------------------------------------------------

func coqBytes(s string) string {
	var b strings.Builder
	b.WriteByte('[')
	for i := 0; i < len(s); i++ {
		if i > 0 {
			b.WriteString("; ")
		}
		b.WriteString(strconv.Itoa(int(s[i])))
	}
	b.WriteByte(']')
	return b.String()
}

func coqComment(s string) string {
	s = strings.ReplaceAll(s, "(*", "( *")
	s = strings.ReplaceAll(s, "*)", "* )")
	s = strings.ReplaceAll(s, "\"", "'")
	var b strings.Builder
	for _, r := range s {
		if r < 32 || r > 126 {
			b.WriteByte('?')
		} else {
			b.WriteRune(r)
		}
	}
	return b.String()
}

func (c *tabCtx) def(name, typ, val, comment string) {
	if comment != "" {
		fmt.Fprintf(&c.out, "Definition %s : %s := %s. (* %s *)\n", name, typ, val, coqComment(comment))
	} else {
		fmt.Fprintf(&c.out, "Definition %s : %s := %s.\n", name, typ, val)
	}
}

// zero values per Coq type: what a MISSING table is defined as (so that the obligation fails)
var missingValue = map[string]string{
	"N": "65521", "bool": "false", "list N": "[]", "list bool": "[]",
	"list (list N)": "[]", "list (list N * list N)": "[]",
}

func (c *tabCtx) missing(name, typ, why string) {
	fmt.Fprintf(&c.out, "(* MISSING %s: %s *)\n", name, coqComment(why))
	fmt.Fprintf(&c.out, "Definition %s : %s := %s.\n", name, typ, missingValue[typ])
}

func (c *tabCtx) section(title string) {
	fmt.Fprintf(&c.out, "(* ---- %s ---- *)\n", title)
}

func natN(v constant.Value) (string, error) {
	if v.Kind() != constant.Int {
		return "", &evalErr{"not an integer constant"}
	}
	if constant.Sign(v) < 0 {
		return "", &evalErr{"negative integer constant " + v.ExactString() + " (tables are over N)"}
	}
	return v.ExactString(), nil
}

// ---- generic table readers ----------------------------------------------------------------------

// constN: `const name = <int expr>` of package p as N
func (c *tabCtx) constN(p *tpkg, goName, coqName string) {
	v, err := c.constByName(p, goName)
	if err == nil {
		var s string
		if s, err = natN(v); err == nil {
			c.def(coqName, "N", s, goName)
			return
		}
	}
	c.missing(coqName, "N", goName+": "+err.Error())
}

// constStr: `const name = <string expr>` of package p as list N
func (c *tabCtx) constStr(p *tpkg, goName, coqName string) {
	v, err := c.constByName(p, goName)
	if err == nil {
		if v.Kind() == constant.String {
			c.def(coqName, "list N", coqBytes(constant.StringVal(v)), goName+" = "+strconv.Quote(constant.StringVal(v)))
			return
		}
		err = &evalErr{"not a string constant"}
	}
	c.missing(coqName, "list N", goName+": "+err.Error())
}

// arrayLit evaluates `var name = [N]T{...}` / `[...]T{...}` / `[]T{...}` with optional constant
// integer keys; elements not listed are nil (zero value). Returns the element type name too.
func (c *tabCtx) arrayLit(p *tpkg, goName string) (elems []constant.Value, elt string, err error) {
	e, ok := p.vars[goName]
	if !ok {
		return nil, "", &evalErr{"package-level variable " + goName + " with an initialiser not found in " + p.dir}
	}
	f := p.vfile[goName]
	cl, ok := e.(*ast.CompositeLit)
	if !ok {
		return nil, "", &evalErr{goName + " is not initialised by a composite literal"}
	}
	at, ok := cl.Type.(*ast.ArrayType)
	if !ok {
		return nil, "", &evalErr{goName + " is not an array or slice literal"}
	}
	elt = callName(at.Elt)
	declared := int64(-1)
	if at.Len != nil {
		if _, dots := at.Len.(*ast.Ellipsis); !dots {
			lv, err := c.evalConst(p, f, at.Len, -1)
			if err != nil {
				return nil, elt, &evalErr{"array length: " + err.Error()}
			}
			n, ok := constant.Int64Val(lv)
			if !ok || lv.Kind() != constant.Int || n < 0 || n > 1<<20 {
				return nil, elt, &evalErr{"array length is not a small integer constant"}
			}
			declared = n
		}
	}
	vals := map[int64]constant.Value{}
	var idx, maxIdx int64 = 0, -1
	for _, el := range cl.Elts {
		ve := el
		if kv, ok := el.(*ast.KeyValueExpr); ok {
			kvv, err := c.evalConst(p, f, kv.Key, -1)
			if err != nil {
				return nil, elt, &evalErr{"index: " + err.Error()}
			}
			k, ok := constant.Int64Val(kvv)
			if !ok || kvv.Kind() != constant.Int || k < 0 || k > 1<<20 {
				return nil, elt, &evalErr{"index is not a small non-negative integer constant"}
			}
			idx = k
			ve = kv.Value
		}
		v, err := c.evalConst(p, f, ve, -1)
		if err != nil {
			return nil, elt, &evalErr{fmt.Sprintf("element %d: %s", idx, err.Error())}
		}
		if _, dup := vals[idx]; dup {
			return nil, elt, &evalErr{fmt.Sprintf("duplicate index %d", idx)}
		}
		vals[idx] = v
		if idx > maxIdx {
			maxIdx = idx
		}
		idx++
	}
	n := maxIdx + 1
	if declared >= 0 {
		if n > declared {
			return nil, elt, &evalErr{"index out of the declared bounds"}
		}
		n = declared
	}
	elems = make([]constant.Value, n)
	for i := int64(0); i < n; i++ {
		elems[i] = vals[i] // nil = zero value
	}
	return elems, elt, nil
}

func (c *tabCtx) arrayN(p *tpkg, goName, coqName string) {
	elems, _, err := c.arrayLit(p, goName)
	if err != nil {
		c.missing(coqName, "list N", goName+": "+err.Error())
		return
	}
	var parts []string
	for i, v := range elems {
		s := "0"
		if v != nil {
			if s, err = natN(v); err != nil {
				c.missing(coqName, "list N", fmt.Sprintf("%s[%d]: %s", goName, i, err.Error()))
				return
			}
		}
		parts = append(parts, s)
	}
	c.def(coqName, "list N", "["+strings.Join(parts, "; ")+"]", fmt.Sprintf("%s, %d entries", goName, len(elems)))
}

func (c *tabCtx) arrayBool(p *tpkg, goName, coqName string) {
	elems, _, err := c.arrayLit(p, goName)
	if err != nil {
		c.missing(coqName, "list bool", goName+": "+err.Error())
		return
	}
	var parts []string
	for i, v := range elems {
		s := "false"
		if v != nil {
			if v.Kind() != constant.Bool {
				c.missing(coqName, "list bool", fmt.Sprintf("%s[%d]: not a boolean constant", goName, i))
				return
			}
			if constant.BoolVal(v) {
				s = "true"
			}
		}
		parts = append(parts, s)
	}
	c.def(coqName, "list bool", "["+strings.Join(parts, "; ")+"]", fmt.Sprintf("%s, index -> value, %d entries, entries not listed in the source are false", goName, len(elems)))
}

func (c *tabCtx) arrayStr(p *tpkg, goName, coqName string) {
	elems, _, err := c.arrayLit(p, goName)
	if err != nil {
		c.missing(coqName, "list (list N)", goName+": "+err.Error())
		return
	}
	var parts []string
	for i, v := range elems {
		s := "[]"
		if v != nil {
			if v.Kind() != constant.String {
				c.missing(coqName, "list (list N)", fmt.Sprintf("%s[%d]: not a string constant", goName, i))
				return
			}
			s = coqBytes(constant.StringVal(v))
		}
		parts = append(parts, s)
	}
	c.def(coqName, "list (list N)", "["+strings.Join(parts, "; ")+"]", fmt.Sprintf("%s, %d entries", goName, len(elems)))
}

// mapStrStr evaluates `var name = map[string]string{k: v, ...}` as an association list in source order.
func (c *tabCtx) mapStrStr(p *tpkg, goName, coqName string) {
	typ := "list (list N * list N)"
	e, ok := p.vars[goName]
	if !ok {
		c.missing(coqName, typ, "package-level variable "+goName+" with an initialiser not found in "+p.dir)
		return
	}
	f := p.vfile[goName]
	cl, ok := e.(*ast.CompositeLit)
	if !ok {
		c.missing(coqName, typ, goName+" is not initialised by a composite literal")
		return
	}
	mt, ok := cl.Type.(*ast.MapType)
	if !ok || callName(mt.Key) != "string" || callName(mt.Value) != "string" {
		c.missing(coqName, typ, goName+" is not a map[string]string literal")
		return
	}
	var parts, show []string
	for i, el := range cl.Elts {
		kv, ok := el.(*ast.KeyValueExpr)
		if !ok {
			c.missing(coqName, typ, fmt.Sprintf("%s: entry %d is not key: value", goName, i))
			return
		}
		k, err := c.evalConst(p, f, kv.Key, -1)
		if err == nil && k.Kind() != constant.String {
			err = &evalErr{"not a string constant"}
		}
		if err != nil {
			c.missing(coqName, typ, fmt.Sprintf("%s: key of entry %d: %s", goName, i, err.Error()))
			return
		}
		v, err := c.evalConst(p, f, kv.Value, -1)
		if err == nil && v.Kind() != constant.String {
			err = &evalErr{"not a string constant"}
		}
		if err != nil {
			c.missing(coqName, typ, fmt.Sprintf("%s: value of entry %d: %s", goName, i, err.Error()))
			return
		}
		parts = append(parts, "("+coqBytes(constant.StringVal(k))+", "+coqBytes(constant.StringVal(v))+")")
		show = append(show, constant.StringVal(k)+"->"+constant.StringVal(v))
	}
	c.def(coqName, typ, "["+strings.Join(parts, "; ")+"]", goName+" in source order: "+strings.Join(show, " "))
}

// fieldInits collects, inside function fn, every value given to a field called `field`: as
// `field: v` in a composite literal or as `x.field = v`. Exactly one is expected.
func fieldInits(fn *ast.FuncDecl, field string) []ast.Expr {
	var res []ast.Expr
	if fn.Body == nil {
		return nil
	}
	ast.Inspect(fn.Body, func(n ast.Node) bool {
		switch t := n.(type) {
		case *ast.KeyValueExpr:
			if id, ok := t.Key.(*ast.Ident); ok && id.Name == field {
				res = append(res, t.Value)
			}
		case *ast.AssignStmt:
			for i, l := range t.Lhs {
				if se, ok := l.(*ast.SelectorExpr); ok && se.Sel.Name == field {
					if len(t.Lhs) == len(t.Rhs) && t.Tok == token.ASSIGN {
						res = append(res, t.Rhs[i])
					} else {
						res = append(res, nil) // assigned in a way we cannot read
					}
				}
			}
		}
		return true
	})
	return res
}

func fileOfFunc(p *tpkg, fn *ast.FuncDecl) *ast.File {
	for _, f := range p.files {
		if f.Pos() <= fn.Pos() && fn.End() <= f.End() {
			return f
		}
	}
	return nil
}

func (c *tabCtx) fieldStr(p *tpkg, fnName, field, coqName string) {
	v, err := c.fieldConst(p, fnName, field)
	if err == nil {
		if v.Kind() == constant.String {
			c.def(coqName, "list N", coqBytes(constant.StringVal(v)), fmt.Sprintf("%s in %s = %s", field, fnName, strconv.Quote(constant.StringVal(v))))
			return
		}
		err = &evalErr{"not a string constant"}
	}
	c.missing(coqName, "list N", err.Error())
}

func (c *tabCtx) fieldN(p *tpkg, fnName, field, coqName string) {
	v, err := c.fieldConst(p, fnName, field)
	if err == nil {
		var s string
		if s, err = natN(v); err == nil {
			c.def(coqName, "N", s, fmt.Sprintf("%s in %s", field, fnName))
			return
		}
	}
	c.missing(coqName, "N", err.Error())
}

func (c *tabCtx) fieldConst(p *tpkg, fnName, field string) (constant.Value, error) {
	fn, ok := p.funcs[fnName]
	if !ok {
		return evalFail("func %s not found in %s", fnName, p.dir)
	}
	inits := fieldInits(fn, field)
	if len(inits) != 1 || inits[0] == nil {
		return evalFail("%s: expected exactly one readable value for field %s, found %d", fnName, field, len(inits))
	}
	v, err := c.evalConst(p, fileOfFunc(p, fn), inits[0], -1)
	if err != nil {
		return evalFail("%s: field %s: %s", fnName, field, err.Error())
	}
	return v, nil
}

// ---- strutil.ShellEscape / ShellEscapeExceptTilde ------------------------------------------------

func flattenAdd(e ast.Expr) []ast.Expr {
	switch t := e.(type) {
	case *ast.ParenExpr:
		return flattenAdd(t.X)
	case *ast.BinaryExpr:
		if t.Op == token.ADD {
			return append(flattenAdd(t.X), flattenAdd(t.Y)...)
		}
	}
	return []ast.Expr{e}
}

func soleParam(fn *ast.FuncDecl) string {
	if fn.Type.Params == nil || len(fn.Type.Params.List) != 1 || len(fn.Type.Params.List[0].Names) != 1 {
		return ""
	}
	if callName(fn.Type.Params.List[0].Type) != "string" {
		return ""
	}
	return fn.Type.Params.List[0].Names[0].Name
}

func isIdent(e ast.Expr, name string) bool {
	id, ok := e.(*ast.Ident)
	return ok && id.Name == name
}

func (c *tabCtx) shellEscape(p *tpkg) {
	names := []string{"shell_open_src", "shell_pattern_src", "shell_replacement_src", "shell_close_src"}
	fail := func(why string) {
		for _, n := range names {
			c.missing(n, "list N", "ShellEscape: shape not recognised: "+why)
		}
	}
	fn, ok := p.funcs["ShellEscape"]
	if !ok {
		fail("func not found in " + p.dir)
		return
	}
	f := fileOfFunc(p, fn)
	param := soleParam(fn)
	if param == "" || fn.Body == nil || len(fn.Body.List) != 1 {
		fail("expected func(s string) string with a single return statement")
		return
	}
	ret, ok := fn.Body.List[0].(*ast.ReturnStmt)
	if !ok || len(ret.Results) != 1 {
		fail("expected a single return statement with one result")
		return
	}
	ops := flattenAdd(ret.Results[0])
	if len(ops) != 3 {
		fail(fmt.Sprintf("expected <literal> + strings.Replace(...) + <literal>, found %d operands", len(ops)))
		return
	}
	call, ok := ops[1].(*ast.CallExpr)
	if !ok {
		fail("the middle operand is not a call")
		return
	}
	cn := callName(call.Fun)
	if path, ok := importPathOf(f, "strings"); !ok || path != "strings" {
		fail("package strings is not imported under its own name")
		return
	}
	switch {
	case cn == "strings.Replace" && len(call.Args) == 4:
		n, err := c.evalConst(p, f, call.Args[3], -1)
		if err != nil || n.Kind() != constant.Int || constant.Sign(n) >= 0 {
			fail("strings.Replace is not called with a negative count (replace all)")
			return
		}
	case cn == "strings.ReplaceAll" && len(call.Args) == 3:
	default:
		fail("the middle operand is not strings.Replace(s, old, new, -1) / strings.ReplaceAll(s, old, new)")
		return
	}
	if !isIdent(call.Args[0], param) {
		fail("strings.Replace is not applied to the parameter")
		return
	}
	exprs := []ast.Expr{ops[0], call.Args[1], call.Args[2], ops[2]}
	what := []string{"opening literal", "pattern argument of strings.Replace", "replacement argument of strings.Replace", "closing literal"}
	for i, e := range exprs {
		v, err := c.evalConst(p, f, e, -1)
		if err == nil && v.Kind() != constant.String {
			err = &evalErr{"not a string constant"}
		}
		if err != nil {
			c.missing(names[i], "list N", "ShellEscape: "+what[i]+": "+err.Error())
			continue
		}
		c.def(names[i], "list N", coqBytes(constant.StringVal(v)), "ShellEscape: "+what[i]+" "+strconv.Quote(constant.StringVal(v)))
	}
}

func (c *tabCtx) shellEscapeExceptTilde(p *tpkg) {
	fail := func(why string) {
		c.missing("tilde_test_src", "list N", "ShellEscapeExceptTilde: shape not recognised: "+why)
		c.missing("tilde_out_src", "list N", "ShellEscapeExceptTilde: shape not recognised: "+why)
		c.missing("tilde_skip_src", "N", "ShellEscapeExceptTilde: shape not recognised: "+why)
	}
	fn, ok := p.funcs["ShellEscapeExceptTilde"]
	if !ok {
		fail("func not found in " + p.dir)
		return
	}
	f := fileOfFunc(p, fn)
	param := soleParam(fn)
	if param == "" || fn.Body == nil || len(fn.Body.List) != 2 {
		fail("expected func(s string) string { if strings.HasPrefix(s, L) { return L + ShellEscape(s[k:]) }; return ShellEscape(s) }")
		return
	}
	ifs, ok := fn.Body.List[0].(*ast.IfStmt)
	if !ok || ifs.Init != nil || ifs.Else != nil || len(ifs.Body.List) != 1 {
		fail("first statement is not a plain if with a one-statement body")
		return
	}
	cond, ok := ifs.Cond.(*ast.CallExpr)
	if path, imp := importPathOf(f, "strings"); !ok || !imp || path != "strings" || callName(cond.Fun) != "strings.HasPrefix" ||
		len(cond.Args) != 2 || !isIdent(cond.Args[0], param) {
		fail("the condition is not strings.HasPrefix(s, <literal>)")
		return
	}
	isEscapeOf := func(e ast.Expr) (ast.Expr, bool) {
		ce, ok := e.(*ast.CallExpr)
		if !ok || !isIdent(ce.Fun, "ShellEscape") || len(ce.Args) != 1 {
			return nil, false
		}
		return ce.Args[0], true
	}
	last, ok := fn.Body.List[1].(*ast.ReturnStmt)
	if !ok || len(last.Results) != 1 {
		fail("second statement is not return ShellEscape(s)")
		return
	}
	if a, ok := isEscapeOf(last.Results[0]); !ok || !isIdent(a, param) {
		fail("second statement is not return ShellEscape(s)")
		return
	}
	ret, ok := ifs.Body.List[0].(*ast.ReturnStmt)
	if !ok || len(ret.Results) != 1 {
		fail("the if body is not a return statement")
		return
	}
	ops := flattenAdd(ret.Results[0])
	if len(ops) != 2 {
		fail("the if body does not return <literal> + ShellEscape(s[k:])")
		return
	}
	arg, ok := isEscapeOf(ops[1])
	if !ok {
		fail("the if body does not return <literal> + ShellEscape(s[k:])")
		return
	}
	sl, ok := arg.(*ast.SliceExpr)
	if !ok || !isIdent(sl.X, param) || sl.Low == nil || sl.High != nil || sl.Slice3 {
		fail("ShellEscape is not applied to s[k:]")
		return
	}
	emitStr := func(name string, e ast.Expr, what string) {
		v, err := c.evalConst(p, f, e, -1)
		if err == nil && v.Kind() != constant.String {
			err = &evalErr{"not a string constant"}
		}
		if err != nil {
			c.missing(name, "list N", "ShellEscapeExceptTilde: "+what+": "+err.Error())
			return
		}
		c.def(name, "list N", coqBytes(constant.StringVal(v)), "ShellEscapeExceptTilde: "+what+" "+strconv.Quote(constant.StringVal(v)))
	}
	emitStr("tilde_test_src", cond.Args[1], "prefix tested by strings.HasPrefix")
	emitStr("tilde_out_src", ops[0], "prefix literal of the result")
	v, err := c.evalConst(p, f, sl.Low, -1)
	var s string
	if err == nil {
		s, err = natN(v)
	}
	if err != nil {
		c.missing("tilde_skip_src", "N", "ShellEscapeExceptTilde: lower bound of the slice: "+err.Error())
	} else {
		c.def("tilde_skip_src", "N", s, "ShellEscapeExceptTilde: k of s[k:]")
	}
}

// ---- the command -----------------------------------------------------------------------------------

func (c *tabCtx) pkgOr(rel string, names map[string]string) *tpkg {
	p, err := c.load(rel)
	if err != nil {
		var keys []string
		for n := range names {
			keys = append(keys, n)
		}
		sort.Strings(keys)
		for _, n := range keys {
			c.missing(n, names[n], fmt.Sprintf("package %s cannot be parsed: %v", rel, err))
		}
		return nil
	}
	return p
}

func cmdTables(repo string) error {
	c := &tabCtx{repo: repo, fset: token.NewFileSet(), pkgs: map[string]*tpkg{}}
	fmt.Fprintf(&c.out, "(* source tables extracted by glbfacts (go/ast + go/constant); net/http method names, unicode/utf8.RuneSelf and time.Duration units are hard-coded in the extractor *)\n")

	c.section("util/netutil/filter.go")
	if p := c.pkgOr("util/netutil", map[string]string{"ipv4_masks_src": "list N", "list_size_src": "N", "mode_list_src": "N", "mode_maps_src": "N"}); p != nil {
		c.arrayN(p, "ipv4Masks", "ipv4_masks_src")
		c.constN(p, "listSize", "list_size_src")
		c.constN(p, "modeList", "mode_list_src")
		c.constN(p, "modeMaps", "mode_maps_src")
	}

	c.section("logger/json_handler.go, logger/level.go, logger/buffer.go")
	if p := c.pkgOr("logger", map[string]string{"safe_set_src": "list bool", "hex_src": "list N", "level_debug_src": "N", "level_info_src": "N",
		"level_warn_src": "N", "level_error_src": "N", "level_fatal_src": "N", "label_list_src": "list (list N)",
		"init_buffer_size_src": "N", "max_buffer_size_src": "N", "smalls_string_src": "list N"}); p != nil {
		c.arrayBool(p, "safeSet", "safe_set_src")
		c.constStr(p, "hex", "hex_src")
		c.constN(p, "LevelDebug", "level_debug_src")
		c.constN(p, "LevelInfo", "level_info_src")
		c.constN(p, "LevelWarn", "level_warn_src")
		c.constN(p, "LevelError", "level_error_src")
		c.constN(p, "LevelFatal", "level_fatal_src")
		c.arrayStr(p, "labelList", "label_list_src")
		c.constN(p, "initBufferSize", "init_buffer_size_src")
		c.constN(p, "maxBufferSize", "max_buffer_size_src")
		c.constStr(p, "smallsString", "smalls_string_src")
	}

	c.section("httpd/httpd.go, httpd/tree.go")
	if p := c.pkgOr("httpd", map[string]string{"method_all_src": "list N", "method_tag_map_src": "list (list N * list N)",
		"route_param_src": "list N", "route_param_any_src": "list N"}); p != nil {
		c.constStr(p, "MethodAll", "method_all_src")
		c.mapStrStr(p, "methodTagMap", "method_tag_map_src")
		c.constStr(p, "routeParam", "route_param_src")
		c.constStr(p, "routeParamAny", "route_param_any_src")
	}

	c.section("config/config.go")
	if p := c.pkgOr("config", map[string]string{"flag_name_show_usage_src": "list N", "flag_name_config_path_src": "list N",
		"env_key_prefix_src": "list N", "b64_config_env_src": "list N"}); p != nil {
		c.constStr(p, "flagNameShowUsage", "flag_name_show_usage_src")
		c.constStr(p, "flagNameConfigPath", "flag_name_config_path_src")
		c.fieldStr(p, "NewFlagSet", "envKeyPrefix", "env_key_prefix_src")
		c.fieldStr(p, "NewFlagSet", "b64ConfigEnv", "b64_config_env_src")
	}

	c.section("util/strutil/strutil.go")
	if p := c.pkgOr("util/strutil", map[string]string{"shell_open_src": "list N", "shell_pattern_src": "list N", "shell_replacement_src": "list N",
		"shell_close_src": "list N", "tilde_test_src": "list N", "tilde_out_src": "list N", "tilde_skip_src": "N"}); p != nil {
		c.shellEscape(p)
		c.shellEscapeExceptTilde(p)
	}

	c.section("tasklane/tasklane.go")
	if p := c.pkgOr("tasklane", map[string]string{"tasklane_default_timeout_ns_src": "N"}); p != nil {
		c.fieldN(p, "New", "timeout", "tasklane_default_timeout_ns_src")
	}

	fmt.Print(c.out.String())
	return nil
}
