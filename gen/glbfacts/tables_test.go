package main

import (
	"go/token"
	"os"
	"path/filepath"
	"strings"
	"testing"
)

const tablesSrc = `package p

import (
	"net/http"
	"unicode/utf8"

	"github.com/whoisnian/glb/q"
)

const (
	a uint32 = iota
	b
	c = 1 << (iota + 3)
)
const big = 16 << 10
const s1 = "ab" + ` + "`c\\n`" + ` + q.X

var arr = [...]uint32{0x10, 2: 7, 1<<32 - 1}
var set = [utf8.RuneSelf]bool{'a': true, 0x7f: true}
var strs = []string{"x", q.X + "y"}
var m = map[string]string{http.MethodGet: "/get", "*": "/" + "*"}
var bad = [...]uint32{f()}

type T struct{ pre string }

func New() *T { return &T{pre: "P_"} }
func Esc(s string) string { return "'" + s + "'" }
`

func TestTables(t *testing.T) {
	dir := t.TempDir()
	must := func(err error) {
		if err != nil {
			t.Fatal(err)
		}
	}
	must(os.MkdirAll(filepath.Join(dir, "p"), 0o755))
	must(os.MkdirAll(filepath.Join(dir, "q"), 0o755))
	must(os.WriteFile(filepath.Join(dir, "p", "p.go"), []byte(tablesSrc), 0o644))
	must(os.WriteFile(filepath.Join(dir, "q", "q.go"), []byte("package q\n\nconst X string = \"\\x1b[0m\"\n"), 0o644))
	c := &tabCtx{repo: dir, fset: token.NewFileSet(), pkgs: map[string]*tpkg{}}
	p, err := c.load("p")
	must(err)
	c.constN(p, "a", "a_src")
	c.constN(p, "b", "b_src")
	c.constN(p, "c", "c_src")
	c.constN(p, "big", "big_src")
	c.constStr(p, "s1", "s1_src")
	c.arrayN(p, "arr", "arr_src")
	c.arrayBool(p, "set", "set_src")
	c.arrayStr(p, "strs", "strs_src")
	c.mapStrStr(p, "m", "m_src")
	c.arrayN(p, "bad", "bad_src")
	c.arrayN(p, "nosuch", "nosuch_src")
	c.fieldStr(p, "New", "pre", "pre_src")
	c.shellEscape(p)
	out := c.out.String()
	for _, want := range []string{
		"Definition a_src : N := 0.", "Definition b_src : N := 1.", "Definition c_src : N := 32.",
		"Definition big_src : N := 16384.",
		"Definition s1_src : list N := [97; 98; 99; 92; 110; 27; 91; 48; 109].",
		"Definition arr_src : list N := [16; 0; 7; 4294967295].",
		"Definition strs_src : list (list N) := [[120]; [27; 91; 48; 109; 121]].",
		"Definition m_src : list (list N * list N) := [([71; 69; 84], [47; 103; 101; 116]); ([42], [47; 42])].",
		"(* MISSING bad_src:", "Definition bad_src : list N := [].",
		"(* MISSING nosuch_src:",
		"Definition pre_src : list N := [80; 95].",
		"(* MISSING shell_open_src: ShellEscape: shape not recognised:",
	} {
		if !strings.Contains(out, want) {
			t.Errorf("missing %q in\n%s", want, out)
		}
	}
	// the bool table: 128 entries, true exactly at 'a' and 0x7f
	for _, l := range strings.Split(out, "\n") {
		if strings.HasPrefix(l, "Definition set_src") {
			body := l[strings.Index(l, "[")+1 : strings.Index(l, "]")]
			es := strings.Split(body, "; ")
			if len(es) != 128 {
				t.Fatalf("set_src has %d entries", len(es))
			}
			for i, e := range es {
				if (e == "true") != (i == 'a' || i == 0x7f) {
					t.Errorf("set_src[%d] = %s", i, e)
				}
			}
		}
	}
}
