package main

import (
	"fmt"
	"go/ast"
	"go/parser"
	"go/token"
	"os"
	"path/filepath"
	"sort"
	"strings"
)

// ---------------------------------------------------------------------------------------------
// locks: which field is touched where, how, and under which lock.
//
// Per function a must-hold analysis of the struct's mutexes: statements are scanned in source
// order; x.mu.Lock()/RLock() add the lock (Ex/Sh), x.mu.Unlock()/RUnlock() remove it,
// `defer x.mu.Unlock()` leaves it held to the end of the function; at the end of a branch / loop
// body / case the held set is intersected with the other paths (a lock taken in one branch only
// is not counted afterwards, a lock released in one branch is not counted afterwards; a branch
// ending in return/panic does not flow on). Closures: called on the spot (func(){…}()) = scanned
// in place; deferred, `go` and escaping closures are scanned with no lock held. Calls of other
// methods of the same type on the same object are inlined (accesses are attributed to the calling
// function, with the caller's locks), so a property's scope needs only the entry points.
// ---------------------------------------------------------------------------------------------

type fieldKind int

const (
	fkPlain fieldKind = iota
	fkLock
	fkAtomic
	fkSkip
	fkGroup // a struct-valued field of a struct type of this package: its fields are listed as "<name>.<field>"
)

type fieldInfo struct {
	kind     fieldKind
	typ      string
	why      string
	typeExpr ast.Expr
	members  []string // fkGroup: the flattened leaves below it
	promLock string   // fkGroup: the embedded mutex whose Lock/RLock… are promoted to the group ("st.RWMutex")
}

type accessRec struct {
	fn, loc       string
	write, atomic bool
	held          string // rendered Coq list
	prepub        bool
	pos           string
	note          string
}

type varInfo struct {
	fresh  bool   // object created in this function (constructor / clone): accesses are pre-publication
	copy   bool   // g := *f: a shallow copy — scalar fields are private, reference-typed fields are shared with f
	prefix string // the variable denotes the nested struct field "<prefix>" of the object (receiver of an inlined method of that struct)
}

type heldSet map[string]string // lock field -> "Sh" | "Ex"; nil = unreachable (top)

func (h heldSet) clone() heldSet {
	if h == nil {
		return nil
	}
	c := heldSet{}
	for k, v := range h {
		c[k] = v
	}
	return c
}

func meet(a, b heldSet) heldSet {
	if a == nil {
		return b.clone()
	}
	if b == nil {
		return a.clone()
	}
	r := heldSet{}
	for k, v := range a {
		if w, ok := b[k]; ok {
			if v == "Ex" && w == "Ex" {
				r[k] = "Ex"
			} else {
				r[k] = "Sh"
			}
		}
	}
	return r
}

func sameHeld(a, b heldSet) bool {
	if (a == nil) != (b == nil) || len(a) != len(b) {
		return false
	}
	for k, v := range a {
		if b[k] != v {
			return false
		}
	}
	return true
}

func (h heldSet) render() string {
	if len(h) == 0 {
		return "[]"
	}
	var ks []string
	for k := range h {
		ks = append(ks, k)
	}
	sort.Strings(ks)
	var parts []string
	for _, k := range ks {
		parts = append(parts, fmt.Sprintf("(%q, %s)", k, h[k]))
	}
	return "[" + strings.Join(parts, "; ") + "]"
}

type lockScanner struct {
	fset        *token.FileSet
	typeName    string
	fields      map[string]*fieldInfo
	order       []string
	methods     map[string]*ast.FuncDecl
	pkgTypes    map[string]ast.Expr
	out         []accessRec
	seen        map[string]bool
	notes       []string
	spawned     []string                            // methods started with `go`
	scanned     []string                            // functions scanned (methods of the type, constructors, functions taking it)
	funcs       map[string]*ast.FuncDecl            // plain functions of the package
	freshMem    map[*ast.FuncDecl]int               // 0 unknown, 1 computing / no, 2 yes
	leaves      []string                            // all non-group fields, flattened
	embLock     string                              // a mutex embedded directly in the type: v.Lock() is v.<embLock>.Lock()
	typeMethods map[string]map[string]*ast.FuncDecl // methods of the other struct types of the package (nested fields)
}

type closureArg struct {
	lit     *ast.FuncLit
	owner   *fnCtx // where the literal was written: its variables are the owner's
	scanned bool
}

type loopCtx struct {
	head  heldSet // meet of the held sets at `continue`
	after heldSet // meet of the held sets at `break`
	hasBr bool
}

type fnCtx struct {
	fn             string
	vars           map[string]*varInfo
	ptrs           map[string][2]string // local pointer p := &v.f[...]  ->  (v, f)
	valAlias       map[string]bool      // the entry of ptrs is a value alias m := v.f[...] of a reference-typed field (map, slice, pointer)
	deferredUnlock map[string]bool      // locks released by a deferred Unlock: not held any more once the function has returned
	retHeld        heldSet              // meet of the held sets at the return statements
	hasRet         bool
	closures       int                    // > 0 inside a function literal (its returns are not the function's)
	lockAlias      map[string]string      // local mu := &v.L used only for direct Lock/Unlock calls: the lock L
	rlocker        map[string]bool        // the alias is v.L.RLocker(): its Lock / Unlock are RLock / RUnlock of L
	tryBools       map[string][2]string   // ok := v.L.TryLock() (never assigned again): (lock, mode) held where ok is true
	unlockFns      map[string]string      // local u := v.L.Unlock (or u := v.lock() returning it): calling u releases L
	retUnlock      string                 // this function returns the method value v.L.Unlock / RUnlock of lock L
	lastCallUnlock string                 // the own-method call just inlined returned the unlock of this lock
	funcParams     map[string]*closureArg // parameters bound to function literals of the caller (inlined own methods)
	held           heldSet
	published      bool // constructor started a goroutine: the object is visible to other threads from here on
	noPrepub       int  // > 0 inside closures that may run after publication
	stack          []string
	loops          []*loopCtx
}

func typeString(e ast.Expr) string {
	switch t := e.(type) {
	case nil:
		return ""
	case *ast.Ident:
		return t.Name
	case *ast.SelectorExpr:
		return typeString(t.X) + "." + t.Sel.Name
	case *ast.StarExpr:
		return "*" + typeString(t.X)
	case *ast.ArrayType:
		if t.Len == nil {
			return "[]" + typeString(t.Elt)
		}
		return "[" + typeString(t.Len) + "]" + typeString(t.Elt)
	case *ast.MapType:
		return "map[" + typeString(t.Key) + "]" + typeString(t.Value)
	case *ast.ChanType:
		return "chan " + typeString(t.Value)
	case *ast.FuncType:
		return "func"
	case *ast.InterfaceType:
		return "interface"
	case *ast.StructType:
		return "struct"
	case *ast.IndexExpr:
		return typeString(t.X) + "[" + typeString(t.Index) + "]"
	case *ast.IndexListExpr:
		return typeString(t.X) + "[…]"
	case *ast.BasicLit:
		return t.Value
	case *ast.Ellipsis:
		return "..." + typeString(t.Elt)
	case *ast.ParenExpr:
		return "(" + typeString(t.X) + ")"
	}
	return fmt.Sprintf("%T", e)
}

func classifyField(t ast.Expr) (fieldKind, string) {
	s := typeString(t)
	base := strings.TrimPrefix(s, "*")
	switch base {
	case "sync.Mutex", "sync.RWMutex":
		return fkLock, "the lock itself"
	case "sync.WaitGroup", "sync.Pool", "sync.Once", "sync.Cond", "sync.Map":
		return fkSkip, "synchronisation primitive, synchronises by itself"
	}
	if strings.HasPrefix(base, "atomic.") {
		return fkAtomic, ""
	}
	if _, ok := t.(*ast.ChanType); ok {
		return fkSkip, "channel: channel operations synchronise"
	}
	return fkPlain, ""
}

func parsePackageDir(fset *token.FileSet, dir string) ([]*ast.File, error) {
	ents, err := os.ReadDir(dir)
	if err != nil {
		return nil, err
	}
	var files []*ast.File
	for _, e := range ents {
		n := e.Name()
		if e.IsDir() || !strings.HasSuffix(n, ".go") || strings.HasSuffix(n, "_test.go") {
			continue
		}
		f, err := parser.ParseFile(fset, filepath.Join(dir, n), nil, parser.SkipObjectResolution)
		if err != nil {
			return nil, err
		}
		files = append(files, f)
	}
	return files, nil
}

func recvTypeName(fd *ast.FuncDecl) (string, string) {
	if fd.Recv == nil || len(fd.Recv.List) != 1 {
		return "", ""
	}
	f := fd.Recv.List[0]
	t := f.Type
	if s, ok := t.(*ast.StarExpr); ok {
		t = s.X
	}
	if ix, ok := t.(*ast.IndexExpr); ok {
		t = ix.X
	}
	if ix, ok := t.(*ast.IndexListExpr); ok {
		t = ix.X
	}
	id, ok := t.(*ast.Ident)
	if !ok {
		return "", ""
	}
	name := "_"
	if len(f.Names) == 1 {
		name = f.Names[0].Name
	}
	return id.Name, name
}

func isTypeT(e ast.Expr, tn string) bool {
	if s, ok := e.(*ast.StarExpr); ok {
		e = s.X
	}
	if ix, ok := e.(*ast.IndexExpr); ok {
		e = ix.X
	}
	id, ok := e.(*ast.Ident)
	return ok && id.Name == tn
}

// addFields registers the fields of a struct type; struct-valued fields of struct types of this package are
// flattened ("st.mode"), with a group entry for the struct itself.
func (ls *lockScanner) addFields(prefix string, st *ast.StructType, depth int) []string {
	var leaves []string
	for _, f := range st.Fields.List {
		names := f.Names
		embedded := len(names) == 0
		if embedded {
			t := f.Type
			if s, ok := t.(*ast.StarExpr); ok {
				t = s.X
			}
			n := typeString(t)
			if i := strings.LastIndex(n, "."); i >= 0 {
				n = n[i+1:]
			}
			names = []*ast.Ident{ast.NewIdent(n)}
		}
		for _, n := range names {
			full := prefix + n.Name
			if prefix == "" {
				ls.order = append(ls.order, full)
			}
			ft := f.Type
			if ix, ok := ft.(*ast.IndexExpr); ok {
				ft = ix.X
			}
			if ix, ok := ft.(*ast.IndexListExpr); ok {
				ft = ix.X
			}
			if id, ok := ft.(*ast.Ident); ok && depth < 3 {
				if sub, ok := ls.pkgTypes[id.Name].(*ast.StructType); ok {
					g := &fieldInfo{kind: fkGroup, typ: id.Name, typeExpr: f.Type}
					ls.fields[full] = g
					g.members = ls.addFields(full+".", sub, depth+1)
					for _, m := range g.members {
						if mi := ls.fields[m]; mi.kind == fkLock && strings.Count(m, ".") == strings.Count(full, ".")+1 && ls.isEmbedded(sub, m[len(full)+1:]) {
							g.promLock = m
						}
					}
					leaves = append(leaves, g.members...)
					continue
				}
			}
			k, why := classifyField(f.Type)
			ls.fields[full] = &fieldInfo{kind: k, typ: typeString(f.Type), why: why, typeExpr: f.Type}
			ls.leaves = append(ls.leaves, full)
			leaves = append(leaves, full)
			if embedded && prefix == "" && k == fkLock {
				ls.embLock = full
			}
		}
	}
	return leaves
}

func (ls *lockScanner) isEmbedded(st *ast.StructType, name string) bool {
	for _, f := range st.Fields.List {
		if len(f.Names) == 0 {
			t := f.Type
			if s, ok := t.(*ast.StarExpr); ok {
				t = s.X
			}
			n := typeString(t)
			if i := strings.LastIndex(n, "."); i >= 0 {
				n = n[i+1:]
			}
			if n == name {
				return true
			}
		}
	}
	return false
}

func cmdLocks(repo, rel, typeName, mutexField string) error {
	fset := token.NewFileSet()
	path := filepath.Join(repo, rel)
	files, err := parsePackageDir(fset, filepath.Dir(path))
	if err != nil {
		return err
	}
	ls := &lockScanner{fset: fset, typeName: typeName, fields: map[string]*fieldInfo{}, methods: map[string]*ast.FuncDecl{},
		pkgTypes: map[string]ast.Expr{}, seen: map[string]bool{}, funcs: map[string]*ast.FuncDecl{},
		typeMethods: map[string]map[string]*ast.FuncDecl{}}
	var st *ast.StructType
	for _, f := range files {
		for _, d := range f.Decls {
			gd, ok := d.(*ast.GenDecl)
			if !ok || gd.Tok != token.TYPE {
				continue
			}
			for _, sp := range gd.Specs {
				ts := sp.(*ast.TypeSpec)
				ls.pkgTypes[ts.Name.Name] = ts.Type
				if ts.Name.Name == typeName {
					// the type may live in any file of the package (the file named on the command line is only where it used to be)
					if s, ok := ts.Type.(*ast.StructType); ok && (st == nil || filepath.Base(fset.Position(ts.Pos()).Filename) == filepath.Base(path)) {
						st = s
					}
				}
			}
		}
	}
	if st == nil {
		return fmt.Errorf("struct type %s not found in package %s", typeName, filepath.Dir(rel))
	}
	ls.addFields("", st, 0)
	if mutexField != "-" {
		fi, ok := ls.fields[mutexField]
		if !ok || fi.kind != fkLock {
			return fmt.Errorf("%s.%s is not a sync.Mutex / sync.RWMutex field", typeName, mutexField)
		}
	}
	// methods and other functions working on the type
	var funcs []*ast.FuncDecl
	for _, f := range files {
		for _, d := range f.Decls {
			fd, ok := d.(*ast.FuncDecl)
			if !ok || fd.Body == nil {
				continue
			}
			if tn, _ := recvTypeName(fd); tn == typeName {
				ls.methods[fd.Name.Name] = fd
			} else if tn != "" {
				if ls.typeMethods[tn] == nil {
					ls.typeMethods[tn] = map[string]*ast.FuncDecl{}
				}
				ls.typeMethods[tn][fd.Name.Name] = fd
			}
			if fd.Recv == nil {
				ls.funcs[fd.Name.Name] = fd
			}
			funcs = append(funcs, fd)
		}
	}
	sort.SliceStable(funcs, func(i, j int) bool {
		pi, pj := fset.Position(funcs[i].Pos()), fset.Position(funcs[j].Pos())
		if pi.Filename != pj.Filename {
			// the file that declares the type first
			bi, bj := filepath.Base(pi.Filename) == filepath.Base(path), filepath.Base(pj.Filename) == filepath.Base(path)
			if bi != bj {
				return bi
			}
			return pi.Filename < pj.Filename
		}
		return pi.Offset < pj.Offset
	})
	for _, fd := range funcs {
		c := &fnCtx{fn: fd.Name.Name, vars: map[string]*varInfo{}, held: heldSet{}}
		if tn, rn := recvTypeName(fd); tn == typeName {
			c.vars[rn] = &varInfo{}
		} else if tn != "" {
			// method of another type: only interesting when it has a parameter of our type
		}
		if fd.Type.Params != nil {
			for _, p := range fd.Type.Params.List {
				if isTypeT(p.Type, typeName) {
					for _, n := range p.Names {
						c.vars[n.Name] = &varInfo{}
					}
				}
			}
		}
		mentions := false
		ast.Inspect(fd.Body, func(n ast.Node) bool {
			if cl, ok := n.(*ast.CompositeLit); ok && cl.Type != nil && isTypeT(cl.Type, typeName) {
				mentions = true
			}
			if ce, ok := n.(*ast.CallExpr); ok {
				if id, ok := ce.Fun.(*ast.Ident); ok && id.Name == "new" && len(ce.Args) == 1 && isTypeT(ce.Args[0], typeName) {
					mentions = true
				}
			}
			if vs, ok := n.(*ast.ValueSpec); ok && vs.Type != nil && isTypeT(vs.Type, typeName) {
				mentions = true
			}
			return true
		})
		if len(c.vars) == 0 && !mentions {
			continue
		}
		c.stack = []string{fd.Name.Name}
		ls.scanned = append(ls.scanned, fd.Name.Name)
		ls.scanBlock(c, fd.Body)
	}

	// output
	fmt.Printf("(* glbfacts locks %s %s %s\n", rel, typeName, mutexField)
	var plain, skipped []string
	for _, n := range ls.leaves {
		fi := ls.fields[n]
		switch fi.kind {
		case fkLock, fkSkip:
			skipped = append(skipped, fmt.Sprintf("%s [%s]: %s", n, fi.typ, fi.why))
		case fkAtomic:
			plain = append(plain, n+" ["+fi.typ+"]")
		default:
			plain = append(plain, n)
		}
	}
	fmt.Printf("   fields: %s\n", commentSafe(strings.Join(plain, ", ")))
	fmt.Printf("   skipped: %s\n", commentSafe(strings.Join(skipped, "; ")))
	fmt.Printf("   functions: %s\n", strings.Join(ls.scanned, ", "))
	fmt.Printf("   spawned: %s\n", strings.Join(ls.spawned, ", "))
	for _, n := range ls.notes {
		fmt.Printf("   note: %s\n", commentSafe(n))
	}
	fmt.Printf("   one record per line: mkAcc fn loc write atomic held prepub *)\n")
	if len(ls.out) == 0 {
		fmt.Println("[]")
		return nil
	}
	for i, a := range ls.out {
		sep := ";"
		if i == 0 {
			sep = "["
		}
		note := ""
		if a.note != "" {
			note = " " + a.note
		}
		fmt.Printf("%s mkAcc %q %q %v %v %s %v (* %s *)\n", sep, a.fn, a.loc, a.write, a.atomic, a.held, a.prepub, commentSafe(a.pos+note))
	}
	fmt.Println("]")
	return nil
}

// commentSafe: text that can stand inside a Coq comment (no comment brackets, no string quotes).
func commentSafe(s string) string {
	s = strings.ReplaceAll(s, "(*", "( *")
	s = strings.ReplaceAll(s, "*)", "* )")
	return strings.ReplaceAll(s, "\"", "'")
}

func (ls *lockScanner) pos(n ast.Node) string {
	p := ls.fset.Position(n.Pos())
	return fmt.Sprintf("%s:%d", filepath.Base(p.Filename), p.Line)
}

func (ls *lockScanner) emit(c *fnCtx, at ast.Node, varName, field string, write, atomic bool) {
	fi := ls.fields[field]
	if fi == nil || fi.kind == fkLock || fi.kind == fkSkip {
		return
	}
	if fi.kind == fkGroup { // the struct as a whole: every field below it
		for _, m := range fi.members {
			ls.emit(c, at, varName, m, write, atomic)
		}
		return
	}
	v := c.vars[varName]
	prepub := v != nil && v.fresh && !c.published && c.noPrepub == 0
	held := c.held
	if held == nil {
		held = heldSet{}
	}
	a := accessRec{fn: c.fn, loc: field, write: write, atomic: atomic, held: held.render(), prepub: prepub, pos: ls.pos(at)}
	if len(c.stack) > 1 {
		a.note = "via " + strings.Join(c.stack[1:], " > ")
	}
	ls.add(a)
}

// emitUnknown: something the scan cannot classify, reported as an unguarded plain write.
func (ls *lockScanner) emitUnknown(c *fnCtx, at ast.Node, field, why string) {
	ls.emitUnknownOn(c, at, "", field, why)
}

// emitUnknownOn: as emitUnknown; when the object is a fresh one that is not yet published, whatever happens
// to the field happens before publication.
func (ls *lockScanner) emitUnknownOn(c *fnCtx, at ast.Node, varName, field, why string) {
	if field == "" {
		field = "?"
	}
	if fi := ls.fields[field]; fi != nil && (fi.kind == fkLock || fi.kind == fkSkip) {
		return
	}
	v := c.vars[varName]
	prepub := v != nil && v.fresh && !c.published && c.noPrepub == 0
	ls.add(accessRec{fn: c.fn, loc: field, write: true, atomic: false, held: "[]", prepub: prepub, pos: ls.pos(at),
		note: "UNCLASSIFIED: " + why})
}

func (ls *lockScanner) add(a accessRec) {
	key := fmt.Sprintf("%s|%s|%v|%v|%s|%v", a.fn, a.loc, a.write, a.atomic, a.held, a.prepub)
	if ls.seen[key] {
		return
	}
	ls.seen[key] = true
	ls.out = append(ls.out, a)
}

// trackedField: e is `v.f` with v a tracked variable and f a field of the type.
func (ls *lockScanner) trackedField(c *fnCtx, e ast.Expr) (string, string, bool) {
	// v.a.b…: a selector chain from a tracked variable whose full path names a (flattened) field
	var names []string
	x := e
	for {
		se, ok := x.(*ast.SelectorExpr)
		if !ok {
			break
		}
		names = append([]string{se.Sel.Name}, names...)
		x = se.X
	}
	if len(names) == 0 {
		return "", "", false
	}
	id, ok := x.(*ast.Ident)
	if !ok {
		// (*v).f
		if p, ok2 := x.(*ast.ParenExpr); ok2 {
			if s, ok3 := p.X.(*ast.StarExpr); ok3 {
				id, ok = s.X.(*ast.Ident)
			}
		}
		if !ok {
			return "", "", false
		}
	}
	vi, t := c.vars[id.Name]
	if !t {
		return "", "", false
	}
	full := vi.prefix + strings.Join(names, ".")
	if _, f := ls.fields[full]; !f {
		return "", "", false
	}
	return id.Name, full, true
}

// lvalueRoot strips index / deref / paren / inner selectors; index expressions are read.
func (ls *lockScanner) lvalueRoot(c *fnCtx, e ast.Expr) (string, string, bool) {
	for {
		if v, f, ok := ls.trackedField(c, e); ok {
			return v, f, true
		}
		switch t := e.(type) {
		case *ast.ParenExpr:
			e = t.X
		case *ast.IndexExpr:
			ls.scanExpr(c, t.Index)
			e = t.X
		case *ast.SliceExpr:
			for _, x := range []ast.Expr{t.Low, t.High, t.Max} {
				if x != nil {
					ls.scanExpr(c, x)
				}
			}
			e = t.X
		case *ast.StarExpr:
			e = t.X
		case *ast.SelectorExpr:
			e = t.X
		case *ast.Ident:
			if pf, ok := c.ptrs[t.Name]; ok {
				return pf[0], pf[1], true
			}
			return "", "", false
		default:
			ls.scanExpr(c, e)
			return "", "", false
		}
	}
}

var basicValueTypes = map[string]bool{
	"bool": true, "string": true, "int": true, "int8": true, "int16": true, "int32": true, "int64": true,
	"uint": true, "uint8": true, "uint16": true, "uint32": true, "uint64": true, "uintptr": true, "byte": true, "rune": true,
	"float32": true, "float64": true, "complex64": true, "complex128": true, "time.Duration": true, "time.Time": true,
}

// mayRef: a value of this type can share memory with the field it was copied from (map, slice, pointer, chan,
// func, interface, or an array / struct / unknown named type that may contain one).
func (ls *lockScanner) mayRef(t ast.Expr, depth int) bool {
	if depth > 6 {
		return true
	}
	switch x := t.(type) {
	case *ast.Ident:
		if basicValueTypes[x.Name] {
			return false
		}
		if d, ok := ls.pkgTypes[x.Name]; ok {
			return ls.mayRef(d, depth+1)
		}
		return true
	case *ast.SelectorExpr:
		return !basicValueTypes[typeString(x)]
	case *ast.ArrayType:
		if x.Len == nil {
			return true
		}
		return ls.mayRef(x.Elt, depth+1)
	case *ast.StructType:
		for _, f := range x.Fields.List {
			if ls.mayRef(f.Type, depth+1) {
				return true
			}
		}
		return false
	case *ast.ParenExpr:
		return ls.mayRef(x.X, depth+1)
	}
	return true
}

// isPath: selector / index / slice / deref chain (no calls, no operators)
func isPath(e ast.Expr) bool {
	for {
		switch t := e.(type) {
		case *ast.Ident:
			return true
		case *ast.ParenExpr:
			e = t.X
		case *ast.IndexExpr:
			e = t.X
		case *ast.SliceExpr:
			e = t.X
		case *ast.StarExpr:
			e = t.X
		case *ast.SelectorExpr:
			e = t.X
		default:
			return false
		}
	}
}

// valueAliasOf: e is a path rooted at a reference-typed field of a tracked variable (m := f.ipMaps[i]), or at a
// local that already is such an alias (mm := m[k])
func (ls *lockScanner) valueAliasOf(c *fnCtx, e ast.Expr) (string, string, bool) {
	if e == nil || !isPath(e) {
		return "", "", false
	}
	if _, isId := e.(*ast.Ident); isId {
		return "", "", false
	}
	if v, f, ok := ls.lvalueRootQuiet(c, e); ok {
		// a slice of the field (v.f[:n]) shares its memory whatever the element type is
		if fi := ls.fields[f]; fi != nil && (fi.kind == fkPlain) && (ls.mayRef(fi.typeExpr, 0) || hasSlice(e)) {
			return v, f, true
		}
		return "", "", false
	}
	// rooted at an alias local
	x := e
	for {
		switch t := x.(type) {
		case *ast.ParenExpr:
			x = t.X
			continue
		case *ast.IndexExpr:
			x = t.X
			continue
		case *ast.SliceExpr:
			x = t.X
			continue
		case *ast.StarExpr:
			x = t.X
			continue
		case *ast.SelectorExpr:
			x = t.X
			continue
		case *ast.Ident:
			if pf, ok := c.ptrs[t.Name]; ok {
				return pf[0], pf[1], true
			}
		}
		return "", "", false
	}
}

func (c *fnCtx) setAlias(name, v, f string, value bool) {
	if c.ptrs == nil {
		c.ptrs = map[string][2]string{}
	}
	if c.valAlias == nil {
		c.valAlias = map[string]bool{}
	}
	c.ptrs[name] = [2]string{v, f}
	c.valAlias[name] = value
}

// emitAllReads: *v (a struct copy) reads every field of v; copying the lock itself cannot be classified
func (ls *lockScanner) emitAllReads(c *fnCtx, at ast.Node, v string) {
	for _, f := range ls.leaves {
		fi := ls.fields[f]
		switch fi.kind {
		case fkPlain, fkAtomic:
			if fi.kind == fkAtomic {
				if _, ptr := fi.typeExpr.(*ast.StarExpr); !ptr {
					ls.emit(c, at, v, f, false, false) // an atomic value copied non-atomically
					continue
				}
			}
			ls.emit(c, at, v, f, false, false)
		case fkLock:
			if _, ptr := fi.typeExpr.(*ast.StarExpr); !ptr {
				ls.emitLockEscape(c, at, f, "the lock is copied with the struct")
			}
		}
	}
}

// emitLockEscape: the lock is used in a way the scan cannot follow (address taken, copied, method value):
// what is held afterwards is unknown — reported as an unguarded write of a pseudo location.
func (ls *lockScanner) emitLockEscape(c *fnCtx, at ast.Node, lock, why string) {
	ls.add(accessRec{fn: c.fn, loc: "?lock:" + lock, write: true, atomic: false, held: "[]", prepub: false, pos: ls.pos(at),
		note: "UNCLASSIFIED: " + why})
}

// addressOfField: e is &<something rooted at a plain or atomic field of a tracked variable>
func (ls *lockScanner) addressOfField(c *fnCtx, e ast.Expr) (string, string, bool) {
	u, ok := e.(*ast.UnaryExpr)
	if !ok || u.Op != token.AND {
		return "", "", false
	}
	if _, isLit := u.X.(*ast.CompositeLit); isLit {
		return "", "", false
	}
	v, f, ok := ls.lvalueRootQuiet(c, u.X)
	if !ok {
		return "", "", false
	}
	if fi := ls.fields[f]; fi == nil || (fi.kind != fkPlain && fi.kind != fkAtomic) {
		return "", "", false
	}
	return v, f, true
}

func (ls *lockScanner) scanLvalue(c *fnCtx, e ast.Expr) {
	if v, f, ok := ls.lvalueRoot(c, e); ok {
		ls.emit(c, e, v, f, true, false)
	}
}

// freshObject: expression creating a new object of the type (&T{…}, T{…}, new(T), *v copy).
func (ls *lockScanner) freshObject(c *fnCtx, e ast.Expr) bool {
	switch t := e.(type) {
	case *ast.UnaryExpr:
		if t.Op == token.AND {
			if cl, ok := t.X.(*ast.CompositeLit); ok && cl.Type != nil && isTypeT(cl.Type, ls.typeName) {
				return true
			}
		}
	case *ast.CompositeLit:
		return t.Type != nil && isTypeT(t.Type, ls.typeName)
	case *ast.CallExpr:
		if id, ok := t.Fun.(*ast.Ident); ok && id.Name == "new" && len(t.Args) == 1 && isTypeT(t.Args[0], ls.typeName) {
			return true
		}
		// h2 := h.clone() / x := NewT(...): a function of this package all of whose returns hand out a fresh object
		switch f := t.Fun.(type) {
		case *ast.SelectorExpr:
			if id, ok := f.X.(*ast.Ident); ok && c.vars[id.Name] != nil {
				if md := ls.methods[f.Sel.Name]; md != nil && ls.returnsFresh(md) {
					return true
				}
			}
		case *ast.Ident:
			if fd := ls.funcs[f.Name]; fd != nil && ls.returnsFresh(fd) {
				return true
			}
		}
	}
	return false
}

// structCopyOf: e is *v with v tracked
func structCopyOf(c *fnCtx, e ast.Expr) (string, bool) {
	if p, ok := e.(*ast.ParenExpr); ok {
		e = p.X
	}
	if st, ok := e.(*ast.StarExpr); ok {
		if id, ok := st.X.(*ast.Ident); ok && c.vars[id.Name] != nil {
			return id.Name, true
		}
	}
	return "", false
}

// returnsFresh: the function's result type is T / *T and every return statement (outside closures) returns
// &T{…}, T{…}, new(T) or a local variable that was only ever bound to such an expression.
func (ls *lockScanner) returnsFresh(fd *ast.FuncDecl) bool {
	if ls.freshMem == nil {
		ls.freshMem = map[*ast.FuncDecl]int{}
	}
	if st := ls.freshMem[fd]; st != 0 {
		return st == 2
	}
	ls.freshMem[fd] = 1
	res := fd.Type.Results
	if res == nil || len(res.List) != 1 || len(res.List[0].Names) > 1 || !isTypeT(res.List[0].Type, ls.typeName) || fd.Body == nil {
		return false
	}
	probe := &fnCtx{fn: fd.Name.Name, vars: map[string]*varInfo{}}
	freshLocals := map[string]bool{}
	tainted := map[string]bool{}
	ok, nret := true, 0
	ast.Inspect(fd.Body, func(n ast.Node) bool {
		switch t := n.(type) {
		case *ast.FuncLit:
			return false
		case *ast.AssignStmt:
			for i, l := range t.Lhs {
				if id, isId := l.(*ast.Ident); isId {
					if len(t.Lhs) == len(t.Rhs) && ls.freshObject(probe, t.Rhs[i]) {
						freshLocals[id.Name] = true
					} else {
						tainted[id.Name] = true
					}
				}
			}
		case *ast.ReturnStmt:
			nret++
			if len(t.Results) != 1 {
				ok = false
				return true
			}
			r := t.Results[0]
			if id, isId := r.(*ast.Ident); isId {
				if !freshLocals[id.Name] {
					ok = false
				}
				return true
			}
			if !ls.freshObject(probe, r) {
				ok = false
			}
		}
		return true
	})
	for n := range freshLocals {
		if tainted[n] {
			ok = false
		}
	}
	if ok && nret > 0 {
		ls.freshMem[fd] = 2
		return true
	}
	return false
}

func (ls *lockScanner) scanBlock(c *fnCtx, b *ast.BlockStmt) {
	if b == nil {
		return
	}
	for _, s := range b.List {
		ls.scanStmt(c, s)
	}
}

// branch scans body starting from h0 and returns the held set at its end (nil if it does not flow on).
func (ls *lockScanner) branch(c *fnCtx, h0 heldSet, body func()) heldSet {
	c.held = h0.clone()
	body()
	return c.held
}

func (ls *lockScanner) loop(c *fnCtx, body func()) {
	// least fixpoint downwards: the held set at the loop head must be stable
	h0 := c.held.clone()
	for iter := 0; ; iter++ {
		mark := len(ls.out)
		seenBackup := map[string]bool{}
		for k := range ls.seen {
			seenBackup[k] = true
		}
		lc := &loopCtx{}
		c.loops = append(c.loops, lc)
		c.held = h0.clone()
		body()
		c.loops = c.loops[:len(c.loops)-1]
		end := meet(c.held, lc.head)
		h1 := meet(h0, end)
		if sameHeld(h1, h0) || iter > 8 {
			after := h0.clone() // zero iterations / condition false at the head
			if lc.hasBr {
				after = meet(after, lc.after)
			}
			c.held = after
			return
		}
		// redo with the smaller set; drop what this pass recorded
		ls.out = ls.out[:mark]
		ls.seen = seenBackup
		h0 = h1
	}
}

func (ls *lockScanner) scanStmt(c *fnCtx, s ast.Stmt) {
	switch t := s.(type) {
	case nil:
	case *ast.ExprStmt:
		ls.scanExpr(c, t.X)
		if ce, ok := t.X.(*ast.CallExpr); ok {
			if id, ok := ce.Fun.(*ast.Ident); ok && id.Name == "panic" {
				c.held = nil
			}
			if se, ok := ce.Fun.(*ast.SelectorExpr); ok {
				if x, ok := se.X.(*ast.Ident); ok && x.Name == "os" && se.Sel.Name == "Exit" {
					c.held = nil
				}
			}
		}
	case *ast.AssignStmt:
		handled := map[int]bool{}
		for i, r := range t.Rhs {
			if len(t.Lhs) == len(t.Rhs) {
				if id, ok := t.Lhs[i].(*ast.Ident); ok {
					if l, ok := ls.lockAddr(c, r); ok {
						// mu := &v.L: the same lock as long as mu is only used for mu.Lock() / mu.Unlock() …
						if c.lockAlias == nil {
							c.lockAlias = map[string]string{}
						}
						c.lockAlias[id.Name] = l
						handled[i] = true
						continue
					}
					if ce, isCall := r.(*ast.CallExpr); isCall && len(ce.Args) == 0 {
						if se, ok := ce.Fun.(*ast.SelectorExpr); ok && se.Sel.Name == "RLocker" {
							if _, l, ok := ls.lockRef(c, se.X); ok {
								if c.lockAlias == nil {
									c.lockAlias = map[string]string{}
								}
								if c.rlocker == nil {
									c.rlocker = map[string]bool{}
								}
								c.lockAlias[id.Name], c.rlocker[id.Name] = l, true
								handled[i] = true
								continue
							}
						}
					}
					if l, ok := ls.unlockValue(c, r); ok {
						// unlock := v.L.Unlock: calling it later releases L
						if c.unlockFns == nil {
							c.unlockFns = map[string]string{}
						}
						c.unlockFns[id.Name] = l
						handled[i] = true
						continue
					}
					if lk, md, isTry := ls.tryCall(c, r); isTry && t.Tok == token.DEFINE && len(t.Lhs) == 1 {
						// ok := v.L.TryLock(): remembered for `if !ok { return }` / `if ok { … }`
						if c.tryBools == nil {
							c.tryBools = map[string][2]string{}
						}
						c.tryBools[id.Name] = [2]string{lk, md}
						handled[i] = true
						continue
					}
					if _, isCall := r.(*ast.CallExpr); isCall {
						// unlock := v.lock() where the own method returns v.L.Unlock
						c.lastCallUnlock = ""
						ls.scanExpr(c, r)
						if c.lastCallUnlock != "" {
							if c.unlockFns == nil {
								c.unlockFns = map[string]string{}
							}
							c.unlockFns[id.Name] = c.lastCallUnlock
							c.lastCallUnlock = ""
							handled[i] = true
						}
						continue
					}
					if v, f, ok := ls.addressOfField(c, r); ok {
						// p := &v.f[...]: follow the pointer inside this function instead of giving up
						if c.ptrs == nil {
							c.ptrs = map[string][2]string{}
						}
						c.setAlias(id.Name, v, f, false)
						ls.scanIndexParts(c, r.(*ast.UnaryExpr).X)
						continue
					}
					if rid, ok := r.(*ast.Ident); ok {
						if pf, isPtr := c.ptrs[rid.Name]; isPtr { // q := p
							c.setAlias(id.Name, pf[0], pf[1], c.valAlias[rid.Name])
							continue
						}
					}
					if v, f, ok := ls.valueAliasOf(c, r); ok {
						// m := v.f[i] with f a map / slice / pointer field: m shares memory with the field; what is
						// done through m later is done to the field, with the locks held THEN
						ls.scanExpr(c, r)
						c.setAlias(id.Name, v, f, true)
						continue
					}
					if v, ok := structCopyOf(c, r); ok {
						// g := *v: every field of v is read here; g's reference-typed fields stay shared with v
						ls.emitAllReads(c, r, v)
						c.vars[id.Name] = &varInfo{copy: true}
						continue
					}
				} else if rid, ok := r.(*ast.Ident); ok {
					if pf, isPtr := c.ptrs[rid.Name]; isPtr && !c.valAlias[rid.Name] { // x.y = p: the pointer leaves the function's view
						ls.emitUnknown(c, r, pf[1], "pointer to the field stored elsewhere")
						continue
					}
				}
			}
			ls.scanExpr(c, r)
		}
		for i, l := range t.Lhs {
			if id, ok := l.(*ast.Ident); ok {
				if handled[i] {
					continue
				}
				delete(c.lockAlias, id.Name)
				delete(c.tryBools, id.Name)
				delete(c.rlocker, id.Name)
				delete(c.unlockFns, id.Name)
				var rhs ast.Expr
				if len(t.Lhs) == len(t.Rhs) {
					rhs = t.Rhs[i]
				}
				rid, _ := rhs.(*ast.Ident)
				if _, f, ok := ls.addressOfField(c, rhs); ok && f != "" {
					continue // registered above
				}
				if _, _, ok := ls.valueAliasOf(c, rhs); ok && c.ptrs[id.Name][1] != "" {
					continue // registered above
				}
				if _, ok := structCopyOf(c, rhs); ok && c.vars[id.Name] != nil && c.vars[id.Name].copy {
					continue // registered above
				}
				if rid != nil {
					if _, isPtr := c.ptrs[rid.Name]; isPtr && c.ptrs[id.Name] == c.ptrs[rid.Name] {
						continue
					}
				}
				delete(c.ptrs, id.Name)
				switch {
				case rhs != nil && ls.freshObject(c, rhs):
					c.vars[id.Name] = &varInfo{fresh: true}
				case rid != nil && c.vars[rid.Name] != nil: // alias: y := x
					c.vars[id.Name] = c.vars[rid.Name]
				default: // (re)bound to something the scan does not follow
					delete(c.vars, id.Name)
				}
				continue
			}
			ls.scanLvalue(c, l)
		}
	case *ast.IncDecStmt:
		ls.scanLvalue(c, t.X)
	case *ast.DeclStmt:
		if gd, ok := t.Decl.(*ast.GenDecl); ok {
			for _, sp := range gd.Specs {
				vs, ok := sp.(*ast.ValueSpec)
				if !ok {
					continue
				}
				for _, v := range vs.Values {
					ls.scanExpr(c, v)
				}
				for i, n := range vs.Names {
					if vs.Type != nil && isTypeT(vs.Type, ls.typeName) && len(vs.Values) == 0 {
						if _, star := vs.Type.(*ast.StarExpr); !star {
							c.vars[n.Name] = &varInfo{fresh: true}
						}
					} else if i < len(vs.Values) && ls.freshObject(c, vs.Values[i]) {
						c.vars[n.Name] = &varInfo{fresh: true}
					}
				}
			}
		}
	case *ast.ReturnStmt:
		for _, r := range t.Results {
			if id, ok := r.(*ast.Ident); ok {
				if pf, isPtr := c.ptrs[id.Name]; isPtr && !c.valAlias[id.Name] {
					ls.emitUnknown(c, r, pf[1], "pointer to the field returned")
					continue
				}
				if l, ok := c.unlockFns[id.Name]; ok && c.closures == 0 && len(c.stack) > 1 {
					c.retUnlock = l
					continue
				}
			}
			if l, ok := ls.unlockValue(c, r); ok && c.closures == 0 && len(c.stack) > 1 {
				// func (v *T) lock() func() { v.L.Lock(); return v.L.Unlock }: handed to the caller (defer v.lock()())
				c.retUnlock = l
				continue
			}
			ls.scanExpr(c, r)
		}
		if c.closures == 0 {
			c.retHeld, c.hasRet = meet(c.retHeld, c.held), true
		}
		c.held = nil
	case *ast.BlockStmt:
		ls.scanBlock(c, t)
	case *ast.IfStmt:
		ls.scanStmt(c, t.Init)
		ls.scanExpr(c, t.Cond)
		h0 := c.held.clone()
		hThen, hElse := h0, h0
		// if !x.TryLock() { return … }  /  if x.TryLock() { … }  /  ok := x.TryLock(); if !ok { return }: the lock is
		// held exactly on the path on which the attempt succeeded (nothing else about TryLock is understood)
		if lk, md, neg, ok := ls.tryCond(c, t.Cond); ok {
			with := h0.clone()
			if with == nil {
				with = heldSet{}
			}
			if with[lk] != "Ex" {
				with[lk] = md
			}
			if neg {
				hElse = with
			} else {
				hThen = with
			}
		}
		hb := ls.branch(c, hThen, func() { ls.scanBlock(c, t.Body) })
		he := hElse
		if t.Else != nil {
			he = ls.branch(c, hElse, func() { ls.scanStmt(c, t.Else) })
		}
		c.held = meet(hb, he)
		if hb == nil && he == nil {
			c.held = nil
		}
	case *ast.ForStmt:
		ls.scanStmt(c, t.Init)
		ls.loop(c, func() {
			if t.Cond != nil {
				ls.scanExpr(c, t.Cond)
			}
			ls.scanBlock(c, t.Body)
			ls.scanStmt(c, t.Post)
		})
	case *ast.RangeStmt:
		if u, ok := t.X.(*ast.UnaryExpr); ok && u.Op == token.AND {
			if v, f, ok := ls.lvalueRootQuiet(c, u.X); ok && (ls.fields[f].kind == fkPlain || ls.fields[f].kind == fkGroup) {
				// for i, x := range &v.f: iterates the array in place — a read of the field
				ls.emit(c, t.X, v, f, false, false)
				ls.scanIndexParts(c, u.X)
				if t.Tok == token.DEFINE && t.Value != nil {
					if id, ok := t.Value.(*ast.Ident); ok && id.Name != "_" && ls.mayRef(ls.fields[f].typeExpr, 0) {
						c.setAlias(id.Name, v, f, true)
					}
				}
				ls.loop(c, func() {
					if t.Tok == token.ASSIGN {
						if t.Key != nil {
							ls.scanLvalue(c, t.Key)
						}
						if t.Value != nil {
							ls.scanLvalue(c, t.Value)
						}
					}
					ls.scanBlock(c, t.Body)
				})
				return
			}
		}
		ls.scanExpr(c, t.X)
		if t.Tok == token.DEFINE && t.Value != nil {
			if id, ok := t.Value.(*ast.Ident); ok && id.Name != "_" {
				if v, f, ok := ls.valueAliasOf(c, &ast.IndexExpr{X: t.X, Index: ast.NewIdent("_")}); ok {
					c.setAlias(id.Name, v, f, true) // for _, m := range v.f: m shares memory with the field
				}
			}
		}
		ls.loop(c, func() {
			if t.Tok == token.ASSIGN {
				if t.Key != nil {
					ls.scanLvalue(c, t.Key)
				}
				if t.Value != nil {
					ls.scanLvalue(c, t.Value)
				}
			}
			ls.scanBlock(c, t.Body)
		})
	case *ast.SwitchStmt:
		ls.scanStmt(c, t.Init)
		if t.Tag != nil {
			ls.scanExpr(c, t.Tag)
		}
		ls.clauses(c, t.Body, false)
	case *ast.TypeSwitchStmt:
		ls.scanStmt(c, t.Init)
		ls.scanStmt(c, t.Assign)
		ls.clauses(c, t.Body, false)
	case *ast.SelectStmt:
		ls.clauses(c, t.Body, true)
	case *ast.DeferStmt:
		ls.scanDeferredOrGo(c, t.Call, true)
	case *ast.GoStmt:
		ls.scanDeferredOrGo(c, t.Call, false)
		c.published = true
	case *ast.SendStmt:
		ls.scanExpr(c, t.Chan)
		ls.scanExpr(c, t.Value)
	case *ast.LabeledStmt:
		ls.scanStmt(c, t.Stmt)
	case *ast.BranchStmt:
		switch t.Tok {
		case token.BREAK:
			if n := len(c.loops); n > 0 {
				lc := c.loops[n-1]
				if !lc.hasBr {
					lc.after, lc.hasBr = c.held.clone(), true
				} else {
					lc.after = meet(lc.after, c.held)
				}
			}
			// a break inside switch/select leaves only that statement; treating it as leaving the loop too is
			// the conservative direction (the sets only shrink)
			c.held = nil
		case token.CONTINUE:
			if n := len(c.loops); n > 0 {
				lc := c.loops[n-1]
				lc.head = meet(lc.head, c.held)
			}
			c.held = nil
		case token.GOTO:
			ls.emitUnknown(c, t, "", "goto")
		}
	case *ast.EmptyStmt:
	default:
		ls.emitUnknown(c, s, "", fmt.Sprintf("statement %T", s))
	}
}

func (ls *lockScanner) clauses(c *fnCtx, body *ast.BlockStmt, isSelect bool) {
	h0 := c.held.clone()
	var res heldSet
	first := true
	hasDefault := false
	add := func(h heldSet) {
		if first {
			res, first = h, false
			return
		}
		if res == nil {
			res = h
		} else if h != nil {
			res = meet(res, h)
		}
	}
	for _, cl := range body.List {
		switch cc := cl.(type) {
		case *ast.CaseClause:
			if cc.List == nil {
				hasDefault = true
			}
			h := ls.branch(c, h0, func() {
				for _, e := range cc.List {
					ls.scanExpr(c, e)
				}
				for _, s := range cc.Body {
					ls.scanStmt(c, s)
				}
			})
			add(h)
		case *ast.CommClause:
			if cc.Comm == nil {
				hasDefault = true
			}
			h := ls.branch(c, h0, func() {
				ls.scanStmt(c, cc.Comm)
				for _, s := range cc.Body {
					ls.scanStmt(c, s)
				}
			})
			add(h)
		}
	}
	if !hasDefault && !isSelect {
		add(h0)
	}
	if first {
		res = h0
	}
	// a `break` inside a clause was recorded as leaving the enclosing loop and ends the clause: the statement
	// after the switch/select is reachable with the held set of that point, which is below h0 only if a lock
	// was released in the clause; stay conservative by meeting with nothing more than the clauses themselves,
	// and never claim unreachability for the code after a switch/select.
	if res == nil {
		res = h0
	}
	c.held = res
}

// scanDeferredOrGo: arguments are evaluated now, the body runs later (defer: at function exit, go: in
// another goroutine) — with no lock assumed held.
func (ls *lockScanner) scanDeferredOrGo(c *fnCtx, call *ast.CallExpr, isDefer bool) {
	// defer v.mu.Unlock(): the lock stays held to the end of the function
	if isDefer {
		if _, f, op, ok := ls.lockOp(c, call); ok && (op == "Unlock" || op == "RUnlock") {
			if c.closures == 0 {
				if c.deferredUnlock == nil {
					c.deferredUnlock = map[string]bool{}
				}
				c.deferredUnlock[f] = true
			}
			return
		}
	}
	if isDefer {
		markDeferred := func(l string) {
			if c.closures == 0 {
				if c.deferredUnlock == nil {
					c.deferredUnlock = map[string]bool{}
				}
				c.deferredUnlock[l] = true
			}
		}
		if inner, ok := call.Fun.(*ast.CallExpr); ok && len(call.Args) == 0 {
			// defer v.lock()(): v.lock() runs now and returns the unlock, which runs at the end
			c.lastCallUnlock = ""
			ls.scanExpr(c, inner)
			if l := c.lastCallUnlock; l != "" {
				c.lastCallUnlock = ""
				markDeferred(l)
				return
			}
			return // an unknown function value deferred: its call was scanned, what it returns runs at the end unseen
		}
		if id, ok := call.Fun.(*ast.Ident); ok && len(call.Args) == 0 {
			if l, isU := c.unlockFns[id.Name]; isU { // defer unlock()
				markDeferred(l)
				return
			}
		}
	}
	for _, a := range call.Args {
		ls.scanExpr(c, a)
	}
	saved := c.held
	c.held = heldSet{}
	if !isDefer {
		c.noPrepub++
	}
	// defer v.f.Add(-1) / go v.f.Store(x) with f of a sync/atomic type: the same atomic access as the plain call
	if se, ok := call.Fun.(*ast.SelectorExpr); ok {
		if v, f, ok := ls.trackedField(c, se.X); ok && ls.fields[f].kind == fkAtomic {
			ls.emit(c, call, v, f, atomicWriteMethods[se.Sel.Name], true)
			if se.Sel.Name != "Load" && !atomicWriteMethods[se.Sel.Name] {
				ls.emitUnknown(c, call, f, "method "+se.Sel.Name+" of an atomic value")
			}
			c.held = saved
			if !isDefer {
				c.noPrepub--
			}
			return
		}
	}
	switch f := call.Fun.(type) {
	case *ast.FuncLit:
		c.closures++
		ls.scanBlock(c, f.Body)
		c.closures--
	default:
		if m, ok := ls.ownMethodCall(c, call); ok && !isDefer {
			// go v.m(): m is the entry point of a thread of its own; its accesses are listed under its own name
			ls.spawn(m)
		} else if !ls.inlineMethod(c, call) {
			ls.scanExpr(c, call.Fun)
		}
	}
	if !isDefer {
		c.noPrepub--
	}
	c.held = saved
}

// lockOp: call is v.<lockfield>.<Lock|Unlock|RLock|RUnlock|TryLock|TryRLock>()
var lockMethods = map[string]bool{"Lock": true, "Unlock": true, "RLock": true, "RUnlock": true, "TryLock": true, "TryRLock": true}

// lockRef: e denotes a mutex of a tracked variable: v.L, v.st (group with a promoted lock), v itself (mutex embedded
// in the type), or a local alias mu := &v.L
func (ls *lockScanner) lockRef(c *fnCtx, e ast.Expr) (string, string, bool) {
	if p, ok := e.(*ast.ParenExpr); ok {
		e = p.X
	}
	if id, ok := e.(*ast.Ident); ok {
		if l, ok := c.lockAlias[id.Name]; ok {
			return "", l, true
		}
		if vi := c.vars[id.Name]; vi != nil && ls.embLock != "" && !vi.copy {
			return id.Name, ls.embLock, true
		}
		return "", "", false
	}
	v, f, ok := ls.trackedField(c, e)
	if !ok {
		return "", "", false
	}
	fi := ls.fields[f]
	if fi.kind == fkGroup && fi.promLock != "" {
		f, fi = fi.promLock, ls.fields[fi.promLock]
	}
	if fi.kind != fkLock {
		return "", "", false
	}
	if vi := c.vars[v]; vi != nil && vi.copy {
		if _, ptr := fi.typeExpr.(*ast.StarExpr); !ptr {
			return "", "", false // the copy's own mutex protects nothing of the original
		}
	}
	return v, f, true
}

func (ls *lockScanner) lockOp(c *fnCtx, call *ast.CallExpr) (string, string, string, bool) {
	se, ok := call.Fun.(*ast.SelectorExpr)
	if !ok || !lockMethods[se.Sel.Name] {
		return "", "", "", false
	}
	v, f, ok := ls.lockRef(c, se.X)
	if !ok {
		return "", "", "", false
	}
	op := se.Sel.Name
	if id, isId := se.X.(*ast.Ident); isId && c.rlocker[id.Name] {
		switch op { // rl := v.L.RLocker(): a sync.Locker whose Lock / Unlock are RLock / RUnlock
		case "Lock":
			op = "RLock"
		case "Unlock":
			op = "RUnlock"
		default:
			op = "?" + op
		}
	}
	return v, f, op, true
}

// tryCall: e is x.TryLock() / x.TryRLock() on a mutex of the object
func (ls *lockScanner) tryCall(c *fnCtx, e ast.Expr) (string, string, bool) {
	call, ok := e.(*ast.CallExpr)
	if !ok || len(call.Args) != 0 {
		return "", "", false
	}
	_, f, op, ok := ls.lockOp(c, call)
	if !ok {
		return "", "", false
	}
	switch op {
	case "TryLock":
		return f, "Ex", true
	case "TryRLock":
		return f, "Sh", true
	}
	return "", "", false
}

// tryCond: the condition of an if is exactly [!] x.TryLock() or [!] ok with ok := x.TryLock() never assigned again
func (ls *lockScanner) tryCond(c *fnCtx, e ast.Expr) (lock, mode string, neg, ok bool) {
	for {
		if p, isP := e.(*ast.ParenExpr); isP {
			e = p.X
			continue
		}
		break
	}
	if u, isU := e.(*ast.UnaryExpr); isU && u.Op == token.NOT {
		neg = true
		e = u.X
		for {
			if p, isP := e.(*ast.ParenExpr); isP {
				e = p.X
				continue
			}
			break
		}
	}
	if id, isId := e.(*ast.Ident); isId {
		if tb, has := c.tryBools[id.Name]; has {
			return tb[0], tb[1], neg, true
		}
		return "", "", false, false
	}
	if lk, md, isTry := ls.tryCall(c, e); isTry {
		return lk, md, neg, true
	}
	return "", "", false, false
}

// unlockValue: e is the method value v.L.Unlock / v.L.RUnlock (not called)
func (ls *lockScanner) unlockValue(c *fnCtx, e ast.Expr) (string, bool) {
	se, ok := e.(*ast.SelectorExpr)
	if !ok || (se.Sel.Name != "Unlock" && se.Sel.Name != "RUnlock") {
		return "", false
	}
	_, f, ok := ls.lockRef(c, se.X)
	return f, ok
}

// lockAddr: e is &v.L, or v.L for a pointer-typed lock field
func (ls *lockScanner) lockAddr(c *fnCtx, e ast.Expr) (string, bool) {
	if u, ok := e.(*ast.UnaryExpr); ok && u.Op == token.AND {
		if _, isId := u.X.(*ast.Ident); isId {
			return "", false
		}
		_, f, ok := ls.lockRef(c, u.X)
		return f, ok
	}
	if _, isId := e.(*ast.Ident); isId {
		return "", false
	}
	if _, f, ok := ls.lockRef(c, e); ok {
		if _, ptr := ls.fields[f].typeExpr.(*ast.StarExpr); ptr {
			return f, true
		}
	}
	return "", false
}

// runClosure scans a function literal of the caller that an inlined own method calls (f.update(func(){…})):
// with the variables of where it was written and the locks held where it is called.
func (ls *lockScanner) runClosure(ca *closureArg, held heldSet) {
	ls.runClosureFrom(ca, held, nil, nil)
}

// runClosureFrom: called as fn(args) in ctx caller: parameters of the literal that receive the tracked object are
// the object (func(f *T) { … } called as fn(f))
func (ls *lockScanner) runClosureFrom(ca *closureArg, held heldSet, caller *fnCtx, args []ast.Expr) {
	o := ca.owner
	saved := o.held
	o.held = held.clone()
	if o.held == nil {
		o.held = heldSet{}
	}
	shadow := map[string]*varInfo{}
	var added []string
	if caller != nil && ca.lit.Type.Params != nil {
		i := 0
		for _, p := range ca.lit.Type.Params.List {
			for _, n := range p.Names {
				if i < len(args) {
					if aid, ok := args[i].(*ast.Ident); ok && caller.vars[aid.Name] != nil {
						if old, had := o.vars[n.Name]; had {
							shadow[n.Name] = old
						} else {
							added = append(added, n.Name)
						}
						o.vars[n.Name] = caller.vars[aid.Name]
					}
				}
				i++
			}
		}
		o.noPrepub += caller.noPrepub
	}
	o.closures++
	ls.scanBlock(o, ca.lit.Body)
	o.closures--
	if caller != nil {
		o.noPrepub -= caller.noPrepub
	}
	for k, v := range shadow {
		o.vars[k] = v
	}
	for _, k := range added {
		delete(o.vars, k)
	}
	o.held = saved
	ca.scanned = true
}

var atomicWriteMethods = map[string]bool{"Store": true, "Add": true, "Swap": true, "CompareAndSwap": true, "And": true, "Or": true}

// known interface / immutable-value types of other packages: a method call through such a field reads the field
var readOnlyForeignTypes = map[string]bool{
	"context.Context": true, "error": true, "io.Writer": true, "io.Reader": true, "io.Closer": true, "io.ReadCloser": true,
	"io.WriteCloser": true, "http.Handler": true, "http.ResponseWriter": true, "slog.Handler": true, "slog.Leveler": true,
	"time.Duration": true, "time.Time": true, "any": true, "slog.Level": true, "net.IP": true, "fmt.Stringer": true,
}

// methodCallOnFieldReads: calling a method through field f cannot modify the field itself.
func (ls *lockScanner) methodCallOnFieldReads(fi *fieldInfo) bool {
	switch t := fi.typeExpr.(type) {
	case *ast.StarExpr, *ast.InterfaceType, *ast.FuncType, *ast.MapType, *ast.ChanType:
		return true
	case *ast.ArrayType:
		return t.Len == nil
	case *ast.Ident:
		if d, ok := ls.pkgTypes[t.Name]; ok {
			switch d.(type) {
			case *ast.InterfaceType, *ast.FuncType, *ast.MapType, *ast.StarExpr, *ast.ChanType:
				return true
			case *ast.Ident: // named basic type: value semantics unless pointer-receiver methods; stay conservative
				return false
			}
			return false
		}
		// predeclared types have no methods
		return true
	case *ast.SelectorExpr:
		return readOnlyForeignTypes[typeString(t)]
	}
	return false
}

// ownMethodCall: call is v.m(...) with v tracked and m a method of the type.
func (ls *lockScanner) ownMethodCall(c *fnCtx, call *ast.CallExpr) (string, bool) {
	se, ok := call.Fun.(*ast.SelectorExpr)
	if !ok {
		return "", false
	}
	id, ok := se.X.(*ast.Ident)
	if !ok || c.vars[id.Name] == nil {
		return "", false
	}
	if _, isField := ls.fields[se.Sel.Name]; isField {
		return "", false
	}
	if ls.methods[se.Sel.Name] == nil {
		return "", false
	}
	return se.Sel.Name, true
}

func (ls *lockScanner) spawn(m string) {
	for _, x := range ls.spawned {
		if x == m {
			return
		}
	}
	ls.spawned = append(ls.spawned, m)
}

func (ls *lockScanner) inlineMethod(c *fnCtx, call *ast.CallExpr) bool {
	se, ok := call.Fun.(*ast.SelectorExpr)
	if !ok {
		return false
	}
	id, ok := se.X.(*ast.Ident)
	if !ok {
		return false
	}
	vi := c.vars[id.Name]
	if vi == nil {
		return false
	}
	if _, isField := ls.fields[vi.prefix+se.Sel.Name]; isField {
		return false
	}
	md := ls.methods[se.Sel.Name]
	if vi.prefix != "" { // a nested struct: its own type's methods
		md = nil
		if g := ls.fields[strings.TrimSuffix(vi.prefix, ".")]; g != nil {
			md = ls.typeMethods[g.typ][se.Sel.Name]
		}
	}
	if md == nil {
		ls.emitUnknown(c, call, "", "call of unknown method "+se.Sel.Name+" on the object")
		return true
	}
	_, rn := recvTypeName(md)
	return ls.inlineDecl(c, call, md, rn, vi)
}

// inlineFunc: a function of the package called with the object (or a pointer into it, or a function literal that
// uses it) as an argument, e.g. insertLocked(f, nip, ones) while the lock is held
func (ls *lockScanner) inlineFunc(c *fnCtx, call *ast.CallExpr, fd *ast.FuncDecl) bool {
	return ls.inlineDecl(c, call, fd, "", nil)
}

func (ls *lockScanner) inlineDecl(c *fnCtx, call *ast.CallExpr, md *ast.FuncDecl, rn string, vi *varInfo) bool {
	for _, s := range c.stack {
		if s == md.Name.Name {
			ls.emitUnknown(c, call, "", "recursive call of "+md.Name.Name)
			return true
		}
	}
	sub := &fnCtx{fn: c.fn, vars: map[string]*varInfo{}, held: c.held.clone(), published: c.published, noPrepub: c.noPrepub,
		stack: append(append([]string{}, c.stack...), md.Name.Name)}
	if vi != nil {
		sub.vars[rn] = vi
	}
	if sub.held == nil {
		sub.held = heldSet{}
	}
	// other parameters of our type bound to tracked arguments
	if md.Type.Params != nil {
		i := 0
		for _, p := range md.Type.Params.List {
			for _, n := range p.Names {
				if i < len(call.Args) {
					if aid, ok := call.Args[i].(*ast.Ident); ok && c.vars[aid.Name] != nil {
						sub.vars[n.Name] = c.vars[aid.Name]
					}
					// pointers into / values of fields keep their meaning in the callee: ln := &v.lanes[i]; offerOwn(ln, t)
					if aid, ok := call.Args[i].(*ast.Ident); ok {
						if pf, isA := c.ptrs[aid.Name]; isA {
							sub.setAlias(n.Name, pf[0], pf[1], c.valAlias[aid.Name])
							if sub.vars[pf[0]] == nil && c.vars[pf[0]] != nil {
								sub.vars[pf[0]] = c.vars[pf[0]] // the object the alias points into (for prepub / copy flags)
							}
						}
					}
				}
				i++
			}
		}
	}
	// function literals of the caller handed to the callee: scanned where the callee calls them
	var bound []*closureArg
	if md.Type.Params != nil {
		i := 0
		for _, p := range md.Type.Params.List {
			for _, n := range p.Names {
				if i < len(call.Args) {
					if fl, ok := call.Args[i].(*ast.FuncLit); ok {
						if sub.funcParams == nil {
							sub.funcParams = map[string]*closureArg{}
						}
						ca := &closureArg{lit: fl, owner: c}
						sub.funcParams[n.Name] = ca
						bound = append(bound, ca)
					} else if aid, ok := call.Args[i].(*ast.Ident); ok && c.funcParams[aid.Name] != nil {
						if sub.funcParams == nil {
							sub.funcParams = map[string]*closureArg{}
						}
						sub.funcParams[n.Name] = c.funcParams[aid.Name]
					}
				}
				i++
			}
		}
	}
	before := c.held
	ls.scanBlock(sub, md.Body)
	for _, ca := range bound {
		if !ca.scanned { // never called by the callee as far as the scan can see: runs at an unknown time
			c.noPrepub++
			ls.runClosure(ca, heldSet{})
			c.noPrepub--
		}
	}
	c.lastCallUnlock = sub.retUnlock
	// the callee's net effect on the locks: what it holds where it returns (at the end of its body and at its
	// return statements), minus what its deferred Unlocks release — f.lock() takes a lock for the caller, a
	// callee may also release the caller's
	exit := sub.held
	if sub.hasRet {
		exit = meet(exit, sub.retHeld)
	}
	if exit == nil { // the callee never returns
		c.held = before
	} else {
		exit = exit.clone()
		for l := range sub.deferredUnlock {
			delete(exit, l)
		}
		c.held = exit
	}
	if sub.published {
		c.published = true
	}
	return true
}

func (ls *lockScanner) scanExpr(c *fnCtx, e ast.Expr) {
	if e == nil {
		return
	}
	ast.Inspect(e, func(n ast.Node) bool {
		switch t := n.(type) {
		case *ast.CallExpr:
			return ls.scanCall(c, t)
		case *ast.SelectorExpr:
			if v, f, ok := ls.trackedField(c, t); ok {
				if fi := ls.fields[f]; fi.kind == fkLock {
					// every legitimate use (v.mu.Lock() …, defer v.mu.Unlock()) was taken before getting here
					ls.emitLockEscape(c, t, f, "the lock is aliased, copied or passed on (not a direct Lock/Unlock call)")
					return false
				}
				if vi := c.vars[v]; vi != nil && vi.copy && !ls.mayRef(ls.fields[f].typeExpr, 0) {
					return false // scalar field of a private copy
				}
				ls.emit(c, t, v, f, false, false)
				return false
			}
			if id, ok := t.X.(*ast.Ident); ok && c.vars[id.Name] != nil {
				if md := ls.methods[t.Sel.Name]; md != nil {
					// method value v.m (not called here): runs at an unknown time, with no lock assumed held
					saved := c.held
					c.held = heldSet{}
					c.noPrepub++
					fake := &ast.CallExpr{Fun: t}
					ls.inlineMethod(c, fake)
					c.noPrepub--
					c.held = saved
					return false
				}
			}
			ls.scanExpr(c, t.X) // not the selector's name
			return false
		case *ast.StarExpr:
			if v, ok := structCopyOf(c, t); ok {
				ls.emitAllReads(c, t, v)
				return false
			}
			return true
		case *ast.Ident:
			if pf, ok := c.ptrs[t.Name]; ok {
				ls.emit(c, t, pf[0], pf[1], false, false) // use of p / *p / p[i] / p.x: a read through the pointer
			}
			if l, ok := c.lockAlias[t.Name]; ok {
				// every mu.Lock() / mu.Unlock() / defer mu.Unlock() was taken before getting here: the alias escapes
				ls.emitLockEscape(c, t, l, "a local alias of the lock is passed on, stored or returned")
			}
			if l, ok := c.unlockFns[t.Name]; ok {
				ls.emitLockEscape(c, t, l, "the unlock function of the lock is passed on, stored or returned")
			}
			if ca := c.funcParams[t.Name]; ca != nil {
				// the caller's function literal handed on as a value (go fn(), defer fn(), stored): runs at an unknown time
				c.noPrepub++
				ls.runClosure(ca, heldSet{})
				c.noPrepub--
			}
			return true
		case *ast.KeyValueExpr:
			ls.scanExpr(c, t.Value) // not the key (a field name in struct literals)
			if _, isId := t.Key.(*ast.Ident); !isId {
				ls.scanExpr(c, t.Key)
			}
			return false
		case *ast.UnaryExpr:
			if t.Op == token.AND {
				if _, isLit := t.X.(*ast.CompositeLit); !isLit {
					if v, f, ok := ls.lvalueRootQuiet(c, t.X); ok {
						fi := ls.fields[f]
						if fi.kind == fkPlain || fi.kind == fkAtomic {
							ls.emitUnknownOn(c, t, v, f, "address of the field taken")
							// index expressions inside are still read
							ls.scanIndexParts(c, t.X)
							return false
						}
					}
				}
			}
			return true
		case *ast.FuncLit:
			// closure value that is not called on the spot: runs at an unknown time, with no lock assumed held
			saved := c.held
			c.held = heldSet{}
			c.noPrepub++
			c.closures++
			ls.scanBlock(c, t.Body)
			c.closures--
			c.noPrepub--
			c.held = saved
			return false
		case *ast.CompositeLit:
			if t.Type != nil && isTypeT(t.Type, ls.typeName) {
				ls.scanOwnLiteral(c, t)
				return false
			}
			return true
		}
		return true
	})
}

// lvalueRootQuiet: like lvalueRoot but without recording the reads of index expressions.
func (ls *lockScanner) lvalueRootQuiet(c *fnCtx, e ast.Expr) (string, string, bool) {
	for {
		if v, f, ok := ls.trackedField(c, e); ok {
			return v, f, true
		}
		switch t := e.(type) {
		case *ast.ParenExpr:
			e = t.X
		case *ast.IndexExpr:
			e = t.X
		case *ast.SliceExpr:
			e = t.X
		case *ast.StarExpr:
			e = t.X
		case *ast.SelectorExpr:
			e = t.X
		case *ast.Ident:
			if pf, ok := c.ptrs[t.Name]; ok { // rooted at a local alias: list := v.f[:n]; &list[i]
				return pf[0], pf[1], true
			}
			return "", "", false
		default:
			return "", "", false
		}
	}
}

func hasSlice(e ast.Expr) bool {
	for {
		switch t := e.(type) {
		case *ast.SliceExpr:
			return true
		case *ast.ParenExpr:
			e = t.X
		case *ast.IndexExpr:
			e = t.X
		case *ast.StarExpr:
			e = t.X
		case *ast.SelectorExpr:
			e = t.X
		default:
			return false
		}
	}
}

func (ls *lockScanner) scanIndexParts(c *fnCtx, e ast.Expr) {
	for {
		switch t := e.(type) {
		case *ast.ParenExpr:
			e = t.X
		case *ast.IndexExpr:
			ls.scanExpr(c, t.Index)
			e = t.X
		case *ast.SliceExpr:
			for _, x := range []ast.Expr{t.Low, t.High, t.Max} {
				ls.scanExpr(c, x)
			}
			e = t.X
		case *ast.StarExpr:
			e = t.X
		case *ast.SelectorExpr:
			e = t.X
		default:
			return
		}
	}
}

// scanOwnLiteral: T{f: v, …} creates a fresh object; its keyed fields are written before publication.
func (ls *lockScanner) scanOwnLiteral(c *fnCtx, cl *ast.CompositeLit) {
	const lit = "<literal>"
	saved, had := c.vars[lit]
	c.vars[lit] = &varInfo{fresh: true}
	for i, el := range cl.Elts {
		if kv, ok := el.(*ast.KeyValueExpr); ok {
			if k, isId := kv.Key.(*ast.Ident); isId {
				if _, f, isF := ls.trackedField(c, kv.Value); isF && f == k.Name && ls.fields[f].kind == fkLock {
					if _, ptr := ls.fields[f].typeExpr.(*ast.StarExpr); ptr {
						continue // outMu: h.outMu — the clone shares the (pointer to the) lock
					}
				}
			}
			ls.scanExpr(c, kv.Value)
			if k, ok := kv.Key.(*ast.Ident); ok {
				ls.emit(c, kv, lit, k.Name, true, false)
			}
		} else {
			ls.scanExpr(c, el)
			if i < len(ls.order) {
				ls.emit(c, el, lit, ls.order[i], true, false)
			}
		}
	}
	if had {
		c.vars[lit] = saved
	} else {
		delete(c.vars, lit)
	}
}

// scanCall handles one call; returns whether ast.Inspect should descend by itself.
func (ls *lockScanner) scanCall(c *fnCtx, call *ast.CallExpr) bool {
	// 1. lock operations
	if _, f, op, ok := ls.lockOp(c, call); ok {
		if c.held == nil {
			c.held = heldSet{}
		}
		switch op {
		case "Lock":
			c.held[f] = "Ex"
		case "RLock":
			if c.held[f] != "Ex" {
				c.held[f] = "Sh"
			}
		case "Unlock", "RUnlock":
			delete(c.held, f)
		case "TryLock", "TryRLock":
			// acquired only when it returns true: not counted (conservative)
		default:
			ls.emitUnknown(c, call, "", "method "+op+" of the mutex")
		}
		return false
	}
	if id, ok := call.Fun.(*ast.Ident); ok {
		if l, isU := c.unlockFns[id.Name]; isU { // unlock()
			if c.held != nil {
				delete(c.held, l)
			}
			return false
		}
		if ca := c.funcParams[id.Name]; ca != nil { // fn(): the caller's function literal runs here, under our locks
			for _, a := range call.Args {
				if aid, ok := a.(*ast.Ident); ok && c.vars[aid.Name] != nil {
					continue // fn(f): bound to the literal's parameter
				}
				ls.scanArg(c, a)
			}
			ls.runClosureFrom(ca, c.held, c, call.Args)
			return false
		}
		// a function of the package that is handed the object, a pointer into it or a function literal: inline
		if fd := ls.funcs[id.Name]; fd != nil && fd.Body != nil {
			takes := false
			for _, a := range call.Args {
				switch t := a.(type) {
				case *ast.Ident:
					if c.vars[t.Name] != nil || c.ptrs[t.Name] != [2]string{} || c.funcParams[t.Name] != nil {
						takes = true
					}
				case *ast.FuncLit:
					takes = true
				}
			}
			if takes && !ls.returnsFresh(fd) {
				for _, a := range call.Args {
					switch t := a.(type) {
					case *ast.FuncLit:
						continue
					case *ast.Ident:
						if c.vars[t.Name] != nil || c.ptrs[t.Name] != [2]string{} || c.funcParams[t.Name] != nil {
							continue
						}
					}
					ls.scanArg(c, a)
				}
				ls.inlineFunc(c, call, fd)
				return false
			}
		}
	}
	switch fun := call.Fun.(type) {
	case *ast.SelectorExpr:
		// 2. v.f.M(...)
		if v, f, ok := ls.trackedField(c, fun.X); ok {
			fi := ls.fields[f]
			switch {
			case fi.kind == fkSkip:
			case fi.kind == fkAtomic:
				ls.emit(c, call, v, f, atomicWriteMethods[fun.Sel.Name], true)
				if fun.Sel.Name != "Load" && !atomicWriteMethods[fun.Sel.Name] {
					ls.emitUnknown(c, call, f, "method "+fun.Sel.Name+" of an atomic value")
				}
			case fi.kind == fkGroup && ls.typeMethods[fi.typ][fun.Sel.Name] != nil:
				// v.ids.next(): a method of the nested struct, inlined with its receiver standing for v.ids
				md := ls.typeMethods[fi.typ][fun.Sel.Name]
				base := c.vars[v]
				nv := &varInfo{fresh: base.fresh, copy: base.copy, prefix: f + "."}
				for _, a := range call.Args {
					if _, isLit := a.(*ast.FuncLit); isLit {
						continue
					}
					ls.scanArg(c, a)
				}
				_, rn := recvTypeName(md)
				ls.inlineDecl(c, call, md, rn, nv)
				return false
			case ls.methodCallOnFieldReads(fi):
				ls.emit(c, call, v, f, false, false)
			default:
				ls.emitUnknown(c, call, f, "method "+fun.Sel.Name+" called on a "+fi.typ+" field (may modify it in place)")
			}
			for _, a := range call.Args {
				ls.scanArg(c, a)
			}
			return false
		}
		// 3. atomic.XxxT(&v.f, ...)
		if x, ok := fun.X.(*ast.Ident); ok && x.Name == "atomic" && len(call.Args) >= 1 {
			if u, ok := call.Args[0].(*ast.UnaryExpr); ok && u.Op == token.AND {
				if v, f, ok := ls.lvalueRootQuiet(c, u.X); ok {
					name := fun.Sel.Name
					isLoad := strings.HasPrefix(name, "Load")
					isWrite := strings.HasPrefix(name, "Store") || strings.HasPrefix(name, "Add") || strings.HasPrefix(name, "Swap") ||
						strings.HasPrefix(name, "CompareAndSwap") || strings.HasPrefix(name, "And") || strings.HasPrefix(name, "Or")
					if isLoad || isWrite {
						ls.emit(c, call, v, f, isWrite, true)
					} else {
						ls.emitUnknown(c, call, f, "atomic."+name)
					}
					ls.scanIndexParts(c, u.X)
					for _, a := range call.Args[1:] {
						ls.scanArg(c, a)
					}
					return false
				}
			}
		}
		// 4. v.method(...): inline
		if id, ok := fun.X.(*ast.Ident); ok && c.vars[id.Name] != nil {
			if _, isField := ls.fields[fun.Sel.Name]; !isField {
				for _, a := range call.Args {
					if _, isLit := a.(*ast.FuncLit); isLit && ls.methods[fun.Sel.Name] != nil {
						continue // bound to the callee's parameter, scanned where the callee calls it
					}
					ls.scanArg(c, a)
				}
				ls.inlineMethod(c, call)
				return false
			}
		}
	case *ast.Ident:
		switch fun.Name {
		case "delete", "clear", "copy":
			if len(call.Args) >= 1 {
				if v, f, ok := ls.lvalueRoot(c, call.Args[0]); ok {
					ls.emit(c, call, v, f, true, false)
				}
				for _, a := range call.Args[1:] {
					ls.scanArg(c, a)
				}
				return false
			}
		case "append":
			// append may write into the shared backing array of its first argument
			if len(call.Args) >= 1 {
				if v, f, ok := ls.lvalueRootQuiet(c, call.Args[0]); ok {
					ls.emit(c, call, v, f, true, false)
				} else if id, ok := call.Args[0].(*ast.Ident); ok {
					if pf, isA := c.ptrs[id.Name]; isA {
						ls.emit(c, call, pf[0], pf[1], true, false)
					}
				}
			}
			return true
		case "new", "make", "len", "cap", "min", "max", "panic", "recover", "print", "println":
			return true
		}
	case *ast.FuncLit:
		// 5. func(){…}() runs here, with what is held here
		for _, a := range call.Args {
			ls.scanArg(c, a)
		}
		before := c.held.clone()
		c.closures++
		ls.scanBlock(c, fun.Body)
		c.closures--
		end := c.held
		if end == nil {
			end = before
		}
		c.held = meet(before, end)
		return false
	}
	// generic call: the function expression and the arguments are read; the object itself handed to
	// foreign code is beyond the scan
	ls.scanExpr(c, call.Fun)
	for _, a := range call.Args {
		ls.scanArg(c, a)
	}
	return false
}

// scanArg: an argument expression; handing the whole object to other code cannot be followed.
func (ls *lockScanner) scanArg(c *fnCtx, a ast.Expr) {
	if id, ok := a.(*ast.Ident); ok {
		if pf, isPtr := c.ptrs[id.Name]; isPtr && !c.valAlias[id.Name] {
			ls.emitUnknown(c, a, pf[1], "pointer to the field passed to other code")
			return
		}
		if vi := c.vars[id.Name]; vi != nil {
			if !(vi.fresh && !c.published && c.noPrepub == 0) {
				ls.emitUnknown(c, a, "", "the object itself is passed to other code")
			}
			return
		}
	}
	ls.scanExpr(c, a)
}
