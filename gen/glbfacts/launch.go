package main

import (
	"fmt"
	"go/ast"
	"go/parser"
	"go/token"
	"path/filepath"
	"strings"
)

// ---------------------------------------------------------------------------------------------
// launch: the order of the launcher's actions in daemon/daemon.go func launch.
//
//	signal.Notify(ch, …)                       ANotify      (handler installed: SIGINT goes to ch)
//	cmd.Start()                                AStart       (the daemon process exists)
//	binary.Write(os.Stdout, …) / os.Stdout.W…  AWritePid
//	go func() { … cmd.Wait() … }()             ASpawnWait
//	select { case <-ch: … }                    ASelect      (must receive from the Notify channel)
//
// Statements are walked in source order, branches in place (the error branch of `if err :=
// cmd.Start()` only reports and returns). Bookkeeping that cannot change the order of these
// actions (make, exec.Command, append, os.Environ, conversions, close, os.Stderr.Write,
// signal.Stop, err.Error, the verifPause hook) is ignored. Everything else is an AUnknown entry,
// and so is every recognised shape that is missing: the model's well-formedness check then fails.
// ---------------------------------------------------------------------------------------------

type launchScan struct {
	fset       *token.FileSet
	acts       []string
	notifyChan string
}

func coqString(s string) string {
	var b strings.Builder
	b.WriteByte('"')
	for _, r := range s {
		switch {
		case r == '"':
			b.WriteString(`""`)
		case r < 32 || r > 126:
			b.WriteByte('?')
		default:
			b.WriteRune(r)
		}
	}
	b.WriteByte('"')
	return b.String()
}

func (l *launchScan) unknown(n ast.Node, what string) {
	p := l.fset.Position(n.Pos())
	l.acts = append(l.acts, "AUnknown "+coqString(fmt.Sprintf("%s (line %d)", what, p.Line)))
}

func callName(e ast.Expr) string {
	switch t := e.(type) {
	case *ast.Ident:
		return t.Name
	case *ast.SelectorExpr:
		return callName(t.X) + "." + t.Sel.Name
	case *ast.ParenExpr:
		return callName(t.X)
	case *ast.ArrayType, *ast.MapType, *ast.ChanType, *ast.StarExpr, *ast.FuncType, *ast.InterfaceType:
		return "<conversion>"
	case *ast.CallExpr:
		return callName(t.Fun) + "()"
	case *ast.IndexExpr:
		return callName(t.X)
	case *ast.FuncLit:
		return "<func literal>"
	}
	return fmt.Sprintf("<%T>", e)
}

var launchIgnored = map[string]bool{
	"make": true, "append": true, "len": true, "cap": true, "close": true, "new": true,
	"exec.Command": true, "os.Environ": true, "os.Stderr.Write": true, "os.Stderr.WriteString": true,
	"signal.Stop": true, "err.Error": true, "verifPause": true, "<conversion>": true,
	"uint32": true, "uint64": true, "int": true, "int32": true, "int64": true, "uint": true, "string": true, "byte": true,
	"strconv.Itoa": true, "os.Getpid": true,
}

func mentionsStdout(call *ast.CallExpr) bool {
	found := false
	ast.Inspect(call, func(n ast.Node) bool {
		if se, ok := n.(*ast.SelectorExpr); ok {
			if id, ok := se.X.(*ast.Ident); ok && id.Name == "os" && se.Sel.Name == "Stdout" {
				found = true
			}
		}
		return true
	})
	return found
}

// calls classifies every call inside an expression, in source order (closures are not entered).
func (l *launchScan) calls(e ast.Node) {
	if e == nil {
		return
	}
	ast.Inspect(e, func(n ast.Node) bool {
		switch t := n.(type) {
		case *ast.FuncLit:
			l.unknown(t, "function literal outside a go statement")
			return false
		case *ast.CallExpr:
			name := callName(t.Fun)
			switch {
			case name == "signal.Notify":
				l.acts = append(l.acts, "ANotify")
				if len(t.Args) > 0 {
					if id, ok := t.Args[0].(*ast.Ident); ok {
						l.notifyChan = id.Name
					}
				}
			case strings.HasSuffix(name, ".Start") && len(t.Args) == 0 && strings.Count(name, ".") == 1:
				l.acts = append(l.acts, "AStart")
			case mentionsStdout(t) && (name == "binary.Write" || strings.HasPrefix(name, "os.Stdout.Write") || strings.HasPrefix(name, "fmt.Fprint")):
				l.acts = append(l.acts, "AWritePid")
				return false
			case launchIgnored[name]:
			default:
				l.unknown(t, "call "+name)
			}
			return true
		}
		return true
	})
}

func containsWait(b *ast.BlockStmt) bool {
	found := false
	ast.Inspect(b, func(n ast.Node) bool {
		if c, ok := n.(*ast.CallExpr); ok {
			if se, ok := c.Fun.(*ast.SelectorExpr); ok && se.Sel.Name == "Wait" && len(c.Args) == 0 {
				found = true
			}
		}
		return true
	})
	return found
}

func (l *launchScan) stmts(list []ast.Stmt, top bool) {
	for i, s := range list {
		l.stmt(s, top && i == len(list)-1, top)
	}
}

func (l *launchScan) stmt(s ast.Stmt, last, top bool) {
	switch t := s.(type) {
	case nil, *ast.EmptyStmt:
	case *ast.AssignStmt:
		for _, r := range t.Rhs {
			l.calls(r)
		}
		for _, x := range t.Lhs {
			l.calls(x)
		}
	case *ast.DeclStmt:
		l.calls(t)
	case *ast.ExprStmt:
		l.calls(t.X)
	case *ast.IfStmt:
		l.stmt(t.Init, false, false)
		l.calls(t.Cond)
		l.stmts(t.Body.List, false)
		if t.Else != nil {
			l.stmt(t.Else, false, false)
		}
	case *ast.BlockStmt:
		l.stmts(t.List, false)
	case *ast.DeferStmt:
		name := callName(t.Call.Fun)
		if name == "signal.Stop" {
			return
		}
		l.unknown(t, "defer "+name)
	case *ast.GoStmt:
		if fl, ok := t.Call.Fun.(*ast.FuncLit); ok && containsWait(fl.Body) {
			l.acts = append(l.acts, "ASpawnWait")
			return
		}
		l.unknown(t, "go "+callName(t.Call.Fun))
	case *ast.SelectStmt:
		chans := map[string]bool{}
		hasDefault := false
		for _, cl := range t.Body.List {
			cc := cl.(*ast.CommClause)
			if cc.Comm == nil {
				hasDefault = true
				continue
			}
			var e ast.Expr
			switch c := cc.Comm.(type) {
			case *ast.ExprStmt:
				e = c.X
			case *ast.AssignStmt:
				if len(c.Rhs) == 1 {
					e = c.Rhs[0]
				}
			}
			if u, ok := e.(*ast.UnaryExpr); ok && u.Op == token.ARROW {
				if id, ok := u.X.(*ast.Ident); ok {
					chans[id.Name] = true
				}
			}
			for _, b := range cc.Body {
				l.stmt(b, false, false)
			}
		}
		switch {
		case hasDefault:
			l.unknown(t, "select with a default case does not wait")
		case l.notifyChan == "" || !chans[l.notifyChan]:
			// the channel may be registered later in the source (then ANotify follows): compare by name at the end
			l.acts = append(l.acts, "ASelect?"+strings.Join(keys(chans), ","))
		default:
			l.acts = append(l.acts, "ASelect")
		}
		if !top {
			l.unknown(t, "select inside a branch")
		}
	case *ast.ReturnStmt:
		if top && !last {
			l.unknown(t, "return before the end of launch")
		}
	default:
		l.unknown(s, fmt.Sprintf("statement %T", s))
	}
}

func keys(m map[string]bool) []string {
	var r []string
	for k := range m {
		r = append(r, k)
	}
	return r
}

func cmdLaunch(repo string) error {
	fset := token.NewFileSet()
	path := filepath.Join(repo, "daemon", "daemon.go")
	f, err := parser.ParseFile(fset, path, nil, parser.SkipObjectResolution)
	if err != nil {
		return err
	}
	var fd *ast.FuncDecl
	for _, d := range f.Decls {
		if x, ok := d.(*ast.FuncDecl); ok && x.Recv == nil && x.Name.Name == "launch" && x.Body != nil {
			fd = x
		}
	}
	fmt.Printf("(* glbfacts launch: order of the launcher's actions in daemon/daemon.go func launch *)\n")
	if fd == nil {
		fmt.Printf("[AUnknown %s]\n", coqString("func launch not found in daemon/daemon.go"))
		return nil
	}
	l := &launchScan{fset: fset}
	l.stmts(fd.Body.List, true)
	// resolve selects seen before the Notify call was known
	for i, a := range l.acts {
		if strings.HasPrefix(a, "ASelect?") {
			ok := false
			for _, c := range strings.Split(a[len("ASelect?"):], ",") {
				if c != "" && c == l.notifyChan {
					ok = true
				}
			}
			if ok {
				l.acts[i] = "ASelect"
			} else {
				l.acts[i] = "AUnknown " + coqString("select does not receive from the channel given to signal.Notify")
			}
		}
	}
	for _, want := range []string{"ANotify", "AStart", "AWritePid", "ASpawnWait", "ASelect"} {
		found := false
		for _, a := range l.acts {
			if a == want {
				found = true
			}
		}
		if !found {
			l.acts = append(l.acts, "AUnknown "+coqString("missing "+want))
		}
	}
	fmt.Printf("[%s]\n", strings.Join(l.acts, "; "))
	return nil
}
