package main

import (
	"fmt"
	"go/ast"
	"go/token"
	"path/filepath"
	"sort"
	"strconv"
	"strings"
)

// ---------------------------------------------------------------------------------------------
// launch: the order of the launcher's actions in package daemon, func launch.
//
//	signal.Notify(ch, sig…)   ANotify            ch made in launch with a literal capacity >= 1 (capacity 0:
//	                                             ANotifyUnbuffered); the signals must include what Done() sends
//	x.Start()                 AStart             (the daemon process exists)
//	any write to os.Stdout    AWritePid          binary.Write(os.Stdout, …), os.Stdout.Write(…), fmt.Fprint(os.Stdout, …)
//	go func(){ … x.Wait() … ; close(c) | c <- … }()   ASpawnWait   (c is the "finished" channel)
//	select { case <-ch: case <-c: }              ASelect     every case must receive from ch or c
//
// Statements are walked in source order, branches in place; functions of the same package called from
// launch are inlined (parameters that are plain identifiers are renamed to the caller's names).
// Calls that cannot affect the hand-shake are not actions and are listed in a comment of the output:
// fmt.*, encoding/binary.*, strings/strconv/bytes/errors.*, writes to os.Stderr, sync/atomic operations,
// make/append/len/…, exec.Command and os.Environ (building the command), conversions, err.Error(), the
// verifPause hook, deferred signal.Stop. Everything else — in particular anything of os/signal, os/exec,
// *exec.Cmd (fields other than Env/Dir/Args included), *os.Process, syscall, os.Exit, panic, time, other
// go statements, channel operations outside the select, select cases that cannot be matched — is an
// AUnknown entry, and so is every recognised shape that is missing: the model's well-formedness check fails.
// ---------------------------------------------------------------------------------------------

type launchScan struct {
	fset           *token.FileSet
	funcs          map[string]*ast.FuncDecl   // plain functions of the package
	methods        map[string][]*ast.FuncDecl // methods of the package's types, by name
	imports        map[string]bool            // names of imported packages
	pkgInit        map[string]ast.Expr        // package-level const / var -> initialiser
	reassigned     map[string]bool            // package-level vars assigned somewhere in a function
	aliasOf        map[string]string          // local bound to what a helper returned: interrupt := subscribe()
	stopFns        map[string]bool            // stop functions returned by signal.NotifyContext
	timerVars      map[string]bool            // locals bound to time.NewTimer / NewTicker / After / Tick
	atomicVars     map[string]bool            // package-level variables of a sync/atomic type
	acts           []string
	ignored        map[string]bool
	notifyChan     string
	notifySeen     bool
	notifySigs     []string          // signals given to signal.Notify, normalised; empty = all signals
	finishedChan   string            // channel the waiting goroutine closes / sends on
	chanCap        map[string]string // channel variable -> capacity expression of its make ("" = unbuffered)
	cmdVars        map[string]bool   // variables bound to exec.Command(...)
	hookAfterStart bool
	sawStart       bool
	pendingCtx     bool                // a signal.NotifyContext call whose results are being bound
	lastReturn     string              // channel key returned by the function inlined last
	rename         []map[string]string // per inlined call: callee name -> caller name
	stack          []string
}

// sigName normalises a signal expression: os.Interrupt and syscall.SIGINT are the same signal; package-level
// constants / never-reassigned variables are replaced by their initialiser (var handshake os.Signal = os.Interrupt).
func (l *launchScan) sigName(e ast.Expr) string {
	for i := 0; i < 4; i++ {
		id, ok := e.(*ast.Ident)
		if !ok {
			break
		}
		init, ok := l.pkgInit[id.Name]
		if !ok || l.reassigned[id.Name] {
			break
		}
		e = init
	}
	n := callName(e)
	if n == "os.Interrupt" || n == "syscall.SIGINT" || n == "unix.SIGINT" {
		return "SIGINT"
	}
	if n == "os.Kill" || n == "syscall.SIGKILL" {
		return "SIGKILL"
	}
	return n
}

func coqString(s string) string {
	var b strings.Builder
	b.WriteByte('"')
	for _, r := range s {
		switch {
		case r == '"':
			b.WriteString(`""`)
		case r < 32 || r > 126:
			b.WriteByte('?')
		default:
			b.WriteRune(r)
		}
	}
	b.WriteByte('"')
	return b.String()
}

// wrong: something the scan READS and knows to break the hand-shake (as opposed to something it cannot read)
func (l *launchScan) wrong(n ast.Node, what string) {
	l.unknown(n, "WRONG: "+what)
}

func (l *launchScan) unknown(n ast.Node, what string) {
	p := l.fset.Position(n.Pos())
	l.acts = append(l.acts, "AUnknown "+coqString(fmt.Sprintf("%s (%s:%d)", what, filepath.Base(p.Filename), p.Line)))
}

// canon: the caller's name of a (channel / command) variable inside inlined functions
func (l *launchScan) canon(name string) string {
	for i := len(l.rename) - 1; i >= 0; i-- {
		if n, ok := l.rename[i][name]; ok {
			name = n
		} else {
			break
		}
	}
	for i := 0; i < 4; i++ {
		if a, ok := l.aliasOf[name]; ok && a != name {
			name = a
		} else {
			break
		}
	}
	return name
}

// chanKey names a channel expression: a local (by its canonical name), a struct field (by ".field": the launcher's
// steps may be methods of a small struct), or the Done() channel of a signal.NotifyContext context.
func (l *launchScan) chanKey(e ast.Expr) string {
	switch t := e.(type) {
	case *ast.Ident:
		return l.canon(t.Name)
	case *ast.SelectorExpr:
		return "." + t.Sel.Name
	case *ast.ParenExpr:
		return l.chanKey(t.X)
	case *ast.CallExpr:
		if se, ok := t.Fun.(*ast.SelectorExpr); ok && se.Sel.Name == "Done" && len(t.Args) == 0 {
			if id, ok := se.X.(*ast.Ident); ok {
				return "ctx:" + l.canon(id.Name)
			}
		}
	}
	return ""
}

// callee: the same-package function or method a call goes to
func (l *launchScan) callee(fun ast.Expr) *ast.FuncDecl {
	switch t := fun.(type) {
	case *ast.Ident:
		return l.funcs[t.Name]
	case *ast.SelectorExpr:
		if id, ok := t.X.(*ast.Ident); ok && l.imports[id.Name] {
			return nil
		}
		if ms := l.methods[t.Sel.Name]; len(ms) == 1 {
			return ms[0]
		}
	}
	return nil
}

// constInt evaluates a capacity expression: a literal or a package-level integer constant
func (l *launchScan) constInt(e ast.Expr) (string, bool) {
	for i := 0; i < 4; i++ {
		switch t := e.(type) {
		case *ast.BasicLit:
			return t.Value, t.Kind == token.INT
		case *ast.Ident:
			init, ok := l.pkgInit[t.Name]
			if !ok || l.reassigned[t.Name] {
				return t.Name, false
			}
			e = init
		case *ast.ParenExpr:
			e = t.X
		default:
			return callName(e), false
		}
	}
	return callName(e), false
}

func callName(e ast.Expr) string {
	switch t := e.(type) {
	case *ast.Ident:
		return t.Name
	case *ast.SelectorExpr:
		return callName(t.X) + "." + t.Sel.Name
	case *ast.ParenExpr:
		return callName(t.X)
	case *ast.ArrayType, *ast.MapType, *ast.ChanType, *ast.StarExpr, *ast.FuncType, *ast.InterfaceType:
		return "<conversion>"
	case *ast.CallExpr:
		return callName(t.Fun) + "()"
	case *ast.IndexExpr:
		return callName(t.X)
	case *ast.FuncLit:
		return "<func literal>"
	}
	return fmt.Sprintf("<%T>", e)
}

var launchIgnoredExact = map[string]bool{
	"make": true, "append": true, "len": true, "cap": true, "new": true, "copy": true, "min": true, "max": true,
	"exec.Command": true, "os.Environ": true, "os.Getenv": true, "os.LookupEnv": true, "os.Getpid": true,
	"verifPause": true, "<conversion>": true,
	"uint32": true, "uint64": true, "int": true, "int32": true, "int64": true, "uint": true, "string": true, "byte": true,
	"uint8": true, "uint16": true, "int8": true, "int16": true, "error": true,
}

var launchIgnoredPrefix = []string{"fmt.", "binary.", "strings.", "strconv.", "bytes.", "errors.", "atomic.", "os.Stderr.", "slices.", "maps."}

var backgroundCtx = map[string]bool{"context.Background": true, "context.TODO": true}

func mentions(n ast.Node, pkg, sel string) bool {
	found := false
	ast.Inspect(n, func(x ast.Node) bool {
		if se, ok := x.(*ast.SelectorExpr); ok {
			if id, ok := se.X.(*ast.Ident); ok && id.Name == pkg && se.Sel.Name == sel {
				found = true
			}
		}
		return true
	})
	return found
}

// harmless: a call that cannot affect the hand-shake
func (l *launchScan) harmless(name string, call *ast.CallExpr) bool {
	if launchIgnoredExact[name] {
		return true
	}
	for _, p := range launchIgnoredPrefix {
		if strings.HasPrefix(name, p) {
			return true
		}
	}
	// err.Error(), x.String(): value methods used to build messages
	if strings.HasSuffix(name, ".Error") || strings.HasSuffix(name, ".String") {
		return len(call.Args) == 0
	}
	// observation-only methods of *os.ProcessState (state, err := cmd.Process.Wait(); state.Success())
	if i := strings.LastIndex(name, "."); i > 0 && len(call.Args) == 0 && !strings.HasPrefix(name, "os.") && !strings.HasPrefix(name, "syscall.") {
		switch name[i+1:] {
		case "Success", "ExitCode", "Exited", "Sys", "SysUsage", "SystemTime", "UserTime":
			return true
		}
	}
	// methods of package-level sync/atomic counters: launches.Add(1)
	if i := strings.Index(name, "."); i > 0 && l.atomicVars[name[:i]] {
		return true
	}
	return false
}

// calls classifies every call inside an expression, in source order (closures are not entered).
func (l *launchScan) calls(e ast.Node) {
	if e == nil {
		return
	}
	ast.Inspect(e, func(n ast.Node) bool {
		switch t := n.(type) {
		case *ast.FuncLit:
			l.unknown(t, "function literal outside a go statement")
			return false
		case *ast.UnaryExpr:
			if t.Op == token.ARROW {
				l.unknown(t, "channel receive outside the select: <-"+callName(t.X))
				return false
			}
			return true
		case *ast.CallExpr:
			name := callName(t.Fun)
			switch {
			case name == "signal.Notify":
				l.notify(t)
			case name == "signal.NotifyContext":
				// an internal channel with room for one signal, installed at the call; the first signal cancels the context
				if len(t.Args) >= 1 {
					if pc, ok := t.Args[0].(*ast.CallExpr); ok && backgroundCtx[callName(pc.Fun)] && len(pc.Args) == 0 {
						l.notifySeen, l.pendingCtx = true, true
						for _, a := range t.Args[1:] {
							l.notifySigs = append(l.notifySigs, l.sigName(a))
						}
						l.acts = append(l.acts, "ANotify")
						return false
					}
				}
				l.unknown(t, "signal.NotifyContext on a context that may end by itself")
				return false
			case strings.HasSuffix(name, ".Start") && len(t.Args) == 0 && strings.Contains(name, "."):
				l.acts = append(l.acts, "AStart")
				l.sawStart = true
			case mentions(t, "os", "Stdout"):
				// whatever is written to the launcher's stdout is the pid protocol
				l.acts = append(l.acts, "AWritePid")
				return false
			case name == "verifPause":
				if l.sawStart && len(t.Args) == 1 && !l.has("ASpawnWait") && !l.has("ASelect") {
					if bl, ok := t.Args[0].(*ast.BasicLit); ok && bl.Value == `"launch.afterStart"` {
						l.hookAfterStart = true
					}
				}
			case l.callee(t.Fun) != nil:
				if se, ok := t.Fun.(*ast.SelectorExpr); ok {
					l.calls(se.X) // newLauncher(name).run(): the receiver expression first
				}
				for _, a := range t.Args {
					l.calls(a)
				}
				l.inline(t, l.callee(t.Fun))
				return false
			case l.harmless(name, t):
				l.ignored[name] = true
			case (name == "signal.Stop" || name == "signal.Reset" || name == "signal.Ignore") && l.notifySeen && !l.has("ASelect") && !l.hasPrefix("ASelect?"):
				l.wrong(t, name+" before the launcher waits: the signal of Done() is no longer caught")
			default:
				l.unknown(t, "call "+name)
			}
			return true
		}
		return true
	})
}

func (l *launchScan) hasPrefix(p string) bool {
	for _, x := range l.acts {
		if strings.HasPrefix(x, p) {
			return true
		}
	}
	return false
}

func (l *launchScan) has(a string) bool {
	for _, x := range l.acts {
		if x == a {
			return true
		}
	}
	return false
}

func (l *launchScan) notify(t *ast.CallExpr) {
	ch := ""
	if len(t.Args) > 0 {
		ch = l.chanKey(t.Args[0])
	}
	l.notifyChan, l.notifySeen = ch, true
	for _, a := range t.Args[min(1, len(t.Args)):] {
		l.notifySigs = append(l.notifySigs, l.sigName(a))
	}
	// os/signal never blocks when it delivers: the channel needs room for the signal
	capExpr, known := l.chanCap[ch]
	switch {
	case ch == "" || !known:
		l.unknown(t, "signal.Notify on a channel that is not made in launch")
	case capExpr == "" || capExpr == "0":
		l.acts = append(l.acts, "ANotifyUnbuffered")
	default:
		if n, err := strconv.Atoi(capExpr); err == nil && n >= 1 {
			l.acts = append(l.acts, "ANotify")
		} else {
			l.unknown(t, "capacity of the signal.Notify channel is not a literal >= 1: "+capExpr)
		}
	}
}

// inline walks the body of a same-package function called from launch.
func (l *launchScan) inline(call *ast.CallExpr, fd *ast.FuncDecl) {
	for _, s := range l.stack {
		if s == fd.Name.Name {
			l.unknown(call, "recursive call of "+fd.Name.Name)
			return
		}
	}
	if len(l.stack) > 6 {
		l.unknown(call, "call nesting too deep at "+fd.Name.Name)
		return
	}
	ren := map[string]string{}
	if fd.Recv != nil && len(fd.Recv.List) == 1 && len(fd.Recv.List[0].Names) == 1 {
		if se, ok := call.Fun.(*ast.SelectorExpr); ok {
			if id, ok := se.X.(*ast.Ident); ok {
				ren[fd.Recv.List[0].Names[0].Name] = l.canon(id.Name)
			}
		}
	}
	if fd.Type.Params != nil {
		i := 0
		for _, p := range fd.Type.Params.List {
			for _, n := range p.Names {
				if i < len(call.Args) {
					if id, ok := call.Args[i].(*ast.Ident); ok {
						ren[n.Name] = l.canon(id.Name)
					}
				}
				i++
			}
		}
	}
	l.rename = append(l.rename, ren)
	l.stack = append(l.stack, fd.Name.Name)
	l.lastReturn = ""
	l.stmts(fd.Body.List, false)
	// what it returns, if that is a channel the scan knows (interrupt := subscribe())
	ret := ""
	ast.Inspect(fd.Body, func(n ast.Node) bool {
		switch t := n.(type) {
		case *ast.FuncLit:
			return false
		case *ast.ReturnStmt:
			if len(t.Results) == 1 {
				if k := l.chanKey(t.Results[0]); k != "" {
					if _, known := l.chanCap[k]; known {
						ret = k
					}
				}
			}
		}
		return true
	})
	l.stack = l.stack[:len(l.stack)-1]
	l.rename = l.rename[:len(l.rename)-1]
	l.lastReturn = ret
}

// waiter: go func() { … x.Wait() … close(c) / c <- … }(), go waitDaemon(cmd, c), go l.watch() — the goroutine that
// waits for the daemon; returns the channel it signals on. Same-package functions are followed.
func (l *launchScan) waiter(body *ast.BlockStmt, depth int) (string, bool) {
	hasWait, ch := false, ""
	ast.Inspect(body, func(n ast.Node) bool {
		switch t := n.(type) {
		case *ast.CallExpr:
			name := callName(t.Fun)
			switch {
			case strings.HasSuffix(name, ".Wait") && len(t.Args) == 0 && l.callee(t.Fun) == nil:
				hasWait = true
			case name == "close" && len(t.Args) == 1:
				ch = l.chanKey(t.Args[0])
			case l.callee(t.Fun) != nil && depth < 4:
				fd := l.callee(t.Fun)
				ren := map[string]string{}
				if fd.Type.Params != nil {
					i := 0
					for _, p := range fd.Type.Params.List {
						for _, pn := range p.Names {
							if i < len(t.Args) {
								if id, ok := t.Args[i].(*ast.Ident); ok {
									ren[pn.Name] = l.canon(id.Name)
								}
							}
							i++
						}
					}
				}
				l.rename = append(l.rename, ren)
				c2, w2 := l.waiter(fd.Body, depth+1)
				l.rename = l.rename[:len(l.rename)-1]
				if w2 {
					hasWait = true
				}
				if c2 != "" {
					ch = c2
				}
			case l.harmless(name, t):
				l.ignored[name] = true
			default:
				l.unknown(t, "call "+name+" in the goroutine that waits for the daemon")
			}
		case *ast.SendStmt:
			ch = l.chanKey(t.Chan)
		}
		return true
	})
	return ch, hasWait
}

// onlyStops: a function whose body does nothing but signal.Stop / harmless calls (defer l.unlisten())
func (l *launchScan) onlyStops(fd *ast.FuncDecl) bool {
	ok := true
	ast.Inspect(fd.Body, func(n ast.Node) bool {
		if c, isCall := n.(*ast.CallExpr); isCall {
			name := callName(c.Fun)
			if name != "signal.Stop" && !l.harmless(name, c) {
				ok = false
			}
		}
		return true
	})
	return ok
}

// isTimer: time.After(…), t.C / t with t := time.NewTimer(…) / time.After(…)
func (l *launchScan) isTimer(e ast.Expr) bool {
	switch t := e.(type) {
	case *ast.ParenExpr:
		return l.isTimer(t.X)
	case *ast.CallExpr:
		n := callName(t.Fun)
		return n == "time.After" || n == "time.Tick"
	case *ast.Ident:
		return l.timerVars[t.Name]
	case *ast.SelectorExpr:
		if id, ok := t.X.(*ast.Ident); ok && t.Sel.Name == "C" {
			return l.timerVars[id.Name]
		}
	}
	return false
}

func isNil(e ast.Expr) bool {
	id, ok := e.(*ast.Ident)
	return ok && id.Name == "nil"
}

// placementOnly: &syscall.SysProcAttr{…} whose only fields place the child in a session / process group
func placementOnly(e ast.Expr) bool {
	if u, ok := e.(*ast.UnaryExpr); ok && u.Op == token.AND {
		e = u.X
	}
	cl, ok := e.(*ast.CompositeLit)
	if !ok || callName(cl.Type) != "syscall.SysProcAttr" {
		return false
	}
	for _, el := range cl.Elts {
		kv, ok := el.(*ast.KeyValueExpr)
		if !ok {
			return false
		}
		k, ok := kv.Key.(*ast.Ident)
		if !ok {
			return false
		}
		switch k.Name {
		case "Setsid", "Setpgid", "Noctty":
			if id, ok := kv.Value.(*ast.Ident); !ok || (id.Name != "true" && id.Name != "false") {
				return false
			}
		case "Pgid":
			if _, ok := kv.Value.(*ast.BasicLit); !ok {
				return false
			}
		case "Foreground":
			if id, ok := kv.Value.(*ast.Ident); !ok || id.Name != "false" {
				return false
			}
		default:
			return false // Pdeathsig, Ptrace, Cloneflags, Credential, Chroot, …
		}
	}
	return true
}

func callFun(e ast.Expr) ast.Expr {
	if c, ok := e.(*ast.CallExpr); ok {
		return c.Fun
	}
	return nil
}

func (l *launchScan) stmts(list []ast.Stmt, top bool) {
	for i, s := range list {
		l.stmt(s, top && i == len(list)-1, top)
	}
}

func (l *launchScan) noteAssign(lhs, rhs ast.Expr) {
	ce, isCall := rhs.(*ast.CallExpr)
	key := l.chanKey(lhs)
	if !isCall || key == "" {
		return
	}
	if fn, ok := ce.Fun.(*ast.Ident); ok && fn.Name == "make" && len(ce.Args) >= 1 {
		if _, isChan := ce.Args[0].(*ast.ChanType); isChan {
			c := ""
			if len(ce.Args) >= 2 {
				c, _ = l.constInt(ce.Args[1])
			}
			l.chanCap[key] = c
		}
	}
	if id, isId := lhs.(*ast.Ident); isId && callName(ce.Fun) == "exec.Command" {
		l.cmdVars[id.Name] = true
	}
	if id, isId := lhs.(*ast.Ident); isId {
		switch callName(ce.Fun) {
		case "time.NewTimer", "time.NewTicker", "time.After", "time.Tick", "time.AfterFunc":
			l.timerVars[id.Name] = true
		}
	}
}

// noteLiteral: &launcher{interrupt: make(chan os.Signal, 1), …}
func (l *launchScan) noteLiterals(n ast.Node) {
	ast.Inspect(n, func(x ast.Node) bool {
		if cl, ok := x.(*ast.CompositeLit); ok {
			for _, el := range cl.Elts {
				if kv, ok := el.(*ast.KeyValueExpr); ok {
					if k, ok := kv.Key.(*ast.Ident); ok {
						l.noteAssign(&ast.SelectorExpr{X: ast.NewIdent("_"), Sel: k}, kv.Value)
					}
				}
			}
		}
		return true
	})
}

func (l *launchScan) stmt(s ast.Stmt, last, top bool) {
	switch t := s.(type) {
	case nil, *ast.EmptyStmt:
	case *ast.AssignStmt:
		if len(t.Lhs) == len(t.Rhs) {
			for i := range t.Rhs {
				l.noteAssign(t.Lhs[i], t.Rhs[i])
			}
		}
		for i, r := range t.Rhs {
			l.noteLiterals(r)
			l.lastReturn, l.pendingCtx = "", false
			l.calls(r)
			if len(t.Rhs) == 1 {
				if id, ok := t.Lhs[0].(*ast.Ident); ok && i == 0 {
					if l.pendingCtx && len(t.Lhs) == 2 { // ctx, stop := signal.NotifyContext(context.Background(), sig…)
						l.notifyChan = "ctx:" + l.canon(id.Name)
						l.chanCap[l.notifyChan] = "1"
						if sid, ok := t.Lhs[1].(*ast.Ident); ok {
							l.stopFns[sid.Name] = true
						}
					} else if l.lastReturn != "" && l.callee(callFun(r)) != nil { // interrupt := subscribe()
						l.aliasOf[id.Name] = l.lastReturn
					}
				}
			}
			l.lastReturn, l.pendingCtx = "", false
		}
		for _, x := range t.Lhs {
			// cmd.Stdout / cmd.Stderr / cmd.SysProcAttr … of the daemon's command change what the daemon inherits
			if se, ok := x.(*ast.SelectorExpr); ok {
				if id, ok := se.X.(*ast.Ident); ok && l.cmdVars[id.Name] {
					var rhs ast.Expr
					if len(t.Lhs) == len(t.Rhs) {
						for i := range t.Lhs {
							if t.Lhs[i] == x {
								rhs = t.Rhs[i]
							}
						}
					}
					switch {
					case se.Sel.Name == "Env" || se.Sel.Name == "Dir" || se.Sel.Name == "Args":
					case se.Sel.Name == "SysProcAttr" && placementOnly(rhs):
						// session / process-group placement: still the launcher's child, still orphaned to init, still signals its parent
						l.ignored["cmd.SysProcAttr{Setsid/Setpgid/Pgid/Noctty}"] = true
					case (se.Sel.Name == "Stdin" || se.Sel.Name == "ExtraFiles") && isNil(rhs):
					default:
						l.unknown(x, "field "+se.Sel.Name+" of the daemon's exec.Cmd is set")
					}
				}
			}
			l.calls(x)
		}
	case *ast.DeclStmt:
		if gd, ok := t.Decl.(*ast.GenDecl); ok {
			for _, sp := range gd.Specs {
				if vs, ok := sp.(*ast.ValueSpec); ok && len(vs.Names) == len(vs.Values) {
					for i := range vs.Values {
						l.noteAssign(vs.Names[i], vs.Values[i])
					}
				}
			}
		}
		l.calls(t)
	case *ast.ExprStmt:
		l.calls(t.X)
	case *ast.IfStmt:
		l.stmt(t.Init, false, false)
		l.calls(t.Cond)
		l.stmts(t.Body.List, false)
		if t.Else != nil {
			l.stmt(t.Else, false, false)
		}
	case *ast.BlockStmt:
		l.stmts(t.List, false)
	case *ast.DeferStmt:
		name := callName(t.Call.Fun)
		if name == "signal.Stop" {
			return
		}
		if id, ok := t.Call.Fun.(*ast.Ident); ok && l.stopFns[id.Name] && len(t.Call.Args) == 0 {
			return // defer stop() of signal.NotifyContext
		}
		if fd := l.callee(t.Call.Fun); fd != nil && l.onlyStops(fd) {
			return // defer l.unlisten()
		}
		if fl, ok := t.Call.Fun.(*ast.FuncLit); ok && len(t.Call.Args) == 0 {
			okStops := true
			ast.Inspect(fl.Body, func(n ast.Node) bool {
				if c, isCall := n.(*ast.CallExpr); isCall {
					if cn := callName(c.Fun); cn != "signal.Stop" && !l.harmless(cn, c) {
						okStops = false
					}
				}
				return true
			})
			if okStops {
				return
			}
		}
		l.unknown(t, "defer "+name)
	case *ast.GoStmt:
		var body *ast.BlockStmt
		pushed := false
		if fl, ok := t.Call.Fun.(*ast.FuncLit); ok {
			body = fl.Body
		} else if fd := l.callee(t.Call.Fun); fd != nil { // go waitDaemon(cmd, finished) / go l.watch()
			ren := map[string]string{}
			if fd.Type.Params != nil {
				i := 0
				for _, p := range fd.Type.Params.List {
					for _, pn := range p.Names {
						if i < len(t.Call.Args) {
							if id, ok := t.Call.Args[i].(*ast.Ident); ok {
								ren[pn.Name] = l.canon(id.Name)
							}
						}
						i++
					}
				}
			}
			l.rename = append(l.rename, ren)
			pushed = true
			body = fd.Body
		}
		if body != nil {
			mark := len(l.acts)
			ch, ok := l.waiter(body, 0)
			if pushed {
				l.rename = l.rename[:len(l.rename)-1]
			}
			if ok {
				// unknown calls found inside stay in the list, in front of the action
				l.acts = append(l.acts, "ASpawnWait")
				l.finishedChan = ch
				return
			}
			l.acts = l.acts[:mark]
		}
		l.unknown(t, "go "+callName(t.Call.Fun))
	case *ast.SendStmt:
		l.unknown(t, "channel send outside the waiting goroutine")
	case *ast.SelectStmt:
		// every case must wait on the Notify channel or on the channel the waiting goroutine signals on; anything
		// else (a timer, a default case, a send) lets the launcher leave before Done()
		chans := []string{}
		bad := false
		for _, cl := range t.Body.List {
			cc := cl.(*ast.CommClause)
			if cc.Comm == nil {
				l.wrong(cc, "select case default (the launcher does not wait)")
				bad = true
				continue
			}
			var e ast.Expr
			switch c := cc.Comm.(type) {
			case *ast.ExprStmt:
				e = c.X
			case *ast.AssignStmt:
				if len(c.Rhs) == 1 {
					e = c.Rhs[0]
				}
			}
			name := ""
			if u, ok := e.(*ast.UnaryExpr); ok && u.Op == token.ARROW {
				if l.isTimer(u.X) {
					l.wrong(cc, "select case on a timer <-"+callName(u.X)+": the launcher stops waiting by itself")
					bad = true
				} else if k := l.chanKey(u.X); k != "" {
					name = k
				} else {
					l.unknown(cc, "select case <-"+callName(u.X))
					bad = true
				}
			} else {
				l.unknown(cc, "select case that is not a receive")
				bad = true
			}
			if name != "" {
				chans = append(chans, name)
			}
			for _, b := range cc.Body {
				l.stmt(b, false, false)
			}
		}
		if !bad {
			l.acts = append(l.acts, "ASelect?"+strings.Join(chans, ","))
		}
	case *ast.ReturnStmt:
		for _, r := range t.Results {
			l.noteLiterals(r)
			l.calls(r)
		}
		if top && !last {
			l.unknown(t, "return before the end of launch")
		}
	default:
		l.unknown(s, fmt.Sprintf("statement %T", s))
	}
}

func cmdLaunch(repo string) error {
	fset := token.NewFileSet()
	dir := filepath.Join(repo, "daemon")
	files, err := parsePackageDir(fset, dir)
	if err != nil {
		return err
	}
	l := &launchScan{fset: fset, funcs: map[string]*ast.FuncDecl{}, atomicVars: map[string]bool{}, ignored: map[string]bool{},
		chanCap: map[string]string{}, cmdVars: map[string]bool{}, methods: map[string][]*ast.FuncDecl{}, imports: map[string]bool{},
		pkgInit: map[string]ast.Expr{}, reassigned: map[string]bool{}, aliasOf: map[string]string{}, stopFns: map[string]bool{}, timerVars: map[string]bool{}}
	for _, f := range files {
		for _, im := range f.Imports {
			p := strings.Trim(im.Path.Value, `"`)
			n := p[strings.LastIndex(p, "/")+1:]
			if im.Name != nil {
				n = im.Name.Name
			}
			l.imports[n] = true
		}
		for _, d := range f.Decls {
			switch x := d.(type) {
			case *ast.FuncDecl:
				if x.Recv == nil && x.Body != nil {
					l.funcs[x.Name.Name] = x
				} else if x.Body != nil {
					l.methods[x.Name.Name] = append(l.methods[x.Name.Name], x)
				}
				if x.Body != nil {
					ast.Inspect(x.Body, func(n ast.Node) bool {
						switch a := n.(type) {
						case *ast.AssignStmt:
							if a.Tok == token.ASSIGN {
								for _, lh := range a.Lhs {
									if id, ok := lh.(*ast.Ident); ok {
										l.reassigned[id.Name] = true
									}
								}
							}
						case *ast.UnaryExpr:
							if a.Op == token.AND {
								if id, ok := a.X.(*ast.Ident); ok {
									l.reassigned[id.Name] = true
								}
							}
						}
						return true
					})
				}
			case *ast.GenDecl:
				if x.Tok == token.VAR || x.Tok == token.CONST {
					for _, sp := range x.Specs {
						if vs, ok := sp.(*ast.ValueSpec); ok && len(vs.Names) == len(vs.Values) {
							for i, n := range vs.Names {
								l.pkgInit[n.Name] = vs.Values[i]
							}
						}
					}
				}
				if x.Tok == token.VAR {
					for _, sp := range x.Specs {
						if vs, ok := sp.(*ast.ValueSpec); ok && vs.Type != nil && strings.HasPrefix(strings.TrimPrefix(typeString(vs.Type), "*"), "atomic.") {
							for _, n := range vs.Names {
								l.atomicVars[n.Name] = true
							}
						}
					}
				}
			}
		}
	}
	fmt.Printf("(* glbfacts launch: order of the launcher's actions in package daemon, func launch *)\n")
	fd := l.funcs["launch"]
	if fd == nil {
		fmt.Printf("(* hook launch.afterStart: MISSING *)\n")
		fmt.Printf("[AUnknown %s]\n", coqString("func launch not found in package daemon"))
		return nil
	}
	l.stack = []string{"launch"}
	l.stmts(fd.Body.List, true)
	// resolve the selects: their channels must be the Notify channel and (optionally) the waiter's channel
	for i, a := range l.acts {
		if strings.HasPrefix(a, "ASelect?") {
			hasNotify, other := false, ""
			for _, c := range strings.Split(a[len("ASelect?"):], ",") {
				switch {
				case c == "":
				case c == l.notifyChan:
					hasNotify = true
				case c == l.finishedChan:
				default:
					other = c
				}
			}
			_, madeHere := l.chanCap[other]
			switch {
			case other != "" && madeHere && l.finishedChan == "" && !l.has("ASpawnWait") && !l.hasPrefix(`AUnknown "go `):
				l.acts[i] = "AUnknown " + coqString("WRONG: select waits on <-"+other+", which nothing signals: no goroutine waits for the daemon")
			case other != "":
				l.acts[i] = "AUnknown " + coqString("select case <-"+other+": neither the signal.Notify channel nor the channel the waiting goroutine signals on")
			case !hasNotify:
				l.acts[i] = "AUnknown " + coqString("select does not receive from the channel given to signal.Notify")
			default:
				l.acts[i] = "ASelect"
			}
		}
	}
	// Done(): which signal, to whom (any file of the package)
	doneSig, donePpid := "", false
	var scanDone func(body *ast.BlockStmt, depth int)
	scanDone = func(body *ast.BlockStmt, depth int) {
		ast.Inspect(body, func(n ast.Node) bool {
			if c, ok := n.(*ast.CallExpr); ok {
				name := callName(c.Fun)
				if strings.HasSuffix(name, ".Signal") && len(c.Args) == 1 {
					doneSig = l.sigName(c.Args[0])
				}
				if (name == "syscall.Kill" || name == "unix.Kill") && len(c.Args) == 2 {
					doneSig = l.sigName(c.Args[1])
				}
				if name == "os.Getppid" || name == "syscall.Getppid" {
					donePpid = true
				}
				if fd := l.callee(c.Fun); fd != nil && depth < 4 { // parent() wrapping os.FindProcess(os.Getppid())
					scanDone(fd.Body, depth+1)
				}
			}
			return true
		})
	}
	if x := l.funcs["Done"]; x != nil {
		scanDone(x.Body, 0)
	}
	switch {
	case doneSig == "" || !donePpid:
		l.acts = append(l.acts, "AUnknown "+coqString("func Done: no signal sent to os.Getppid() recognised"))
	case doneSig == "SIGKILL" || doneSig == "syscall.SIGSTOP" || doneSig == "unix.SIGSTOP":
		l.acts = append(l.acts, "AUnknown "+coqString("WRONG: func Done sends "+doneSig+", which cannot be caught"))
	default:
		// any catchable signal will do as long as the launcher listens for exactly what Done() sends (the model calls it SIGINT)
		listens := len(l.notifySigs) == 0
		for _, sg := range l.notifySigs {
			if sg == doneSig {
				listens = true
			}
		}
		if !listens && l.notifySeen {
			l.acts = append(l.acts, "AUnknown "+coqString("WRONG: signal.Notify listens for "+strings.Join(l.notifySigs, ",")+" but Done() sends "+doneSig))
		}
	}
	for _, want := range []string{"ANotify", "AStart", "AWritePid", "ASpawnWait", "ASelect"} {
		found := false
		for _, a := range l.acts {
			if a == want || (want == "ANotify" && a == "ANotifyUnbuffered") {
				found = true
			}
		}
		if !found {
			l.acts = append(l.acts, "AUnknown "+coqString("missing "+want))
		}
	}
	// how far the list can be trusted: wrong = something read and known to break the hand-shake; incomplete = shapes the
	// scan cannot read (the forced schedule of the harness then decides); complete otherwise
	var wrongs []string
	unknowns, missing := 0, 0
	firstN, firstS := -1, -1
	for i, a := range l.acts {
		switch {
		case a == "ANotifyUnbuffered":
			wrongs = append(wrongs, "unbuffered signal.Notify channel")
			if firstN < 0 {
				firstN = i
			}
		case strings.HasPrefix(a, `AUnknown "WRONG: `):
			wrongs = append(wrongs, strings.TrimSuffix(strings.TrimPrefix(a, `AUnknown "WRONG: `), `"`))
		case strings.HasPrefix(a, `AUnknown "missing `):
			missing++
		case strings.HasPrefix(a, "AUnknown"):
			unknowns++
		case a == "ANotify" && firstN < 0:
			firstN = i
		case a == "AStart" && firstS < 0:
			firstS = i
		}
	}
	if firstN >= 0 && firstS >= 0 && firstS < firstN {
		wrongs = append(wrongs, "the daemon is started before signal.Notify")
	}
	if unknowns == 0 && missing > 0 {
		wrongs = append(wrongs, "everything was read and a step of the hand-shake is not there")
	}
	reading := "complete"
	if len(wrongs) > 0 {
		reading = "wrong: " + strings.Join(wrongs, "; ")
	} else if unknowns > 0 {
		reading = "incomplete"
	}
	fmt.Printf("(* reading: %s *)\n", commentSafe(reading))
	hook := "MISSING"
	if l.hookAfterStart {
		hook = "present"
	}
	fmt.Printf("(* hook launch.afterStart: %s *)\n", hook)
	var ign []string
	for k := range l.ignored {
		ign = append(ign, k)
	}
	sort.Strings(ign)
	fmt.Printf("(* not actions (cannot affect the hand-shake): %s *)\n", commentSafe(strings.Join(ign, ", ")))
	fmt.Printf("[%s]\n", strings.Join(l.acts, "; "))
	return nil
}
