package main

import (
	"fmt"
	"go/ast"
	"go/parser"
	"go/token"
	"path/filepath"
	"strconv"
	"strings"
)

// ---------------------------------------------------------------------------------------------
// launch: the order of the launcher's actions in daemon/daemon.go func launch.
//
//	signal.Notify(ch, …)                       ANotify      (handler installed: SIGINT goes to ch)
//	cmd.Start()                                AStart       (the daemon process exists)
//	binary.Write(os.Stdout, …) / os.Stdout.W…  AWritePid
//	go func() { … cmd.Wait() … }()             ASpawnWait
//	select { case <-ch: … }                    ASelect      (must receive from the Notify channel)
//
// Statements are walked in source order, branches in place (the error branch of `if err :=
// cmd.Start()` only reports and returns). Bookkeeping that cannot change the order of these
// actions (make, exec.Command, append, os.Environ, conversions, close, os.Stderr.Write,
// signal.Stop, err.Error, the verifPause hook) is ignored. Everything else is an AUnknown entry,
// and so is every recognised shape that is missing: the model's well-formedness check then fails.
// ---------------------------------------------------------------------------------------------

type launchScan struct {
	fset           *token.FileSet
	acts           []string
	notifyChan     string
	notifySigs     []string          // signals given to signal.Notify, normalised; empty = all signals
	finishedChan   string            // channel closed by the goroutine that waits for the daemon
	chanCap        map[string]string // channel variable -> capacity expression of its make ("" = unbuffered)
	hookAfterStart bool
	sawStart       bool
}

// sigName normalises a signal expression: os.Interrupt and syscall.SIGINT are the same signal.
func sigName(e ast.Expr) string {
	n := callName(e)
	if n == "os.Interrupt" || n == "syscall.SIGINT" || n == "unix.SIGINT" {
		return "SIGINT"
	}
	if n == "os.Kill" || n == "syscall.SIGKILL" {
		return "SIGKILL"
	}
	return n
}

func coqString(s string) string {
	var b strings.Builder
	b.WriteByte('"')
	for _, r := range s {
		switch {
		case r == '"':
			b.WriteString(`""`)
		case r < 32 || r > 126:
			b.WriteByte('?')
		default:
			b.WriteRune(r)
		}
	}
	b.WriteByte('"')
	return b.String()
}

func (l *launchScan) unknown(n ast.Node, what string) {
	p := l.fset.Position(n.Pos())
	l.acts = append(l.acts, "AUnknown "+coqString(fmt.Sprintf("%s (line %d)", what, p.Line)))
}

func callName(e ast.Expr) string {
	switch t := e.(type) {
	case *ast.Ident:
		return t.Name
	case *ast.SelectorExpr:
		return callName(t.X) + "." + t.Sel.Name
	case *ast.ParenExpr:
		return callName(t.X)
	case *ast.ArrayType, *ast.MapType, *ast.ChanType, *ast.StarExpr, *ast.FuncType, *ast.InterfaceType:
		return "<conversion>"
	case *ast.CallExpr:
		return callName(t.Fun) + "()"
	case *ast.IndexExpr:
		return callName(t.X)
	case *ast.FuncLit:
		return "<func literal>"
	}
	return fmt.Sprintf("<%T>", e)
}

var launchIgnored = map[string]bool{
	"make": true, "append": true, "len": true, "cap": true, "close": true, "new": true,
	"exec.Command": true, "os.Environ": true, "os.Stderr.Write": true, "os.Stderr.WriteString": true,
	"err.Error": true, "verifPause": true, "<conversion>": true,
	"uint32": true, "uint64": true, "int": true, "int32": true, "int64": true, "uint": true, "string": true, "byte": true,
	"strconv.Itoa": true, "os.Getpid": true,
}

func mentionsStdout(call *ast.CallExpr) bool {
	found := false
	ast.Inspect(call, func(n ast.Node) bool {
		if se, ok := n.(*ast.SelectorExpr); ok {
			if id, ok := se.X.(*ast.Ident); ok && id.Name == "os" && se.Sel.Name == "Stdout" {
				found = true
			}
		}
		return true
	})
	return found
}

// calls classifies every call inside an expression, in source order (closures are not entered).
func (l *launchScan) calls(e ast.Node) {
	if e == nil {
		return
	}
	ast.Inspect(e, func(n ast.Node) bool {
		switch t := n.(type) {
		case *ast.FuncLit:
			l.unknown(t, "function literal outside a go statement")
			return false
		case *ast.CallExpr:
			name := callName(t.Fun)
			switch {
			case name == "signal.Notify":
				ch := ""
				if len(t.Args) > 0 {
					if id, ok := t.Args[0].(*ast.Ident); ok {
						ch = id.Name
					}
				}
				l.notifyChan = ch
				for _, a := range t.Args[min(1, len(t.Args)):] {
					l.notifySigs = append(l.notifySigs, sigName(a))
				}
				// os/signal never blocks when it delivers: the channel needs room for the signal
				capExpr, known := l.chanCap[ch]
				switch {
				case ch == "" || !known:
					l.unknown(t, "signal.Notify on a channel that is not made in launch")
				case capExpr == "" || capExpr == "0":
					l.acts = append(l.acts, "ANotifyUnbuffered")
				default:
					if n, err := strconv.Atoi(capExpr); err == nil && n >= 1 {
						l.acts = append(l.acts, "ANotify")
					} else {
						l.unknown(t, "capacity of the signal.Notify channel is not a literal >= 1: "+capExpr)
					}
				}
			case name == "verifPause":
				if l.sawStart && len(t.Args) == 1 {
					if bl, ok := t.Args[0].(*ast.BasicLit); ok && bl.Value == `"launch.afterStart"` {
						l.hookAfterStart = true
					}
				}
			case strings.HasSuffix(name, ".Start") && len(t.Args) == 0 && strings.Count(name, ".") == 1:
				l.acts = append(l.acts, "AStart")
				l.sawStart = true
			case mentionsStdout(t) && (name == "binary.Write" || strings.HasPrefix(name, "os.Stdout.Write") || strings.HasPrefix(name, "fmt.Fprint")):
				l.acts = append(l.acts, "AWritePid")
				return false
			case launchIgnored[name]:
			default:
				l.unknown(t, "call "+name)
			}
			return true
		}
		return true
	})
}

func containsWait(b *ast.BlockStmt) bool {
	found := false
	ast.Inspect(b, func(n ast.Node) bool {
		if c, ok := n.(*ast.CallExpr); ok {
			if se, ok := c.Fun.(*ast.SelectorExpr); ok && se.Sel.Name == "Wait" && len(c.Args) == 0 {
				found = true
			}
		}
		return true
	})
	return found
}

func (l *launchScan) stmts(list []ast.Stmt, top bool) {
	for i, s := range list {
		l.stmt(s, top && i == len(list)-1, top)
	}
}

func (l *launchScan) stmt(s ast.Stmt, last, top bool) {
	switch t := s.(type) {
	case nil, *ast.EmptyStmt:
	case *ast.AssignStmt:
		if len(t.Lhs) == len(t.Rhs) {
			for i, r := range t.Rhs {
				id, isId := t.Lhs[i].(*ast.Ident)
				ce, isCall := r.(*ast.CallExpr)
				if !isId || !isCall {
					continue
				}
				if fn, ok := ce.Fun.(*ast.Ident); ok && fn.Name == "make" && len(ce.Args) >= 1 {
					if _, isChan := ce.Args[0].(*ast.ChanType); isChan {
						c := ""
						if len(ce.Args) >= 2 {
							c = callName(ce.Args[1])
							if bl, ok := ce.Args[1].(*ast.BasicLit); ok {
								c = bl.Value
							}
						}
						l.chanCap[id.Name] = c
					}
				}
			}
		}
		for _, r := range t.Rhs {
			l.calls(r)
		}
		for _, x := range t.Lhs {
			l.calls(x)
		}
	case *ast.DeclStmt:
		l.calls(t)
	case *ast.ExprStmt:
		l.calls(t.X)
	case *ast.IfStmt:
		l.stmt(t.Init, false, false)
		l.calls(t.Cond)
		l.stmts(t.Body.List, false)
		if t.Else != nil {
			l.stmt(t.Else, false, false)
		}
	case *ast.BlockStmt:
		l.stmts(t.List, false)
	case *ast.DeferStmt:
		name := callName(t.Call.Fun)
		if name == "signal.Stop" {
			return
		}
		l.unknown(t, "defer "+name)
	case *ast.GoStmt:
		if fl, ok := t.Call.Fun.(*ast.FuncLit); ok && containsWait(fl.Body) {
			l.acts = append(l.acts, "ASpawnWait")
			ast.Inspect(fl.Body, func(n ast.Node) bool {
				if c, ok := n.(*ast.CallExpr); ok {
					if fn, ok := c.Fun.(*ast.Ident); ok && fn.Name == "close" && len(c.Args) == 1 {
						if id, ok := c.Args[0].(*ast.Ident); ok {
							l.finishedChan = id.Name
						}
					}
				}
				return true
			})
			return
		}
		l.unknown(t, "go "+callName(t.Call.Fun))
	case *ast.SelectStmt:
		// every case must wait on the Notify channel or on the channel the waiting goroutine closes; anything
		// else (a timer, a default case, a send) lets the launcher leave before Done()
		chans := []string{}
		bad := false
		for _, cl := range t.Body.List {
			cc := cl.(*ast.CommClause)
			if cc.Comm == nil {
				l.unknown(cc, "select case default (does not wait)")
				bad = true
				continue
			}
			var e ast.Expr
			switch c := cc.Comm.(type) {
			case *ast.ExprStmt:
				e = c.X
			case *ast.AssignStmt:
				if len(c.Rhs) == 1 {
					e = c.Rhs[0]
				}
			}
			name := ""
			if u, ok := e.(*ast.UnaryExpr); ok && u.Op == token.ARROW {
				if id, ok := u.X.(*ast.Ident); ok {
					name = id.Name
				} else {
					l.unknown(cc, "select case <-"+callName(u.X))
					bad = true
				}
			} else {
				l.unknown(cc, "select case that is not a receive")
				bad = true
			}
			if name != "" {
				chans = append(chans, name)
			}
			for _, b := range cc.Body {
				l.stmt(b, false, false)
			}
		}
		if !bad {
			l.acts = append(l.acts, "ASelect?"+strings.Join(chans, ","))
		}
		if !top {
			l.unknown(t, "select inside a branch")
		}
	case *ast.ReturnStmt:
		if top && !last {
			l.unknown(t, "return before the end of launch")
		}
	default:
		l.unknown(s, fmt.Sprintf("statement %T", s))
	}
}

func keys(m map[string]bool) []string {
	var r []string
	for k := range m {
		r = append(r, k)
	}
	return r
}

func cmdLaunch(repo string) error {
	fset := token.NewFileSet()
	path := filepath.Join(repo, "daemon", "daemon.go")
	f, err := parser.ParseFile(fset, path, nil, parser.SkipObjectResolution)
	if err != nil {
		return err
	}
	var fd *ast.FuncDecl
	for _, d := range f.Decls {
		if x, ok := d.(*ast.FuncDecl); ok && x.Recv == nil && x.Name.Name == "launch" && x.Body != nil {
			fd = x
		}
	}
	fmt.Printf("(* glbfacts launch: order of the launcher's actions in daemon/daemon.go func launch *)\n")
	if fd == nil {
		fmt.Printf("[AUnknown %s]\n", coqString("func launch not found in daemon/daemon.go"))
		return nil
	}
	l := &launchScan{fset: fset, chanCap: map[string]string{}}
	l.stmts(fd.Body.List, true)
	// resolve the selects: their channels must be the Notify channel and (optionally) the waiter's channel
	for i, a := range l.acts {
		if strings.HasPrefix(a, "ASelect?") {
			hasNotify, other := false, ""
			for _, c := range strings.Split(a[len("ASelect?"):], ",") {
				switch {
				case c == "":
				case c == l.notifyChan:
					hasNotify = true
				case c == l.finishedChan:
				default:
					other = c
				}
			}
			switch {
			case other != "":
				l.acts[i] = "AUnknown " + coqString("select case <-"+other+": neither the signal.Notify channel nor the channel closed after cmd.Wait()")
			case !hasNotify:
				l.acts[i] = "AUnknown " + coqString("select does not receive from the channel given to signal.Notify")
			default:
				l.acts[i] = "ASelect"
			}
		}
	}
	// Done(): which signal, to whom
	doneSig, donePpid := "", false
	for _, d := range f.Decls {
		if x, ok := d.(*ast.FuncDecl); ok && x.Recv == nil && x.Name.Name == "Done" && x.Body != nil {
			ast.Inspect(x.Body, func(n ast.Node) bool {
				if c, ok := n.(*ast.CallExpr); ok {
					name := callName(c.Fun)
					if strings.HasSuffix(name, ".Signal") && len(c.Args) == 1 {
						doneSig = sigName(c.Args[0])
					}
					if (name == "syscall.Kill" || name == "unix.Kill") && len(c.Args) == 2 {
						doneSig = sigName(c.Args[1])
					}
					if name == "os.Getppid" || name == "syscall.Getppid" {
						donePpid = true
					}
				}
				return true
			})
		}
	}
	switch {
	case doneSig == "" || !donePpid:
		l.acts = append(l.acts, "AUnknown "+coqString("func Done: no signal sent to os.Getppid() recognised"))
	case doneSig != "SIGINT":
		// the model's Done() sends SIGINT; any other catchable signal would need its own reading
		l.acts = append(l.acts, "AUnknown "+coqString("func Done sends "+doneSig+", not SIGINT"))
	default:
		listens := len(l.notifySigs) == 0
		for _, sg := range l.notifySigs {
			if sg == doneSig {
				listens = true
			}
		}
		if !listens && l.notifyChan != "" {
			l.acts = append(l.acts, "AUnknown "+coqString("signal.Notify listens for "+strings.Join(l.notifySigs, ",")+" but Done() sends "+doneSig))
		}
	}
	for _, want := range []string{"ANotify", "AStart", "AWritePid", "ASpawnWait", "ASelect"} {
		found := false
		for _, a := range l.acts {
			if a == want || (want == "ANotify" && a == "ANotifyUnbuffered") {
				found = true
			}
		}
		if !found {
			l.acts = append(l.acts, "AUnknown "+coqString("missing "+want))
		}
	}
	hook := "MISSING"
	if l.hookAfterStart {
		hook = "present"
	}
	fmt.Printf("(* hook launch.afterStart: %s *)\n", hook)
	fmt.Printf("[%s]\n", strings.Join(l.acts, "; "))
	return nil
}
