// glbfacts extracts from the Go sources of the tree under verification the few facts that
// behaviour cannot show reliably, as Coq terms:
//
//	glbfacts <repo> locks <relative/file.go> <TypeName> <mutexField or ->
//	    the table of accesses (Glb.Lib.Lockset.access) to the fields of the struct type,
//	    made by its methods, its constructor and the closures inside them
//	glbfacts <repo> launch
//	    the order of the launcher's actions in daemon/daemon.go func launch
//	    (list of Glb.Model.Daemon.action)
//	glbfacts <repo> tables
//	    the constant tables and literals the Coq models assume (tables.go), as Coq definitions
//
// Only go/ast, go/parser, go/token: no type information. Whatever cannot be classified is
// reported in the conservative direction (an unguarded plain write / an AUnknown action), so
// that the discipline checked on the Coq side fails instead of silently passing.
package main

import (
	"fmt"
	"os"
)

func usage() {
	fmt.Fprintln(os.Stderr, "usage: glbfacts <repo> locks <relative/file.go> <TypeName> <mutexField or ->")
	fmt.Fprintln(os.Stderr, "       glbfacts <repo> launch")
	fmt.Fprintln(os.Stderr, "       glbfacts <repo> tables")
	os.Exit(2)
}

func main() {
	if len(os.Args) < 3 {
		usage()
	}
	repo := os.Args[1]
	var err error
	switch os.Args[2] {
	case "locks":
		if len(os.Args) != 6 {
			usage()
		}
		err = cmdLocks(repo, os.Args[3], os.Args[4], os.Args[5])
	case "launch":
		if len(os.Args) != 3 {
			usage()
		}
		err = cmdLaunch(repo)
	case "tables":
		if len(os.Args) != 3 {
			usage()
		}
		err = cmdTables(repo)
	default:
		usage()
	}
	if err != nil {
		fmt.Fprintln(os.Stderr, "glbfacts:", err)
		os.Exit(1)
	}
}
