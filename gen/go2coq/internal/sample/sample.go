// Package sample exercises every construct of the go2coq subset.  go2coq_test.go runs these
// functions natively on a grid of inputs and has Coq evaluate the translated definitions on the
// same inputs (vm_compute): translator + coq/Lib/GoRt.v against the Go compiler's semantics.
package sample

import (
	"path"
	"path/filepath"
	"strings"
)

func ReplaceAB(s string) string { return strings.Replace(s, "ab", "<ab>", -1) }

func ReplaceAA(s string) string { return strings.ReplaceAll(s, "aa", "b") }

func ReplaceWith(s string, r string) string { return strings.ReplaceAll(s, "a.", r) }

func Affixes(s string, p string) string {
	out := ""
	if strings.HasPrefix(s, p) {
		out += "P"
	}
	if strings.HasSuffix(s, p) {
		out += "S"
	}
	if strings.Contains(s, p) {
		out += "C"
	}
	return out + "|" + strings.TrimPrefix(s, p) + "|" + strings.TrimSuffix(s, p)
}

func Index(s string, p string) int { return strings.Index(s, p) }

func IndexDot(s string) int { return strings.IndexByte(s, '.') }

func Slice(s string, a int, b int) string { return s[a:b] }

func SliceFrom(s string, a int) string { return s[a:] }

func SliceTo(s string, b int) string { return s[:b] }

func At(s string, i int) byte { return s[i] }

func Less(a string, b string) bool { return a < b && !(b <= a) || a >= b && a > b }

func Arith(x int, y int) int {
	z := x*y + x - y
	z += -x
	z -= 3
	z *= 2
	return z&0xff | (z ^ y)
}

func DivMod(x int) int { return x/7*1000 + x%7 + x/-3 + x%-5 }

func ByteOps(a byte, b byte) byte {
	c := a + b
	c -= 'a' - 'A'
	c++
	return c&0x7f | (a ^ b)
}

func Conv(b byte, i int) int { return int(b) + int(byte(i)) }

func ShortCircuit(s string, i int) bool {
	return i >= 0 && i < len(s) && s[i] == 'x' || len(s) == 0
}

func ShortCircuitPanics(s string, i int) bool {
	return s[i] == 'x' || i < 0
}

func Shadow(s string) string {
	x := "a"
	if len(s) > 1 {
		x := x + "b"
		if len(s) > 2 {
			x = x + "c"
		}
		s = s + x
	} else if len(s) == 1 {
		x = "d"
	} else {
		return "empty"
	}
	return s + x
}

func Swap(a string, b string) string {
	a, b = b, a+b
	return a + "," + b
}

func Classify(c byte) int {
	const (
		other = iota
		lower
		upper
		digit = iota * 10
	)
	switch {
	case 'a' <= c && c <= 'z':
		return lower
	case 'A' <= c && c <= 'Z', c == '_':
		return upper
	default:
		return other
	case '0' <= c && c <= '9':
		return digit
	}
}

func IsDigitString(s string) bool {
	for i := 0; i < len(s); i++ {
		if s[i] < '0' || s[i] > '9' {
			return false
		}
	}
	return s != ""
}

func Camelize(s string, upper bool) string {
	var buf []byte
	for i := 0; i < len(s); i++ {
		c := s[i]
		switch {
		case 'a' <= c && c <= 'z':
			if upper {
				c -= 'a' - 'A'
				upper = false
			}
			buf = append(buf, c)
		case 'A' <= c && c <= 'Z':
			if !upper {
				c += 'a' - 'A'
			}
			upper = false
			buf = append(buf, c)
		case '0' <= c && c <= '9':
			buf = append(buf, c)
		default:
			upper = len(buf) > 0 || upper
		}
	}
	return string(buf)
}

func CountAndSkip(s string) int {
	n := 0
	var acc []byte
	for i := 0; i < len(s); i++ {
		if s[i] == ' ' {
			continue
		}
		acc = append(acc, s[i:i+1]...)
		n += int(s[i]) & 1
	}
	return n*1000 + len(acc)
}

func LookAhead(s string) string {
	out := []byte("")
	for i := 0; i < len(s); i++ {
		if s[i+1] == s[i] {
			return "dup"
		}
		out = append(out, s[i], '-')
	}
	return string(out)
}

func Resolve(base string, p string) string {
	if !strings.HasPrefix(p, "/") {
		p = "/" + p
	}
	return filepath.Join(base, filepath.FromSlash(path.Clean(p)))
}

func Clean2(p string) string { return filepath.Clean(p) + "|" + path.Clean(p) }

func Caller(s string) string {
	if IsDigitString(s) {
		return "D" + Camelize(s, true)
	}
	return Camelize(s[1:], false)
}

func QuoteLoop(s string) string {
	var sb strings.Builder
	sb.WriteByte('\'')
	for i := 0; i < len(s); i++ {
		if s[i] == '\'' {
			sb.WriteString(`'"'"'`)
		} else {
			sb.WriteByte(s[i])
		}
	}
	sb.WriteByte('\'')
	if sb.Len() > 6 {
		sb.Write([]byte("!"))
	}
	return sb.String()
}

func PathJoin(a string, b string) string { return path.Join(a, b) + "|" + path.Join("/", b) }
