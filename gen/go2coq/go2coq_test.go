package main

import (
	"fmt"
	"os"
	"os/exec"
	"path/filepath"
	"regexp"
	"strconv"
	"strings"
	"testing"

	"go2coq/internal/sample"
)

// ---- Coq literals

func cs(s string) string { return coqBytes([]byte(s)) }
func ci(i int) string {
	if i < 0 {
		return "(" + strconv.Itoa(i) + ")%Z"
	}
	return strconv.Itoa(i) + "%Z"
}
func cb(b byte) string { return strconv.Itoa(int(b)) + "%N" }
func cbool(b bool) string {
	if b {
		return "true"
	}
	return "false"
}

// run f, rendering its result as `Some v`, or `None` when it panics
func outcome(f func() string) (res string) {
	defer func() {
		if r := recover(); r != nil {
			res = "None"
		}
	}()
	return "Some " + f()
}

type tcase struct {
	call string // Coq application
	want string
}

var strs = []string{"", "a", "ab", "aab", "aaa", "aaaa", "abab", "a.b", "xa.a.", "x", "xx", " x y", "~/a", "/", "../a/./b//", "Zed9", "héllo", "\x00\xff", "foo_barBaz 12", "0129", "ABc", "aBC"}
var ints = []int{-3, -1, 0, 1, 2, 3, 5, 1 << 40, -(1 << 62), 1<<63 - 1, -1 << 63}
var bytesv = []byte{0, 1, 47, 65, 90, 95, 97, 122, 127, 128, 200, 255}

func cases() []tcase {
	var cs_ []tcase
	add := func(call string, f func() string) { cs_ = append(cs_, tcase{call, outcome(f)}) }
	for _, s := range strs {
		s := s
		add("Src.ReplaceAB "+cs(s), func() string { return cs(sample.ReplaceAB(s)) })
		add("Src.ReplaceAA "+cs(s), func() string { return cs(sample.ReplaceAA(s)) })
		add("Src.IndexDot "+cs(s), func() string { return ci(sample.IndexDot(s)) })
		add("Src.IsDigitString "+cs(s), func() string { return cbool(sample.IsDigitString(s)) })
		add("Src.Shadow "+cs(s), func() string { return cs(sample.Shadow(s)) })
		add("Src.CountAndSkip "+cs(s), func() string { return ci(sample.CountAndSkip(s)) })
		add("Src.LookAhead "+cs(s), func() string { return cs(sample.LookAhead(s)) })
		add("Src.Clean2 "+cs(s), func() string { return cs(sample.Clean2(s)) })
		add("Src.Caller "+cs(s), func() string { return cs(sample.Caller(s)) })
		add("Src.QuoteLoop "+cs(s), func() string { return cs(sample.QuoteLoop(s)) })
		add("Src.QuoteLoop "+cs("'"+s+"''"), func() string { return cs(sample.QuoteLoop("'" + s + "''")) })
		for _, u := range []bool{false, true} {
			u := u
			add("Src.Camelize "+cs(s)+" "+cbool(u), func() string { return cs(sample.Camelize(s, u)) })
		}
		for _, p := range strs {
			p := p
			add("Src.ReplaceWith "+cs(s)+" "+cs(p), func() string { return cs(sample.ReplaceWith(s, p)) })
			add("Src.Affixes "+cs(s)+" "+cs(p), func() string { return cs(sample.Affixes(s, p)) })
			add("Src.Index "+cs(s)+" "+cs(p), func() string { return ci(sample.Index(s, p)) })
			add("Src.Less "+cs(s)+" "+cs(p), func() string { return cbool(sample.Less(s, p)) })
			add("Src.Swap "+cs(s)+" "+cs(p), func() string { return cs(sample.Swap(s, p)) })
			add("Src.PathJoin "+cs(s)+" "+cs(p), func() string { return cs(sample.PathJoin(s, p)) })
			if p != "" {
				add("Src.Resolve "+cs(p)+" "+cs(s), func() string { return cs(sample.Resolve(p, s)) })
			}
		}
		for a := -1; a <= len(s)+1; a++ {
			a := a
			add("Src.SliceFrom "+cs(s)+" "+ci(a), func() string { return cs(sample.SliceFrom(s, a)) })
			add("Src.SliceTo "+cs(s)+" "+ci(a), func() string { return cs(sample.SliceTo(s, a)) })
			add("Src.At "+cs(s)+" "+ci(a), func() string { return cb(sample.At(s, a)) })
			add("Src.ShortCircuit "+cs(s)+" "+ci(a), func() string { return cbool(sample.ShortCircuit(s, a)) })
			add("Src.ShortCircuitPanics "+cs(s)+" "+ci(a), func() string { return cbool(sample.ShortCircuitPanics(s, a)) })
			for b := -1; b <= len(s)+1; b++ {
				b := b
				add("Src.Slice "+cs(s)+" "+ci(a)+" "+ci(b), func() string { return cs(sample.Slice(s, a, b)) })
			}
		}
	}
	for _, x := range ints {
		x := x
		add("Src.DivMod "+ci(x), func() string { return ci(sample.DivMod(x)) })
		for _, y := range ints {
			y := y
			add("Src.Arith "+ci(x)+" "+ci(y), func() string { return ci(sample.Arith(x, y)) })
		}
		for _, b := range bytesv {
			b := b
			add("Src.Conv "+cb(b)+" "+ci(x), func() string { return ci(sample.Conv(b, x)) })
		}
	}
	for _, a := range bytesv {
		a := a
		add("Src.Classify "+cb(a), func() string { return ci(sample.Classify(a)) })
		for _, b := range bytesv {
			b := b
			add("Src.ByteOps "+cb(a)+" "+cb(b), func() string { return cb(sample.ByteOps(a, b)) })
		}
	}
	return cs_
}

var sampleFuncs = []string{"ReplaceAB", "ReplaceAA", "ReplaceWith", "Affixes", "Index", "IndexDot", "Slice", "SliceFrom", "SliceTo", "At",
	"Less", "Arith", "DivMod", "ByteOps", "Conv", "ShortCircuit", "ShortCircuitPanics", "Shadow", "Swap", "Classify", "IsDigitString",
	"Camelize", "CountAndSkip", "LookAhead", "Resolve", "Clean2", "Caller", "QuoteLoop", "PathJoin"}

// TestDifferential: the translated definitions, evaluated by Coq, agree with the compiled Go code on every case
// (including which inputs panic).  Needs coqc and the compiled coq/Lib/GoRt.vo, coq/Lib/GoPath.vo.
func TestDifferential(t *testing.T) {
	if _, err := exec.LookPath("coqc"); err != nil {
		t.Skip("coqc not found")
	}
	coqdir, _ := filepath.Abs("../../coq")
	if _, err := os.Stat(filepath.Join(coqdir, "Lib", "GoRt.vo")); err != nil {
		t.Skip("coq/Lib/GoRt.vo not built")
	}
	src, err := translateFile(".", "internal/sample/sample.go", sampleFuncs)
	if err != nil {
		t.Fatal(err)
	}
	all := cases()
	var b strings.Builder
	b.WriteString(src)
	b.WriteString("Open Scope list_scope.\n")
	first := strings.Count(b.String(), "\n") + 1
	for _, c := range all {
		fmt.Fprintf(&b, "Goal %s = %s. Proof. vm_compute. reflexivity. Qed.\n", c.call, c.want)
	}
	dir := t.TempDir()
	if err := os.WriteFile(filepath.Join(dir, "cases.v"), []byte(b.String()), 0o644); err != nil {
		t.Fatal(err)
	}
	cmd := exec.Command("coqc", "-Q", coqdir, "Glb", "cases.v")
	cmd.Dir = dir
	out, err := cmd.CombinedOutput()
	if err != nil {
		msg := string(out)
		if m := regexp.MustCompile(`line (\d+)`).FindStringSubmatch(msg); m != nil {
			n, _ := strconv.Atoi(m[1])
			if n >= first && n-first < len(all) {
				t.Fatalf("Go and the translated definition disagree on case %d: %s   (Go: %s)\n%s", n-first, all[n-first].call, all[n-first].want, msg)
			}
		}
		t.Fatalf("coqc failed: %v\n%s", err, msg)
	}
	t.Logf("%d cases agree", len(all))
}

// TestRejections: what is outside the subset is refused, with a position
func TestRejections(t *testing.T) {
	dir := t.TempDir()
	bad := map[string]string{
		"goroutine":    "func F(s string) string { go func() {}(); return s }",
		"map":          "func F(s string) string { m := map[string]string{}; return m[s] }",
		"rangeloop":    "func F(s string) int { n := 0; for range s { n++ }; return n }",
		"loopassigni":  "func F(s string) int { n := 0; for i := 0; i < len(s); i++ { i++; n++ }; return n }",
		"whileloop":    "func F(s string) int { n := 0; for n < len(s) { n++ }; return n }",
		"bytesslice":   "func F(b []byte) []byte { return b[1:] }",
		"store":        "func F(b []byte) []byte { b[0] = 1; return b }",
		"emptypat":     "import \"strings\"\nfunc F(s string) string { return strings.ReplaceAll(s, \"\", \"x\") }",
		"varpat":       "import \"strings\"\nfunc F(s, p string) string { return strings.ReplaceAll(s, p, \"x\") }",
		"count":        "import \"strings\"\nfunc F(s string) string { return strings.Replace(s, \"a\", \"x\", 1) }",
		"global":       "var g = \"x\"\nfunc F(s string) string { return s + g }",
		"other":        "func G(s string) string { return s }\nfunc F(s string) string { return G(s) }",
		"twores":       "func F(s string) (string, bool) { return s, true }",
		"shift":        "func F(x int) int { return x << 2 }",
		"divvar":       "func F(x, y int) int { return x / y }",
		"break":        "func F(s string) int { n := 0; for i := 0; i < len(s); i++ { if s[i] == 0 { break }; n++ }; return n }",
		"nested":       "func F(s string) int { n := 0; for i := 0; i < len(s); i++ { for j := 0; j < len(s); j++ { n++ } }; return n }",
		"stringofbyte": "func F(b byte) string { return string(b) }",
		"shadowlen":    "func len(s string) int { return 0 }\nfunc F(s string) int { return len(s) }",
		"float":        "func F(x float64) float64 { return x }",
		"recursion":    "func F(s string) string { if s == \"\" { return s }; return F(s[1:]) }",
		"buildercopy":  "import \"strings\"\nfunc F(s string) string { var a strings.Builder; b := a; b.WriteString(s); return b.String() }",
		"builderaddr":  "import (\"strings\"; \"fmt\")\nfunc F(s string) string { var a strings.Builder; fmt.Fprint(&a, s); return a.String() }",
		"runevar":      "func F(s string) bool { c := 'a'; return s[0] == byte(c) }",
	}
	for name, body := range bad {
		d := filepath.Join(dir, name)
		os.MkdirAll(d, 0o755)
		src := "package p\n" + body + "\n"
		os.WriteFile(filepath.Join(d, "f.go"), []byte(src), 0o644)
		out, err := translateFile(d, "f.go", []string{"F"})
		if err == nil {
			t.Errorf("%s: accepted, but must be rejected:\n%s", name, out)
			continue
		}
		if !strings.Contains(err.Error(), "f.go:") {
			t.Errorf("%s: rejection without a source position: %v", name, err)
		}
	}
}
