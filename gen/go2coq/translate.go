package main

import (
	"fmt"
	"go/ast"
	"go/parser"
	"go/token"
	"math/big"
	"os"
	"path/filepath"
	"sort"
	"strconv"
	"strings"
)

// ---------------------------------------------------------------------------- types

type typ int

const (
	tInvalid typ = iota
	tString
	tBytes
	tInt
	tByte
	tBool
	tUntyped // untyped integer / rune constant
	tBuilder // a local strings.Builder, used as a byte accumulator through its methods only
)

func (t typ) String() string {
	return [...]string{"?", "string", "[]byte", "int", "byte", "bool", "untyped constant", "strings.Builder"}[t]
}

func (t typ) coq() string {
	switch t {
	case tString, tBytes, tBuilder:
		return "list N"
	case tInt:
		return "Z"
	case tByte:
		return "N"
	case tBool:
		return "bool"
	}
	return "?"
}

type reject struct {
	pos token.Position
	msg string
}

func (r reject) Error() string { return fmt.Sprintf("%s: %s", r.pos, r.msg) }

// named types with a known underlying type (import path, name)
var namedTypes = map[[2]string]typ{
	{"log/slog", "Level"}: tInt, // type Level int
}

// identifiers of the universe block the translation relies on; they must not be redeclared in the package
var universe = []string{"len", "append", "string", "byte", "int", "bool", "true", "false", "iota", "uint8"}

// names that must not be used for Coq variables
var reserved = map[string]bool{}

func init() {
	for _, w := range strings.Fields("as at cofix else end exists exists2 fix for forall fun if IF in let match mod Prop return Set " +
		"then Type using where with andb orb negb Some None true false app cons nil bind Next Ret N Z nat list option bool " +
		"pair fst snd tt unit length Src GoRt GoPath Bool Datatypes") {
		reserved[w] = true
	}
}

// ---------------------------------------------------------------------------- environment

type varInfo struct {
	coq     string
	t       typ
	isConst bool
	c       *big.Int // value of an untyped constant
}

type env struct{ scopes []map[string]*varInfo }

func (e *env) clone() *env {
	n := &env{}
	for _, s := range e.scopes {
		m := map[string]*varInfo{}
		for k, v := range s {
			c := *v
			m[k] = &c
		}
		n.scopes = append(n.scopes, m)
	}
	return n
}
func (e *env) push() *env { e.scopes = append(e.scopes, map[string]*varInfo{}); return e }
func (e *env) truncate(depth int) *env {
	e.scopes = e.scopes[:depth]
	return e
}
func (e *env) depth() int { return len(e.scopes) }
func (e *env) lookup(name string) *varInfo {
	for i := len(e.scopes) - 1; i >= 0; i-- {
		if v, ok := e.scopes[i][name]; ok {
			return v
		}
	}
	return nil
}
func (e *env) inTop(name string) bool { _, ok := e.scopes[len(e.scopes)-1][name]; return ok }
func (e *env) declare(name string, v *varInfo) {
	e.scopes[len(e.scopes)-1][name] = v
}

// ---------------------------------------------------------------------------- translator state

type tr struct {
	fset       *token.FileSet
	imports    map[string]string // local package name -> import path
	funcs      map[string]*ast.FuncDecl
	sigs       map[string]*sig
	want       map[string]bool
	used       map[string]bool // Coq names used in the current function
	ntmp       int
	calls      map[string]map[string]bool
	cur        string
	needGoPath bool
	notes      []string
}

type sig struct {
	params []typ
	names  []string
	result typ
}

func (t *tr) fail(n ast.Node, format string, args ...interface{}) {
	msg := fmt.Sprintf(format, args...)
	if t.cur != "" {
		msg = "func " + t.cur + ": " + msg
	}
	panic(reject{t.fset.Position(n.Pos()), msg})
}

func (t *tr) fresh(base string) string {
	ok := true
	for i, r := range base {
		if !(r == '_' || r >= 'a' && r <= 'z' || r >= 'A' && r <= 'Z' || i > 0 && r >= '0' && r <= '9') {
			ok = false
		}
	}
	if !ok || base == "" || base == "_" {
		base = "v"
	}
	name := base
	if reserved[name] || t.funcs[name] != nil && t.want[name] {
		name = base + "_v"
	}
	for i := 1; t.used[name]; i++ {
		name = fmt.Sprintf("%s_%d", base, i)
	}
	t.used[name] = true
	return name
}

func (t *tr) tmp() string {
	for {
		t.ntmp++
		n := fmt.Sprintf("t%d", t.ntmp)
		if !t.used[n] {
			t.used[n] = true
			return n
		}
	}
}

// ---------------------------------------------------------------------------- values

type bind struct{ name, term string }

type val struct {
	binds []bind // option-valued computations that must succeed first (None = panic)
	term  string // pure term, given the binds
	t     typ
	c     *big.Int // constant value when t == tUntyped
	lit   []byte   // bytes of a string literal
	isLit bool
}

func wrapBinds(bs []bind, body string) string {
	for i := len(bs) - 1; i >= 0; i-- {
		body = fmt.Sprintf("(%s <- %s ;;\n%s)", bs[i].name, bs[i].term, body)
	}
	return body
}

func coqBytes(b []byte) string {
	if len(b) == 0 {
		return "(@nil N)"
	}
	parts := make([]string, len(b))
	for i, x := range b {
		parts[i] = strconv.Itoa(int(x))
	}
	return "[" + strings.Join(parts, "; ") + "]%N"
}

func coqZ(c *big.Int) string {
	if c.Sign() < 0 {
		return "(" + c.String() + ")%Z"
	}
	return c.String() + "%Z"
}

var (
	minInt = new(big.Int).Neg(new(big.Int).Lsh(big.NewInt(1), 63))
	maxInt = new(big.Int).Sub(new(big.Int).Lsh(big.NewInt(1), 63), big.NewInt(1))
)

// convert gives an untyped constant the type want; typed values must already have it
func (t *tr) convert(n ast.Node, v val, want typ) val {
	if v.t == want {
		return v
	}
	if v.t == tString && want == tString {
		return v
	}
	if v.t != tUntyped {
		t.fail(n, "type mismatch: %s where %s is needed", v.t, want)
	}
	switch want {
	case tInt:
		if v.c.Cmp(minInt) < 0 || v.c.Cmp(maxInt) > 0 {
			t.fail(n, "constant %s overflows int", v.c)
		}
		return val{term: coqZ(v.c), t: tInt}
	case tByte:
		if v.c.Sign() < 0 || v.c.Cmp(big.NewInt(255)) > 0 {
			t.fail(n, "constant %s overflows byte", v.c)
		}
		return val{term: v.c.String() + "%N", t: tByte}
	}
	t.fail(n, "constant %s used as %s", v.c, want)
	return val{}
}

// unify the operand types of a binary operation
func (t *tr) unify(n ast.Node, a, b val) (val, val) {
	switch {
	case a.t == tUntyped && b.t == tUntyped:
		return a, b
	case a.t == tUntyped:
		return t.convert(n, a, b.t), b
	case b.t == tUntyped:
		return a, t.convert(n, b, a.t)
	case a.t != b.t:
		t.fail(n, "mismatched operand types %s and %s", a.t, b.t)
	}
	return a, b
}

// ---------------------------------------------------------------------------- expressions

func (t *tr) expr(x ast.Expr, e *env) val {
	switch x := x.(type) {
	case *ast.ParenExpr:
		return t.expr(x.X, e)
	case *ast.BasicLit:
		return t.basicLit(x)
	case *ast.Ident:
		return t.ident(x, e)
	case *ast.UnaryExpr:
		return t.unary(x, e)
	case *ast.BinaryExpr:
		return t.binary(x, e)
	case *ast.IndexExpr:
		s := t.expr(x.X, e)
		if s.t != tString && s.t != tBytes {
			t.fail(x, "index expression on %s (only string and []byte)", s.t)
		}
		i := t.convert(x.Index, t.expr(x.Index, e), tInt)
		nm := t.tmp()
		bs := append(append([]bind{}, s.binds...), i.binds...)
		bs = append(bs, bind{nm, fmt.Sprintf("(GoRt.byte_at %s %s)", s.term, i.term)})
		return val{binds: bs, term: nm, t: tByte}
	case *ast.SliceExpr:
		return t.sliceExpr(x, e)
	case *ast.CallExpr:
		return t.call(x, e)
	}
	t.fail(x, "expression form %T is outside the translatable subset", x)
	return val{}
}

func (t *tr) basicLit(x *ast.BasicLit) val {
	switch x.Kind {
	case token.INT:
		c, ok := new(big.Int).SetString(strings.ReplaceAll(x.Value, "_", ""), 0)
		if !ok {
			t.fail(x, "integer literal %s not understood", x.Value)
		}
		return val{t: tUntyped, c: c}
	case token.CHAR:
		s, err := strconv.Unquote(x.Value)
		if err != nil {
			t.fail(x, "rune literal %s not understood", x.Value)
		}
		r := []rune(s)
		if len(r) != 1 {
			t.fail(x, "rune literal %s not understood", x.Value)
		}
		return val{t: tUntyped, c: big.NewInt(int64(r[0]))}
	case token.STRING:
		s, err := strconv.Unquote(x.Value)
		if err != nil {
			t.fail(x, "string literal not understood")
		}
		b := []byte(s)
		return val{t: tString, term: coqBytes(b), lit: b, isLit: true}
	}
	t.fail(x, "literal of kind %s is outside the translatable subset", x.Kind)
	return val{}
}

func (t *tr) ident(x *ast.Ident, e *env) val {
	if v := e.lookup(x.Name); v != nil {
		if v.isConst && v.t == tUntyped {
			return val{t: tUntyped, c: v.c}
		}
		if v.t == tBuilder {
			t.fail(x, "the strings.Builder %s is used other than through WriteByte / WriteString / Write / Reset / String / Len", x.Name)
		}
		return val{term: v.coq, t: v.t}
	}
	switch x.Name {
	case "true", "false":
		return val{term: x.Name, t: tBool}
	}
	t.fail(x, "identifier %s is not a parameter, local variable or constant of the function (package-level state is outside the subset)", x.Name)
	return val{}
}

func (t *tr) unary(x *ast.UnaryExpr, e *env) val {
	a := t.expr(x.X, e)
	switch x.Op {
	case token.NOT:
		if a.t != tBool {
			t.fail(x, "! on %s", a.t)
		}
		return val{binds: a.binds, term: "(negb " + a.term + ")", t: tBool}
	case token.SUB:
		switch a.t {
		case tUntyped:
			return val{t: tUntyped, c: new(big.Int).Neg(a.c)}
		case tInt:
			return val{binds: a.binds, term: "(GoRt.int_neg " + a.term + ")", t: tInt}
		}
	case token.ADD:
		if a.t == tUntyped || a.t == tInt {
			return a
		}
	}
	t.fail(x, "unary %s on %s is outside the translatable subset", x.Op, a.t)
	return val{}
}

func boolConst(b bool) val {
	if b {
		return val{term: "true", t: tBool}
	}
	return val{term: "false", t: tBool}
}

func (t *tr) binary(x *ast.BinaryExpr, e *env) val {
	if x.Op == token.LAND || x.Op == token.LOR {
		a := t.expr(x.X, e)
		b := t.expr(x.Y, e)
		if a.t != tBool || b.t != tBool {
			t.fail(x, "%s on %s and %s", x.Op, a.t, b.t)
		}
		if len(b.binds) == 0 {
			op := "andb"
			if x.Op == token.LOR {
				op = "orb"
			}
			return val{binds: a.binds, term: fmt.Sprintf("(%s %s %s)", op, a.term, b.term), t: tBool}
		}
		// the right operand can panic: it is evaluated only when the left one does not decide
		nm := t.tmp()
		rhs := wrapBinds(b.binds, "Some "+b.term)
		var term string
		if x.Op == token.LOR {
			term = fmt.Sprintf("(if %s then Some true else %s)", a.term, rhs)
		} else {
			term = fmt.Sprintf("(if %s then %s else Some false)", a.term, rhs)
		}
		return val{binds: append(append([]bind{}, a.binds...), bind{nm, term}), term: nm, t: tBool}
	}
	a, b := t.unify(x, t.expr(x.X, e), t.expr(x.Y, e))
	bs := append(append([]bind{}, a.binds...), b.binds...)
	ty := a.t
	switch x.Op {
	case token.EQL, token.NEQ, token.LSS, token.LEQ, token.GTR, token.GEQ:
		if ty == tUntyped {
			c := a.c.Cmp(b.c)
			r := map[token.Token]bool{token.EQL: c == 0, token.NEQ: c != 0, token.LSS: c < 0, token.LEQ: c <= 0, token.GTR: c > 0, token.GEQ: c >= 0}[x.Op]
			return boolConst(r)
		}
		var eq, lt, le string
		switch ty {
		case tInt:
			eq, lt, le = "Z.eqb", "Z.ltb", "Z.leb"
		case tByte:
			eq, lt, le = "N.eqb", "N.ltb", "N.leb"
		case tString:
			eq, lt = "GoRt.str_eqb", "GoRt.str_ltb"
		case tBool:
			eq = "Bool.eqb"
		case tBytes:
			t.fail(x, "comparison of []byte values (only with nil in Go; nil-ness is not modelled)")
		}
		ap := func(f, p, q string) string { return fmt.Sprintf("(%s %s %s)", f, p, q) }
		var term string
		switch x.Op {
		case token.EQL:
			term = ap(eq, a.term, b.term)
		case token.NEQ:
			term = "(negb " + ap(eq, a.term, b.term) + ")"
		default:
			if lt == "" {
				t.fail(x, "ordering %s on %s", x.Op, ty)
			}
			switch x.Op {
			case token.LSS:
				term = ap(lt, a.term, b.term)
			case token.GTR:
				term = ap(lt, b.term, a.term)
			case token.LEQ:
				if le != "" {
					term = ap(le, a.term, b.term)
				} else {
					term = "(negb " + ap(lt, b.term, a.term) + ")"
				}
			case token.GEQ:
				if le != "" {
					term = ap(le, b.term, a.term)
				} else {
					term = "(negb " + ap(lt, a.term, b.term) + ")"
				}
			}
		}
		return val{binds: bs, term: term, t: tBool}
	case token.ADD, token.SUB, token.MUL, token.AND, token.OR, token.XOR:
		if ty == tString && x.Op == token.ADD {
			return val{binds: bs, term: fmt.Sprintf("(%s ++ %s)", a.term, b.term), t: tString}
		}
		if ty == tUntyped {
			r := new(big.Int)
			switch x.Op {
			case token.ADD:
				r.Add(a.c, b.c)
			case token.SUB:
				r.Sub(a.c, b.c)
			case token.MUL:
				r.Mul(a.c, b.c)
			case token.AND:
				r.And(a.c, b.c)
			case token.OR:
				r.Or(a.c, b.c)
			case token.XOR:
				r.Xor(a.c, b.c)
			}
			return val{t: tUntyped, c: r}
		}
		names := map[token.Token]string{token.ADD: "add", token.SUB: "sub", token.MUL: "mul", token.AND: "and", token.OR: "or", token.XOR: "xor"}
		switch ty {
		case tInt:
			return val{binds: bs, term: fmt.Sprintf("(GoRt.int_%s %s %s)", names[x.Op], a.term, b.term), t: tInt}
		case tByte:
			if x.Op == token.MUL {
				t.fail(x, "multiplication of bytes is outside the translatable subset")
			}
			return val{binds: bs, term: fmt.Sprintf("(GoRt.byte_%s %s %s)", names[x.Op], a.term, b.term), t: tByte}
		}
		t.fail(x, "operator %s on %s", x.Op, ty)
	case token.QUO, token.REM:
		if ty == tUntyped {
			if b.c.Sign() == 0 {
				t.fail(x, "constant division by zero")
			}
			r := new(big.Int)
			if x.Op == token.QUO {
				r.Quo(a.c, b.c)
			} else {
				r.Rem(a.c, b.c)
			}
			return val{t: tUntyped, c: r}
		}
		// only by a constant other than 0 and -1: no panic, no overflow
		y := t.expr(x.Y, e)
		if ty != tInt || y.t != tUntyped || y.c.Sign() == 0 || y.c.Cmp(big.NewInt(-1)) == 0 {
			t.fail(x, "%s is supported on int with a constant divisor other than 0 and -1 only", x.Op)
		}
		f := "Z.quot"
		if x.Op == token.REM {
			f = "Z.rem"
		}
		return val{binds: bs, term: fmt.Sprintf("(%s %s %s)", f, a.term, b.term), t: tInt}
	}
	t.fail(x, "operator %s is outside the translatable subset", x.Op)
	return val{}
}

func (t *tr) sliceExpr(x *ast.SliceExpr, e *env) val {
	if x.Slice3 {
		t.fail(x, "3-index slice is outside the translatable subset")
	}
	s := t.expr(x.X, e)
	if s.t != tString {
		t.fail(x, "slice expression on %s: only strings can be sliced (a slice of a []byte aliases its backing array, which the value model cannot express)", s.t)
	}
	bs := append([]bind{}, s.binds...)
	var lo, hi *val
	if x.Low != nil {
		v := t.convert(x.Low, t.expr(x.Low, e), tInt)
		lo = &v
		bs = append(bs, v.binds...)
	}
	if x.High != nil {
		v := t.convert(x.High, t.expr(x.High, e), tInt)
		hi = &v
		bs = append(bs, v.binds...)
	}
	nm := t.tmp()
	var term string
	switch {
	case lo == nil && hi == nil:
		return val{binds: s.binds, term: s.term, t: tString}
	case hi == nil:
		term = fmt.Sprintf("(GoRt.slice_from %s %s)", s.term, lo.term)
	case lo == nil:
		term = fmt.Sprintf("(GoRt.slice_to %s %s)", s.term, hi.term)
	default:
		term = fmt.Sprintf("(GoRt.slice %s %s %s)", s.term, lo.term, hi.term)
	}
	return val{binds: append(bs, bind{nm, term}), term: nm, t: tString}
}

// pkgOf resolves `x.Sel` to (import path, name) when x names an imported package
func (t *tr) pkgOf(x ast.Expr, e *env) (string, string, bool) {
	sel, ok := x.(*ast.SelectorExpr)
	if !ok {
		return "", "", false
	}
	id, ok := sel.X.(*ast.Ident)
	if !ok || e.lookup(id.Name) != nil {
		return "", "", false
	}
	p, ok := t.imports[id.Name]
	if !ok {
		return "", "", false
	}
	return p, sel.Sel.Name, true
}

// builderOf resolves `b.Method` when b is a local strings.Builder
func (t *tr) builderOf(x ast.Expr, e *env) (*varInfo, string, bool) {
	sel, ok := x.(*ast.SelectorExpr)
	if !ok {
		return nil, "", false
	}
	id, ok := sel.X.(*ast.Ident)
	if !ok {
		return nil, "", false
	}
	v := e.lookup(id.Name)
	if v == nil || v.t != tBuilder {
		return nil, "", false
	}
	return v, sel.Sel.Name, true
}

func (t *tr) args(x *ast.CallExpr, e *env, want ...typ) ([]val, []bind) {
	if len(x.Args) != len(want) {
		t.fail(x, "call with %d arguments where the supported form has %d", len(x.Args), len(want))
	}
	if x.Ellipsis.IsValid() {
		t.fail(x, "variadic call is outside the translatable subset")
	}
	var vs []val
	var bs []bind
	for i, a := range x.Args {
		v := t.expr(a, e)
		if want[i] == tString && v.t == tString {
			// ok
		} else {
			v = t.convert(a, v, want[i])
		}
		vs = append(vs, v)
		bs = append(bs, v.binds...)
	}
	return vs, bs
}

func (t *tr) call(x *ast.CallExpr, e *env) val {
	// conversions and builtins
	if at, ok := x.Fun.(*ast.ArrayType); ok {
		if tt := t.typeOf(at, e); tt == tBytes {
			vs, bs := t.args(x, e, tString)
			return val{binds: bs, term: vs[0].term, t: tBytes}
		}
	}
	if id, ok := x.Fun.(*ast.Ident); ok && e.lookup(id.Name) == nil {
		switch id.Name {
		case "len":
			if len(x.Args) != 1 {
				t.fail(x, "len with %d arguments", len(x.Args))
			}
			v := t.expr(x.Args[0], e)
			if v.t != tString && v.t != tBytes {
				t.fail(x, "len of %s", v.t)
			}
			return val{binds: v.binds, term: "(GoRt.len " + v.term + ")", t: tInt}
		case "string":
			if len(x.Args) != 1 {
				t.fail(x, "conversion with %d arguments", len(x.Args))
			}
			v := t.expr(x.Args[0], e)
			if v.t != tString && v.t != tBytes {
				t.fail(x, "string(%s): only string([]byte) is supported (string(byte/int) encodes UTF-8)", v.t)
			}
			return val{binds: v.binds, term: v.term, t: tString}
		case "int":
			if len(x.Args) != 1 {
				t.fail(x, "conversion with %d arguments", len(x.Args))
			}
			v := t.expr(x.Args[0], e)
			switch v.t {
			case tInt:
				return v
			case tUntyped:
				return t.convert(x, v, tInt)
			case tByte:
				return val{binds: v.binds, term: "(GoRt.int_of_byte " + v.term + ")", t: tInt}
			}
			t.fail(x, "int(%s)", v.t)
		case "byte", "uint8":
			if len(x.Args) != 1 {
				t.fail(x, "conversion with %d arguments", len(x.Args))
			}
			v := t.expr(x.Args[0], e)
			switch v.t {
			case tByte:
				return v
			case tUntyped:
				return t.convert(x, v, tByte)
			case tInt:
				return val{binds: v.binds, term: "(GoRt.byte_of_int " + v.term + ")", t: tByte}
			}
			t.fail(x, "byte(%s)", v.t)
		case "append":
			if len(x.Args) < 1 {
				t.fail(x, "append without arguments")
			}
			b := t.expr(x.Args[0], e)
			if b.t != tBytes {
				t.fail(x, "append to %s (only []byte)", b.t)
			}
			bs := append([]bind{}, b.binds...)
			if x.Ellipsis.IsValid() {
				if len(x.Args) != 2 {
					t.fail(x, "append(b, s...) with %d arguments", len(x.Args))
				}
				s := t.expr(x.Args[1], e)
				if s.t != tString && s.t != tBytes {
					t.fail(x, "append(b, %s...)", s.t)
				}
				return val{binds: append(bs, s.binds...), term: fmt.Sprintf("(%s ++ %s)", b.term, s.term), t: tBytes}
			}
			if len(x.Args) == 1 {
				return b
			}
			var elems []string
			for _, a := range x.Args[1:] {
				v := t.convert(a, t.expr(a, e), tByte)
				bs = append(bs, v.binds...)
				elems = append(elems, v.term)
			}
			return val{binds: bs, term: fmt.Sprintf("(%s ++ [%s])", b.term, strings.Join(elems, "; ")), t: tBytes}
		}
		// a function of the same file
		if fd := t.funcs[id.Name]; fd != nil {
			if !t.want[id.Name] {
				t.fail(x, "call of %s, which is not among the functions being translated", id.Name)
			}
			sg := t.sigs[id.Name]
			if sg == nil {
				t.fail(x, "call of %s, whose signature is outside the translatable subset", id.Name)
			}
			vs, bs := t.args(x, e, sg.params...)
			terms := []string{id.Name}
			for _, v := range vs {
				terms = append(terms, v.term)
			}
			if t.calls[t.cur] == nil {
				t.calls[t.cur] = map[string]bool{}
			}
			t.calls[t.cur][id.Name] = true
			nm := t.tmp()
			return val{binds: append(bs, bind{nm, "(" + strings.Join(terms, " ") + ")"}), term: nm, t: sg.result}
		}
		t.fail(x, "call of %s is outside the translatable subset", id.Name)
	}
	if bv, name, ok := t.builderOf(x.Fun, e); ok {
		switch name {
		case "String":
			t.args(x, e)
			return val{term: bv.coq, t: tString}
		case "Len":
			t.args(x, e)
			return val{term: "(GoRt.len " + bv.coq + ")", t: tInt}
		}
		t.fail(x, "strings.Builder method %s is outside the translatable subset as an expression", name)
	}
	if pkg, name, ok := t.pkgOf(x.Fun, e); ok {
		key := pkg + "." + name
		switch key {
		case "strings.Replace", "strings.ReplaceAll":
			var vs []val
			var bs []bind
			if name == "Replace" {
				if len(x.Args) != 4 {
					t.fail(x, "strings.Replace with %d arguments", len(x.Args))
				}
				n := t.expr(x.Args[3], e)
				if n.t != tUntyped || n.c.Sign() >= 0 {
					t.fail(x.Args[3], "strings.Replace is supported with a negative constant count (replace all) only")
				}
				x2 := *x
				x2.Args = x.Args[:3]
				vs, bs = t.args(&x2, e, tString, tString, tString)
			} else {
				vs, bs = t.args(x, e, tString, tString, tString)
			}
			if !vs[1].isLit || len(vs[1].lit) == 0 {
				t.fail(x.Args[1], "the pattern of strings.%s must be a non-empty string literal (the empty pattern splits at UTF-8 boundaries)", name)
			}
			return val{binds: bs, term: fmt.Sprintf("(GoRt.str_replace_all %s %s %s)", vs[1].term, vs[2].term, vs[0].term), t: tString}
		case "strings.HasPrefix", "strings.HasSuffix", "strings.Contains":
			vs, bs := t.args(x, e, tString, tString)
			f := map[string]string{"HasPrefix": "has_prefix", "HasSuffix": "has_suffix", "Contains": "str_contains"}[name]
			return val{binds: bs, term: fmt.Sprintf("(GoRt.%s %s %s)", f, vs[0].term, vs[1].term), t: tBool}
		case "strings.TrimPrefix", "strings.TrimSuffix":
			vs, bs := t.args(x, e, tString, tString)
			f := map[string]string{"TrimPrefix": "trim_prefix", "TrimSuffix": "trim_suffix"}[name]
			return val{binds: bs, term: fmt.Sprintf("(GoRt.%s %s %s)", f, vs[0].term, vs[1].term), t: tString}
		case "strings.Index":
			vs, bs := t.args(x, e, tString, tString)
			return val{binds: bs, term: fmt.Sprintf("(GoRt.str_index %s %s)", vs[0].term, vs[1].term), t: tInt}
		case "strings.IndexByte":
			vs, bs := t.args(x, e, tString, tByte)
			return val{binds: bs, term: fmt.Sprintf("(GoRt.str_index_byte %s %s)", vs[0].term, vs[1].term), t: tInt}
		case "path.Clean", "path/filepath.Clean":
			vs, bs := t.args(x, e, tString)
			t.needGoPath = true
			if pkg == "path/filepath" {
				t.note("filepath.Clean = GoPath.clean: POSIX (separator '/', no volume names)")
			}
			return val{binds: bs, term: "(GoPath.clean " + vs[0].term + ")", t: tString}
		case "path/filepath.Join", "path.Join":
			if len(x.Args) != 2 {
				t.fail(x, "%s.Join with %d arguments (the modelled form has two)", pkg, len(x.Args))
			}
			vs, bs := t.args(x, e, tString, tString)
			t.needGoPath = true
			if pkg == "path/filepath" {
				t.note("filepath.Join = GoPath.join: POSIX (separator '/', no volume names)")
			}
			return val{binds: bs, term: fmt.Sprintf("(GoPath.join %s %s)", vs[0].term, vs[1].term), t: tString}
		case "path/filepath.FromSlash", "path/filepath.ToSlash":
			vs, bs := t.args(x, e, tString)
			t.note("filepath." + name + " = identity: POSIX (separator '/')")
			return val{binds: bs, term: vs[0].term, t: tString}
		}
		t.fail(x, "call of %s.%s is not among the whitelisted library functions", pkg, name)
	}
	t.fail(x, "call form is outside the translatable subset")
	return val{}
}

func (t *tr) note(s string) {
	for _, n := range t.notes {
		if n == s {
			return
		}
	}
	t.notes = append(t.notes, s)
}

// typeOf maps a type expression to the subset
func (t *tr) typeOf(x ast.Expr, e *env) typ {
	switch x := x.(type) {
	case *ast.Ident:
		if e != nil && e.lookup(x.Name) != nil {
			t.fail(x, "type name %s is shadowed", x.Name)
		}
		switch x.Name {
		case "string":
			return tString
		case "int":
			return tInt
		case "byte", "uint8":
			return tByte
		case "bool":
			return tBool
		}
		t.fail(x, "type %s is outside the translatable subset (string, []byte, int, byte, bool)", x.Name)
	case *ast.ArrayType:
		if x.Len == nil {
			if id, ok := x.Elt.(*ast.Ident); ok && (id.Name == "byte" || id.Name == "uint8") {
				return tBytes
			}
		}
		t.fail(x, "array/slice type is outside the translatable subset (only []byte)")
	case *ast.SelectorExpr:
		if id, ok := x.X.(*ast.Ident); ok && (e == nil || e.lookup(id.Name) == nil) {
			if p, ok := t.imports[id.Name]; ok {
				if p == "strings" && x.Sel.Name == "Builder" {
					return tBuilder
				}
				if ty, ok := namedTypes[[2]string{p, x.Sel.Name}]; ok {
					t.note(fmt.Sprintf("%s.%s is taken as its underlying type %s", p, x.Sel.Name, ty))
					return ty
				}
			}
		}
		t.fail(x, "named type is outside the translatable subset")
	}
	t.fail(x, "type form %T is outside the translatable subset", x)
	return tInvalid
}

// ---------------------------------------------------------------------------- statements

type ctx struct {
	ret      func(term string) string // rendering of `return term`
	rt       typ
	inLoop   bool
	loopNext func(e *env) string // rendering of `continue` / end of the loop body
}

func zeroOf(ty typ) string {
	switch ty {
	case tString, tBytes, tBuilder:
		return "(@nil N)"
	case tInt:
		return "0%Z"
	case tByte:
		return "0%N"
	case tBool:
		return "false"
	}
	return "?"
}

func (t *tr) bindVar(e *env, name string, ty typ, define bool) string {
	// returns the Coq name for the new value of the Go variable
	nm := t.fresh(name)
	if define {
		e.declare(name, &varInfo{coq: nm, t: ty})
	} else {
		v := e.lookup(name)
		v.coq = nm
	}
	return nm
}

func letIn(name, term, rest string) string {
	return fmt.Sprintf("let %s := %s in\n%s", name, term, rest)
}

// stmts translates list; k renders what follows when control falls off its end
func (t *tr) stmts(list []ast.Stmt, e *env, cx *ctx, k func(e *env) string) string {
	if len(list) == 0 {
		return k(e)
	}
	s := list[0]
	rest := func(e2 *env) string { return t.stmts(list[1:], e2, cx, k) }
	switch s := s.(type) {
	case *ast.EmptyStmt:
		return rest(e)
	case *ast.ReturnStmt:
		if len(s.Results) != 1 {
			t.fail(s, "return with %d values (exactly one result is supported)", len(s.Results))
		}
		v := t.expr(s.Results[0], e)
		if !(v.t == cx.rt) {
			v = t.convert(s, v, cx.rt)
		}
		if n := len(v.binds); n > 0 && !cx.inLoop && v.binds[n-1].name == v.term {
			// return F(x): the last computation IS the result (bind m Some = m)
			return wrapBinds(v.binds[:n-1], v.binds[n-1].term)
		}
		return wrapBinds(v.binds, cx.ret(v.term))
	case *ast.BlockStmt:
		d := e.depth()
		return t.stmts(s.List, e.push(), cx, func(e2 *env) string { return rest(e2.truncate(d)) })
	case *ast.AssignStmt, *ast.IncDecStmt, *ast.DeclStmt:
		return t.simple(s, e, rest)
	case *ast.IfStmt:
		return t.ifStmt(s, e, cx, rest)
	case *ast.SwitchStmt:
		return t.switchStmt(s, e, cx, rest)
	case *ast.ForStmt:
		return t.forStmt(s, e, cx, rest)
	case *ast.ExprStmt:
		// b.WriteByte(c), b.WriteString(x), b.Write(p), b.Reset() on a local strings.Builder: the accumulator grows
		call, ok := s.X.(*ast.CallExpr)
		if !ok {
			t.fail(s, "expression statement is outside the translatable subset")
		}
		bv, name, ok := t.builderOf(call.Fun, e)
		if !ok {
			t.fail(s, "expression statement is outside the translatable subset (only the Write methods of a local strings.Builder)")
		}
		var bs []bind
		var term string
		switch name {
		case "WriteByte":
			vs, b := t.args(call, e, tByte)
			bs, term = b, fmt.Sprintf("(%s ++ [%s])", bv.coq, vs[0].term)
		case "WriteString":
			vs, b := t.args(call, e, tString)
			bs, term = b, fmt.Sprintf("(%s ++ %s)", bv.coq, vs[0].term)
		case "Write":
			vs, b := t.args(call, e, tBytes)
			bs, term = b, fmt.Sprintf("(%s ++ %s)", bv.coq, vs[0].term)
		case "Reset":
			t.args(call, e)
			term = "(@nil N)"
		default:
			t.fail(s, "strings.Builder method %s is outside the translatable subset", name)
		}
		id := call.Fun.(*ast.SelectorExpr).X.(*ast.Ident)
		nm := t.bindVar(e, id.Name, tBuilder, false)
		return wrapBinds(bs, letIn(nm, term, rest(e)))
	case *ast.BranchStmt:
		if s.Tok == token.CONTINUE && s.Label == nil && cx.inLoop {
			return cx.loopNext(e)
		}
		t.fail(s, "%s is outside the translatable subset", s.Tok)
	}
	t.fail(s, "statement form %T is outside the translatable subset", s)
	return ""
}

func (t *tr) simple(s ast.Stmt, e *env, k func(e *env) string) string {
	switch s := s.(type) {
	case *ast.IncDecStmt:
		id, ok := s.X.(*ast.Ident)
		if !ok {
			t.fail(s, "%s on something that is not a variable", s.Tok)
		}
		op := token.ADD
		if s.Tok == token.DEC {
			op = token.SUB
		}
		return t.assign1(s, id, &ast.BinaryExpr{X: id, OpPos: s.TokPos, Op: op, Y: &ast.BasicLit{ValuePos: s.TokPos, Kind: token.INT, Value: "1"}}, false, e, k)
	case *ast.AssignStmt:
		if s.Tok != token.ASSIGN && s.Tok != token.DEFINE {
			ops := map[token.Token]token.Token{token.ADD_ASSIGN: token.ADD, token.SUB_ASSIGN: token.SUB, token.MUL_ASSIGN: token.MUL,
				token.AND_ASSIGN: token.AND, token.OR_ASSIGN: token.OR, token.XOR_ASSIGN: token.XOR, token.QUO_ASSIGN: token.QUO, token.REM_ASSIGN: token.REM}
			op, ok := ops[s.Tok]
			if !ok || len(s.Lhs) != 1 || len(s.Rhs) != 1 {
				t.fail(s, "assignment operator %s is outside the translatable subset", s.Tok)
			}
			id, ok := s.Lhs[0].(*ast.Ident)
			if !ok {
				t.fail(s, "assignment to something that is not a variable (stores into slices are outside the subset)")
			}
			return t.assign1(s, id, &ast.BinaryExpr{X: id, OpPos: s.TokPos, Op: op, Y: s.Rhs[0]}, false, e, k)
		}
		if len(s.Lhs) != len(s.Rhs) {
			t.fail(s, "assignment of a multi-valued expression is outside the translatable subset")
		}
		if len(s.Lhs) == 1 {
			id, ok := s.Lhs[0].(*ast.Ident)
			if !ok {
				t.fail(s, "assignment to something that is not a variable (stores into slices are outside the subset)")
			}
			return t.assign1(s, id, s.Rhs[0], s.Tok == token.DEFINE, e, k)
		}
		// parallel assignment: all right-hand sides are evaluated first
		var vals []val
		var bs []bind
		for _, r := range s.Rhs {
			v := t.expr(r, e)
			vals = append(vals, v)
			bs = append(bs, v.binds...)
		}
		type pend struct{ nm, term string }
		var ps []pend
		var tmps []pend
		for i, l := range s.Lhs {
			id, ok := l.(*ast.Ident)
			if !ok {
				t.fail(s, "assignment to something that is not a variable (stores into slices are outside the subset)")
			}
			v := vals[i]
			if id.Name == "_" {
				continue
			}
			define := s.Tok == token.DEFINE && !e.inTop(id.Name)
			ty := v.t
			if define {
				if ty == tUntyped {
					v = t.defaultType(s, v)
					ty = v.t
				}
			} else {
				old := e.lookup(id.Name)
				if old == nil || old.isConst {
					t.fail(id, "assignment to %s, which is not a variable of the function", id.Name)
				}
				v = t.convert(s, v, old.t)
				ty = old.t
			}
			tm := t.tmp()
			tmps = append(tmps, pend{tm, v.term})
			ps = append(ps, pend{t.bindVar(e, id.Name, ty, define), tm})
		}
		body := k(e)
		for i := len(ps) - 1; i >= 0; i-- {
			body = letIn(ps[i].nm, ps[i].term, body)
		}
		for i := len(tmps) - 1; i >= 0; i-- {
			body = letIn(tmps[i].nm, tmps[i].term, body)
		}
		return wrapBinds(bs, body)
	case *ast.DeclStmt:
		gd, ok := s.Decl.(*ast.GenDecl)
		if !ok || (gd.Tok != token.VAR && gd.Tok != token.CONST) {
			t.fail(s, "local declaration form is outside the translatable subset")
		}
		if gd.Tok == token.CONST {
			t.constDecl(gd, e)
			return k(e)
		}
		// var: collect (name, type, init) in order
		type item struct {
			id   *ast.Ident
			ty   typ
			init ast.Expr
		}
		var items []item
		for _, sp := range gd.Specs {
			vs := sp.(*ast.ValueSpec)
			if len(vs.Values) != 0 && len(vs.Values) != len(vs.Names) {
				t.fail(vs, "var with a multi-valued initialiser is outside the translatable subset")
			}
			for i, id := range vs.Names {
				it := item{id: id}
				if vs.Type != nil {
					it.ty = t.typeOf(vs.Type, e)
				}
				if len(vs.Values) > 0 {
					it.init = vs.Values[i]
				}
				items = append(items, it)
			}
		}
		var gen func(i int) string
		gen = func(i int) string {
			if i == len(items) {
				return k(e)
			}
			it := items[i]
			if it.init == nil {
				if it.id.Name == "_" {
					return gen(i + 1)
				}
				nm := t.bindVar(e, it.id.Name, it.ty, true)
				return letIn(nm, zeroOf(it.ty), gen(i+1))
			}
			v := t.expr(it.init, e)
			if it.ty != tInvalid {
				if !(v.t == it.ty) {
					v = t.convert(it.init, v, it.ty)
				}
			} else if v.t == tUntyped {
				v = t.defaultType(it.init, v)
			}
			if it.id.Name == "_" {
				return wrapBinds(v.binds, gen(i+1))
			}
			nm := t.bindVar(e, it.id.Name, v.t, true)
			return wrapBinds(v.binds, letIn(nm, v.term, gen(i+1)))
		}
		return gen(0)
	}
	t.fail(s, "statement form %T is outside the translatable subset", s)
	return ""
}

func (t *tr) defaultType(n ast.Node, v val) val {
	// the default type of an untyped rune constant is rune, which is outside the subset; integer constants default to int.
	// Without type information the two cannot be told apart here, so only values assigned to typed variables are accepted.
	t.fail(n, "an untyped constant initialises a variable without a declared type (write the type, e.g. var x int = ...)")
	return v
}

func (t *tr) assign1(n ast.Node, id *ast.Ident, rhs ast.Expr, defineTok bool, e *env, k func(e *env) string) string {
	v := t.expr(rhs, e)
	if id.Name == "_" {
		return wrapBinds(v.binds, k(e))
	}
	define := defineTok // a single-variable := always declares a new variable in the current scope
	if defineTok && e.inTop(id.Name) {
		t.fail(n, "no new variable on the left side of :=")
	}
	ty := v.t
	if define {
		if ty == tUntyped {
			// i := 0 style: an integer literal defaults to int; a rune literal would be a rune
			if bl, ok := rhs.(*ast.BasicLit); ok && bl.Kind == token.INT {
				v = t.convert(n, v, tInt)
				ty = tInt
			} else {
				v = t.defaultType(n, v)
			}
		}
	} else {
		old := e.lookup(id.Name)
		if old == nil || old.isConst {
			t.fail(id, "assignment to %s, which is not a variable of the function", id.Name)
		}
		if !(v.t == old.t) {
			v = t.convert(n, v, old.t)
		}
		ty = old.t
	}
	nm := t.bindVar(e, id.Name, ty, define)
	return wrapBinds(v.binds, letIn(nm, v.term, k(e)))
}

func (t *tr) constDecl(gd *ast.GenDecl, e *env) {
	var prev *ast.ValueSpec
	for i, sp := range gd.Specs {
		vs := sp.(*ast.ValueSpec)
		cur := vs
		if len(vs.Values) == 0 {
			if prev == nil {
				t.fail(vs, "constant without a value")
			}
			cur = prev
		} else {
			prev = vs
		}
		if cur.Type != nil {
			t.fail(vs, "typed local constants are outside the translatable subset")
		}
		if len(cur.Values) != len(vs.Names) {
			t.fail(vs, "constant specification with %d names and %d values", len(vs.Names), len(cur.Values))
		}
		ce := e.clone().push()
		ce.declare("iota", &varInfo{isConst: true, t: tUntyped, c: big.NewInt(int64(i))})
		for j, id := range vs.Names {
			v := t.expr(cur.Values[j], ce)
			if v.t != tUntyped || len(v.binds) > 0 {
				t.fail(cur.Values[j], "only untyped integer / rune constants are supported as local constants")
			}
			if id.Name != "_" {
				e.declare(id.Name, &varInfo{isConst: true, t: tUntyped, c: v.c})
			}
		}
	}
}

func (t *tr) condition(x ast.Expr, e *env) val {
	c := t.expr(x, e)
	if c.t != tBool {
		t.fail(x, "condition of type %s", c.t)
	}
	return c
}

func ifThenElse(c val, a, b string) string {
	return wrapBinds(c.binds, fmt.Sprintf("if %s\nthen (%s)\nelse (%s)", c.term, a, b))
}

func (t *tr) ifStmt(s *ast.IfStmt, e *env, cx *ctx, rest func(e *env) string) string {
	d := e.depth()
	after := func(e2 *env) string { return rest(e2.truncate(d)) }
	e.push()
	body := func(e1 *env) string {
		c := t.condition(s.Cond, e1)
		d1 := e1.depth()
		thenS := t.stmts(s.Body.List, e1.clone().push(), cx, after)
		var elseS string
		switch el := s.Else.(type) {
		case nil:
			elseS = after(e1.clone())
		case *ast.BlockStmt:
			elseS = t.stmts(el.List, e1.clone().push(), cx, after)
		case *ast.IfStmt:
			elseS = t.ifStmt(el, e1.clone(), cx, after)
		default:
			t.fail(s.Else, "else form %T", s.Else)
		}
		_ = d1
		return ifThenElse(c, thenS, elseS)
	}
	if s.Init != nil {
		switch s.Init.(type) {
		case *ast.AssignStmt, *ast.IncDecStmt:
			return t.simple(s.Init, e, body)
		default:
			t.fail(s.Init, "if-initialiser form %T is outside the translatable subset", s.Init)
		}
	}
	return body(e)
}

func (t *tr) switchStmt(s *ast.SwitchStmt, e *env, cx *ctx, rest func(e *env) string) string {
	if s.Init != nil || s.Tag != nil {
		t.fail(s, "only the tagless switch { case cond: ... } is inside the translatable subset")
	}
	d := e.depth()
	after := func(e2 *env) string { return rest(e2.truncate(d)) }
	var cases []*ast.CaseClause
	var def *ast.CaseClause
	for _, c := range s.Body.List {
		cc := c.(*ast.CaseClause)
		for _, st := range cc.Body {
			if b, ok := st.(*ast.BranchStmt); ok && b.Tok == token.FALLTHROUGH {
				t.fail(b, "fallthrough is outside the translatable subset")
			}
		}
		if cc.List == nil {
			def = cc
		} else {
			cases = append(cases, cc)
		}
	}
	var gen func(i int, e1 *env) string
	gen = func(i int, e1 *env) string {
		if i == len(cases) {
			if def == nil {
				return after(e1.clone())
			}
			return t.stmts(def.Body, e1.clone().push(), cx, after)
		}
		cc := cases[i]
		// case a, b:  means a || b, evaluated left to right
		var cond ast.Expr = cc.List[0]
		for _, x := range cc.List[1:] {
			cond = &ast.BinaryExpr{X: cond, OpPos: x.Pos(), Op: token.LOR, Y: x}
		}
		c := t.condition(cond, e1)
		thenS := t.stmts(cc.Body, e1.clone().push(), cx, after)
		elseS := gen(i+1, e1)
		return ifThenElse(c, thenS, elseS)
	}
	return gen(0, e)
}

// ---- the loop shape  for i := 0; i < len(s); i++ { body }

func (t *tr) forStmt(s *ast.ForStmt, e *env, cx *ctx, rest func(e *env) string) string {
	if cx.inLoop {
		t.fail(s, "nested loops are outside the translatable subset")
	}
	bad := func() {
		t.fail(s, "only the loop shape `for i := 0; i < len(s); i++ { ... }` is inside the translatable subset")
	}
	init, ok := s.Init.(*ast.AssignStmt)
	if !ok || init.Tok != token.DEFINE || len(init.Lhs) != 1 || len(init.Rhs) != 1 {
		bad()
	}
	iId, ok := init.Lhs[0].(*ast.Ident)
	if !ok || iId.Name == "_" {
		bad()
	}
	if z, ok := init.Rhs[0].(*ast.BasicLit); !ok || z.Kind != token.INT || z.Value != "0" {
		bad()
	}
	cond, ok := s.Cond.(*ast.BinaryExpr)
	if !ok || cond.Op != token.LSS {
		bad()
	}
	if ci, ok := cond.X.(*ast.Ident); !ok || ci.Name != iId.Name {
		bad()
	}
	lc, ok := cond.Y.(*ast.CallExpr)
	if !ok || len(lc.Args) != 1 {
		bad()
	}
	if f, ok := lc.Fun.(*ast.Ident); !ok || f.Name != "len" || e.lookup("len") != nil {
		bad()
	}
	sId, ok := lc.Args[0].(*ast.Ident)
	if !ok {
		bad()
	}
	sv := e.lookup(sId.Name)
	if sv == nil || (sv.t != tString && sv.t != tBytes) || sId.Name == iId.Name {
		bad()
	}
	switch p := s.Post.(type) {
	case *ast.IncDecStmt:
		if pi, ok := p.X.(*ast.Ident); !ok || pi.Name != iId.Name || p.Tok != token.INC {
			bad()
		}
	default:
		bad()
	}
	// the body must not assign i or s (any assignment to a variable of that name is refused, shadowed or not),
	// and the loop-carried state is the set of outer variables it assigns
	state := t.assignedOuter(s.Body, e, iId.Name, sId.Name)

	d := e.depth()
	tuple := func(en *env) string {
		switch len(state) {
		case 0:
			return "tt"
		case 1:
			return en.lookup(state[0]).coq
		}
		var ns []string
		for _, v := range state {
			ns = append(ns, en.lookup(v).coq)
		}
		return "(" + strings.Join(ns, ", ") + ")"
	}
	rebind := func(en *env) string { // fresh Coq names for the state variables; returns the binder pattern
		for _, v := range state {
			en.lookup(v).coq = t.fresh(v)
		}
		switch len(state) {
		case 0:
			return "_"
		case 1:
			return en.lookup(state[0]).coq
		}
		return "'" + tuple(en)
	}
	initTuple := tuple(e)
	stType := "unit"
	if len(state) > 0 {
		var ts []string
		for _, v := range state {
			ts = append(ts, e.lookup(v).t.coq())
		}
		stType = strings.Join(ts, " * ")
	}

	eb := e.clone().push()
	iCoq := t.fresh(iId.Name)
	eb.declare(iId.Name, &varInfo{coq: iCoq, t: tInt})
	pat := rebind(eb)
	bcx := &ctx{
		ret:      func(term string) string { return "Some (GoRt.Ret " + term + ")" },
		rt:       cx.rt,
		inLoop:   true,
		loopNext: func(en *env) string { return "Some (GoRt.Next " + tuple(en) + ")" },
	}
	body := t.stmts(s.Body.List, eb.push(), bcx, bcx.loopNext)
	var bodyFun string
	if len(state) <= 1 {
		bodyFun = fmt.Sprintf("(fun (%s : Z) (%s : %s) =>\n%s)", iCoq, pat, stType, body)
	} else {
		st := t.fresh("st")
		bodyFun = fmt.Sprintf("(fun (%s : Z) (%s : %s) => let %s := %s in\n%s)", iCoq, st, stType, pat, st, body)
	}

	ea := e.clone().truncate(d)
	pat2 := rebind(ea)
	after := rest(ea)
	var afterFun string
	if len(state) <= 1 {
		afterFun = fmt.Sprintf("(fun (%s : %s) =>\n%s)", pat2, stType, after)
	} else {
		st := t.fresh("st")
		afterFun = fmt.Sprintf("(fun (%s : %s) => let %s := %s in\n%s)", st, stType, pat2, st, after)
	}
	return fmt.Sprintf("GoRt.after_loop\n(GoRt.for_index %s\n%s\n%s)\n%s", sv.coq, bodyFun, initTuple, afterFun)
}

// assignedOuter returns, in order of first assignment, the variables declared outside body that body assigns
func (t *tr) assignedOuter(body *ast.BlockStmt, e *env, iName, sName string) []string {
	var out []string
	seen := map[string]bool{}
	scopes := []map[string]bool{{}}
	declared := func(n string) bool {
		for i := len(scopes) - 1; i >= 0; i-- {
			if scopes[i][n] {
				return true
			}
		}
		return false
	}
	target := func(x ast.Expr, define bool) {
		id, ok := x.(*ast.Ident)
		if !ok || id.Name == "_" {
			return
		}
		if id.Name == iName || id.Name == sName {
			t.fail(x, "the loop body assigns %s (the loop shape needs the index and the ranged string untouched)", id.Name)
		}
		if define && !scopes[len(scopes)-1][id.Name] {
			scopes[len(scopes)-1][id.Name] = true
			return
		}
		if declared(id.Name) {
			return
		}
		if v := e.lookup(id.Name); v != nil && !v.isConst && !seen[id.Name] {
			seen[id.Name] = true
			out = append(out, id.Name)
		}
	}
	var walk func(list []ast.Stmt)
	var stmt func(s ast.Stmt)
	block := func(list []ast.Stmt) {
		scopes = append(scopes, map[string]bool{})
		walk(list)
		scopes = scopes[:len(scopes)-1]
	}
	stmt = func(s ast.Stmt) {
		switch s := s.(type) {
		case *ast.AssignStmt:
			for _, l := range s.Lhs {
				target(l, s.Tok == token.DEFINE)
			}
		case *ast.IncDecStmt:
			target(s.X, false)
		case *ast.ExprStmt:
			if call, ok := s.X.(*ast.CallExpr); ok {
				if sel, ok := call.Fun.(*ast.SelectorExpr); ok {
					target(sel.X, false)
				}
			}
		case *ast.DeclStmt:
			if gd, ok := s.Decl.(*ast.GenDecl); ok {
				for _, sp := range gd.Specs {
					if vs, ok := sp.(*ast.ValueSpec); ok {
						for _, id := range vs.Names {
							if id.Name == iName || id.Name == sName {
								t.fail(id, "the loop body redeclares %s", id.Name)
							}
							scopes[len(scopes)-1][id.Name] = true
						}
					}
				}
			}
		case *ast.BlockStmt:
			block(s.List)
		case *ast.IfStmt:
			scopes = append(scopes, map[string]bool{})
			if s.Init != nil {
				stmt(s.Init)
			}
			block(s.Body.List)
			if s.Else != nil {
				stmt(s.Else)
			}
			scopes = scopes[:len(scopes)-1]
		case *ast.SwitchStmt:
			for _, c := range s.Body.List {
				block(c.(*ast.CaseClause).Body)
			}
		case *ast.ForStmt:
			t.fail(s, "nested loops are outside the translatable subset")
		}
	}
	walk = func(list []ast.Stmt) {
		for _, s := range list {
			stmt(s)
		}
	}
	walk(body.List)
	return out
}

// ---------------------------------------------------------------------------- functions and files

func (t *tr) signature(fd *ast.FuncDecl) *sig {
	if fd.Recv != nil {
		t.fail(fd, "%s is a method (receivers and field reads are outside the translatable subset)", fd.Name.Name)
	}
	if fd.Type.TypeParams != nil {
		t.fail(fd, "%s is generic", fd.Name.Name)
	}
	if fd.Body == nil {
		t.fail(fd, "%s has no body", fd.Name.Name)
	}
	sg := &sig{}
	for _, f := range fd.Type.Params.List {
		if _, ok := f.Type.(*ast.Ellipsis); ok {
			t.fail(f, "variadic parameter")
		}
		ty := t.typeOf(f.Type, nil)
		if ty == tBuilder {
			t.fail(f, "a strings.Builder parameter is outside the translatable subset")
		}
		if len(f.Names) == 0 {
			t.fail(f, "unnamed parameter")
		}
		for _, n := range f.Names {
			sg.params = append(sg.params, ty)
			sg.names = append(sg.names, n.Name)
		}
	}
	if fd.Type.Results == nil || len(fd.Type.Results.List) != 1 || len(fd.Type.Results.List[0].Names) > 0 {
		t.fail(fd, "%s: exactly one unnamed result is supported", fd.Name.Name)
	}
	sg.result = t.typeOf(fd.Type.Results.List[0].Type, nil)
	if sg.result == tBuilder {
		t.fail(fd, "a strings.Builder result is outside the translatable subset")
	}
	return sg
}

func (t *tr) function(fd *ast.FuncDecl) string {
	sg := t.sigs[fd.Name.Name]
	t.used = map[string]bool{}
	t.ntmp = 0
	t.cur = fd.Name.Name
	// Go identifiers of the form t<digits> would collide with temporaries: reserve all identifiers of the function first
	ast.Inspect(fd, func(n ast.Node) bool {
		if id, ok := n.(*ast.Ident); ok {
			if len(id.Name) > 1 && id.Name[0] == 't' && strings.Trim(id.Name[1:], "0123456789") == "" {
				t.used[id.Name] = true
			}
		}
		if fl, ok := n.(*ast.FuncLit); ok {
			t.fail(fl, "function literals are outside the translatable subset")
		}
		return true
	})
	e := (&env{}).push()
	var params []string
	for i, n := range sg.names {
		if n == "_" {
			params = append(params, fmt.Sprintf("(_ : %s)", sg.params[i].coq()))
			continue
		}
		nm := t.fresh(n)
		e.declare(n, &varInfo{coq: nm, t: sg.params[i]})
		params = append(params, fmt.Sprintf("(%s : %s)", nm, sg.params[i].coq()))
	}
	cx := &ctx{ret: func(term string) string { return "Some " + term }, rt: sg.result}
	body := t.stmts(fd.Body.List, e.push(), cx, func(*env) string {
		t.fail(fd.Body, "control reaches the end of %s without a return", fd.Name.Name)
		return ""
	})
	pos := t.fset.Position(fd.Pos())
	return fmt.Sprintf("(* %s, %s:%d *)\nDefinition %s %s : option (%s) :=\n%s.\n",
		fd.Name.Name, filepath.Base(pos.Filename), pos.Line, fd.Name.Name, strings.Join(params, " "), sg.result.coq(), indent(body))
}

// indent lays the nested term out: one level per open parenthesis at line starts
func indent(s string) string {
	lines := strings.Split(s, "\n")
	depth := 1
	var out []string
	for _, l := range lines {
		out = append(out, strings.Repeat("  ", depth)+l)
		depth += strings.Count(l, "(") - strings.Count(l, ")")
		if depth < 1 {
			depth = 1
		}
		if depth > 12 {
			depth = 12
		}
	}
	return strings.Join(out, "\n")
}

func translateFile(repo, rel string, names []string) (out string, err error) {
	t := &tr{fset: token.NewFileSet(), imports: map[string]string{}, funcs: map[string]*ast.FuncDecl{}, sigs: map[string]*sig{},
		want: map[string]bool{}, calls: map[string]map[string]bool{}}
	defer func() {
		if r := recover(); r != nil {
			if rj, ok := r.(reject); ok {
				if rp, e2 := filepath.Rel(repo, rj.pos.Filename); e2 == nil {
					rj.pos.Filename = rp
				}
				err = rj
				return
			}
			panic(r)
		}
	}()
	path := filepath.Join(repo, rel)
	f, perr := parser.ParseFile(t.fset, path, nil, parser.SkipObjectResolution)
	if perr != nil {
		return "", fmt.Errorf("%s does not parse: %v", rel, perr)
	}
	for _, im := range f.Imports {
		p, _ := strconv.Unquote(im.Path.Value)
		name := p[strings.LastIndex(p, "/")+1:]
		if im.Name != nil {
			name = im.Name.Name
		}
		if name == "." {
			return "", fmt.Errorf("%s: dot import of %s", rel, p)
		}
		t.imports[name] = p
	}
	// the universe identifiers the translation relies on must not be redeclared anywhere in the package
	dir := filepath.Dir(path)
	ents, derr := os.ReadDir(dir)
	if derr != nil {
		return "", derr
	}
	for _, ent := range ents {
		if ent.IsDir() || !strings.HasSuffix(ent.Name(), ".go") || strings.HasSuffix(ent.Name(), "_test.go") {
			continue
		}
		pf, e2 := parser.ParseFile(t.fset, filepath.Join(dir, ent.Name()), nil, parser.SkipObjectResolution)
		if e2 != nil {
			return "", fmt.Errorf("%s does not parse: %v", ent.Name(), e2)
		}
		if pf.Name.Name != f.Name.Name {
			continue
		}
		for _, d := range pf.Decls {
			var declared []*ast.Ident
			switch d := d.(type) {
			case *ast.FuncDecl:
				if d.Recv == nil {
					declared = append(declared, d.Name)
				}
			case *ast.GenDecl:
				for _, sp := range d.Specs {
					switch sp := sp.(type) {
					case *ast.ValueSpec:
						declared = append(declared, sp.Names...)
					case *ast.TypeSpec:
						declared = append(declared, sp.Name)
					}
				}
			}
			for _, id := range declared {
				for _, u := range universe {
					if id.Name == u {
						t.fail(id, "the package redeclares the predeclared identifier %s", u)
					}
				}
				if _, isPkg := t.imports[id.Name]; isPkg {
					t.fail(id, "the package declares %s, which is also an imported package name", id.Name)
				}
			}
		}
	}
	for _, d := range f.Decls {
		if fd, ok := d.(*ast.FuncDecl); ok && fd.Recv == nil {
			t.funcs[fd.Name.Name] = fd
		}
	}
	for _, n := range names {
		t.want[n] = true
	}
	for _, n := range names {
		fd := t.funcs[n]
		if fd == nil {
			// maybe a method of that name exists: say so
			for _, d := range f.Decls {
				if m, ok := d.(*ast.FuncDecl); ok && m.Recv != nil && m.Name.Name == n {
					t.fail(m, "%s is a method (receivers and field reads are outside the translatable subset)", n)
				}
			}
			return "", fmt.Errorf("%s: function %s not found", rel, n)
		}
		t.cur = n
		t.sigs[n] = t.signature(fd)
		t.cur = ""
	}
	texts := map[string]string{}
	for _, n := range names {
		texts[n] = t.function(t.funcs[n])
	}
	// callees first
	var order []string
	state := map[string]int{}
	var visit func(n string)
	visit = func(n string) {
		switch state[n] {
		case 1:
			t.fail(t.funcs[n], "%s is recursive", n)
		case 2:
			return
		}
		state[n] = 1
		var cs []string
		for c := range t.calls[n] {
			cs = append(cs, c)
		}
		sort.Strings(cs)
		for _, c := range cs {
			visit(c)
		}
		state[n] = 2
		order = append(order, n)
	}
	for _, n := range names {
		visit(n)
	}
	var b strings.Builder
	fmt.Fprintf(&b, "(* generated by go2coq from %s — do not edit; regenerated on every run *)\n", rel)
	b.WriteString("From Coq Require Import List NArith ZArith Bool.\nImport ListNotations.\n")
	if t.needGoPath {
		b.WriteString("From Glb Require Import Lib.GoRt Lib.GoPath.\n")
	} else {
		b.WriteString("From Glb Require Import Lib.GoRt.\n")
	}
	for _, n := range t.notes {
		fmt.Fprintf(&b, "(* assumption: %s *)\n", n)
	}
	b.WriteString("Module Src.\nLocal Open Scope go_scope.\nLocal Open Scope list_scope.\n\n")
	for _, n := range order {
		b.WriteString(texts[n])
		b.WriteString("\n")
	}
	b.WriteString("End Src.\n")
	return b.String(), nil
}
