// go2coq translates small pure Go functions into Gallina definitions, so that Coq theorems can
// be re-checked against what the source says now (the model is REGENERATED on every run).
//
//	go2coq <repo> <relative/file.go> <FuncName>...
//
// prints a self-contained Coq fragment (Require lines + `Module Src. ... End Src.`) that refers
// only to Coq's standard library, to coq/Lib/GoRt.v and — for the whitelisted path functions —
// to coq/Lib/GoPath.v.  Anything outside the supported subset is REJECTED with the source
// position (exit status 1, message on stderr): the caller then reports "source no longer in the
// translatable subset".  Nothing is ever guessed.
//
// Representation: string, []byte -> list N; byte -> N; int -> Z (64-bit wrapping arithmetic);
// bool -> bool; every function returns `option T`, None = run-time panic (index / slice bounds).
//
// Supported subset (see translate.go for the exact rules)
//
//	parameters / single result of type string, []byte, int, byte, bool (and slog.Level = int)
//	statements: if / else if / else (with init), tagless switch, return, :=, =, op=, ++/--, var, const (iota),
//	            nested blocks, and the loop shape  for i := 0; i < len(s); i++ { ... }  whose body
//	            assigns neither i nor s (continue allowed; break, goto, labels, nested loops rejected)
//	expressions: literals (interpreted and raw strings, runes, ints), + on strings, s[i], s[a:b] on strings,
//	            len, comparisons, && || ! (short-circuit preserved when the right operand can panic),
//	            + - * & | ^ and / % by a constant, conversions string([]byte) []byte(string) int(byte) byte(int),
//	            append(buf, bytes...) / append(buf, s...), calls of functions translated alongside, and
//	            strings.Replace(s, "lit", new, -1) strings.ReplaceAll strings.HasPrefix HasSuffix TrimPrefix
//	            TrimSuffix Index IndexByte Contains, path.Clean, filepath.Clean, filepath.Join(a, b), path.Join(a, b),
//	            filepath.FromSlash / ToSlash (identity: POSIX).
//	a local `var sb strings.Builder` used only through sb.WriteByte / WriteString / Write / Reset (statements) and
//	            sb.String() / sb.Len(): a byte accumulator (list N), also as loop-carried state.
//
// Only go/ast, go/parser, go/token for the analysis (no type checker): types are inferred locally
// from declarations; an expression whose type cannot be determined is rejected.
package main

import (
	"fmt"
	"os"
)

func main() {
	if len(os.Args) < 4 {
		fmt.Fprintln(os.Stderr, "usage: go2coq <repo> <relative/file.go> <FuncName>...")
		os.Exit(2)
	}
	out, err := translateFile(os.Args[1], os.Args[2], os.Args[3:])
	if err != nil {
		fmt.Fprintln(os.Stderr, "go2coq: REJECTED:", err)
		os.Exit(1)
	}
	fmt.Print(out)
}
