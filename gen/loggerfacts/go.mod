module loggerfacts

go 1.22
