// loggerfacts reads the sources of <repo>/logger and reports the facts the C02/C03 models are
// parameterised by, as Coq definitions.
//
//	loggerfacts <repo> chain|conc
//
// It is a SYNTACTIC PATTERN RECOGNISER (go/parser, go/ast, go/build for build constraints), not a
// program analysis: it knows one shape per function and refuses everything else. The rules:
//
//	files     the non-test files of package logger selected by go/build with the tag "verif"; a function or
//	          method defined twice is refused
//	types     JsonHandler/TextHandler/NanoHandler: outMu must be *sync.Mutex (a mutex VALUE makes clone_shares_mu
//	          false), preformatted []byte; other slice fields are treated like preformatted (clone must clip them);
//	          map/chan/other pointer fields are refused; a handler type that declares Enabled/IsDebug/IsColorful/
//	          IsAddSource itself (shadowing *Options) is refused
//	clone     `return &T{k: v, …}` or `c := *h; c.f = …; return &c`; preformatted (and every slice field) must be
//	          slices.Clip(h.f) or h.f[:len(h.f):len(h.f)] (otherwise clone_clips = false); outMu must be h.outMu
//	With*     every assignment, ++/--, address-of (except as argument of sync/atomic functions) is classified by the
//	          variable at its root: only direct fields of a variable bound by `x := h.clone()` may be written; a right-hand
//	          side or argument `append(X, …)`, `X[a:b]`, `&X` rooted at the receiver counts as a write of the receiver;
//	          methods called on the receiver/clone must be clone, Options accessors, or methods of the same type that write
//	          nothing through their receiver; anything unclassifiable is refused
//	          a slice field of the clone may only be assigned `append(<clone>.<same field>, …)`; With* must not call
//	          newBuffer/freeBuffer (pooled memory must not become part of a handler)
//	Logger    With/WithGroup must return `l` or `&Logger{…}` and never assign through `l`
//	Handle    `buf := newBuffer()`, `defer freeBuffer(buf)`, `h.outMu.Lock()`, `defer h.outMu.Unlock()` (an explicit Unlock after the
//	          Write keeps write_under_lock but makes unlock_deferred false: a panicking Write would leave the mutex locked) and exactly one `h.out.Write(*buf)` must be TOP-LEVEL statements of Handle in this order; any of them
//	          inside if/for/switch/go/defer/func literal makes the fact false; no other use of h.out; Handle and the
//	          package-level functions / methods reachable from it assign to no handler field and to no package-level
//	          variable (sync/atomic calls and method calls, e.g. on a sync.Pool, are not assignments); no method of the
//	          handler type assigns outMu or out
//	buffer    freeBuffer: `*buf = (*buf)[:0]` before the single bufferPool.Put(buf), guarded by cap(*buf) <= maxBufferSize
//	gate      log/logf/logAttrs start with `if !l.h.Enabled(level) { return … }`; NewOptions stores its level argument
//	          unchanged; Options.Enabled is `l >= opts.level`
//
// Things are identified by TYPE and ROLE, not by name: the handler's single *sync.Mutex and io.Writer fields (or ONE pointer
// field to a struct of one mutex and one io.Writer), every slice field, the parameterless method returning *T that builds a new
// T (clone), the package-level sync.Pool with its *[]byte getter (plain or comma-ok, New as literal or named function) and
// releaser (guard or early return), the single slog.Level field of Options, the Handler field of Logger. The locked write may
// sit in ONE own helper method called once at top level of Handle. NewOptions may be `return &Options{…}`, `o := &Options{…};
// return o` or new(Options) + field assignments. The gate may be `if !GATE {return}`, `if GATE {…}; return`, or via a local.
//
// Known limits (covered by the harness, not by these facts): aliasing through values reachable from Options or through
// package-level state touched by methods not reachable from Handle/With*; data flow through local variables; reflection.
//
// A fact is "false" when the shape is recognised and the discipline is not followed. When the shape is not recognised the
// program prints UNRECOGNISED lines and exits with status 3: the caller reports a broken correspondence, never a pass.
package main

import (
	"fmt"
	"go/ast"
	"go/build"
	"go/parser"
	"go/token"
	"os"
	"path/filepath"
	"sort"
	"strings"
)

var unrec []string

func unrecognised(format string, a ...any) { unrec = append(unrec, fmt.Sprintf(format, a...)) }

// show prints the small expression language we compare against; anything else becomes "?".
func show(e ast.Expr) string {
	switch x := e.(type) {
	case nil:
		return ""
	case *ast.Ident:
		return x.Name
	case *ast.BasicLit:
		return x.Value
	case *ast.SelectorExpr:
		return show(x.X) + "." + x.Sel.Name
	case *ast.StarExpr:
		return "*" + show(x.X)
	case *ast.ParenExpr:
		return "(" + show(x.X) + ")"
	case *ast.UnaryExpr:
		return x.Op.String() + show(x.X)
	case *ast.BinaryExpr:
		return show(x.X) + x.Op.String() + show(x.Y)
	case *ast.CallExpr:
		var args []string
		for _, a := range x.Args {
			args = append(args, show(a))
		}
		return show(x.Fun) + "(" + strings.Join(args, ",") + ")"
	case *ast.IndexExpr:
		return show(x.X) + "[" + show(x.Index) + "]"
	case *ast.SliceExpr:
		s := show(x.X) + "[" + show(x.Low) + ":" + show(x.High)
		if x.Slice3 {
			s += ":" + show(x.Max)
		}
		return s + "]"
	case *ast.CompositeLit:
		return show(x.Type) + "{…}"
	case *ast.TypeAssertExpr:
		return show(x.X) + ".(" + show(x.Type) + ")"
	case *ast.ArrayType:
		if x.Len != nil {
			return "[" + show(x.Len) + "]" + show(x.Elt)
		}
		return "[]" + show(x.Elt)
	case *ast.MapType:
		return "map[" + show(x.Key) + "]" + show(x.Value)
	case *ast.ChanType:
		return "chan " + show(x.Value)
	case *ast.InterfaceType:
		return "interface{…}"
	case *ast.FuncType:
		return "func(…)"
	}
	return "?"
}

type method struct {
	recv string // receiver variable name
	decl *ast.FuncDecl
}

type field struct{ name, typ string }

type pkg struct {
	methods map[string]map[string]*method // type -> name -> method
	funcs   map[string]*ast.FuncDecl
	consts  map[string]string
	vars    map[string]ast.Expr
	globals map[string]bool // every package-level variable
	structs map[string][]field
}

func load(dir string) *pkg {
	fset := token.NewFileSet()
	ents, err := os.ReadDir(dir)
	if err != nil {
		unrecognised("cannot read %s: %v", dir, err)
		return nil
	}
	ctx := build.Default
	ctx.BuildTags = append(append([]string(nil), ctx.BuildTags...), "verif")
	p := &pkg{methods: map[string]map[string]*method{}, funcs: map[string]*ast.FuncDecl{}, consts: map[string]string{},
		vars: map[string]ast.Expr{}, globals: map[string]bool{}, structs: map[string][]field{}}
	for _, e := range ents {
		n := e.Name()
		if !strings.HasSuffix(n, ".go") || strings.HasSuffix(n, "_test.go") {
			continue
		}
		if ok, err := ctx.MatchFile(dir, n); err != nil || !ok {
			continue // excluded by a build constraint: not part of the package
		}
		f, err := parser.ParseFile(fset, filepath.Join(dir, n), nil, parser.SkipObjectResolution)
		if err != nil {
			unrecognised("parse error: %v", err)
			return nil
		}
		if f.Name.Name != "logger" {
			continue
		}
		for _, d := range f.Decls {
			switch x := d.(type) {
			case *ast.FuncDecl:
				if x.Body == nil {
					unrecognised("%s has no body", x.Name.Name)
					continue
				}
				if x.Recv == nil || len(x.Recv.List) == 0 {
					if p.funcs[x.Name.Name] != nil && x.Name.Name != "init" {
						unrecognised("function %s is defined twice", x.Name.Name)
					}
					p.funcs[x.Name.Name] = x
					continue
				}
				t := x.Recv.List[0].Type
				if s, ok := t.(*ast.StarExpr); ok {
					t = s.X
				}
				id, ok := t.(*ast.Ident)
				if !ok {
					continue
				}
				rn := "_"
				if len(x.Recv.List[0].Names) > 0 {
					rn = x.Recv.List[0].Names[0].Name
				}
				if p.methods[id.Name] == nil {
					p.methods[id.Name] = map[string]*method{}
				}
				if p.methods[id.Name][x.Name.Name] != nil {
					unrecognised("method %s.%s is defined twice", id.Name, x.Name.Name)
				}
				p.methods[id.Name][x.Name.Name] = &method{rn, x}
			case *ast.GenDecl:
				for _, s := range x.Specs {
					switch sp := s.(type) {
					case *ast.ValueSpec:
						for i, nm := range sp.Names {
							if x.Tok == token.VAR {
								p.globals[nm.Name] = true
							}
							if i < len(sp.Values) {
								if x.Tok == token.CONST {
									p.consts[nm.Name] = show(sp.Values[i])
								} else {
									p.vars[nm.Name] = sp.Values[i]
								}
							}
						}
					case *ast.TypeSpec:
						if st, ok := sp.Type.(*ast.StructType); ok {
							var fs []field
							for _, f := range st.Fields.List {
								ts := show(f.Type)
								if len(f.Names) == 0 { // embedded
									fs = append(fs, field{strings.TrimPrefix(ts, "*"), ts})
								}
								for _, nm := range f.Names {
									fs = append(fs, field{nm.Name, ts})
								}
							}
							p.structs[sp.Name.Name] = fs
						}
					}
				}
			}
		}
	}
	return p
}

// root of an lvalue-like expression: the identifier at the bottom and the number of field selections on the way.
func rootOf(e ast.Expr) (string, int, bool) {
	depth := 0
	for {
		switch x := e.(type) {
		case *ast.Ident:
			return x.Name, depth, true
		case *ast.ParenExpr:
			e = x.X
		case *ast.StarExpr:
			e = x.X
		case *ast.IndexExpr:
			e = x.X
		case *ast.SliceExpr:
			e = x.X
		case *ast.SelectorExpr:
			depth++
			e = x.X
		default:
			return "", 0, false
		}
	}
}

type writes struct {
	recvWrites  []string // writes (assignment, ++, address taken, append/reslice of) rooted at the receiver
	freshWrites []string // writes to direct fields of a fresh clone
	globalW     []string // writes rooted at a package-level variable
	other       []string // writes we cannot classify
	fresh       map[string]bool
	recvCalls   []string    // methods called on the receiver or on a clone
	funcCalls   []string    // package-level functions called
	freshAssign [][2]string // `x.f = rhs` with x a fresh clone: field name, right-hand side
}

// scanWrites classifies every write in the body of fn. recv may be "" (plain function).
func scanWrites(p *pkg, recv string, fn *ast.FuncDecl) *writes {
	w := &writes{fresh: map[string]bool{}}
	cloneName := ""
	if t := recvType(fn); t != "" && p.structs[t] != nil && t != "Logger" && t != "Options" {
		if ro := rolesCache[p][t]; ro != nil {
			cloneName = ro.clone
		}
	}
	locals := map[string]bool{}
	addFields := func(fl *ast.FieldList) {
		if fl != nil {
			for _, f := range fl.List {
				for _, n := range f.Names {
					locals[n.Name] = true
				}
			}
		}
	}
	addFields(fn.Type.Params)
	addFields(fn.Type.Results)
	atomicArg := map[ast.Expr]bool{}
	// p := &X: the address of X kept in a local pointer. Taking it is not a write; writing THROUGH p (*p = …, p.f = …,
	// p[i] = …, p++) or handing p to a call is.
	ptrAlias := map[string]ast.Expr{}
	heldAddr := map[ast.Expr]bool{}
	ast.Inspect(fn.Body, func(n ast.Node) bool {
		switch x := n.(type) {
		case *ast.AssignStmt:
			if x.Tok == token.DEFINE {
				for i, l := range x.Lhs {
					if id, ok := l.(*ast.Ident); ok {
						if len(x.Lhs) == len(x.Rhs) {
							if u, ok := x.Rhs[i].(*ast.UnaryExpr); ok && u.Op == token.AND {
								if _, lit := u.X.(*ast.CompositeLit); !lit {
									ptrAlias[id.Name] = u.X
									heldAddr[u] = true
								}
							}
						}
						locals[id.Name] = true
						if recv != "" && cloneName != "" && len(x.Lhs) == len(x.Rhs) && show(x.Rhs[i]) == recv+"."+cloneName+"()" {
							w.fresh[id.Name] = true
						}
					}
				}
			}
		case *ast.RangeStmt:
			if x.Tok == token.DEFINE {
				for _, l := range []ast.Expr{x.Key, x.Value} {
					if id, ok := l.(*ast.Ident); ok {
						locals[id.Name] = true
					}
				}
			}
		case *ast.DeclStmt:
			if g, ok := x.Decl.(*ast.GenDecl); ok {
				for _, s := range g.Specs {
					if vs, ok := s.(*ast.ValueSpec); ok {
						for _, nm := range vs.Names {
							locals[nm.Name] = true
						}
					}
				}
			}
		case *ast.FuncLit:
			addFields(x.Type.Params)
			addFields(x.Type.Results)
		case *ast.TypeSwitchStmt:
			if a, ok := x.Assign.(*ast.AssignStmt); ok {
				for _, l := range a.Lhs {
					if id, ok := l.(*ast.Ident); ok {
						locals[id.Name] = true
					}
				}
			}
		case *ast.CallExpr:
			// sync/atomic functions take the address of what they update atomically: not a plain write
			if s, ok := x.Fun.(*ast.SelectorExpr); ok {
				if id, ok := s.X.(*ast.Ident); ok && id.Name == "atomic" {
					for _, a := range x.Args {
						atomicArg[a] = true
					}
				}
			}
		}
		return true
	})
	var target func(e ast.Expr, how string)
	target = func(e ast.Expr, how string) {
		name, depth, ok := rootOf(e)
		desc := how + " " + show(e)
		if orig, isPtr := ptrAlias[name]; ok && isPtr {
			if _, bare := e.(*ast.Ident); !bare {
				target(orig, how+" through "+name+" = &")
			}
			return
		}
		switch {
		case !ok:
			w.other = append(w.other, desc)
		case name == "_":
		case recv != "" && name == recv:
			w.recvWrites = append(w.recvWrites, desc)
		case w.fresh[name] && depth == 1:
			w.freshWrites = append(w.freshWrites, desc)
		case w.fresh[name] && depth == 0:
			w.other = append(w.other, desc+" (the clone variable itself)")
		case w.fresh[name]:
			w.other = append(w.other, desc+" (through a pointer field of the clone)")
		case locals[name]:
		case p.globals[name]:
			w.globalW = append(w.globalW, desc)
		default:
			w.other = append(w.other, desc+" (not a local)")
		}
	}
	// an expression that can write into, or hands out, memory of the receiver
	aliasing := func(e ast.Expr, where string) {
		if recv == "" {
			return
		}
		ast.Inspect(e, func(n ast.Node) bool {
			switch x := n.(type) {
			case *ast.FuncLit:
				return false
			case *ast.CallExpr:
				if id, ok := x.Fun.(*ast.Ident); ok && id.Name == "append" && len(x.Args) > 0 {
					if name, _, ok := rootOf(x.Args[0]); ok && name == recv {
						w.recvWrites = append(w.recvWrites, where+" appends to the receiver's "+show(x.Args[0]))
					}
				}
			case *ast.SliceExpr:
				if name, d, ok := rootOf(x.X); ok && name == recv && d > 0 {
					s := show(x)
					src := show(x.X)
					if !(x.Slice3 && s == src+"[:len("+src+"):len("+src+")]") {
						w.recvWrites = append(w.recvWrites, where+" reslices the receiver's "+src)
					}
				}
			}
			return true
		})
	}
	ast.Inspect(fn.Body, func(n ast.Node) bool {
		switch x := n.(type) {
		case *ast.AssignStmt:
			for i, l := range x.Lhs {
				if x.Tok == token.DEFINE {
					if _, ok := l.(*ast.Ident); ok {
						continue
					}
				}
				target(l, "assign")
				if sel, ok := l.(*ast.SelectorExpr); ok {
					if id, ok := sel.X.(*ast.Ident); ok && w.fresh[id.Name] {
						rhs := "?"
						if len(x.Rhs) == len(x.Lhs) {
							rhs = show(x.Rhs[i])
						}
						w.freshAssign = append(w.freshAssign, [2]string{sel.Sel.Name, id.Name + "|" + rhs})
					}
				}
			}
			for _, r := range x.Rhs {
				aliasing(r, "right-hand side")
			}
		case *ast.IncDecStmt:
			target(x.X, "incdec")
		case *ast.RangeStmt:
			if x.Tok == token.ASSIGN {
				for _, l := range []ast.Expr{x.Key, x.Value} {
					if l != nil {
						target(l, "range-assign")
					}
				}
			}
		case *ast.UnaryExpr:
			if x.Op == token.AND && !atomicArg[x] && !heldAddr[x] {
				if _, ok := x.X.(*ast.CompositeLit); !ok {
					target(x.X, "address-of")
				}
			}
		case *ast.ReturnStmt:
			for _, r := range x.Results {
				aliasing(r, "return value")
			}
		case *ast.CallExpr:
			for _, a := range x.Args {
				if c, ok := a.(*ast.CallExpr); ok {
					aliasing(c, "argument")
				}
				if id, ok := a.(*ast.Ident); ok {
					if orig, isPtr := ptrAlias[id.Name]; isPtr && !atomicArg[a] {
						target(orig, "pointer "+id.Name+" handed to "+show(x.Fun)+": address-of")
					}
				}
			}
			switch f := x.Fun.(type) {
			case *ast.SelectorExpr:
				if id, ok := f.X.(*ast.Ident); ok && recv != "" && (id.Name == recv || w.fresh[id.Name]) {
					w.recvCalls = append(w.recvCalls, f.Sel.Name)
				}
			case *ast.Ident:
				if p.funcs[f.Name] != nil && !locals[f.Name] {
					w.funcCalls = append(w.funcCalls, f.Name)
				}
			}
		}
		return true
	})
	return w
}

var readOnlyOptionMethods = map[string]bool{"Enabled": true, "IsDebug": true, "IsColorful": true, "IsAddSource": true}

// helperCallsClean: every method called on the receiver / clone is clone() itself, an accessor of Options, or a
// method of the same type that writes nothing through its receiver.
func helperCallsClean(p *pkg, typ string, w *writes, where string) bool {
	ok := true
	for _, c := range w.recvCalls {
		if c == rolesOf(p, typ).clone || readOnlyOptionMethods[c] {
			continue
		}
		hm := p.methods[typ][c]
		if hm == nil {
			unrecognised("%s.%s calls method %s which is not defined on %s", typ, where, c, typ)
			ok = false
			continue
		}
		hw := scanWrites(p, hm.recv, hm.decl)
		if len(hw.recvWrites) > 0 || len(hw.other) > 0 {
			ok = false
		}
	}
	return ok
}

type chainFacts struct {
	CloneClips, WithAttrsFresh, WithGroupFresh, GroupReturnsReceiver bool
	Notes                                                            []string
}

type concFacts struct {
	SingleWrite, WriteUnderLock, CloneSharesMu, BufFromPool, FreeDeferred, HandleReadonly, MuOutImmutable bool
	UnlockDeferred                                                                                        bool
	Notes                                                                                                 []string
}

var handlerTypes = []struct{ typ, name string }{{"JsonHandler", "json"}, {"TextHandler", "text"}, {"NanoHandler", "nano"}}

func fieldType(p *pkg, typ, name string) string {
	for _, f := range p.structs[typ] {
		if f.name == name {
			return f.typ
		}
	}
	return ""
}

// roles: things are identified by TYPE and ROLE, not by name.
type roles struct {
	clone   string   // the method without parameters that returns *T and builds a new T (clone / derive / …)
	mu, out string   // selector paths below the receiver of the mutex and of the io.Writer: "outMu" / "dst.mu"
	share   []string // the fields clone must hand on unchanged so that the child shares mutex and destination
	muValue bool     // the mutex is a VALUE inside the handler: copies do not share it
}

var rolesCache = map[*pkg]map[string]*roles{}

func rolesOf(p *pkg, typ string) *roles {
	if rolesCache[p] == nil {
		rolesCache[p] = map[string]*roles{}
	}
	if r, ok := rolesCache[p][typ]; ok {
		return r
	}
	ro := &roles{}
	rolesCache[p][typ] = ro
	var mus, outs, sinks []string
	for _, f := range p.structs[typ] {
		switch {
		case f.typ == "*sync.Mutex":
			mus = append(mus, f.name)
		case f.typ == "sync.Mutex":
			mus = append(mus, f.name)
			ro.muValue = true
		case f.typ == "io.Writer":
			outs = append(outs, f.name)
		case strings.HasPrefix(f.typ, "*") && f.typ != "*Options" && p.structs[f.typ[1:]] != nil:
			sinks = append(sinks, f.name)
		}
	}
	switch {
	case len(mus) == 1 && len(outs) == 1 && len(sinks) == 0:
		ro.mu, ro.out, ro.share = mus[0], outs[0], []string{mus[0], outs[0]}
	case len(mus) == 0 && len(outs) == 0 && len(sinks) == 1:
		// a shared sink: mutex and writer reachable through ONE pointer field
		st := fieldType(p, typ, sinks[0])[1:]
		var m2, o2 []string
		for _, f := range p.structs[st] {
			switch f.typ {
			case "sync.Mutex", "*sync.Mutex":
				m2 = append(m2, f.name)
			case "io.Writer":
				o2 = append(o2, f.name)
			default:
				unrecognised("%s.%s: field %s.%s of type %s: the facts know a sink of one mutex and one io.Writer only", typ, sinks[0], st, f.name, f.typ)
			}
		}
		if len(m2) != 1 || len(o2) != 1 {
			unrecognised("%s.%s (*%s) does not hold exactly one mutex and one io.Writer", typ, sinks[0], st)
		} else {
			ro.mu, ro.out, ro.share = sinks[0]+"."+m2[0], sinks[0]+"."+o2[0], []string{sinks[0]}
		}
		if len(p.methods[st]) > 0 {
			unrecognised("type %s has methods: locking through them is not a shape the facts know", st)
		}
	default:
		unrecognised("%s: cannot identify the output mutex and the io.Writer by type (mutex fields %v, io.Writer fields %v, struct pointers %v)", typ, mus, outs, sinks)
	}
	// the method that returns a fresh copy of the receiver
	var cands []string
	for name, m := range p.methods[typ] {
		ft := m.decl.Type
		if ft.Params != nil && len(ft.Params.List) > 0 {
			continue
		}
		if ft.Results == nil || len(ft.Results.List) != 1 || show(ft.Results.List[0].Type) != "*"+typ {
			continue
		}
		builds := false
		ast.Inspect(m.decl.Body, func(n ast.Node) bool {
			switch x := n.(type) {
			case *ast.CompositeLit:
				if show(x.Type) == typ {
					builds = true
				}
			case *ast.AssignStmt:
				if len(x.Rhs) == 1 && show(x.Rhs[0]) == "*"+m.recv {
					builds = true
				}
			}
			return true
		})
		if builds {
			cands = append(cands, name)
		}
	}
	sort.Strings(cands)
	if len(cands) != 1 {
		unrecognised("%s: the method that returns a fresh copy of the receiver is not unique: %v", typ, cands)
	} else {
		ro.clone = cands[0]
	}
	return ro
}

func recvType(fn *ast.FuncDecl) string {
	if fn.Recv == nil || len(fn.Recv.List) == 0 {
		return ""
	}
	t := fn.Recv.List[0].Type
	if s, ok := t.(*ast.StarExpr); ok {
		t = s.X
	}
	return show(t)
}

// checkType: the shape of the handler struct
func checkType(p *pkg, typ string) {
	if p.structs[typ] == nil {
		unrecognised("type %s struct not found", typ)
		return
	}
	for m := range readOnlyOptionMethods {
		if p.methods[typ][m] != nil {
			unrecognised("%s declares its own %s (shadows *Options.%s): which gate the Logger consults is no longer the one the facts describe", typ, m, m)
		}
	}
	ro := rolesOf(p, typ)
	shared := map[string]bool{}
	for _, f := range ro.share {
		shared[f] = true
	}
	nbytes := 0
	for _, f := range p.structs[typ] {
		if f.typ == "[]byte" {
			nbytes++
		}
		switch {
		case f.name == "Options" && f.typ == "*Options":
		case shared[f.name]: // the mutex / writer / sink: judged in concOf
		case strings.HasPrefix(f.typ, "[]"): // judged in cloneFields (must be clipped)
		case f.typ == "string" || f.typ == "int" || f.typ == "bool" || f.typ == "uint64" || f.typ == "int64" || f.typ == "uint32" || f.typ == "int32":
		case strings.HasPrefix(f.typ, "atomic."):
		default:
			unrecognised("%s.%s has type %s: the facts do not know how clone() must treat it", typ, f.name, f.typ)
		}
	}
	if nbytes == 0 {
		unrecognised("%s has no []byte field for the pre-rendered attributes", typ)
	}
}

// cloneFields: for each field of the handler struct the expression the child gets, for both clone() shapes.
func cloneFields(p *pkg, typ string) (*method, map[string]ast.Expr) {
	m := p.methods[typ][rolesOf(p, typ).clone]
	if m == nil {
		unrecognised("%s: no clone method", typ)
		return nil, nil
	}
	body := m.decl.Body.List
	fields := map[string]ast.Expr{}
	// shape 1: return &T{k: v, …}
	if len(body) == 1 {
		if r, ok := body[0].(*ast.ReturnStmt); ok && len(r.Results) == 1 {
			e := r.Results[0]
			if u, ok := e.(*ast.UnaryExpr); ok && u.Op == token.AND {
				e = u.X
			}
			if lit, ok := e.(*ast.CompositeLit); ok && show(lit.Type) == typ {
				for _, el := range lit.Elts {
					kv, ok := el.(*ast.KeyValueExpr)
					if !ok {
						unrecognised("%s.clone uses a positional composite literal", typ)
						return m, nil
					}
					fields[show(kv.Key)] = kv.Value
				}
				return m, fields
			}
		}
	}
	// shape 2: c := *h; c.f = e; …; return &c
	if len(body) >= 2 {
		if a, ok := body[0].(*ast.AssignStmt); ok && a.Tok == token.DEFINE && len(a.Lhs) == 1 && len(a.Rhs) == 1 && show(a.Rhs[0]) == "*"+m.recv {
			c := show(a.Lhs[0])
			if r, ok := body[len(body)-1].(*ast.ReturnStmt); ok && len(r.Results) == 1 && show(r.Results[0]) == "&"+c {
				for _, f := range p.structs[typ] {
					fields[f.name] = &ast.SelectorExpr{X: ast.NewIdent(m.recv), Sel: ast.NewIdent(f.name)}
				}
				for _, st := range body[1 : len(body)-1] {
					as, ok := st.(*ast.AssignStmt)
					if !ok || as.Tok != token.ASSIGN || len(as.Lhs) != 1 || len(as.Rhs) != 1 {
						unrecognised("%s.clone (struct copy): unexpected statement", typ)
						return m, nil
					}
					sel, ok := as.Lhs[0].(*ast.SelectorExpr)
					if !ok || show(sel.X) != c {
						unrecognised("%s.clone (struct copy): assignment to %s", typ, show(as.Lhs[0]))
						return m, nil
					}
					fields[sel.Sel.Name] = as.Rhs[0]
				}
				return m, fields
			}
		}
	}
	unrecognised("%s.clone is neither `return &%s{…}` nor `c := *%s; c.f = …; return &c`", typ, typ, m.recv)
	return m, nil
}

func clipped(e ast.Expr, src string) bool {
	s := show(e)
	return s == "slices.Clip("+src+")" || s == src+"[:len("+src+"):len("+src+")]"
}

func chainOf(p *pkg, typ string) chainFacts {
	var f chainFacts
	checkType(p, typ)
	m, fields := cloneFields(p, typ)
	if fields != nil {
		f.CloneClips = true
		for _, fd := range p.structs[typ] {
			if !strings.HasPrefix(fd.typ, "[]") {
				continue
			}
			src := m.recv + "." + fd.name
			v, ok := fields[fd.name]
			switch {
			case !ok:
				unrecognised("%s.clone does not set %s", typ, fd.name)
			case clipped(v, src):
			case show(v) == src:
				f.CloneClips = false
				f.Notes = append(f.Notes, "clone hands the parent's slice "+fd.name+" on unclipped")
			default:
				if name, _, ok := rootOf(v); ok && name == m.recv {
					f.CloneClips = false
					f.Notes = append(f.Notes, "clone: "+fd.name+": "+show(v)+" aliases the parent")
				} else {
					unrecognised("%s.clone: %s: %s is neither clipped nor the plain parent slice", typ, fd.name, show(v))
				}
			}
		}
	}
	if wa := p.methods[typ]["WithAttrs"]; wa == nil {
		unrecognised("%s.WithAttrs not found", typ)
	} else {
		w := scanWrites(p, wa.recv, wa.decl)
		for _, o := range w.other {
			unrecognised("%s.WithAttrs: cannot classify write: %s", typ, o)
		}
		if len(w.fresh) == 0 {
			unrecognised("%s.WithAttrs: no `x := %s.%s()`", typ, wa.recv, rolesOf(p, typ).clone)
		}
		sliceSources(p, typ, "WithAttrs", w)
		f.WithAttrsFresh = len(w.recvWrites) == 0 && len(w.globalW) == 0 && helperCallsClean(p, typ, w, "WithAttrs")
		for _, r := range append(w.recvWrites, w.globalW...) {
			f.Notes = append(f.Notes, "WithAttrs writes the receiver / shared state: "+r)
		}
	}
	if wg := p.methods[typ]["WithGroup"]; wg == nil {
		unrecognised("%s.WithGroup not found", typ)
	} else {
		if len(wg.decl.Body.List) == 1 {
			if r, ok := wg.decl.Body.List[0].(*ast.ReturnStmt); ok && len(r.Results) == 1 && show(r.Results[0]) == wg.recv {
				f.GroupReturnsReceiver = true
				f.WithGroupFresh = true
			}
		}
		if !f.GroupReturnsReceiver {
			w := scanWrites(p, wg.recv, wg.decl)
			for _, o := range w.other {
				unrecognised("%s.WithGroup: cannot classify write: %s", typ, o)
			}
			if len(w.fresh) == 0 && len(w.recvWrites) == 0 {
				unrecognised("%s.WithGroup: no `x := %s.%s()` and not `return %s`", typ, wg.recv, rolesOf(p, typ).clone, wg.recv)
			}
			sliceSources(p, typ, "WithGroup", w)
			f.WithGroupFresh = len(w.recvWrites) == 0 && len(w.globalW) == 0 && helperCallsClean(p, typ, w, "WithGroup")
			for _, r := range append(w.recvWrites, w.globalW...) {
				f.Notes = append(f.Notes, "WithGroup writes the receiver / shared state: "+r)
			}
		}
	}
	return f
}

// sliceSources: a slice field of the fresh clone may only be assigned `append(<clone>.<same field>, …)`: memory that
// comes from anywhere else (a pooled buffer, a helper's return value) is outside what the facts can vouch for.
func sliceSources(p *pkg, typ, where string, w *writes) {
	for _, fa := range w.freshAssign {
		if !strings.HasPrefix(fieldType(p, typ, fa[0]), "[]") {
			continue
		}
		parts := strings.SplitN(fa[1], "|", 2)
		if len(w.recvWrites) > 0 {
			continue // positively broken already: the fact is false
		}
		if !strings.HasPrefix(parts[1], "append("+parts[0]+"."+fa[0]+",") {
			unrecognised("%s.%s: %s.%s = %s: the child's slice does not come from append(%s.%s, …)", typ, where, parts[0], fa[0], parts[1], parts[0], fa[0])
		}
	}
	pr := poolRolesOf(p)
	for _, c := range w.funcCalls {
		if c == pr.getter || c == pr.releaser {
			unrecognised("%s.%s uses the line-buffer pool (%s): pooled memory must not become part of a handler", typ, where, c)
		}
	}
}

// loggerWraps: Logger.With / WithGroup return the receiver or a new &Logger{…} and never assign through the receiver.
func loggerWraps(p *pkg) (bool, []string) {
	ok := true
	var notes []string
	for _, name := range []string{"With", "WithGroup"} {
		m := p.methods["Logger"][name]
		if m == nil {
			unrecognised("Logger.%s not found", name)
			ok = false
			continue
		}
		w := scanWrites(p, m.recv, m.decl)
		for _, o := range w.other {
			unrecognised("Logger.%s: cannot classify write: %s", name, o)
		}
		if len(w.recvWrites) > 0 || len(w.globalW) > 0 {
			ok = false
			notes = append(notes, "Logger."+name+" writes its receiver: "+strings.Join(append(w.recvWrites, w.globalW...), "; "))
		}
		derives := false
		ast.Inspect(m.decl.Body, func(n ast.Node) bool {
			if r, isRet := n.(*ast.ReturnStmt); isRet && len(r.Results) == 1 {
				s := show(r.Results[0])
				switch {
				case s == m.recv:
				case s == "&Logger{…}":
					derives = true
				default:
					unrecognised("Logger.%s returns %s (neither the receiver nor &Logger{…})", name, s)
				}
			}
			return true
		})
		if !derives && len(w.recvWrites) == 0 {
			unrecognised("Logger.%s never returns a new &Logger{…}", name)
		}
	}
	return ok, notes
}

func exprStmtText(st ast.Stmt) string {
	if es, ok := st.(*ast.ExprStmt); ok {
		return show(es.X)
	}
	return ""
}

type lwInfo struct {
	lock, dunlock, unlock, wr []int
	nLock, nUnlock, nWrite    int
	otherOut                  int
	writeArg                  string
}

// lockWriteInfo: where fn locks / unlocks the output mutex and writes to the destination (paths by role)
func lockWriteInfo(fn *ast.FuncDecl, recv string, ro *roles) lwInfo {
	if ro.mu == "" || ro.out == "" {
		return lwInfo{}
	}
	return lockWriteInfoOn(fn, recv+"."+ro.mu, recv+"."+ro.out)
}

// lockWriteInfoOn: the same for explicit mutex and writer expressions (parameters of a package-level helper)
func lockWriteInfoOn(fn *ast.FuncDecl, muExpr, outExpr string) lwInfo {
	var in lwInfo
	body := fn.Body.List
	is := func(s string) func(*ast.CallExpr) bool { return func(c *ast.CallExpr) bool { return show(c) == s } }
	isWrite := func(c *ast.CallExpr) bool { return show(c.Fun) == outExpr+".Write" }
	lockS, unlockS := muExpr+".Lock()", muExpr+".Unlock()"
	in.lock, in.dunlock, in.unlock = topLevel(body, false, is(lockS)), topLevel(body, true, is(unlockS)), topLevel(body, false, is(unlockS))
	in.wr = topLevel(body, false, isWrite)
	in.nLock, in.nUnlock, in.nWrite = countCalls(fn.Body, is(lockS)), countCalls(fn.Body, is(unlockS)), countCalls(fn.Body, isWrite)
	ast.Inspect(fn.Body, func(n ast.Node) bool {
		if c, ok := n.(*ast.CallExpr); ok && isWrite(c) {
			if len(c.Args) == 1 {
				in.writeArg = show(c.Args[0])
			}
			return false
		}
		switch s := n.(type) {
		case *ast.SelectorExpr:
			if show(s) == outExpr {
				in.otherOut++
			}
		case *ast.Ident:
			if s.Name == outExpr {
				in.otherOut++
			}
		}
		return true
	})
	return in
}

// topLevel reports the index of the top-level statement of body that is exactly the call `want` (as an expression
// statement, a defer, or the single right-hand side / result of an assignment / return), -1 when there is none.
func topLevel(body []ast.Stmt, isDefer bool, match func(*ast.CallExpr) bool) []int {
	var idx []int
	for i, st := range body {
		var call *ast.CallExpr
		switch x := st.(type) {
		case *ast.ExprStmt:
			if !isDefer {
				call, _ = x.X.(*ast.CallExpr)
			}
		case *ast.DeferStmt:
			if isDefer {
				call = x.Call
			}
		case *ast.AssignStmt:
			if !isDefer && len(x.Rhs) == 1 {
				call, _ = x.Rhs[0].(*ast.CallExpr)
			}
		case *ast.ReturnStmt:
			if !isDefer && len(x.Results) == 1 {
				call, _ = x.Results[0].(*ast.CallExpr)
			}
		}
		if call != nil && match(call) {
			idx = append(idx, i)
		}
	}
	return idx
}

func countCalls(body *ast.BlockStmt, match func(*ast.CallExpr) bool) int {
	n := 0
	ast.Inspect(body, func(nd ast.Node) bool {
		if c, ok := nd.(*ast.CallExpr); ok && match(c) {
			n++
		}
		return true
	})
	return n
}

func concOf(p *pkg, typ string) concFacts {
	var f concFacts
	checkType(p, typ)
	m, fields := cloneFields(p, typ)
	ro := rolesOf(p, typ)
	if fields != nil && ro.mu != "" {
		f.CloneSharesMu = true
		if ro.muValue {
			f.CloneSharesMu = false
			f.Notes = append(f.Notes, "the mutex is a VALUE inside the handler: every clone gets its own copy of the lock")
		}
		for _, sf := range ro.share {
			v, ok := fields[sf]
			switch {
			case !ok:
				unrecognised("%s.%s does not set %s", typ, ro.clone, sf)
			case show(v) == m.recv+"."+sf:
			case strings.HasSuffix(fieldType(p, typ, sf), "io.Writer"):
				unrecognised("%s.%s does not copy the destination %s", typ, ro.clone, sf)
			default:
				f.CloneSharesMu = false
				f.Notes = append(f.Notes, ro.clone+" gives the child another mutex / sink: "+sf+": "+show(v))
			}
		}
	}
	// no method ever assigns the mutex, the writer or the sink
	f.MuOutImmutable = true
	var names []string
	for n := range p.methods[typ] {
		names = append(names, n)
	}
	sort.Strings(names)
	for _, n := range names {
		mm := p.methods[typ][n]
		w := scanWrites(p, mm.recv, mm.decl)
		for _, wr := range w.recvWrites {
			for _, path := range append([]string{ro.mu, ro.out}, ro.share...) {
				if path != "" && (strings.HasSuffix(wr, "."+path) || strings.Contains(wr, "."+path+" ")) {
					f.MuOutImmutable = false
					f.Notes = append(f.Notes, n+" assigns the output mutex / destination: "+wr)
				}
			}
		}
	}
	h := p.methods[typ]["Handle"]
	if h == nil {
		unrecognised("%s.Handle not found", typ)
		return f
	}
	r := h.recv
	body := h.decl.Body.List
	pr := poolRolesOf(p)
	is := func(s string) func(*ast.CallExpr) bool { return func(c *ast.CallExpr) bool { return show(c) == s } }
	isNew := is(pr.getter + "()")
	isFree := func(c *ast.CallExpr) bool {
		s := show(c)
		return strings.HasPrefix(s, pr.releaser+"(") || strings.HasPrefix(s, pr.pool+".Put(")
	}
	nb, dfree := topLevel(body, false, isNew), topLevel(body, true, isFree)
	nNew, nFree := countCalls(h.decl.Body, isNew), countCalls(h.decl.Body, isFree)
	// the locked write: in Handle itself, or in ONE own helper method called once at top level of Handle (inlined)
	info := lockWriteInfo(h.decl, r, ro)
	writeAt := -1 // index of the top-level statement of Handle that performs the write
	where := "Handle"
	if info.nWrite == 0 && info.nLock == 0 {
		var helper *method
		var call *ast.CallExpr
		total := 0
		for name, mm := range p.methods[typ] {
			if name == "Handle" {
				continue
			}
			hi := lockWriteInfo(mm.decl, mm.recv, ro)
			if hi.nWrite == 0 && hi.nLock == 0 {
				continue
			}
			isCall := func(c *ast.CallExpr) bool { return show(c.Fun) == r+"."+name }
			n := countCalls(h.decl.Body, isCall)
			total += n
			if idx := topLevel(body, false, isCall); len(idx) == 1 && n == 1 {
				helper, writeAt = mm, idx[0]
				ast.Inspect(body[idx[0]], func(nd ast.Node) bool {
					if c, ok := nd.(*ast.CallExpr); ok && isCall(c) {
						call = c
					}
					return true
				})
				where = name
			} else if n > 0 {
				f.Notes = append(f.Notes, fmt.Sprintf("Handle calls the locking helper %s %d times / not as a top-level statement", name, n))
				total += 100
			}
		}
		// … or ONE package-level function that is handed the handler's own mutex and writer
		pkgHelperOut := 0
		if helper == nil && total == 0 {
			for name, fn := range p.funcs {
				var params []string
				if fn.Type.Params != nil {
					for _, fl := range fn.Type.Params.List {
						for _, nm := range fl.Names {
							params = append(params, nm.Name)
						}
					}
				}
				for pm := range params {
					for pw := range params {
						if pm == pw {
							continue
						}
						hi := lockWriteInfoOn(fn, params[pm], params[pw])
						if hi.nWrite == 0 || hi.nLock == 0 {
							continue
						}
						isCall := func(c *ast.CallExpr) bool { id, ok := c.Fun.(*ast.Ident); return ok && id.Name == name }
						n := countCalls(h.decl.Body, isCall)
						if n == 0 {
							continue
						}
						total += n
						idx := topLevel(body, false, isCall)
						if len(idx) != 1 || n != 1 {
							f.Notes = append(f.Notes, fmt.Sprintf("Handle calls the locking helper %s %d times / not as a top-level statement", name, n))
							total += 100
							continue
						}
						var c *ast.CallExpr
						ast.Inspect(body[idx[0]], func(nd ast.Node) bool {
							if cc, ok := nd.(*ast.CallExpr); ok && isCall(cc) {
								c = cc
							}
							return true
						})
						if c == nil || len(c.Args) != len(params) || show(c.Args[pm]) != r+"."+ro.mu || show(c.Args[pw]) != r+"."+ro.out {
							unrecognised("%s.Handle: %s is not called with the handler's own mutex and writer", typ, name)
							continue
						}
						writeAt, where = idx[0], name
						info = hi
						info.otherOut-- // the writer parameter occurs in the Write call only; counted below for Handle
						if info.otherOut < 0 {
							info.otherOut = 0
						}
						pkgHelperOut = 1
						arg := hi.writeArg
						info.writeArg = "?"
						for i, pn := range params {
							if pn == arg {
								info.writeArg = show(c.Args[i])
							}
						}
					}
				}
			}
			if pkgHelperOut == 1 && total != 1 {
				info.nWrite, info.nLock = total, total
				writeAt = -1
			}
		}
		if pkgHelperOut == 1 {
			// fall through to the judgement below with the helper's info
		} else if helper != nil && total == 1 && call != nil {
			info = lockWriteInfo(helper.decl, helper.recv, ro)
			// the helper writes one of its parameters: what does Handle pass for it?
			arg := info.writeArg
			pos := -1
			i := 0
			for _, fl := range helper.decl.Type.Params.List {
				for _, nm := range fl.Names {
					if nm.Name == arg {
						pos = i
					}
					i++
				}
			}
			if pos >= 0 && pos < len(call.Args) {
				info.writeArg = show(call.Args[pos])
			} else {
				info.writeArg = "?"
			}
		} else if total != 0 {
			info.nWrite, info.nLock = total, total // recognised, but not the single top-level call: facts false below
			writeAt = -1
		}
	} else if len(info.wr) > 0 {
		writeAt = info.wr[0]
	}
	f.Notes = append(f.Notes, fmt.Sprintf("%s: top-level statement indices: newBuffer%v deferFree%v | %s: lock%v deferUnlock%v write%v unlock%v", "Handle", nb, dfree, where, info.lock, info.dunlock, info.wr, info.unlock))
	if info.nWrite == 0 {
		unrecognised("%s.Handle: no call of %s.%s.Write (directly or in one own helper)", typ, r, ro.out)
	}
	nested := func(what string, top, all int) bool {
		if all > top {
			f.Notes = append(f.Notes, fmt.Sprintf("%s: %d of %d %s calls are not top-level statements (inside if/for/switch/go/defer/func literal)", where, all-top, all, what))
			return true
		}
		return false
	}
	// buffer
	bufVar := ""
	if len(nb) == 1 {
		if a, ok := body[nb[0]].(*ast.AssignStmt); ok && len(a.Lhs) == 1 {
			bufVar = show(a.Lhs[0])
		}
	}
	f.BufFromPool = len(nb) == 1 && nNew == 1 && bufVar != "" && (writeAt < 0 || nb[0] < writeAt)
	if !f.BufFromPool {
		unrecognised("%s.Handle: buffer is not a top-level `buf := %s()` before the Write", typ, pr.getter)
	}
	f.FreeDeferred = len(dfree) == 1 && nFree == 1 && bufVar != "" && show(body[dfree[0]].(*ast.DeferStmt).Call) == pr.releaser+"("+bufVar+")" && len(nb) == 1 && dfree[0] > nb[0]
	if !f.FreeDeferred {
		free := topLevel(body, false, isFree)
		switch {
		case nFree == 0:
			unrecognised("%s.Handle: buffer is never released", typ)
		case len(dfree) == 0 && len(free) == 1 && nFree == 1 && bufVar != "" && len(nb) == 1 && writeAt >= 0 && free[0] > writeAt &&
			exprStmtText(body[free[0]]) == pr.releaser+"("+bufVar+")":
			// not deferred: released exactly once, after the Write; acceptable when no return can happen in between
			returns := 0
			for _, st := range body[nb[0]+1 : free[0]] {
				ast.Inspect(st, func(n ast.Node) bool {
					switch n.(type) {
					case *ast.FuncLit:
						return false
					case *ast.ReturnStmt:
						returns++
					}
					return true
				})
			}
			if returns == 0 {
				f.FreeDeferred = true
				f.Notes = append(f.Notes, "Handle: the buffer is released by a plain call after the Write (no return in between)")
			} else {
				unrecognised("%s.Handle: the buffer is released by a plain call after the Write, but a return lies before it", typ)
			}
		case len(free) >= 1 && writeAt >= 0 && free[0] < writeAt:
			f.Notes = append(f.Notes, "Handle: the buffer is released BEFORE the Write")
		default:
			unrecognised("%s.Handle: cannot tell that the buffer is released exactly once after the Write", typ)
		}
	}
	// the single Write
	wNested := nested(ro.out+".Write", len(info.wr), info.nWrite)
	otherOut := info.otherOut
	if where != "Handle" {
		otherOut += lockWriteInfo(h.decl, r, ro).otherOut
		if _, isFunc := p.funcs[where]; isFunc {
			otherOut-- // the one occurrence of the writer as argument of the helper call
		}
	}
	f.SingleWrite = len(info.wr) == 1 && info.nWrite == 1 && otherOut == 0 && !wNested
	if bufVar != "" {
		for _, st := range body {
			if a, ok := st.(*ast.AssignStmt); ok && a.Tok == token.DEFINE && len(a.Lhs) == 1 && len(a.Rhs) == 1 && show(a.Rhs[0]) == "*"+bufVar && show(a.Lhs[0]) == info.writeArg {
				info.writeArg = "*" + bufVar // a local copy of the slice header
			}
		}
	}
	if f.SingleWrite && bufVar != "" && info.writeArg != "*"+bufVar {
		f.SingleWrite = false
		unrecognised("%s.Handle: the argument of the single Write is %s, not *%s", typ, info.writeArg, bufVar)
	}
	if otherOut > 0 {
		f.Notes = append(f.Notes, fmt.Sprintf("the destination %s.%s is used %d times outside the Write call", r, ro.out, otherOut))
	}
	// the lock
	lNested := nested(ro.mu+".Lock", len(info.lock), info.nLock)
	uNested := nested(ro.mu+".Unlock", len(info.dunlock)+len(info.unlock), info.nUnlock)
	switch {
	case info.nLock == 0:
		f.Notes = append(f.Notes, where+" never locks the output mutex")
	case len(info.lock) != 1 || lNested || uNested || len(info.wr) == 0:
		f.Notes = append(f.Notes, where+": lock / unlock are not single top-level statements around the Write")
	default:
		released := false
		for _, d := range info.dunlock {
			if d > info.lock[0] && d < info.wr[0] {
				released = true
			}
		}
		under := info.lock[0] < info.wr[0]
		for _, u := range info.unlock {
			if u > info.wr[len(info.wr)-1] {
				released = true
			}
			if u > info.lock[0] && u < info.wr[len(info.wr)-1] {
				under = false
			}
		}
		if !released {
			unrecognised("%s.%s: the mutex is locked but not unlocked by a top-level defer before / Unlock after the Write", typ, where)
		}
		f.WriteUnderLock = under && released
		// deferred: the Unlock also runs when the destination's Write panics
		for _, d := range info.dunlock {
			if d > info.lock[0] && d < info.wr[0] {
				f.UnlockDeferred = true
			}
		}
		if released && !f.UnlockDeferred {
			f.Notes = append(f.Notes, where+": the Unlock is not deferred and the call of the user-supplied Writer lies between Lock and Unlock: a Write that panics leaves the mutex locked")
		}
	}
	// Handle and everything reachable from it assigns to no handler field and to no package-level variable
	w := scanWrites(p, r, h.decl)
	for _, o := range w.other {
		unrecognised("%s.Handle: cannot classify write: %s", typ, o)
	}
	f.HandleReadonly = len(w.recvWrites) == 0 && len(w.globalW) == 0 && helperCallsClean(p, typ, w, "Handle")
	for _, x := range append(w.recvWrites, w.globalW...) {
		f.Notes = append(f.Notes, "Handle writes shared state: "+x)
	}
	seen := map[string]bool{}
	var visit func(fn string)
	visit = func(fn string) {
		if seen[fn] || p.funcs[fn] == nil {
			return
		}
		seen[fn] = true
		hw := scanWrites(p, "", p.funcs[fn])
		if fn != pr.releaser && fn != pr.getter && fn != pr.newFn { // the pool discipline is judged by its own facts
			for _, g := range hw.globalW {
				f.HandleReadonly = false
				f.Notes = append(f.Notes, fn+" (reachable from Handle) writes a package-level variable: "+g)
			}
		}
		for _, c := range hw.funcCalls {
			visit(c)
		}
	}
	for _, c := range w.funcCalls {
		visit(c)
	}
	for _, c := range w.recvCalls {
		if mm := p.methods[typ][c]; mm != nil {
			hw := scanWrites(p, mm.recv, mm.decl)
			for _, g := range hw.globalW {
				f.HandleReadonly = false
				f.Notes = append(f.Notes, c+" (called by Handle) writes a package-level variable: "+g)
			}
			for _, cc := range hw.funcCalls {
				visit(cc)
			}
		}
	}
	return f
}

type globalFacts struct {
	ResetBeforePut, RefusesOversized, PoolNewEmpty, GateFirst bool
	LevelStored, EnabledIsGe                                  bool
	MaxBufferSize                                             string
	Notes                                                     []string
}

// poolRoles: the line-buffer pool and its two accessors, found by type and role:
// the package-level sync.Pool from which a parameterless function returning *[]byte Gets, and the function taking a
// *[]byte that Puts into the same pool.
type poolRoles struct{ getter, releaser, pool, newFn string }

var poolCache = map[*pkg]*poolRoles{}

func poolRolesOf(p *pkg) *poolRoles {
	if pr, ok := poolCache[p]; ok {
		return pr
	}
	pr := &poolRoles{}
	poolCache[p] = pr
	pools := map[string]bool{}
	for name, v := range p.vars {
		if lit, ok := v.(*ast.CompositeLit); ok && show(lit.Type) == "sync.Pool" {
			pools[name] = true
		}
	}
	var getters, releasers []string
	for name, fn := range p.funcs {
		ft := fn.Type
		nparams := 0
		ptype := ""
		if ft.Params != nil {
			for _, fl := range ft.Params.List {
				nparams += max(1, len(fl.Names))
				ptype = show(fl.Type)
			}
		}
		for pool := range pools {
			if nparams == 0 && ft.Results != nil && len(ft.Results.List) == 1 && show(ft.Results.List[0].Type) == "*[]byte" &&
				countCalls(fn.Body, func(c *ast.CallExpr) bool { return show(c) == pool+".Get()" }) > 0 {
				getters = append(getters, name+"|"+pool)
			}
			if nparams == 1 && ptype == "*[]byte" &&
				countCalls(fn.Body, func(c *ast.CallExpr) bool { return show(c.Fun) == pool+".Put" }) > 0 {
				releasers = append(releasers, name+"|"+pool)
			}
		}
	}
	sort.Strings(getters)
	sort.Strings(releasers)
	if len(getters) != 1 || len(releasers) != 1 {
		unrecognised("cannot identify the line-buffer pool accessors: functions that Get a *[]byte from a sync.Pool %v, functions that Put one %v", getters, releasers)
		return pr
	}
	g, r := strings.Split(getters[0], "|"), strings.Split(releasers[0], "|")
	if g[1] != r[1] {
		unrecognised("%s gets from %s but %s puts into %s", g[0], g[1], r[0], r[1])
		return pr
	}
	pr.getter, pr.releaser, pr.pool = g[0], r[0], g[1]
	if lit, ok := p.vars[pr.pool].(*ast.CompositeLit); ok {
		for _, el := range lit.Elts {
			if kv, ok := el.(*ast.KeyValueExpr); ok && show(kv.Key) == "New" {
				if id, ok := kv.Value.(*ast.Ident); ok {
					pr.newFn = id.Name
				}
			}
		}
	}
	return pr
}

// gateShape: does fn decide on `l.h.Enabled(level)` before anything else runs?
//
//	if !GATE { return … } …                      negative form
//	if GATE { … } return <no call>               positive form (nothing but a plain return after the if)
//	x := GATE; if !x { return … } … | if x { … } return <no call>
func gateShape(m *method, hfield string) (first, seen bool) {
	lvl := ""
	for _, prm := range m.decl.Type.Params.List {
		if show(prm.Type) == "slog.Level" && len(prm.Names) == 1 {
			lvl = prm.Names[0].Name
		}
	}
	gate := m.recv + "." + hfield + ".Enabled(" + lvl + ")"
	body := m.decl.Body.List
	ast.Inspect(m.decl.Body, func(n ast.Node) bool {
		if c, ok := n.(*ast.CallExpr); ok && show(c) == gate {
			seen = true
		}
		return true
	})
	if len(body) == 0 {
		return false, seen
	}
	cond := gate
	i := 0
	if a, ok := body[0].(*ast.AssignStmt); ok && a.Tok == token.DEFINE && len(a.Lhs) == 1 && len(a.Rhs) == 1 && show(a.Rhs[0]) == gate {
		cond = show(a.Lhs[0])
		i = 1
	}
	if i >= len(body) {
		return false, seen
	}
	is, ok := body[i].(*ast.IfStmt)
	if !ok || is.Init != nil {
		return false, seen
	}
	plainReturn := func(st ast.Stmt) bool {
		r, ok := st.(*ast.ReturnStmt)
		if !ok {
			return false
		}
		calls := 0
		ast.Inspect(r, func(n ast.Node) bool {
			if _, ok := n.(*ast.CallExpr); ok {
				calls++
			}
			return true
		})
		return calls == 0
	}
	switch show(is.Cond) {
	case "!" + cond, "!(" + cond + ")", cond + "==false":
		return is.Else == nil && len(is.Body.List) == 1 && plainReturn(is.Body.List[0]), seen
	case cond, cond + "==true":
		// everything happens inside the if; afterwards (and in an else) only a plain return
		rest := body[i+1:]
		okRest := len(rest) == 0 || (len(rest) == 1 && plainReturn(rest[0]))
		okElse := is.Else == nil
		if eb, ok := is.Else.(*ast.BlockStmt); ok {
			okElse = len(eb.List) == 1 && plainReturn(eb.List[0])
		}
		return okRest && okElse, seen
	}
	return false, seen
}

func globalsOf(p *pkg) globalFacts {
	var g globalFacts
	pr := poolRolesOf(p)
	// the releaser: reset before the single Put, guarded by a comparison of cap(*buf) with the size limit
	if fb := p.funcs[pr.releaser]; fb == nil {
		unrecognised("the function that returns line buffers to the pool was not found")
	} else {
		b := fb.Type.Params.List[0].Names[0].Name
		type putInfo struct {
			guarded bool
			reset   bool
		}
		var puts []putInfo
		limit := func(c, op string, capFirst bool) (string, bool) {
			// c is `cap(*b) OP X` (capFirst) or `X OP cap(*b)`
			capS := "cap(*" + b + ")"
			if capFirst && strings.HasPrefix(c, capS+op) {
				return c[len(capS+op):], true
			}
			if !capFirst && strings.HasSuffix(c, op+capS) {
				return c[:len(c)-len(op+capS)], true
			}
			return "", false
		}
		var walk func(stmts []ast.Stmt, guarded bool)
		walk = func(stmts []ast.Stmt, guarded bool) {
			reset := false
			for _, s := range stmts {
				switch x := s.(type) {
				case *ast.AssignStmt:
					if len(x.Lhs) == 1 && len(x.Rhs) == 1 && show(x.Lhs[0]) == "*"+b {
						rhs := show(x.Rhs[0])
						reset = rhs == "(*"+b+")[:0]" || rhs == "(*"+b+")[0:0]"
					}
				case *ast.ExprStmt:
					if show(x.X) == pr.pool+".Put("+b+")" {
						puts = append(puts, putInfo{guarded, reset})
					}
				case *ast.IfStmt:
					c := show(x.Cond)
					small, big := false, false
					for _, t := range []struct {
						op       string
						capFirst bool
						isSmall  bool
					}{{"<=", true, true}, {">=", false, true}, {">", true, false}, {"<", false, false}} {
						if lim, ok := limit(c, t.op, t.capFirst); ok && lim != "" && !strings.ContainsAny(lim, "<>=") {
							g.MaxBufferSize = lim
							if t.isSmall {
								small = true
							} else {
								big = true
							}
						}
					}
					walk(x.Body.List, guarded || small)
					if big {
						if len(x.Body.List) == 1 {
							if _, ok := x.Body.List[0].(*ast.ReturnStmt); ok {
								guarded = true
							}
						}
					} else if !small {
						unrecognised("%s: unexpected condition %s", pr.releaser, c)
					}
					if x.Else != nil {
						unrecognised("%s: else branch", pr.releaser)
					}
				case *ast.ReturnStmt:
				default:
					unrecognised("%s: unexpected statement", pr.releaser)
				}
			}
		}
		walk(fb.Body.List, false)
		if len(puts) != 1 {
			unrecognised("%s: %s.Put(%s) occurs %d times", pr.releaser, pr.pool, b, len(puts))
		} else {
			g.ResetBeforePut = puts[0].reset
			g.RefusesOversized = puts[0].guarded
			if !puts[0].reset {
				g.Notes = append(g.Notes, pr.releaser+" puts the buffer back without `*buf = (*buf)[:0]`")
			}
		}
		if v, ok := p.consts[g.MaxBufferSize]; ok {
			g.MaxBufferSize = g.MaxBufferSize + " = " + v
		}
	}
	// the pool's New (a function literal or a named function) makes an empty buffer
	if bp, ok := p.vars[pr.pool]; ok {
		var where ast.Node = bp
		if pr.newFn != "" {
			if nf := p.funcs[pr.newFn]; nf != nil {
				where = nf.Body
			} else {
				unrecognised("%s.New: function %s not found", pr.pool, pr.newFn)
			}
		}
		found := false
		ast.Inspect(where, func(n ast.Node) bool {
			if c, ok := n.(*ast.CallExpr); ok && show(c.Fun) == "make" && len(c.Args) == 3 {
				found = true
				g.PoolNewEmpty = show(c.Args[0]) == "[]byte" && show(c.Args[1]) == "0"
			}
			return true
		})
		if !found {
			unrecognised("%s.New does not make([]byte, 0, n)", pr.pool)
		}
	}
	// the getter: takes from the pool (one Get), or makes a fresh buffer with the pool's New; touches nothing else
	if nb := p.funcs[pr.getter]; nb != nil {
		w := scanWrites(p, "", nb)
		okRet := true
		ast.Inspect(nb.Body, func(n ast.Node) bool {
			if r, ok := n.(*ast.ReturnStmt); ok && len(r.Results) == 1 {
				s := show(r.Results[0])
				fromPool := strings.HasPrefix(s, pr.pool+".Get()")
				fresh := pr.newFn != "" && strings.HasPrefix(s, pr.newFn+"()")
				if _, isIdent := r.Results[0].(*ast.Ident); !(fromPool || fresh || isIdent) {
					okRet = false
				}
			}
			return true
		})
		nGet := countCalls(nb.Body, func(c *ast.CallExpr) bool { return show(c) == pr.pool+".Get()" })
		nPut := countCalls(nb.Body, func(c *ast.CallExpr) bool { return strings.HasSuffix(show(c.Fun), ".Put") })
		if nGet != 1 || nPut != 0 || !okRet || len(w.globalW) > 0 || len(w.other) > 0 {
			unrecognised("%s is not `return %s.Get().(*[]byte)` (or its comma-ok form)", pr.getter, pr.pool)
		}
	}
	// NewOptions stores the level argument unchanged; Options.Enabled is `l >= opts.level`
	lvlField := ""
	for _, fd := range p.structs["Options"] {
		if fd.typ == "slog.Level" {
			if lvlField != "" {
				unrecognised("Options has several slog.Level fields")
			}
			lvlField = fd.name
		}
	}
	if lvlField == "" {
		unrecognised("Options has no slog.Level field")
	}
	if no := p.funcs["NewOptions"]; no == nil || no.Type.Params == nil || len(no.Type.Params.List) == 0 || len(no.Type.Params.List[0].Names) == 0 {
		unrecognised("NewOptions(level, …) not found")
	} else if lvlField != "" {
		lvl := no.Type.Params.List[0].Names[0].Name
		// what ends up in the level field: composite literal (positional / keyed), then `x.level = e` assignments in order
		var stored ast.Expr
		known := true
		fromLit := func(lit *ast.CompositeLit) {
			if len(lit.Elts) == 0 {
				return
			}
			if _, keyed := lit.Elts[0].(*ast.KeyValueExpr); keyed {
				for _, el := range lit.Elts {
					if kv, ok := el.(*ast.KeyValueExpr); ok && show(kv.Key) == lvlField {
						stored = kv.Value
					}
				}
				return
			}
			for i, fd := range p.structs["Options"] {
				if fd.name == lvlField && i < len(lit.Elts) {
					stored = lit.Elts[i]
				}
			}
		}
		sawOptions := false
		for _, st := range no.Body.List {
			switch x := st.(type) {
			case *ast.ReturnStmt:
				if len(x.Results) == 1 {
					e := x.Results[0]
					if u, ok := e.(*ast.UnaryExpr); ok && u.Op == token.AND {
						e = u.X
					}
					if lit, ok := e.(*ast.CompositeLit); ok && show(lit.Type) == "Options" {
						sawOptions = true
						fromLit(lit)
					}
				}
			case *ast.AssignStmt:
				for i, l := range x.Lhs {
					if id, ok := l.(*ast.Ident); ok && id.Name == lvl {
						known = false // the parameter itself is changed
					}
					if i < len(x.Rhs) {
						e := x.Rhs[i]
						if u, ok := e.(*ast.UnaryExpr); ok && u.Op == token.AND {
							e = u.X
						}
						if lit, ok := e.(*ast.CompositeLit); ok && show(lit.Type) == "Options" {
							sawOptions = true
							fromLit(lit)
						}
						if show(e) == "new(Options)" {
							sawOptions = true
						}
						if sel, ok := l.(*ast.SelectorExpr); ok && sel.Sel.Name == lvlField {
							stored = x.Rhs[i]
						}
					}
				}
			case *ast.DeclStmt:
				sawOptions = true
			default:
				known = false
			}
		}
		switch {
		case !known || !sawOptions:
			unrecognised("NewOptions: statements other than building an Options value, field assignments and return")
		case stored == nil:
			unrecognised("NewOptions does not set Options.%s", lvlField)
		case show(stored) == lvl || show(stored) == "("+lvl+")":
			g.LevelStored = true
		default:
			g.Notes = append(g.Notes, "NewOptions stores "+show(stored)+" instead of its level argument")
		}
	}
	if en := p.methods["Options"]["Enabled"]; en == nil || en.decl.Type.Params == nil || len(en.decl.Type.Params.List) != 1 || len(en.decl.Type.Params.List[0].Names) != 1 {
		unrecognised("Options.Enabled(l) not found")
	} else {
		l := en.decl.Type.Params.List[0].Names[0].Name
		ok := false
		if len(en.decl.Body.List) == 1 {
			if r, isRet := en.decl.Body.List[0].(*ast.ReturnStmt); isRet && len(r.Results) == 1 {
				c := show(r.Results[0])
				f := en.recv + "." + lvlField
				if c == l+">="+f || c == f+"<="+l || c == "!("+l+"<"+f+")" || c == "!("+f+">"+l+")" {
					g.EnabledIsGe = true
				} else {
					g.Notes = append(g.Notes, "Options.Enabled is "+c)
				}
				ok = true
			}
		}
		if !ok {
			unrecognised("Options.Enabled is not a single return of a comparison")
		}
	}
	// level gate
	hfield := ""
	for _, fd := range p.structs["Logger"] {
		if fd.typ == "Handler" {
			hfield = fd.name
		}
	}
	if hfield == "" {
		unrecognised("Logger has no field of type Handler")
	}
	g.GateFirst = true
	for _, fn := range []string{"log", "logf", "logAttrs"} {
		m := p.methods["Logger"][fn]
		if m == nil {
			unrecognised("Logger.%s not found", fn)
			g.GateFirst = false
			continue
		}
		first, seen := gateShape(m, hfield)
		if !first {
			handleCalled := countCalls(m.decl.Body, func(c *ast.CallExpr) bool { return show(c.Fun) == m.recv+"."+hfield+".Handle" }) > 0
			if !handleCalled {
				unrecognised("Logger.%s does not call %s.%s.Handle", fn, m.recv, hfield)
			}
			if seen {
				g.Notes = append(g.Notes, "Logger."+fn+": something runs before the level gate decides")
			} else {
				g.Notes = append(g.Notes, "Logger."+fn+": no level gate")
			}
			g.GateFirst = false
		}
	}
	return g
}

func cb(b bool) string {
	if b {
		return "true"
	}
	return "false"
}

// analyse returns the Coq text, the notes and the list of unrecognised shapes.
func analyse(repo, mode string) (string, []string, []string) {
	unrec = nil
	p := load(filepath.Join(repo, "logger"))
	if p == nil {
		return "", nil, unrec
	}
	for _, t := range handlerTypes {
		rolesOf(p, t.typ)
	}
	var out strings.Builder
	var notes []string
	if mode == "chain" {
		wraps, wnotes := loggerWraps(p)
		notes = append(notes, wnotes...)
		out.WriteString("From Glb Require Import Model.LoggerChain.\n")
		for _, t := range handlerTypes {
			f := chainOf(p, t.typ)
			fmt.Fprintf(&out, "Definition %s_chain_facts : chain_facts := mkChainFacts %s %s %s %s %s.\n", t.name,
				cb(f.CloneClips), cb(f.WithAttrsFresh), cb(f.WithGroupFresh), cb(f.GroupReturnsReceiver), cb(wraps))
			for _, n := range f.Notes {
				notes = append(notes, t.typ+": "+n)
			}
		}
	} else {
		g := globalsOf(p)
		out.WriteString("From Glb Require Import Model.LoggerConc.\n")
		for _, t := range handlerTypes {
			f := concOf(p, t.typ)
			fmt.Fprintf(&out, "Definition %s_conc_facts : conc_facts := mkConcFacts %s %s %s %s %s %s %s %s %s %s %s %s %s %s.\n", t.name,
				cb(f.SingleWrite), cb(f.WriteUnderLock), cb(f.CloneSharesMu), cb(f.BufFromPool), cb(f.FreeDeferred), cb(f.HandleReadonly),
				cb(g.ResetBeforePut), cb(g.RefusesOversized), cb(g.PoolNewEmpty), cb(g.GateFirst), cb(g.LevelStored), cb(g.EnabledIsGe), cb(f.MuOutImmutable), cb(f.UnlockDeferred))
			for _, n := range f.Notes {
				notes = append(notes, t.typ+": "+n)
			}
		}
		notes = append(notes, "pool size limit: "+g.MaxBufferSize)
		notes = append(notes, g.Notes...)
	}
	return out.String(), notes, unrec
}

func main() {
	if len(os.Args) != 3 || (os.Args[2] != "chain" && os.Args[2] != "conc") {
		fmt.Fprintln(os.Stderr, "usage: loggerfacts <repo> chain|conc")
		os.Exit(2)
	}
	out, notes, un := analyse(os.Args[1], os.Args[2])
	if len(un) > 0 {
		for _, u := range un {
			fmt.Fprintln(os.Stderr, "UNRECOGNISED:", u)
		}
		os.Exit(3)
	}
	for _, n := range notes {
		fmt.Printf("(* %s *)\n", strings.ReplaceAll(strings.ReplaceAll(n, "*)", "* )"), "(*", "( *"))
	}
	fmt.Print(out)
}
