// loggerfacts reads the sources of <repo>/logger (go/parser, go/ast only) and reports the facts the
// C02/C03 models are parameterised by, as Coq definitions.
//
//	loggerfacts <repo> chain|conc
//
// chain: per handler type, does clone() clip preformatted, do WithAttrs/WithGroup write only to the
// fresh clone.  conc: per handler type, is out.Write called exactly once in Handle, after
// outMu.Lock() with a deferred (or later) Unlock, is the buffer taken from newBuffer() and released by
// a deferred freeBuffer, does clone() copy the outMu pointer; does freeBuffer reset the length before
// Put and refuse oversized buffers; is the level gate the first statement of log/logf/logAttrs.
//
// A fact is "false" when the code shape is recognised and the discipline is not followed. When the
// shape is not recognised at all the program prints UNRECOGNISED lines and exits with status 3: the
// caller reports a broken correspondence, never a pass.
package main

import (
	"fmt"
	"go/ast"
	"go/parser"
	"go/token"
	"os"
	"path/filepath"
	"sort"
	"strings"
)

var unrec []string

func unrecognised(format string, a ...any) { unrec = append(unrec, fmt.Sprintf(format, a...)) }

// show prints the small expression language we compare against; anything else becomes "?".
func show(e ast.Expr) string {
	switch x := e.(type) {
	case nil:
		return ""
	case *ast.Ident:
		return x.Name
	case *ast.BasicLit:
		return x.Value
	case *ast.SelectorExpr:
		return show(x.X) + "." + x.Sel.Name
	case *ast.StarExpr:
		return "*" + show(x.X)
	case *ast.ParenExpr:
		return "(" + show(x.X) + ")"
	case *ast.UnaryExpr:
		return x.Op.String() + show(x.X)
	case *ast.BinaryExpr:
		return show(x.X) + x.Op.String() + show(x.Y)
	case *ast.CallExpr:
		var args []string
		for _, a := range x.Args {
			args = append(args, show(a))
		}
		return show(x.Fun) + "(" + strings.Join(args, ",") + ")"
	case *ast.IndexExpr:
		return show(x.X) + "[" + show(x.Index) + "]"
	case *ast.SliceExpr:
		s := show(x.X) + "[" + show(x.Low) + ":" + show(x.High)
		if x.Slice3 {
			s += ":" + show(x.Max)
		}
		return s + "]"
	case *ast.CompositeLit:
		return show(x.Type) + "{…}"
	case *ast.TypeAssertExpr:
		return show(x.X) + ".(" + show(x.Type) + ")"
	case *ast.ArrayType:
		return "[]" + show(x.Elt)
	}
	return "?"
}

type method struct {
	recv string // receiver variable name
	decl *ast.FuncDecl
}

type pkg struct {
	methods map[string]map[string]*method // type -> name -> method
	funcs   map[string]*ast.FuncDecl
	consts  map[string]string
	vars    map[string]ast.Expr
}

func load(dir string) *pkg {
	fset := token.NewFileSet()
	ents, err := os.ReadDir(dir)
	if err != nil {
		fmt.Fprintln(os.Stderr, "UNRECOGNISED: cannot read", dir, err)
		os.Exit(3)
	}
	p := &pkg{methods: map[string]map[string]*method{}, funcs: map[string]*ast.FuncDecl{}, consts: map[string]string{}, vars: map[string]ast.Expr{}}
	for _, e := range ents {
		n := e.Name()
		if !strings.HasSuffix(n, ".go") || strings.HasSuffix(n, "_test.go") {
			continue
		}
		f, err := parser.ParseFile(fset, filepath.Join(dir, n), nil, parser.SkipObjectResolution)
		if err != nil {
			fmt.Fprintln(os.Stderr, "UNRECOGNISED: parse error", err)
			os.Exit(3)
		}
		for _, d := range f.Decls {
			switch x := d.(type) {
			case *ast.FuncDecl:
				if x.Recv == nil || len(x.Recv.List) == 0 {
					p.funcs[x.Name.Name] = x
					continue
				}
				t := x.Recv.List[0].Type
				if s, ok := t.(*ast.StarExpr); ok {
					t = s.X
				}
				id, ok := t.(*ast.Ident)
				if !ok {
					continue
				}
				rn := "_"
				if len(x.Recv.List[0].Names) > 0 {
					rn = x.Recv.List[0].Names[0].Name
				}
				if p.methods[id.Name] == nil {
					p.methods[id.Name] = map[string]*method{}
				}
				p.methods[id.Name][x.Name.Name] = &method{rn, x}
			case *ast.GenDecl:
				for _, s := range x.Specs {
					if vs, ok := s.(*ast.ValueSpec); ok {
						for i, nm := range vs.Names {
							if i < len(vs.Values) {
								if x.Tok == token.CONST {
									p.consts[nm.Name] = show(vs.Values[i])
								} else {
									p.vars[nm.Name] = vs.Values[i]
								}
							}
						}
					}
				}
			}
		}
	}
	return p
}

// root of an lvalue-like expression: the identifier at the bottom and the number of field selections on the way.
func rootOf(e ast.Expr) (string, int, bool) {
	depth := 0
	for {
		switch x := e.(type) {
		case *ast.Ident:
			return x.Name, depth, true
		case *ast.ParenExpr:
			e = x.X
		case *ast.StarExpr:
			e = x.X
		case *ast.IndexExpr:
			e = x.X
		case *ast.SliceExpr:
			e = x.X
		case *ast.SelectorExpr:
			depth++
			e = x.X
		default:
			return "", 0, false
		}
	}
}

type writes struct {
	recvWrites  []string // writes (assignment, ++, address taken) rooted at the receiver
	freshWrites []string // writes to direct fields of a fresh clone
	other       []string // writes we cannot classify (globals, through pointers of the clone, ...)
	fresh       map[string]bool
	recvCalls   []string // methods called on the receiver or on a clone
}

// scanWrites classifies every write in the body of m.
func scanWrites(m *method) *writes {
	w := &writes{fresh: map[string]bool{}}
	locals := map[string]bool{}
	if m.decl.Type.Params != nil {
		for _, f := range m.decl.Type.Params.List {
			for _, n := range f.Names {
				locals[n.Name] = true
			}
		}
	}
	if m.decl.Type.Results != nil {
		for _, f := range m.decl.Type.Results.List {
			for _, n := range f.Names {
				locals[n.Name] = true
			}
		}
	}
	// first pass: local definitions and fresh clones
	ast.Inspect(m.decl.Body, func(n ast.Node) bool {
		switch x := n.(type) {
		case *ast.AssignStmt:
			if x.Tok == token.DEFINE {
				for i, l := range x.Lhs {
					if id, ok := l.(*ast.Ident); ok {
						locals[id.Name] = true
						if len(x.Lhs) == len(x.Rhs) && show(x.Rhs[i]) == m.recv+".clone()" {
							w.fresh[id.Name] = true
						}
					}
				}
			}
		case *ast.RangeStmt:
			if x.Tok == token.DEFINE {
				for _, l := range []ast.Expr{x.Key, x.Value} {
					if id, ok := l.(*ast.Ident); ok {
						locals[id.Name] = true
					}
				}
			}
		case *ast.DeclStmt:
			if g, ok := x.Decl.(*ast.GenDecl); ok {
				for _, s := range g.Specs {
					if vs, ok := s.(*ast.ValueSpec); ok {
						for _, nm := range vs.Names {
							locals[nm.Name] = true
						}
					}
				}
			}
		case *ast.FuncLit:
			if x.Type.Params != nil {
				for _, f := range x.Type.Params.List {
					for _, nm := range f.Names {
						locals[nm.Name] = true
					}
				}
			}
		}
		return true
	})
	target := func(e ast.Expr, how string) {
		name, depth, ok := rootOf(e)
		desc := how + " " + show(e)
		switch {
		case !ok:
			w.other = append(w.other, desc)
		case name == "_":
		case name == m.recv:
			w.recvWrites = append(w.recvWrites, desc)
		case w.fresh[name] && depth == 1:
			w.freshWrites = append(w.freshWrites, desc)
		case w.fresh[name] && depth == 0:
			// re-assigning the clone variable itself
			w.other = append(w.other, desc)
		case w.fresh[name]:
			w.other = append(w.other, desc+" (through a pointer field of the clone)")
		case locals[name]:
		default:
			w.other = append(w.other, desc+" (not a local)")
		}
	}
	ast.Inspect(m.decl.Body, func(n ast.Node) bool {
		switch x := n.(type) {
		case *ast.AssignStmt:
			for _, l := range x.Lhs {
				if x.Tok == token.DEFINE {
					if _, ok := l.(*ast.Ident); ok {
						continue
					}
				}
				target(l, "assign")
			}
		case *ast.IncDecStmt:
			target(x.X, "incdec")
		case *ast.RangeStmt:
			if x.Tok == token.ASSIGN {
				for _, l := range []ast.Expr{x.Key, x.Value} {
					if l != nil {
						target(l, "range-assign")
					}
				}
			}
		case *ast.UnaryExpr:
			if x.Op == token.AND {
				if _, ok := x.X.(*ast.CompositeLit); !ok {
					target(x.X, "address-of")
				}
			}
		case *ast.CallExpr:
			if s, ok := x.Fun.(*ast.SelectorExpr); ok {
				if id, ok := s.X.(*ast.Ident); ok && (id.Name == m.recv || w.fresh[id.Name]) {
					w.recvCalls = append(w.recvCalls, s.Sel.Name)
				}
			}
		}
		return true
	})
	return w
}

var readOnlyOptionMethods = map[string]bool{"Enabled": true, "IsDebug": true, "IsColorful": true, "IsAddSource": true}

// helperCallsClean: every method called on the receiver / clone is clone() itself, an accessor of Options, or a
// method of the same type that writes nothing through its receiver.
func helperCallsClean(p *pkg, typ string, w *writes, where string) bool {
	ok := true
	for _, c := range w.recvCalls {
		if c == "clone" || readOnlyOptionMethods[c] {
			continue
		}
		hm := p.methods[typ][c]
		if hm == nil {
			unrecognised("%s.%s calls method %s which is not defined on %s", typ, where, c, typ)
			ok = false
			continue
		}
		hw := scanWrites(hm)
		if len(hw.recvWrites) > 0 || len(hw.other) > 0 {
			ok = false
		}
	}
	return ok
}

type chainFacts struct {
	CloneClips, WithAttrsFresh, WithGroupFresh, GroupReturnsReceiver bool
	Notes                                                            []string
}

type concFacts struct {
	SingleWrite, WriteUnderLock, CloneSharesMu, BufFromPool, FreeDeferred, HandleReadonly bool
	Notes                                                                                 []string
}

func cloneLiteral(p *pkg, typ string) (*method, map[string]ast.Expr) {
	m := p.methods[typ]["clone"]
	if m == nil {
		unrecognised("%s.clone not found", typ)
		return nil, nil
	}
	var lit *ast.CompositeLit
	if len(m.decl.Body.List) == 1 {
		if r, ok := m.decl.Body.List[0].(*ast.ReturnStmt); ok && len(r.Results) == 1 {
			e := r.Results[0]
			if u, ok := e.(*ast.UnaryExpr); ok && u.Op == token.AND {
				e = u.X
			}
			lit, _ = e.(*ast.CompositeLit)
		}
	}
	if lit == nil || show(lit.Type) != typ {
		unrecognised("%s.clone is not a single `return &%s{…}`", typ, typ)
		return m, nil
	}
	fields := map[string]ast.Expr{}
	for _, el := range lit.Elts {
		kv, ok := el.(*ast.KeyValueExpr)
		if !ok {
			unrecognised("%s.clone uses a positional composite literal", typ)
			return m, nil
		}
		fields[show(kv.Key)] = kv.Value
	}
	return m, fields
}

func chainOf(p *pkg, typ string) chainFacts {
	var f chainFacts
	m, fields := cloneLiteral(p, typ)
	if fields != nil {
		pf, ok := fields["preformatted"]
		if !ok {
			unrecognised("%s.clone does not set preformatted", typ)
		} else {
			src := m.recv + ".preformatted"
			s := show(pf)
			switch s {
			case "slices.Clip(" + src + ")", src + "[:len(" + src + "):len(" + src + ")]":
				f.CloneClips = true
			case src:
				f.CloneClips = false
				f.Notes = append(f.Notes, "clone hands the parent's slice on unclipped: "+s)
			default:
				unrecognised("%s.clone: preformatted: %s is neither clipped nor the plain parent slice", typ, s)
			}
		}
	}
	// WithAttrs
	if wa := p.methods[typ]["WithAttrs"]; wa == nil {
		unrecognised("%s.WithAttrs not found", typ)
	} else {
		w := scanWrites(wa)
		for _, o := range w.other {
			unrecognised("%s.WithAttrs: cannot classify write: %s", typ, o)
		}
		if len(w.fresh) == 0 {
			unrecognised("%s.WithAttrs: no `x := %s.clone()`", typ, wa.recv)
		}
		f.WithAttrsFresh = len(w.recvWrites) == 0 && helperCallsClean(p, typ, w, "WithAttrs")
		for _, r := range w.recvWrites {
			f.Notes = append(f.Notes, "WithAttrs writes the receiver: "+r)
		}
	}
	// WithGroup
	if wg := p.methods[typ]["WithGroup"]; wg == nil {
		unrecognised("%s.WithGroup not found", typ)
	} else {
		if len(wg.decl.Body.List) == 1 {
			if r, ok := wg.decl.Body.List[0].(*ast.ReturnStmt); ok && len(r.Results) == 1 && show(r.Results[0]) == wg.recv {
				f.GroupReturnsReceiver = true
				f.WithGroupFresh = true
			}
		}
		if !f.GroupReturnsReceiver {
			w := scanWrites(wg)
			for _, o := range w.other {
				unrecognised("%s.WithGroup: cannot classify write: %s", typ, o)
			}
			if len(w.fresh) == 0 && len(w.recvWrites) == 0 {
				unrecognised("%s.WithGroup: no `x := %s.clone()` and not `return %s`", typ, wg.recv, wg.recv)
			}
			f.WithGroupFresh = len(w.recvWrites) == 0 && helperCallsClean(p, typ, w, "WithGroup")
			for _, r := range w.recvWrites {
				f.Notes = append(f.Notes, "WithGroup writes the receiver: "+r)
			}
		}
	}
	return f
}

// position-ordered list of interesting events in Handle
type event struct {
	pos  token.Pos
	kind string
}

func concOf(p *pkg, typ string) concFacts {
	var f concFacts
	m, fields := cloneLiteral(p, typ)
	if fields != nil {
		mu, ok := fields["outMu"]
		switch {
		case !ok:
			unrecognised("%s.clone does not set outMu", typ)
		case show(mu) == m.recv+".outMu":
			f.CloneSharesMu = true
		default:
			f.Notes = append(f.Notes, "clone gives the child another mutex: "+show(mu))
		}
		if o, ok := fields["out"]; !ok || show(o) != m.recv+".out" {
			unrecognised("%s.clone does not copy out", typ)
		}
	}
	h := p.methods[typ]["Handle"]
	if h == nil {
		unrecognised("%s.Handle not found", typ)
		return f
	}
	r := h.recv
	var evs []event
	bufVar := ""
	otherOutUse := 0
	ast.Inspect(h.decl.Body, func(n ast.Node) bool {
		switch x := n.(type) {
		case *ast.AssignStmt:
			if len(x.Rhs) == 1 && show(x.Rhs[0]) == "newBuffer()" && len(x.Lhs) == 1 {
				bufVar = show(x.Lhs[0])
				evs = append(evs, event{x.Pos(), "newBuffer"})
			}
		case *ast.DeferStmt:
			s := show(x.Call)
			switch {
			case s == r+".outMu.Unlock()":
				evs = append(evs, event{x.Pos(), "deferUnlock"})
			case strings.HasPrefix(s, "freeBuffer("):
				evs = append(evs, event{x.Pos(), "deferFree:" + s})
			}
			return false
		case *ast.CallExpr:
			s := show(x)
			switch {
			case s == r+".outMu.Lock()":
				evs = append(evs, event{x.Pos(), "lock"})
			case s == r+".outMu.Unlock()":
				evs = append(evs, event{x.Pos(), "unlock"})
			case show(x.Fun) == r+".out.Write":
				evs = append(evs, event{x.Pos(), "write:" + s})
				return false
			case strings.HasPrefix(s, "freeBuffer(") || strings.HasPrefix(s, "bufferPool.Put("):
				evs = append(evs, event{x.Pos(), "free:" + s})
			}
		case *ast.SelectorExpr:
			if show(x) == r+".out" {
				otherOutUse++
			}
		}
		return true
	})
	sort.Slice(evs, func(i, j int) bool { return evs[i].pos < evs[j].pos })
	var seq []string
	for _, e := range evs {
		seq = append(seq, e.kind)
	}
	f.Notes = append(f.Notes, "Handle events: "+strings.Join(seq, " "))
	idx := func(prefix string) []int {
		var r []int
		for i, k := range seq {
			if strings.HasPrefix(k, prefix) {
				r = append(r, i)
			}
		}
		return r
	}
	wr, lk, du, ul := idx("write:"), idx("lock"), idx("deferUnlock"), idx("unlock")
	if len(wr) == 0 {
		unrecognised("%s.Handle: no call of %s.out.Write", typ, r)
	}
	f.SingleWrite = len(wr) == 1 && otherOutUse == 0 && bufVar != "" && seq[wr[0]] == "write:"+r+".out.Write(*"+bufVar+")"
	if len(wr) == 1 && otherOutUse == 0 && !f.SingleWrite {
		unrecognised("%s.Handle: the argument of the single Write is not *%s: %s", typ, bufVar, seq[wr[0]])
	}
	if len(wr) >= 1 && len(lk) == 1 {
		under := lk[0] < wr[0]
		released := false
		for _, d := range du {
			if d > lk[0] && d < wr[0] {
				released = true
			}
		}
		for _, u := range ul {
			if u > wr[len(wr)-1] {
				released = true
			}
			if u > lk[0] && u < wr[len(wr)-1] {
				under = false
			}
		}
		if !released {
			unrecognised("%s.Handle: outMu is locked but never unlocked", typ)
		}
		f.WriteUnderLock = under && released
	} else if len(lk) != 1 && len(wr) >= 1 {
		if len(lk) == 0 {
			f.Notes = append(f.Notes, "Handle never locks outMu")
		} else {
			unrecognised("%s.Handle: outMu.Lock() called %d times", typ, len(lk))
		}
	}
	nb, df, fr := idx("newBuffer"), idx("deferFree:"), idx("free:")
	f.BufFromPool = len(nb) == 1 && bufVar != "" && (len(wr) == 0 || nb[0] < wr[0])
	if !f.BufFromPool {
		unrecognised("%s.Handle: buffer is not `buf := newBuffer()`", typ)
	}
	f.FreeDeferred = len(df) == 1 && len(fr) == 0 && seq[df[0]] == "deferFree:freeBuffer("+bufVar+")"
	if !f.FreeDeferred && len(df)+len(fr) == 0 {
		unrecognised("%s.Handle: buffer is never released", typ)
	}
	w := scanWrites(h)
	f.HandleReadonly = len(w.recvWrites) == 0
	for _, x := range w.recvWrites {
		f.Notes = append(f.Notes, "Handle writes the receiver: "+x)
	}
	return f
}

type globalFacts struct {
	ResetBeforePut, RefusesOversized, PoolNewEmpty, GateFirst bool
	LevelStored, EnabledIsGe                                  bool
	MaxBufferSize                                             string
	Notes                                                     []string
}

func globalsOf(p *pkg) globalFacts {
	var g globalFacts
	g.MaxBufferSize = p.consts["maxBufferSize"]
	fb := p.funcs["freeBuffer"]
	if fb == nil || fb.Type.Params == nil || len(fb.Type.Params.List) != 1 || len(fb.Type.Params.List[0].Names) != 1 {
		unrecognised("freeBuffer(buf *[]byte) not found")
	} else {
		b := fb.Type.Params.List[0].Names[0].Name
		type putInfo struct {
			guarded bool
			reset   bool
		}
		var puts []putInfo
		var walk func(stmts []ast.Stmt, guarded bool)
		walk = func(stmts []ast.Stmt, guarded bool) {
			reset := false
			for _, s := range stmts {
				switch x := s.(type) {
				case *ast.AssignStmt:
					if len(x.Lhs) == 1 && len(x.Rhs) == 1 && show(x.Lhs[0]) == "*"+b {
						rhs := show(x.Rhs[0])
						reset = rhs == "(*"+b+")[:0]" || rhs == "(*"+b+")[0:0]"
					}
				case *ast.ExprStmt:
					if show(x.X) == "bufferPool.Put("+b+")" {
						puts = append(puts, putInfo{guarded, reset})
					}
				case *ast.IfStmt:
					c := show(x.Cond)
					small := c == "cap(*"+b+")<=maxBufferSize" || c == "maxBufferSize>=cap(*"+b+")" || c == "cap(*"+b+")<maxBufferSize+1"
					big := c == "cap(*"+b+")>maxBufferSize" || c == "maxBufferSize<cap(*"+b+")"
					walk(x.Body.List, guarded || small)
					if big {
						// `if cap > max { return }` guards what follows
						if len(x.Body.List) == 1 {
							if _, ok := x.Body.List[0].(*ast.ReturnStmt); ok {
								guarded = true
							}
						}
					} else if !small {
						unrecognised("freeBuffer: unexpected condition %s", c)
					}
					if x.Else != nil {
						unrecognised("freeBuffer: else branch")
					}
				case *ast.ReturnStmt:
				default:
					unrecognised("freeBuffer: unexpected statement")
				}
			}
		}
		walk(fb.Body.List, false)
		if len(puts) != 1 {
			unrecognised("freeBuffer: bufferPool.Put(%s) occurs %d times", b, len(puts))
		} else {
			g.ResetBeforePut = puts[0].reset
			g.RefusesOversized = puts[0].guarded
			if !puts[0].reset {
				g.Notes = append(g.Notes, "freeBuffer puts the buffer back without `*buf = (*buf)[:0]`")
			}
		}
	}
	// bufferPool.New returns an empty buffer
	if bp, ok := p.vars["bufferPool"]; !ok {
		unrecognised("var bufferPool not found")
	} else {
		found := false
		ast.Inspect(bp, func(n ast.Node) bool {
			if c, ok := n.(*ast.CallExpr); ok && show(c.Fun) == "make" && len(c.Args) == 3 {
				found = true
				g.PoolNewEmpty = show(c.Args[0]) == "[]byte" && show(c.Args[1]) == "0"
			}
			return true
		})
		if !found {
			unrecognised("bufferPool.New does not make([]byte, 0, n)")
		}
	}
	if nb := p.funcs["newBuffer"]; nb == nil || len(nb.Body.List) != 1 || !strings.HasPrefix(show(nb.Body.List[0].(*ast.ReturnStmt).Results[0]), "bufferPool.Get()") {
		unrecognised("newBuffer is not `return bufferPool.Get().(*[]byte)`")
	}
	// NewOptions stores the level argument unchanged; Options.Enabled is `l >= opts.level`
	if no := p.funcs["NewOptions"]; no == nil || no.Type.Params == nil || len(no.Type.Params.List) == 0 || len(no.Type.Params.List[0].Names) == 0 {
		unrecognised("NewOptions(level, …) not found")
	} else {
		lvl := no.Type.Params.List[0].Names[0].Name
		var lit *ast.CompositeLit
		if len(no.Body.List) == 1 {
			if r, ok := no.Body.List[0].(*ast.ReturnStmt); ok && len(r.Results) == 1 {
				e := r.Results[0]
				if u, ok := e.(*ast.UnaryExpr); ok && u.Op == token.AND {
					e = u.X
				}
				lit, _ = e.(*ast.CompositeLit)
			}
		}
		if lit == nil || show(lit.Type) != "Options" || len(lit.Elts) == 0 {
			unrecognised("NewOptions is not a single `return &Options{…}`")
		} else {
			var stored ast.Expr
			if kv, ok := lit.Elts[0].(*ast.KeyValueExpr); ok {
				for _, el := range lit.Elts {
					if kv2, ok := el.(*ast.KeyValueExpr); ok && show(kv2.Key) == "level" {
						stored = kv2.Value
					}
				}
				_ = kv
			} else {
				stored = lit.Elts[0] // positional: level is the first field of Options
			}
			if stored == nil {
				unrecognised("NewOptions does not set Options.level")
			} else if show(stored) == lvl || show(stored) == "("+lvl+")" {
				g.LevelStored = true
			} else {
				g.Notes = append(g.Notes, "NewOptions stores "+show(stored)+" instead of its level argument")
			}
		}
	}
	if en := p.methods["Options"]["Enabled"]; en == nil || en.decl.Type.Params == nil || len(en.decl.Type.Params.List) != 1 || len(en.decl.Type.Params.List[0].Names) != 1 {
		unrecognised("Options.Enabled(l) not found")
	} else {
		l := en.decl.Type.Params.List[0].Names[0].Name
		ok := false
		if len(en.decl.Body.List) == 1 {
			if r, isRet := en.decl.Body.List[0].(*ast.ReturnStmt); isRet && len(r.Results) == 1 {
				c := show(r.Results[0])
				if c == l+">="+en.recv+".level" || c == en.recv+".level<="+l || c == "!("+l+"<"+en.recv+".level)" {
					g.EnabledIsGe = true
				} else {
					g.Notes = append(g.Notes, "Options.Enabled is "+c)
				}
				ok = true
			}
		}
		if !ok {
			unrecognised("Options.Enabled is not a single return of a comparison")
		}
	}
	// level gate
	g.GateFirst = true
	for _, fn := range []string{"log", "logf", "logAttrs"} {
		m := p.methods["Logger"][fn]
		if m == nil {
			unrecognised("Logger.%s not found", fn)
			g.GateFirst = false
			continue
		}
		lvl := ""
		for _, prm := range m.decl.Type.Params.List {
			if show(prm.Type) == "slog.Level" && len(prm.Names) == 1 {
				lvl = prm.Names[0].Name
			}
		}
		gate := "!" + m.recv + ".h.Enabled(" + lvl + ")"
		first := false
		if len(m.decl.Body.List) > 0 {
			if is, ok := m.decl.Body.List[0].(*ast.IfStmt); ok && is.Init == nil && show(is.Cond) == gate && len(is.Body.List) == 1 {
				if _, ok := is.Body.List[0].(*ast.ReturnStmt); ok {
					first = true
				}
			}
		}
		if !first {
			// is the gate anywhere? then it is recognised-but-late; otherwise unrecognised
			seen := false
			handleCalled := false
			ast.Inspect(m.decl.Body, func(n ast.Node) bool {
				if is, ok := n.(*ast.IfStmt); ok && strings.Contains(show(is.Cond), m.recv+".h.Enabled(") {
					seen = true
				}
				if c, ok := n.(*ast.CallExpr); ok && show(c.Fun) == m.recv+".h.Handle" {
					handleCalled = true
				}
				return true
			})
			if !handleCalled {
				unrecognised("Logger.%s does not call %s.h.Handle", fn, m.recv)
			}
			if seen {
				g.Notes = append(g.Notes, "Logger."+fn+": the level gate is not the first statement")
			} else {
				g.Notes = append(g.Notes, "Logger."+fn+": no level gate")
			}
			g.GateFirst = false
		}
	}
	return g
}

func cb(b bool) string {
	if b {
		return "true"
	}
	return "false"
}

func main() {
	if len(os.Args) != 3 || (os.Args[2] != "chain" && os.Args[2] != "conc") {
		fmt.Fprintln(os.Stderr, "usage: loggerfacts <repo> chain|conc")
		os.Exit(2)
	}
	p := load(filepath.Join(os.Args[1], "logger"))
	types := []struct{ typ, name string }{{"JsonHandler", "json"}, {"TextHandler", "text"}, {"NanoHandler", "nano"}}
	var out strings.Builder
	var notes []string
	if os.Args[2] == "chain" {
		out.WriteString("From Glb Require Import Model.LoggerChain.\n")
		for _, t := range types {
			f := chainOf(p, t.typ)
			fmt.Fprintf(&out, "Definition %s_chain_facts : chain_facts := mkChainFacts %s %s %s %s.\n", t.name,
				cb(f.CloneClips), cb(f.WithAttrsFresh), cb(f.WithGroupFresh), cb(f.GroupReturnsReceiver))
			for _, n := range f.Notes {
				notes = append(notes, t.typ+": "+n)
			}
		}
	} else {
		g := globalsOf(p)
		out.WriteString("From Glb Require Import Model.LoggerConc.\n")
		for _, t := range types {
			f := concOf(p, t.typ)
			fmt.Fprintf(&out, "Definition %s_conc_facts : conc_facts := mkConcFacts %s %s %s %s %s %s %s %s %s %s %s %s.\n", t.name,
				cb(f.SingleWrite), cb(f.WriteUnderLock), cb(f.CloneSharesMu), cb(f.BufFromPool), cb(f.FreeDeferred), cb(f.HandleReadonly),
				cb(g.ResetBeforePut), cb(g.RefusesOversized), cb(g.PoolNewEmpty), cb(g.GateFirst), cb(g.LevelStored), cb(g.EnabledIsGe))
			for _, n := range f.Notes {
				notes = append(notes, t.typ+": "+n)
			}
		}
		notes = append(notes, "maxBufferSize = "+g.MaxBufferSize)
		notes = append(notes, g.Notes...)
	}
	if len(unrec) > 0 {
		for _, u := range unrec {
			fmt.Fprintln(os.Stderr, "UNRECOGNISED:", u)
		}
		os.Exit(3)
	}
	for _, n := range notes {
		fmt.Printf("(* %s *)\n", strings.ReplaceAll(strings.ReplaceAll(n, "*)", "* )"), "(*", "( *"))
	}
	fmt.Print(out.String())
}
