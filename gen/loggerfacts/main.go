// loggerfacts reads the sources of <repo>/logger and reports the facts the C02/C03 models are
// parameterised by, as Coq definitions.
//
//	loggerfacts <repo> chain|conc
//
// It is a SYNTACTIC PATTERN RECOGNISER (go/parser, go/ast, go/build for build constraints), not a
// program analysis: it knows one shape per function and refuses everything else. The rules:
//
//	files     the non-test files of package logger selected by go/build with the tag "verif"; a function or
//	          method defined twice is refused
//	types     JsonHandler/TextHandler/NanoHandler: outMu must be *sync.Mutex (a mutex VALUE makes clone_shares_mu
//	          false), preformatted []byte; other slice fields are treated like preformatted (clone must clip them);
//	          map/chan/other pointer fields are refused; a handler type that declares Enabled/IsDebug/IsColorful/
//	          IsAddSource itself (shadowing *Options) is refused
//	clone     `return &T{k: v, …}` or `c := *h; c.f = …; return &c`; preformatted (and every slice field) must be
//	          slices.Clip(h.f) or h.f[:len(h.f):len(h.f)] (otherwise clone_clips = false); outMu must be h.outMu
//	With*     every assignment, ++/--, address-of (except as argument of sync/atomic functions) is classified by the
//	          variable at its root: only direct fields of a variable bound by `x := h.clone()` may be written; a right-hand
//	          side or argument `append(X, …)`, `X[a:b]`, `&X` rooted at the receiver counts as a write of the receiver;
//	          methods called on the receiver/clone must be clone, Options accessors, or methods of the same type that write
//	          nothing through their receiver; anything unclassifiable is refused
//	          a slice field of the clone may only be assigned `append(<clone>.<same field>, …)`; With* must not call
//	          newBuffer/freeBuffer (pooled memory must not become part of a handler)
//	Logger    With/WithGroup must return `l` or `&Logger{…}` and never assign through `l`
//	Handle    `buf := newBuffer()`, `defer freeBuffer(buf)`, `h.outMu.Lock()`, `defer h.outMu.Unlock()` (or Unlock after the
//	          Write) and exactly one `h.out.Write(*buf)` must be TOP-LEVEL statements of Handle in this order; any of them
//	          inside if/for/switch/go/defer/func literal makes the fact false; no other use of h.out; Handle and the
//	          package-level functions / methods reachable from it assign to no handler field and to no package-level
//	          variable (sync/atomic calls and method calls, e.g. on a sync.Pool, are not assignments); no method of the
//	          handler type assigns outMu or out
//	buffer    freeBuffer: `*buf = (*buf)[:0]` before the single bufferPool.Put(buf), guarded by cap(*buf) <= maxBufferSize
//	gate      log/logf/logAttrs start with `if !l.h.Enabled(level) { return … }`; NewOptions stores its level argument
//	          unchanged; Options.Enabled is `l >= opts.level`
//
// Known limits (covered by the harness, not by these facts): aliasing through values reachable from Options or through
// package-level state touched by methods not reachable from Handle/With*; data flow through local variables; reflection.
//
// A fact is "false" when the shape is recognised and the discipline is not followed. When the shape is not recognised the
// program prints UNRECOGNISED lines and exits with status 3: the caller reports a broken correspondence, never a pass.
package main

import (
	"fmt"
	"go/ast"
	"go/build"
	"go/parser"
	"go/token"
	"os"
	"path/filepath"
	"sort"
	"strings"
)

var unrec []string

func unrecognised(format string, a ...any) { unrec = append(unrec, fmt.Sprintf(format, a...)) }

// show prints the small expression language we compare against; anything else becomes "?".
func show(e ast.Expr) string {
	switch x := e.(type) {
	case nil:
		return ""
	case *ast.Ident:
		return x.Name
	case *ast.BasicLit:
		return x.Value
	case *ast.SelectorExpr:
		return show(x.X) + "." + x.Sel.Name
	case *ast.StarExpr:
		return "*" + show(x.X)
	case *ast.ParenExpr:
		return "(" + show(x.X) + ")"
	case *ast.UnaryExpr:
		return x.Op.String() + show(x.X)
	case *ast.BinaryExpr:
		return show(x.X) + x.Op.String() + show(x.Y)
	case *ast.CallExpr:
		var args []string
		for _, a := range x.Args {
			args = append(args, show(a))
		}
		return show(x.Fun) + "(" + strings.Join(args, ",") + ")"
	case *ast.IndexExpr:
		return show(x.X) + "[" + show(x.Index) + "]"
	case *ast.SliceExpr:
		s := show(x.X) + "[" + show(x.Low) + ":" + show(x.High)
		if x.Slice3 {
			s += ":" + show(x.Max)
		}
		return s + "]"
	case *ast.CompositeLit:
		return show(x.Type) + "{…}"
	case *ast.TypeAssertExpr:
		return show(x.X) + ".(" + show(x.Type) + ")"
	case *ast.ArrayType:
		if x.Len != nil {
			return "[" + show(x.Len) + "]" + show(x.Elt)
		}
		return "[]" + show(x.Elt)
	case *ast.MapType:
		return "map[" + show(x.Key) + "]" + show(x.Value)
	case *ast.ChanType:
		return "chan " + show(x.Value)
	case *ast.InterfaceType:
		return "interface{…}"
	case *ast.FuncType:
		return "func(…)"
	}
	return "?"
}

type method struct {
	recv string // receiver variable name
	decl *ast.FuncDecl
}

type field struct{ name, typ string }

type pkg struct {
	methods map[string]map[string]*method // type -> name -> method
	funcs   map[string]*ast.FuncDecl
	consts  map[string]string
	vars    map[string]ast.Expr
	globals map[string]bool // every package-level variable
	structs map[string][]field
}

func load(dir string) *pkg {
	fset := token.NewFileSet()
	ents, err := os.ReadDir(dir)
	if err != nil {
		unrecognised("cannot read %s: %v", dir, err)
		return nil
	}
	ctx := build.Default
	ctx.BuildTags = append(append([]string(nil), ctx.BuildTags...), "verif")
	p := &pkg{methods: map[string]map[string]*method{}, funcs: map[string]*ast.FuncDecl{}, consts: map[string]string{},
		vars: map[string]ast.Expr{}, globals: map[string]bool{}, structs: map[string][]field{}}
	for _, e := range ents {
		n := e.Name()
		if !strings.HasSuffix(n, ".go") || strings.HasSuffix(n, "_test.go") {
			continue
		}
		if ok, err := ctx.MatchFile(dir, n); err != nil || !ok {
			continue // excluded by a build constraint: not part of the package
		}
		f, err := parser.ParseFile(fset, filepath.Join(dir, n), nil, parser.SkipObjectResolution)
		if err != nil {
			unrecognised("parse error: %v", err)
			return nil
		}
		if f.Name.Name != "logger" {
			continue
		}
		for _, d := range f.Decls {
			switch x := d.(type) {
			case *ast.FuncDecl:
				if x.Body == nil {
					unrecognised("%s has no body", x.Name.Name)
					continue
				}
				if x.Recv == nil || len(x.Recv.List) == 0 {
					if p.funcs[x.Name.Name] != nil && x.Name.Name != "init" {
						unrecognised("function %s is defined twice", x.Name.Name)
					}
					p.funcs[x.Name.Name] = x
					continue
				}
				t := x.Recv.List[0].Type
				if s, ok := t.(*ast.StarExpr); ok {
					t = s.X
				}
				id, ok := t.(*ast.Ident)
				if !ok {
					continue
				}
				rn := "_"
				if len(x.Recv.List[0].Names) > 0 {
					rn = x.Recv.List[0].Names[0].Name
				}
				if p.methods[id.Name] == nil {
					p.methods[id.Name] = map[string]*method{}
				}
				if p.methods[id.Name][x.Name.Name] != nil {
					unrecognised("method %s.%s is defined twice", id.Name, x.Name.Name)
				}
				p.methods[id.Name][x.Name.Name] = &method{rn, x}
			case *ast.GenDecl:
				for _, s := range x.Specs {
					switch sp := s.(type) {
					case *ast.ValueSpec:
						for i, nm := range sp.Names {
							if x.Tok == token.VAR {
								p.globals[nm.Name] = true
							}
							if i < len(sp.Values) {
								if x.Tok == token.CONST {
									p.consts[nm.Name] = show(sp.Values[i])
								} else {
									p.vars[nm.Name] = sp.Values[i]
								}
							}
						}
					case *ast.TypeSpec:
						if st, ok := sp.Type.(*ast.StructType); ok {
							var fs []field
							for _, f := range st.Fields.List {
								ts := show(f.Type)
								if len(f.Names) == 0 { // embedded
									fs = append(fs, field{strings.TrimPrefix(ts, "*"), ts})
								}
								for _, nm := range f.Names {
									fs = append(fs, field{nm.Name, ts})
								}
							}
							p.structs[sp.Name.Name] = fs
						}
					}
				}
			}
		}
	}
	return p
}

// root of an lvalue-like expression: the identifier at the bottom and the number of field selections on the way.
func rootOf(e ast.Expr) (string, int, bool) {
	depth := 0
	for {
		switch x := e.(type) {
		case *ast.Ident:
			return x.Name, depth, true
		case *ast.ParenExpr:
			e = x.X
		case *ast.StarExpr:
			e = x.X
		case *ast.IndexExpr:
			e = x.X
		case *ast.SliceExpr:
			e = x.X
		case *ast.SelectorExpr:
			depth++
			e = x.X
		default:
			return "", 0, false
		}
	}
}

type writes struct {
	recvWrites  []string // writes (assignment, ++, address taken, append/reslice of) rooted at the receiver
	freshWrites []string // writes to direct fields of a fresh clone
	globalW     []string // writes rooted at a package-level variable
	other       []string // writes we cannot classify
	fresh       map[string]bool
	recvCalls   []string    // methods called on the receiver or on a clone
	funcCalls   []string    // package-level functions called
	freshAssign [][2]string // `x.f = rhs` with x a fresh clone: field name, right-hand side
}

// scanWrites classifies every write in the body of fn. recv may be "" (plain function).
func scanWrites(p *pkg, recv string, fn *ast.FuncDecl) *writes {
	w := &writes{fresh: map[string]bool{}}
	locals := map[string]bool{}
	addFields := func(fl *ast.FieldList) {
		if fl != nil {
			for _, f := range fl.List {
				for _, n := range f.Names {
					locals[n.Name] = true
				}
			}
		}
	}
	addFields(fn.Type.Params)
	addFields(fn.Type.Results)
	atomicArg := map[ast.Expr]bool{}
	ast.Inspect(fn.Body, func(n ast.Node) bool {
		switch x := n.(type) {
		case *ast.AssignStmt:
			if x.Tok == token.DEFINE {
				for i, l := range x.Lhs {
					if id, ok := l.(*ast.Ident); ok {
						locals[id.Name] = true
						if recv != "" && len(x.Lhs) == len(x.Rhs) && show(x.Rhs[i]) == recv+".clone()" {
							w.fresh[id.Name] = true
						}
					}
				}
			}
		case *ast.RangeStmt:
			if x.Tok == token.DEFINE {
				for _, l := range []ast.Expr{x.Key, x.Value} {
					if id, ok := l.(*ast.Ident); ok {
						locals[id.Name] = true
					}
				}
			}
		case *ast.DeclStmt:
			if g, ok := x.Decl.(*ast.GenDecl); ok {
				for _, s := range g.Specs {
					if vs, ok := s.(*ast.ValueSpec); ok {
						for _, nm := range vs.Names {
							locals[nm.Name] = true
						}
					}
				}
			}
		case *ast.FuncLit:
			addFields(x.Type.Params)
			addFields(x.Type.Results)
		case *ast.TypeSwitchStmt:
			if a, ok := x.Assign.(*ast.AssignStmt); ok {
				for _, l := range a.Lhs {
					if id, ok := l.(*ast.Ident); ok {
						locals[id.Name] = true
					}
				}
			}
		case *ast.CallExpr:
			// sync/atomic functions take the address of what they update atomically: not a plain write
			if s, ok := x.Fun.(*ast.SelectorExpr); ok {
				if id, ok := s.X.(*ast.Ident); ok && id.Name == "atomic" {
					for _, a := range x.Args {
						atomicArg[a] = true
					}
				}
			}
		}
		return true
	})
	target := func(e ast.Expr, how string) {
		name, depth, ok := rootOf(e)
		desc := how + " " + show(e)
		switch {
		case !ok:
			w.other = append(w.other, desc)
		case name == "_":
		case recv != "" && name == recv:
			w.recvWrites = append(w.recvWrites, desc)
		case w.fresh[name] && depth == 1:
			w.freshWrites = append(w.freshWrites, desc)
		case w.fresh[name] && depth == 0:
			w.other = append(w.other, desc+" (the clone variable itself)")
		case w.fresh[name]:
			w.other = append(w.other, desc+" (through a pointer field of the clone)")
		case locals[name]:
		case p.globals[name]:
			w.globalW = append(w.globalW, desc)
		default:
			w.other = append(w.other, desc+" (not a local)")
		}
	}
	// an expression that can write into, or hands out, memory of the receiver
	aliasing := func(e ast.Expr, where string) {
		if recv == "" {
			return
		}
		ast.Inspect(e, func(n ast.Node) bool {
			switch x := n.(type) {
			case *ast.FuncLit:
				return false
			case *ast.CallExpr:
				if id, ok := x.Fun.(*ast.Ident); ok && id.Name == "append" && len(x.Args) > 0 {
					if name, _, ok := rootOf(x.Args[0]); ok && name == recv {
						w.recvWrites = append(w.recvWrites, where+" appends to the receiver's "+show(x.Args[0]))
					}
				}
			case *ast.SliceExpr:
				if name, d, ok := rootOf(x.X); ok && name == recv && d > 0 {
					s := show(x)
					src := show(x.X)
					if !(x.Slice3 && s == src+"[:len("+src+"):len("+src+")]") {
						w.recvWrites = append(w.recvWrites, where+" reslices the receiver's "+src)
					}
				}
			}
			return true
		})
	}
	ast.Inspect(fn.Body, func(n ast.Node) bool {
		switch x := n.(type) {
		case *ast.AssignStmt:
			for i, l := range x.Lhs {
				if x.Tok == token.DEFINE {
					if _, ok := l.(*ast.Ident); ok {
						continue
					}
				}
				target(l, "assign")
				if sel, ok := l.(*ast.SelectorExpr); ok {
					if id, ok := sel.X.(*ast.Ident); ok && w.fresh[id.Name] {
						rhs := "?"
						if len(x.Rhs) == len(x.Lhs) {
							rhs = show(x.Rhs[i])
						}
						w.freshAssign = append(w.freshAssign, [2]string{sel.Sel.Name, id.Name + "|" + rhs})
					}
				}
			}
			for _, r := range x.Rhs {
				aliasing(r, "right-hand side")
			}
		case *ast.IncDecStmt:
			target(x.X, "incdec")
		case *ast.RangeStmt:
			if x.Tok == token.ASSIGN {
				for _, l := range []ast.Expr{x.Key, x.Value} {
					if l != nil {
						target(l, "range-assign")
					}
				}
			}
		case *ast.UnaryExpr:
			if x.Op == token.AND && !atomicArg[x] {
				if _, ok := x.X.(*ast.CompositeLit); !ok {
					target(x.X, "address-of")
				}
			}
		case *ast.ReturnStmt:
			for _, r := range x.Results {
				aliasing(r, "return value")
			}
		case *ast.CallExpr:
			for _, a := range x.Args {
				if c, ok := a.(*ast.CallExpr); ok {
					aliasing(c, "argument")
				}
			}
			switch f := x.Fun.(type) {
			case *ast.SelectorExpr:
				if id, ok := f.X.(*ast.Ident); ok && recv != "" && (id.Name == recv || w.fresh[id.Name]) {
					w.recvCalls = append(w.recvCalls, f.Sel.Name)
				}
			case *ast.Ident:
				if p.funcs[f.Name] != nil && !locals[f.Name] {
					w.funcCalls = append(w.funcCalls, f.Name)
				}
			}
		}
		return true
	})
	return w
}

var readOnlyOptionMethods = map[string]bool{"Enabled": true, "IsDebug": true, "IsColorful": true, "IsAddSource": true}

// helperCallsClean: every method called on the receiver / clone is clone() itself, an accessor of Options, or a
// method of the same type that writes nothing through its receiver.
func helperCallsClean(p *pkg, typ string, w *writes, where string) bool {
	ok := true
	for _, c := range w.recvCalls {
		if c == "clone" || readOnlyOptionMethods[c] {
			continue
		}
		hm := p.methods[typ][c]
		if hm == nil {
			unrecognised("%s.%s calls method %s which is not defined on %s", typ, where, c, typ)
			ok = false
			continue
		}
		hw := scanWrites(p, hm.recv, hm.decl)
		if len(hw.recvWrites) > 0 || len(hw.other) > 0 {
			ok = false
		}
	}
	return ok
}

type chainFacts struct {
	CloneClips, WithAttrsFresh, WithGroupFresh, GroupReturnsReceiver bool
	Notes                                                            []string
}

type concFacts struct {
	SingleWrite, WriteUnderLock, CloneSharesMu, BufFromPool, FreeDeferred, HandleReadonly, MuOutImmutable bool
	Notes                                                                                                 []string
}

var handlerTypes = []struct{ typ, name string }{{"JsonHandler", "json"}, {"TextHandler", "text"}, {"NanoHandler", "nano"}}

func fieldType(p *pkg, typ, name string) string {
	for _, f := range p.structs[typ] {
		if f.name == name {
			return f.typ
		}
	}
	return ""
}

// checkType: the shape of the handler struct
func checkType(p *pkg, typ string) {
	if p.structs[typ] == nil {
		unrecognised("type %s struct not found", typ)
		return
	}
	for m := range readOnlyOptionMethods {
		if p.methods[typ][m] != nil {
			unrecognised("%s declares its own %s (shadows *Options.%s): which gate the Logger consults is no longer the one the facts describe", typ, m, m)
		}
	}
	for _, f := range p.structs[typ] {
		switch {
		case f.name == "Options" && f.typ == "*Options":
		case f.name == "outMu": // judged in cloneFields (pointer or value)
		case f.name == "out" && f.typ == "io.Writer":
		case strings.HasPrefix(f.typ, "[]"): // judged in cloneFields (must be clipped)
		case f.typ == "string" || f.typ == "int" || f.typ == "bool" || f.typ == "uint64" || f.typ == "int64" || f.typ == "uint32" || f.typ == "int32":
		case strings.HasPrefix(f.typ, "atomic."):
		default:
			unrecognised("%s.%s has type %s: the facts do not know how clone() must treat it", typ, f.name, f.typ)
		}
	}
	if t := fieldType(p, typ, "preformatted"); t != "[]byte" {
		unrecognised("%s.preformatted has type %q, want []byte", typ, t)
	}
}

// cloneFields: for each field of the handler struct the expression the child gets, for both clone() shapes.
func cloneFields(p *pkg, typ string) (*method, map[string]ast.Expr) {
	m := p.methods[typ]["clone"]
	if m == nil {
		unrecognised("%s.clone not found", typ)
		return nil, nil
	}
	body := m.decl.Body.List
	fields := map[string]ast.Expr{}
	// shape 1: return &T{k: v, …}
	if len(body) == 1 {
		if r, ok := body[0].(*ast.ReturnStmt); ok && len(r.Results) == 1 {
			e := r.Results[0]
			if u, ok := e.(*ast.UnaryExpr); ok && u.Op == token.AND {
				e = u.X
			}
			if lit, ok := e.(*ast.CompositeLit); ok && show(lit.Type) == typ {
				for _, el := range lit.Elts {
					kv, ok := el.(*ast.KeyValueExpr)
					if !ok {
						unrecognised("%s.clone uses a positional composite literal", typ)
						return m, nil
					}
					fields[show(kv.Key)] = kv.Value
				}
				return m, fields
			}
		}
	}
	// shape 2: c := *h; c.f = e; …; return &c
	if len(body) >= 2 {
		if a, ok := body[0].(*ast.AssignStmt); ok && a.Tok == token.DEFINE && len(a.Lhs) == 1 && len(a.Rhs) == 1 && show(a.Rhs[0]) == "*"+m.recv {
			c := show(a.Lhs[0])
			if r, ok := body[len(body)-1].(*ast.ReturnStmt); ok && len(r.Results) == 1 && show(r.Results[0]) == "&"+c {
				for _, f := range p.structs[typ] {
					fields[f.name] = &ast.SelectorExpr{X: ast.NewIdent(m.recv), Sel: ast.NewIdent(f.name)}
				}
				for _, st := range body[1 : len(body)-1] {
					as, ok := st.(*ast.AssignStmt)
					if !ok || as.Tok != token.ASSIGN || len(as.Lhs) != 1 || len(as.Rhs) != 1 {
						unrecognised("%s.clone (struct copy): unexpected statement", typ)
						return m, nil
					}
					sel, ok := as.Lhs[0].(*ast.SelectorExpr)
					if !ok || show(sel.X) != c {
						unrecognised("%s.clone (struct copy): assignment to %s", typ, show(as.Lhs[0]))
						return m, nil
					}
					fields[sel.Sel.Name] = as.Rhs[0]
				}
				return m, fields
			}
		}
	}
	unrecognised("%s.clone is neither `return &%s{…}` nor `c := *%s; c.f = …; return &c`", typ, typ, m.recv)
	return m, nil
}

func clipped(e ast.Expr, src string) bool {
	s := show(e)
	return s == "slices.Clip("+src+")" || s == src+"[:len("+src+"):len("+src+")]"
}

func chainOf(p *pkg, typ string) chainFacts {
	var f chainFacts
	checkType(p, typ)
	m, fields := cloneFields(p, typ)
	if fields != nil {
		f.CloneClips = true
		for _, fd := range p.structs[typ] {
			if !strings.HasPrefix(fd.typ, "[]") {
				continue
			}
			src := m.recv + "." + fd.name
			v, ok := fields[fd.name]
			switch {
			case !ok:
				unrecognised("%s.clone does not set %s", typ, fd.name)
			case clipped(v, src):
			case show(v) == src:
				f.CloneClips = false
				f.Notes = append(f.Notes, "clone hands the parent's slice "+fd.name+" on unclipped")
			default:
				if name, _, ok := rootOf(v); ok && name == m.recv {
					f.CloneClips = false
					f.Notes = append(f.Notes, "clone: "+fd.name+": "+show(v)+" aliases the parent")
				} else {
					unrecognised("%s.clone: %s: %s is neither clipped nor the plain parent slice", typ, fd.name, show(v))
				}
			}
		}
	}
	if wa := p.methods[typ]["WithAttrs"]; wa == nil {
		unrecognised("%s.WithAttrs not found", typ)
	} else {
		w := scanWrites(p, wa.recv, wa.decl)
		for _, o := range w.other {
			unrecognised("%s.WithAttrs: cannot classify write: %s", typ, o)
		}
		if len(w.fresh) == 0 {
			unrecognised("%s.WithAttrs: no `x := %s.clone()`", typ, wa.recv)
		}
		sliceSources(p, typ, "WithAttrs", w)
		f.WithAttrsFresh = len(w.recvWrites) == 0 && len(w.globalW) == 0 && helperCallsClean(p, typ, w, "WithAttrs")
		for _, r := range append(w.recvWrites, w.globalW...) {
			f.Notes = append(f.Notes, "WithAttrs writes the receiver / shared state: "+r)
		}
	}
	if wg := p.methods[typ]["WithGroup"]; wg == nil {
		unrecognised("%s.WithGroup not found", typ)
	} else {
		if len(wg.decl.Body.List) == 1 {
			if r, ok := wg.decl.Body.List[0].(*ast.ReturnStmt); ok && len(r.Results) == 1 && show(r.Results[0]) == wg.recv {
				f.GroupReturnsReceiver = true
				f.WithGroupFresh = true
			}
		}
		if !f.GroupReturnsReceiver {
			w := scanWrites(p, wg.recv, wg.decl)
			for _, o := range w.other {
				unrecognised("%s.WithGroup: cannot classify write: %s", typ, o)
			}
			if len(w.fresh) == 0 && len(w.recvWrites) == 0 {
				unrecognised("%s.WithGroup: no `x := %s.clone()` and not `return %s`", typ, wg.recv, wg.recv)
			}
			sliceSources(p, typ, "WithGroup", w)
			f.WithGroupFresh = len(w.recvWrites) == 0 && len(w.globalW) == 0 && helperCallsClean(p, typ, w, "WithGroup")
			for _, r := range append(w.recvWrites, w.globalW...) {
				f.Notes = append(f.Notes, "WithGroup writes the receiver / shared state: "+r)
			}
		}
	}
	return f
}

// sliceSources: a slice field of the fresh clone may only be assigned `append(<clone>.<same field>, …)`: memory that
// comes from anywhere else (a pooled buffer, a helper's return value) is outside what the facts can vouch for.
func sliceSources(p *pkg, typ, where string, w *writes) {
	for _, fa := range w.freshAssign {
		if !strings.HasPrefix(fieldType(p, typ, fa[0]), "[]") {
			continue
		}
		parts := strings.SplitN(fa[1], "|", 2)
		if !strings.HasPrefix(parts[1], "append("+parts[0]+"."+fa[0]+",") {
			unrecognised("%s.%s: %s.%s = %s: the child's slice does not come from append(%s.%s, …)", typ, where, parts[0], fa[0], parts[1], parts[0], fa[0])
		}
	}
	for _, c := range w.funcCalls {
		if c == "newBuffer" || c == "freeBuffer" {
			unrecognised("%s.%s uses the line-buffer pool (%s): pooled memory must not become part of a handler", typ, where, c)
		}
	}
}

// loggerWraps: Logger.With / WithGroup return the receiver or a new &Logger{…} and never assign through the receiver.
func loggerWraps(p *pkg) (bool, []string) {
	ok := true
	var notes []string
	for _, name := range []string{"With", "WithGroup"} {
		m := p.methods["Logger"][name]
		if m == nil {
			unrecognised("Logger.%s not found", name)
			ok = false
			continue
		}
		w := scanWrites(p, m.recv, m.decl)
		for _, o := range w.other {
			unrecognised("Logger.%s: cannot classify write: %s", name, o)
		}
		if len(w.recvWrites) > 0 || len(w.globalW) > 0 {
			ok = false
			notes = append(notes, "Logger."+name+" writes its receiver: "+strings.Join(append(w.recvWrites, w.globalW...), "; "))
		}
		derives := false
		ast.Inspect(m.decl.Body, func(n ast.Node) bool {
			if r, isRet := n.(*ast.ReturnStmt); isRet && len(r.Results) == 1 {
				s := show(r.Results[0])
				switch {
				case s == m.recv:
				case s == "&Logger{…}":
					derives = true
				default:
					unrecognised("Logger.%s returns %s (neither the receiver nor &Logger{…})", name, s)
				}
			}
			return true
		})
		if !derives {
			unrecognised("Logger.%s never returns a new &Logger{…}", name)
		}
	}
	return ok, notes
}

// topLevel reports the index of the top-level statement of body that is exactly the call `want` (as an expression
// statement, a defer, or the single right-hand side / result of an assignment / return), -1 when there is none.
func topLevel(body []ast.Stmt, isDefer bool, match func(*ast.CallExpr) bool) []int {
	var idx []int
	for i, st := range body {
		var call *ast.CallExpr
		switch x := st.(type) {
		case *ast.ExprStmt:
			if !isDefer {
				call, _ = x.X.(*ast.CallExpr)
			}
		case *ast.DeferStmt:
			if isDefer {
				call = x.Call
			}
		case *ast.AssignStmt:
			if !isDefer && len(x.Rhs) == 1 {
				call, _ = x.Rhs[0].(*ast.CallExpr)
			}
		case *ast.ReturnStmt:
			if !isDefer && len(x.Results) == 1 {
				call, _ = x.Results[0].(*ast.CallExpr)
			}
		}
		if call != nil && match(call) {
			idx = append(idx, i)
		}
	}
	return idx
}

func countCalls(body *ast.BlockStmt, match func(*ast.CallExpr) bool) int {
	n := 0
	ast.Inspect(body, func(nd ast.Node) bool {
		if c, ok := nd.(*ast.CallExpr); ok && match(c) {
			n++
		}
		return true
	})
	return n
}

func concOf(p *pkg, typ string) concFacts {
	var f concFacts
	checkType(p, typ)
	m, fields := cloneFields(p, typ)
	if fields != nil {
		mu, ok := fields["outMu"]
		mt := fieldType(p, typ, "outMu")
		switch {
		case !ok:
			unrecognised("%s.clone does not set outMu", typ)
		case mt == "sync.Mutex":
			f.Notes = append(f.Notes, "outMu is a mutex VALUE: every clone gets its own copy of the lock")
		case mt != "*sync.Mutex":
			unrecognised("%s.outMu has type %s, want *sync.Mutex", typ, mt)
		case show(mu) == m.recv+".outMu":
			f.CloneSharesMu = true
		default:
			f.Notes = append(f.Notes, "clone gives the child another mutex: "+show(mu))
		}
		if o, ok := fields["out"]; !ok || show(o) != m.recv+".out" {
			unrecognised("%s.clone does not copy out", typ)
		}
	}
	// no method ever assigns outMu / out
	f.MuOutImmutable = true
	var names []string
	for n := range p.methods[typ] {
		names = append(names, n)
	}
	sort.Strings(names)
	for _, n := range names {
		mm := p.methods[typ][n]
		w := scanWrites(p, mm.recv, mm.decl)
		for _, wr := range w.recvWrites {
			if strings.HasSuffix(wr, "."+"outMu") || strings.HasSuffix(wr, ".out") || strings.Contains(wr, ".outMu ") || strings.Contains(wr, ".out ") {
				f.MuOutImmutable = false
				f.Notes = append(f.Notes, n+" assigns the output mutex / destination: "+wr)
			}
		}
	}
	h := p.methods[typ]["Handle"]
	if h == nil {
		unrecognised("%s.Handle not found", typ)
		return f
	}
	r := h.recv
	body := h.decl.Body.List
	is := func(s string) func(*ast.CallExpr) bool { return func(c *ast.CallExpr) bool { return show(c) == s } }
	isWrite := func(c *ast.CallExpr) bool { return show(c.Fun) == r+".out.Write" }
	isNew := is("newBuffer()")
	isFree := func(c *ast.CallExpr) bool {
		s := show(c)
		return strings.HasPrefix(s, "freeBuffer(") || strings.HasPrefix(s, "bufferPool.Put(")
	}
	lock, dunlock, unlock := topLevel(body, false, is(r+".outMu.Lock()")), topLevel(body, true, is(r+".outMu.Unlock()")), topLevel(body, false, is(r+".outMu.Unlock()"))
	wr, nb, dfree := topLevel(body, false, isWrite), topLevel(body, false, isNew), topLevel(body, true, isFree)
	nLock, nUnlock, nWrite := countCalls(h.decl.Body, is(r+".outMu.Lock()")), countCalls(h.decl.Body, is(r+".outMu.Unlock()")), countCalls(h.decl.Body, isWrite)
	nNew, nFree := countCalls(h.decl.Body, isNew), countCalls(h.decl.Body, isFree)
	f.Notes = append(f.Notes, fmt.Sprintf("Handle top-level statement indices: newBuffer%v deferFree%v lock%v deferUnlock%v write%v unlock%v", nb, dfree, lock, dunlock, wr, unlock))
	nested := func(what string, top, all int) bool {
		if all > top {
			f.Notes = append(f.Notes, fmt.Sprintf("Handle: %d of %d %s calls are not top-level statements (inside if/for/switch/go/defer/func literal)", all-top, all, what))
			return true
		}
		return false
	}
	if nWrite == 0 {
		unrecognised("%s.Handle: no call of %s.out.Write", typ, r)
	}
	// buffer
	bufVar := ""
	if len(nb) == 1 {
		if a, ok := body[nb[0]].(*ast.AssignStmt); ok && len(a.Lhs) == 1 {
			bufVar = show(a.Lhs[0])
		}
	}
	f.BufFromPool = len(nb) == 1 && nNew == 1 && bufVar != "" && (len(wr) == 0 || nb[0] < wr[0])
	if !f.BufFromPool {
		unrecognised("%s.Handle: buffer is not a top-level `buf := newBuffer()` before the Write", typ)
	}
	f.FreeDeferred = len(dfree) == 1 && nFree == 1 && bufVar != "" && show(body[dfree[0]].(*ast.DeferStmt).Call) == "freeBuffer("+bufVar+")" && dfree[0] > nb[0]
	if !f.FreeDeferred {
		if nFree == 0 {
			unrecognised("%s.Handle: buffer is never released", typ)
		}
		f.Notes = append(f.Notes, "Handle: the buffer is not released by a single top-level `defer freeBuffer(buf)`")
	}
	// the single Write
	otherOut := 0
	ast.Inspect(h.decl.Body, func(n ast.Node) bool {
		if c, ok := n.(*ast.CallExpr); ok && isWrite(c) {
			return false
		}
		if s, ok := n.(*ast.SelectorExpr); ok && show(s) == r+".out" {
			otherOut++
		}
		return true
	})
	wNested := nested("out.Write", len(wr), nWrite)
	f.SingleWrite = len(wr) == 1 && nWrite == 1 && otherOut == 0 && !wNested
	if f.SingleWrite && bufVar != "" {
		var call *ast.CallExpr
		ast.Inspect(body[wr[0]], func(n ast.Node) bool {
			if c, ok := n.(*ast.CallExpr); ok && isWrite(c) {
				call = c
			}
			return true
		})
		if call == nil || len(call.Args) != 1 || show(call.Args[0]) != "*"+bufVar {
			f.SingleWrite = false
			unrecognised("%s.Handle: the argument of the single Write is not *%s", typ, bufVar)
		}
	}
	if otherOut > 0 {
		f.Notes = append(f.Notes, fmt.Sprintf("Handle uses %s.out %d times outside the Write call", r, otherOut))
	}
	// the lock
	lNested := nested("outMu.Lock", len(lock), nLock)
	uNested := nested("outMu.Unlock", len(dunlock)+len(unlock), nUnlock)
	switch {
	case nLock == 0:
		f.Notes = append(f.Notes, "Handle never locks outMu")
	case len(lock) != 1 || lNested || uNested || len(wr) == 0:
		f.Notes = append(f.Notes, "Handle: lock / unlock are not single top-level statements around the Write")
	default:
		released := false
		for _, d := range dunlock {
			if d > lock[0] && d < wr[0] {
				released = true
			}
		}
		under := lock[0] < wr[0]
		for _, u := range unlock {
			if u > wr[len(wr)-1] {
				released = true
			}
			if u > lock[0] && u < wr[len(wr)-1] {
				under = false
			}
		}
		if !released {
			unrecognised("%s.Handle: outMu is locked but not unlocked by a top-level defer before / Unlock after the Write", typ)
		}
		f.WriteUnderLock = under && released
	}
	// Handle and everything reachable from it assigns to no handler field and to no package-level variable
	w := scanWrites(p, r, h.decl)
	for _, o := range w.other {
		unrecognised("%s.Handle: cannot classify write: %s", typ, o)
	}
	f.HandleReadonly = len(w.recvWrites) == 0 && len(w.globalW) == 0 && helperCallsClean(p, typ, w, "Handle")
	for _, x := range append(w.recvWrites, w.globalW...) {
		f.Notes = append(f.Notes, "Handle writes shared state: "+x)
	}
	seen := map[string]bool{}
	var visit func(fn string)
	visit = func(fn string) {
		if seen[fn] || p.funcs[fn] == nil {
			return
		}
		seen[fn] = true
		hw := scanWrites(p, "", p.funcs[fn])
		if fn != "freeBuffer" && fn != "newBuffer" { // the pool discipline is judged by its own facts
			for _, g := range hw.globalW {
				f.HandleReadonly = false
				f.Notes = append(f.Notes, fn+" (reachable from Handle) writes a package-level variable: "+g)
			}
		}
		for _, c := range hw.funcCalls {
			visit(c)
		}
	}
	for _, c := range w.funcCalls {
		visit(c)
	}
	for _, c := range w.recvCalls {
		if mm := p.methods[typ][c]; mm != nil {
			hw := scanWrites(p, mm.recv, mm.decl)
			for _, g := range hw.globalW {
				f.HandleReadonly = false
				f.Notes = append(f.Notes, c+" (called by Handle) writes a package-level variable: "+g)
			}
			for _, cc := range hw.funcCalls {
				visit(cc)
			}
		}
	}
	return f
}

type globalFacts struct {
	ResetBeforePut, RefusesOversized, PoolNewEmpty, GateFirst bool
	LevelStored, EnabledIsGe                                  bool
	MaxBufferSize                                             string
	Notes                                                     []string
}

func globalsOf(p *pkg) globalFacts {
	var g globalFacts
	g.MaxBufferSize = p.consts["maxBufferSize"]
	fb := p.funcs["freeBuffer"]
	if fb == nil || fb.Type.Params == nil || len(fb.Type.Params.List) != 1 || len(fb.Type.Params.List[0].Names) != 1 {
		unrecognised("freeBuffer(buf *[]byte) not found")
	} else {
		b := fb.Type.Params.List[0].Names[0].Name
		type putInfo struct {
			guarded bool
			reset   bool
		}
		var puts []putInfo
		var walk func(stmts []ast.Stmt, guarded bool)
		walk = func(stmts []ast.Stmt, guarded bool) {
			reset := false
			for _, s := range stmts {
				switch x := s.(type) {
				case *ast.AssignStmt:
					if len(x.Lhs) == 1 && len(x.Rhs) == 1 && show(x.Lhs[0]) == "*"+b {
						rhs := show(x.Rhs[0])
						reset = rhs == "(*"+b+")[:0]" || rhs == "(*"+b+")[0:0]"
					}
				case *ast.ExprStmt:
					if show(x.X) == "bufferPool.Put("+b+")" {
						puts = append(puts, putInfo{guarded, reset})
					}
				case *ast.IfStmt:
					c := show(x.Cond)
					small := c == "cap(*"+b+")<=maxBufferSize" || c == "maxBufferSize>=cap(*"+b+")" || c == "cap(*"+b+")<maxBufferSize+1"
					big := c == "cap(*"+b+")>maxBufferSize" || c == "maxBufferSize<cap(*"+b+")"
					walk(x.Body.List, guarded || small)
					if big {
						if len(x.Body.List) == 1 {
							if _, ok := x.Body.List[0].(*ast.ReturnStmt); ok {
								guarded = true
							}
						}
					} else if !small {
						unrecognised("freeBuffer: unexpected condition %s", c)
					}
					if x.Else != nil {
						unrecognised("freeBuffer: else branch")
					}
				case *ast.ReturnStmt:
				default:
					unrecognised("freeBuffer: unexpected statement")
				}
			}
		}
		walk(fb.Body.List, false)
		if len(puts) != 1 {
			unrecognised("freeBuffer: bufferPool.Put(%s) occurs %d times", b, len(puts))
		} else {
			g.ResetBeforePut = puts[0].reset
			g.RefusesOversized = puts[0].guarded
			if !puts[0].reset {
				g.Notes = append(g.Notes, "freeBuffer puts the buffer back without `*buf = (*buf)[:0]`")
			}
		}
	}
	if bp, ok := p.vars["bufferPool"]; !ok {
		unrecognised("var bufferPool not found")
	} else {
		found := false
		ast.Inspect(bp, func(n ast.Node) bool {
			if c, ok := n.(*ast.CallExpr); ok && show(c.Fun) == "make" && len(c.Args) == 3 {
				found = true
				g.PoolNewEmpty = show(c.Args[0]) == "[]byte" && show(c.Args[1]) == "0"
			}
			return true
		})
		if !found {
			unrecognised("bufferPool.New does not make([]byte, 0, n)")
		}
	}
	okNew := false
	if nb := p.funcs["newBuffer"]; nb != nil && len(nb.Body.List) == 1 {
		if r, ok := nb.Body.List[0].(*ast.ReturnStmt); ok && len(r.Results) == 1 && strings.HasPrefix(show(r.Results[0]), "bufferPool.Get()") {
			okNew = true
		}
	}
	if !okNew {
		unrecognised("newBuffer is not `return bufferPool.Get().(*[]byte)`")
	}
	// NewOptions stores the level argument unchanged; Options.Enabled is `l >= opts.level`
	if no := p.funcs["NewOptions"]; no == nil || no.Type.Params == nil || len(no.Type.Params.List) == 0 || len(no.Type.Params.List[0].Names) == 0 {
		unrecognised("NewOptions(level, …) not found")
	} else {
		lvl := no.Type.Params.List[0].Names[0].Name
		var lit *ast.CompositeLit
		if len(no.Body.List) == 1 {
			if r, ok := no.Body.List[0].(*ast.ReturnStmt); ok && len(r.Results) == 1 {
				e := r.Results[0]
				if u, ok := e.(*ast.UnaryExpr); ok && u.Op == token.AND {
					e = u.X
				}
				lit, _ = e.(*ast.CompositeLit)
			}
		}
		if lit == nil || show(lit.Type) != "Options" || len(lit.Elts) == 0 {
			unrecognised("NewOptions is not a single `return &Options{…}`")
		} else {
			var stored ast.Expr
			if _, keyed := lit.Elts[0].(*ast.KeyValueExpr); keyed {
				for _, el := range lit.Elts {
					if kv, ok := el.(*ast.KeyValueExpr); ok && show(kv.Key) == "level" {
						stored = kv.Value
					}
				}
			} else if fs := p.structs["Options"]; len(fs) > 0 && fs[0].name == "level" {
				stored = lit.Elts[0]
			}
			if stored == nil {
				unrecognised("NewOptions does not set Options.level")
			} else if show(stored) == lvl || show(stored) == "("+lvl+")" {
				g.LevelStored = true
			} else {
				g.Notes = append(g.Notes, "NewOptions stores "+show(stored)+" instead of its level argument")
			}
		}
	}
	if en := p.methods["Options"]["Enabled"]; en == nil || en.decl.Type.Params == nil || len(en.decl.Type.Params.List) != 1 || len(en.decl.Type.Params.List[0].Names) != 1 {
		unrecognised("Options.Enabled(l) not found")
	} else {
		l := en.decl.Type.Params.List[0].Names[0].Name
		ok := false
		if len(en.decl.Body.List) == 1 {
			if r, isRet := en.decl.Body.List[0].(*ast.ReturnStmt); isRet && len(r.Results) == 1 {
				c := show(r.Results[0])
				if c == l+">="+en.recv+".level" || c == en.recv+".level<="+l || c == "!("+l+"<"+en.recv+".level)" {
					g.EnabledIsGe = true
				} else {
					g.Notes = append(g.Notes, "Options.Enabled is "+c)
				}
				ok = true
			}
		}
		if !ok {
			unrecognised("Options.Enabled is not a single return of a comparison")
		}
	}
	// level gate
	g.GateFirst = true
	for _, fn := range []string{"log", "logf", "logAttrs"} {
		m := p.methods["Logger"][fn]
		if m == nil {
			unrecognised("Logger.%s not found", fn)
			g.GateFirst = false
			continue
		}
		lvl := ""
		for _, prm := range m.decl.Type.Params.List {
			if show(prm.Type) == "slog.Level" && len(prm.Names) == 1 {
				lvl = prm.Names[0].Name
			}
		}
		gate := "!" + m.recv + ".h.Enabled(" + lvl + ")"
		first := false
		if len(m.decl.Body.List) > 0 {
			if is, ok := m.decl.Body.List[0].(*ast.IfStmt); ok && is.Init == nil && show(is.Cond) == gate && len(is.Body.List) == 1 {
				if _, ok := is.Body.List[0].(*ast.ReturnStmt); ok {
					first = true
				}
			}
		}
		if !first {
			seen := false
			handleCalled := false
			ast.Inspect(m.decl.Body, func(n ast.Node) bool {
				if is, ok := n.(*ast.IfStmt); ok && strings.Contains(show(is.Cond), m.recv+".h.Enabled(") {
					seen = true
				}
				if c, ok := n.(*ast.CallExpr); ok && show(c.Fun) == m.recv+".h.Handle" {
					handleCalled = true
				}
				return true
			})
			if !handleCalled {
				unrecognised("Logger.%s does not call %s.h.Handle", fn, m.recv)
			}
			if seen {
				g.Notes = append(g.Notes, "Logger."+fn+": the level gate is not the first statement")
			} else {
				g.Notes = append(g.Notes, "Logger."+fn+": no level gate")
			}
			g.GateFirst = false
		}
	}
	return g
}

func cb(b bool) string {
	if b {
		return "true"
	}
	return "false"
}

// analyse returns the Coq text, the notes and the list of unrecognised shapes.
func analyse(repo, mode string) (string, []string, []string) {
	unrec = nil
	p := load(filepath.Join(repo, "logger"))
	if p == nil {
		return "", nil, unrec
	}
	var out strings.Builder
	var notes []string
	if mode == "chain" {
		wraps, wnotes := loggerWraps(p)
		notes = append(notes, wnotes...)
		out.WriteString("From Glb Require Import Model.LoggerChain.\n")
		for _, t := range handlerTypes {
			f := chainOf(p, t.typ)
			fmt.Fprintf(&out, "Definition %s_chain_facts : chain_facts := mkChainFacts %s %s %s %s %s.\n", t.name,
				cb(f.CloneClips), cb(f.WithAttrsFresh), cb(f.WithGroupFresh), cb(f.GroupReturnsReceiver), cb(wraps))
			for _, n := range f.Notes {
				notes = append(notes, t.typ+": "+n)
			}
		}
	} else {
		g := globalsOf(p)
		out.WriteString("From Glb Require Import Model.LoggerConc.\n")
		for _, t := range handlerTypes {
			f := concOf(p, t.typ)
			fmt.Fprintf(&out, "Definition %s_conc_facts : conc_facts := mkConcFacts %s %s %s %s %s %s %s %s %s %s %s %s %s.\n", t.name,
				cb(f.SingleWrite), cb(f.WriteUnderLock), cb(f.CloneSharesMu), cb(f.BufFromPool), cb(f.FreeDeferred), cb(f.HandleReadonly),
				cb(g.ResetBeforePut), cb(g.RefusesOversized), cb(g.PoolNewEmpty), cb(g.GateFirst), cb(g.LevelStored), cb(g.EnabledIsGe), cb(f.MuOutImmutable))
			for _, n := range f.Notes {
				notes = append(notes, t.typ+": "+n)
			}
		}
		notes = append(notes, "maxBufferSize = "+g.MaxBufferSize)
		notes = append(notes, g.Notes...)
	}
	return out.String(), notes, unrec
}

func main() {
	if len(os.Args) != 3 || (os.Args[2] != "chain" && os.Args[2] != "conc") {
		fmt.Fprintln(os.Stderr, "usage: loggerfacts <repo> chain|conc")
		os.Exit(2)
	}
	out, notes, un := analyse(os.Args[1], os.Args[2])
	if len(un) > 0 {
		for _, u := range un {
			fmt.Fprintln(os.Stderr, "UNRECOGNISED:", u)
		}
		os.Exit(3)
	}
	for _, n := range notes {
		fmt.Printf("(* %s *)\n", strings.ReplaceAll(strings.ReplaceAll(n, "*)", "* )"), "(*", "( *"))
	}
	fmt.Print(out)
}
