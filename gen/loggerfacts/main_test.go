package main

// Self-test of the recogniser: every case copies <repo>/logger (LOGGERFACTS_REPO or /repo), applies a textual change and
// states what the facts must say. M*/N* are property-breaking changes that must turn a fact false or be refused
// (UNRECOGNISED); H* are harmless rewrites that must keep every fact true. A case whose anchor text is no longer in the
// source is skipped (the repository moved on), never silently passed.

import (
	"os"
	"os/exec"
	"path/filepath"
	"regexp"
	"strconv"
	"strings"
	"testing"
)

type edit struct{ file, old, new string }

type tcase struct {
	name  string
	edits []edit
	add   map[string]string // extra files
	mode  string
	// expectation: "ok" (all facts true), "unrec", or "<handler>:<index of the fact that must be false>"
	want string
}

const lockWrite = "\th.outMu.Lock()\n\tdefer h.outMu.Unlock()\n\t_, err := h.out.Write(*buf)\n\treturn err"

var cases = []tcase{
	{"M1 mutex value copied by clone", []edit{
		{"nano_handler.go", "\toutMu *sync.Mutex", "\toutMu sync.Mutex"},
		{"nano_handler.go", "\t\toutMu:   &sync.Mutex{},", "\t\toutMu:   sync.Mutex{},"}}, nil, "conc", "nano:2"},
	{"M2 Write in a goroutine", []edit{
		{"text_handler.go", "\t_, err := h.out.Write(*buf)\n\treturn err", "\tgo func() { h.out.Write(*buf) }()\n\treturn nil"}}, nil, "conc", "text:0"},
	{"M3 conditional lock", []edit{
		{"json_handler.go", "\th.outMu.Lock()\n\tdefer h.outMu.Unlock()", "\tif len(*buf) > 64 {\n\t\th.outMu.Lock()\n\t\tdefer h.outMu.Unlock()\n\t}"}}, nil, "conc", "json:1"},
	{"M4 handler shadows Enabled", []edit{
		{"nano_handler.go", "func (h *NanoHandler) clone()", "func (h *NanoHandler) Enabled(l slog.Level) bool { return true }\n\nfunc (h *NanoHandler) clone()"}}, nil, "conc", "unrec"},
	{"M5 unsynchronised package-level cache in appendNanoSource", []edit{
		{"nano_handler.go", "func appendNanoSource(buf *[]byte, pc uintptr) {\n", "var lastSource struct {\n\tpc   uintptr\n\ttext string\n}\n\nfunc appendNanoSource(buf *[]byte, pc uintptr) {\n\tif lastSource.pc == pc {\n\t\t*buf = append(*buf, lastSource.text...)\n\t\treturn\n\t}\n\tlastSource.pc = pc\n"}}, nil, "conc", "nano:5"},
	{"M6 buffer released before the Write", []edit{
		{"text_handler.go", "\tbuf := newBuffer()\n\tdefer freeBuffer(buf)\n\n\t// time\n\t*buf = append(*buf, slog.TimeKey...)", "\tbuf := newBuffer()\n\n\t// time\n\t*buf = append(*buf, slog.TimeKey...)"},
		{"text_handler.go", lockWrite, "\tline := *buf\n\tfreeBuffer(buf)\n\th.outMu.Lock()\n\tdefer h.outMu.Unlock()\n\t_, err := h.out.Write(line)\n\treturn err"}}, nil, "conc", "text:4"},
	{"M7 decoy Handle behind a build constraint", []edit{
		{"json_handler.go", "\th.outMu.Lock()\n\tdefer h.outMu.Unlock()\n\t_, err := h.out.Write(*buf)", "\t_, err := h.out.Write(*buf)"}},
		map[string]string{"zz_decoy.go": "//go:build ignore\n\npackage logger\n\nfunc (h *JsonHandler) Handle(_ context.Context, r slog.Record) error {\n\tbuf := newBuffer()\n\tdefer freeBuffer(buf)\n" + lockWrite + "\n}\n"}, "conc", "json:1"},
	{"M7b method defined twice", nil,
		map[string]string{"zz_twice.go": "package logger\n\nfunc (h *JsonHandler) Handle(_ context.Context, r slog.Record) error {\n\tbuf := newBuffer()\n\tdefer freeBuffer(buf)\n" + lockWrite + "\n}\n"}, "conc", "unrec"},
	{"N1 child appends to the parent's slice", []edit{
		{"json_handler.go", "\th2.preformatted = append(h2.preformatted, '\"', ':', '{')", "\th2.preformatted = append(h.preformatted, '\"', ':', '{')"}}, nil, "chain", "json:2"},
	{"N2 Logger.With mutates its receiver", []edit{
		{"logger.go", "\treturn &Logger{l.h.WithAttrs(argsToAttrs(args))}", "\tl.h = l.h.WithAttrs(argsToAttrs(args))\n\treturn l"}}, nil, "chain", "json:4"},
	{"N3 slice-typed context field handed on unclipped", []edit{
		{"text_handler.go", "\tgroupPrefix  string", "\tgroupPrefix  []byte"}}, nil, "chain", "text:0"},
	{"C03e preformatted taken from a pooled buffer", []edit{
		{"nano_handler.go", "\th2 := h.clone()\n\tfor _, a := range attrs {\n\t\tappendNanoValue(&h2.preformatted, a.Value, h.Options.colorful)\n\t}\n\treturn h2",
			"\tbuf := newBuffer()\n\tdefer freeBuffer(buf)\n\t*buf = append(*buf, h.preformatted...)\n\tfor _, a := range attrs {\n\t\tappendNanoValue(buf, a.Value, h.Options.colorful)\n\t}\n\th2 := h.clone()\n\th2.preformatted = slices.Clip(*buf)\n\treturn h2"}}, nil, "chain", "unrec"},
	{"package-level table written through a held pointer", []edit{
		{"nano_handler.go", "func appendNanoSource(buf *[]byte, pc uintptr) {\n", "var lastSource struct {\n\tpc   uintptr\n\ttext string\n}\n\nfunc appendNanoSource(buf *[]byte, pc uintptr) {\n\tls := &lastSource\n\tls.pc = pc\n"}}, nil, "conc", "nano:5"},
	{"clip removed", []edit{
		{"nano_handler.go", "preformatted: slices.Clip(h.preformatted),", "preformatted: h.preformatted,"}}, nil, "chain", "nano:0"},
	{"new mutex in clone", []edit{
		{"text_handler.go", "\t\toutMu:        h.outMu,", "\t\toutMu:        &sync.Mutex{},"}}, nil, "conc", "text:2"},
	{"Unlock not deferred (explicit Unlock after the Write): a panicking Writer leaves the mutex locked", []edit{
		{"json_handler.go", lockWrite, "\th.outMu.Lock()\n\tn, err := h.out.Write(*buf)\n\th.outMu.Unlock()\n\t_ = n\n\treturn err"},
		{"buffer.go", "\tif cap(*buf) <= maxBufferSize {\n\t\t*buf = (*buf)[:0]\n\t\tbufferPool.Put(buf)\n\t}", "\tif cap(*buf) > maxBufferSize {\n\t\treturn\n\t}\n\t*buf = (*buf)[0:0]\n\tbufferPool.Put(buf)"}}, nil, "conc", "json:13"},
	{"H2 atomic metrics counter in Handle", []edit{
		{"nano_handler.go", "\tpreformatted []byte\n}", "\tpreformatted []byte\n\tnrec         uint64\n}"},
		{"nano_handler.go", "func (h *NanoHandler) Handle(_ context.Context, r slog.Record) error {\n", "func (h *NanoHandler) Handle(_ context.Context, r slog.Record) error {\n\tatomic.AddUint64(&h.nrec, 1)\n"}}, nil, "conc", "ok"},
	{"H3 clone as struct copy with re-clipped slice", []edit{
		{"json_handler.go", "\treturn &JsonHandler{\n\t\tOptions:      h.Options,\n\t\toutMu:        h.outMu,\n\t\tout:          h.out,\n\t\tpreformatted: slices.Clip(h.preformatted),\n\t\tnOpenGroups:  h.nOpenGroups,\n\t\taddSep:       h.addSep,\n\t}",
			"\th2 := *h\n\th2.preformatted = slices.Clip(h.preformatted)\n\treturn &h2"}}, nil, "chain", "ok"},
	{"H3 (conc)", []edit{
		{"json_handler.go", "\treturn &JsonHandler{\n\t\tOptions:      h.Options,\n\t\toutMu:        h.outMu,\n\t\tout:          h.out,\n\t\tpreformatted: slices.Clip(h.preformatted),\n\t\tnOpenGroups:  h.nOpenGroups,\n\t\taddSep:       h.addSep,\n\t}",
			"\th2 := *h\n\th2.preformatted = slices.Clip(h.preformatted)\n\treturn &h2"}}, nil, "conc", "ok"},
	{"struct copy WITHOUT re-clipping", []edit{
		{"json_handler.go", "\treturn &JsonHandler{\n\t\tOptions:      h.Options,\n\t\toutMu:        h.outMu,\n\t\tout:          h.out,\n\t\tpreformatted: slices.Clip(h.preformatted),\n\t\tnOpenGroups:  h.nOpenGroups,\n\t\taddSep:       h.addSep,\n\t}",
			"\th2 := *h\n\treturn &h2"}}, nil, "chain", "json:0"},
}

// TestHarmlessBattery: behaviour-preserving rewrites (testdata/harmless_<k>.diff, from the integrator's battery) must be
// RECOGNISED with every fact true: renames (roles by type), pool/constant renames + named New + comma-ok Get + early return,
// NewOptions via new(Options) + assignments, positive / local-variable gate, shared *sink, locked write in an own helper.
func TestHarmlessBattery(t *testing.T) {
	diffs, _ := filepath.Glob("testdata/harmless_*.diff")
	if len(diffs) == 0 {
		t.Skip("no testdata")
	}
	for _, d := range diffs {
		d := d
		t.Run(filepath.Base(d), func(t *testing.T) {
			tmp := t.TempDir()
			dst := filepath.Join(tmp, "logger")
			os.MkdirAll(dst, 0o755)
			ents, err := os.ReadDir(filepath.Join(repoDir(), "logger"))
			if err != nil {
				t.Skip(err)
			}
			for _, e := range ents {
				if strings.HasSuffix(e.Name(), ".go") && !strings.HasSuffix(e.Name(), "_test.go") {
					b, _ := os.ReadFile(filepath.Join(repoDir(), "logger", e.Name()))
					os.WriteFile(filepath.Join(dst, e.Name()), b, 0o644)
				}
			}
			abs, _ := filepath.Abs(d)
			cmd := exec.Command("patch", "-p1", "-s", "-i", abs)
			cmd.Dir = tmp
			if out, err := cmd.CombinedOutput(); err != nil {
				t.Skipf("diff does not apply to the current source: %s", out)
			}
			for _, mode := range []string{"chain", "conc"} {
				out, notes, un := analyse(tmp, mode)
				if len(un) > 0 {
					t.Fatalf("%s: harmless rewrite refused: %v", mode, un)
				}
				for _, m := range reDef.FindAllStringSubmatch(out, -1) {
					for i, v := range strings.Fields(m[2]) {
						if v != "true" && !(mode == "chain" && i == 3) {
							t.Fatalf("%s: %s fact %d is %s (notes %v)", mode, m[1], i, v, notes)
						}
					}
				}
			}
		})
	}
}

func repoDir() string {
	if r := os.Getenv("LOGGERFACTS_REPO"); r != "" {
		return r
	}
	return "/repo"
}

var reDef = regexp.MustCompile(`Definition (\w+)_(?:chain|conc)_facts : \w+ := mk\w+ ([a-z ]+)\.`)

func TestUnchangedSource(t *testing.T) {
	for _, mode := range []string{"chain", "conc"} {
		out, _, un := analyse(repoDir(), mode)
		if len(un) > 0 || strings.Contains(out, "false") && mode == "conc" {
			t.Fatalf("%s on the unchanged source: unrecognised=%v\n%s", mode, un, out)
		}
	}
}

func TestRecogniser(t *testing.T) {
	for _, c := range cases {
		t.Run(c.name, func(t *testing.T) {
			tmp := t.TempDir()
			dst := filepath.Join(tmp, "logger")
			os.MkdirAll(dst, 0o755)
			ents, err := os.ReadDir(filepath.Join(repoDir(), "logger"))
			if err != nil {
				t.Skip(err)
			}
			for _, e := range ents {
				if strings.HasSuffix(e.Name(), ".go") && !strings.HasSuffix(e.Name(), "_test.go") {
					b, _ := os.ReadFile(filepath.Join(repoDir(), "logger", e.Name()))
					os.WriteFile(filepath.Join(dst, e.Name()), b, 0o644)
				}
			}
			for _, ed := range c.edits {
				b, _ := os.ReadFile(filepath.Join(dst, ed.file))
				if !strings.Contains(string(b), ed.old) {
					t.Skipf("anchor not found in %s: %q", ed.file, ed.old)
				}
				os.WriteFile(filepath.Join(dst, ed.file), []byte(strings.Replace(string(b), ed.old, ed.new, 1)), 0o644)
			}
			for n, txt := range c.add {
				os.WriteFile(filepath.Join(dst, n), []byte(txt), 0o644)
			}
			out, notes, un := analyse(tmp, c.mode)
			facts := map[string][]string{}
			for _, m := range reDef.FindAllStringSubmatch(out, -1) {
				facts[m[1]] = strings.Fields(m[2])
			}
			switch {
			case c.want == "unrec":
				if len(un) == 0 {
					t.Fatalf("must be refused, got facts %v", facts)
				}
			case c.want == "ok":
				if len(un) > 0 {
					t.Fatalf("harmless rewrite refused: %v", un)
				}
				for h, fs := range facts {
					for i, v := range fs {
						if v != "true" && !(c.mode == "chain" && i == 3) { // group_returns_receiver is descriptive
							t.Fatalf("harmless rewrite: %s fact %d is %s (notes %v)", h, i, v, notes)
						}
					}
				}
			default:
				if len(un) > 0 {
					t.Logf("REFUSED (a note under the current policy; must be caught dynamically): %v", un)
					return // refused: acceptable for a breaking change (never a pass)
				}
				p := strings.Split(c.want, ":")
				idx, _ := strconv.Atoi(p[1])
				if fs := facts[p[0]]; len(fs) <= idx || fs[idx] != "false" {
					t.Fatalf("fact %s must be false, got %v (notes %v)", c.want, facts, notes)
				}
			}
		})
	}
}
