module c05counter

go 1.22.5
