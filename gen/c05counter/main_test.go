package main

import (
	"go/ast"
	"go/parser"
	"go/token"
	"strings"
	"testing"
)

// the relevant skeleton of httpd/httpd.go; FIELD, BODY and EXTRA are replaced per case
const skeleton = `package httpd

import (
	"net/http"
	"strconv"
	"sync"
	"sync/atomic"
)

var _ = atomic.AddUint64
var _ = strconv.Itoa

type Store struct {
	id []byte
	W  *struct{ Status int }
}

type Mux struct {
	mu        sync.RWMutex
	storePool sync.Pool
	maxParams int
	FIELD
}

func (mux *Mux) ServeHTTP(w http.ResponseWriter, r *http.Request) {
	store := mux.storePool.Get().(*Store)
	BODY
	mux.storePool.Put(store)
}

EXTRA
`

func run(t *testing.T, field, body, extra string) fact {
	t.Helper()
	src := strings.NewReplacer("FIELD", field, "BODY", body, "EXTRA", extra).Replace(skeleton)
	fset := token.NewFileSet()
	f, err := parser.ParseFile(fset, "httpd.go", src, 0)
	if err != nil {
		t.Fatalf("test source does not parse: %v\n%s", err, src)
	}
	return analyze(fset, []*ast.File{f})
}

// the Coq-side discipline (Lib/CounterFacts.v check_counter), restated
func accepted(f fact) bool {
	return ((f.FieldType == "uint64" && f.Shape == "AddUint64") || (f.FieldType == "sync/atomic.Uint64" && f.Shape == "MethodAdd") ||
		(f.FieldType == "int64" && f.Shape == "AddInt64") || (f.FieldType == "sync/atomic.Int64" && f.Shape == "MethodAdd")) &&
		f.Delta == "1" && f.Renderings == 1 && f.Uses == 1
}

func TestShapes(t *testing.T) {
	cases := []struct {
		name, field, body, extra string
		ok                       bool
	}{
		// ---- accepted
		{"current HEAD", "storeID atomic.Uint64", "store.id = strconv.AppendUint(store.id, mux.storeID.Add(1), 36)", "", true},
		{"plain uint64 + AddUint64", "storeID uint64", "store.id = strconv.AppendUint(store.id, atomic.AddUint64(&mux.storeID, 1), 36)", "", true},
		{"k=4 renamed field", "reqSeq atomic.Uint64", "store.id = strconv.AppendUint(store.id, mux.reqSeq.Add(1), 36)", "", true},
		{"k=3 rendering in a helper reached through another helper", "storeID atomic.Uint64", "store = mux.acquire(store)",
			"func (mux *Mux) acquire(s *Store) *Store { s.id = mux.appendNextID(s.id); return s }\n" +
				"func (mux *Mux) appendNextID(buf []byte) []byte { return strconv.AppendUint(buf, mux.storeID.Add(1), 36) }", true},
		{"k=12 one local in between", "storeID atomic.Uint64", "seq := mux.storeID.Add(1)\n\tstore.id = strconv.AppendUint(store.id, seq, 36)", "", true},
		{"one local declared uint64", "storeID uint64", "var seq uint64 = atomic.AddUint64(&mux.storeID, 1)\n\tstore.id = strconv.AppendUint(store.id, seq, 36)", "", true},
		{"k=13 FormatUint + append", "storeID atomic.Uint64", "store.id = append(store.id, strconv.FormatUint(mux.storeID.Add(1), 36)...)", "", true},
		{"identity conversion uint64(...)", "storeID atomic.Uint64", "store.id = strconv.AppendUint(store.id, uint64(mux.storeID.Add(1)), 36)", "", true},
		{"another base is not a width matter", "storeID atomic.Uint64", "store.id = strconv.AppendUint(store.id, mux.storeID.Add(1), 10)", "", true},
		{"an unrelated number rendered elsewhere", "storeID atomic.Uint64",
			"store.id = strconv.AppendUint(store.id, mux.storeID.Add(1), 36)\n\t_ = strconv.FormatUint(uint64(store.W.Status), 10)", "", true},
		// battery 2
		{"R1 counter in a nested struct, rendered in its method", "ids idSource", "store.id = mux.ids.next(store.id)",
			"type idSource struct {\n\tprefix [9]byte\n\tseq atomic.Uint64\n}\n" +
				"func (src *idSource) next(buf []byte) []byte { return strconv.AppendUint(buf, src.seq.Add(1), 36) }", true},
		{"R4 increment in one function, rendering in another, value passed as a uint64 parameter", "storeID atomic.Uint64", "store = mux.acquire(store)",
			"func (mux *Mux) acquire(s *Store) *Store { s.bind(nil, mux.storeID.Add(1)); return s }\n" +
				"func (store *Store) bind(r *http.Request, ticket uint64) { store.id = strconv.AppendUint(store.id, ticket, 36) }", true},
		{"extra_b accessor whose result is rendered", "storeID atomic.Uint64", "store.id = strconv.AppendUint(store.id, mux.nextTicket(), 36)",
			"func (mux *Mux) nextTicket() uint64 { return mux.storeID.Add(1) }", true},
		{"extra_c declared, then assigned exactly once", "storeID atomic.Uint64", "var ticket uint64\n\tticket = mux.storeID.Add(1)\n\tstore.id = strconv.AppendUint(store.id, ticket, 36)", "", true},
		{"extra_a atomic.Int64 converted to uint64", "storeID atomic.Int64", "store.id = strconv.AppendUint(store.id, uint64(mux.storeID.Add(1)), 36)", "", true},
		{"int64 + AddInt64 converted to uint64", "storeID int64", "store.id = strconv.AppendUint(store.id, uint64(atomic.AddInt64(&mux.storeID, 1)), 36)", "", true},
		{"Int64 through a local", "storeID atomic.Int64", "seq := mux.storeID.Add(1)\n\tstore.id = strconv.AppendUint(store.id, uint64(seq), 36)", "", true},
		// battery 3
		{"id assigned lazily in GetID through a nested id source held by the Store", "ids idSource", "_ = store",
			"type idSource struct {\n\tprefix string\n\tseq atomic.Uint64\n}\n" +
				"func (src *idSource) next() string { n := src.seq.Add(1); return src.prefix + strconv.FormatUint(n, 36) }\n" +
				"type lazy struct{ ids *idSource; id string }\n" +
				"func (s *lazy) GetID() string { if s.id == \"\" { s.id = s.ids.next() }; return s.id }", true},
		{"id made in the pool's New closure", "storeID atomic.Uint64", "_ = store",
			"func (mux *Mux) newStore() func() any { return func() any { return strconv.AppendUint(nil, mux.storeID.Add(1), 36) } }", true},
		// ---- must fail
		{"lazy id, 32-bit sequence", "ids idSource", "_ = store",
			"type idSource struct{ seq atomic.Uint32 }\n" +
				"func (src *idSource) next() string { n := src.seq.Add(1); return strconv.FormatUint(uint64(n), 36) }", false},
		{"lazy id, truncated", "ids idSource", "_ = store",
			"type idSource struct{ seq atomic.Uint64 }\n" +
				"func (src *idSource) next() string { n := src.seq.Add(1) % 100000; return strconv.FormatUint(n, 36) }", false},
		{"nested struct with a 32-bit counter", "ids idSource", "store.id = mux.ids.next(store.id)",
			"type idSource struct{ seq atomic.Uint32 }\n" +
				"func (src *idSource) next(buf []byte) []byte { return strconv.AppendUint(buf, uint64(src.seq.Add(1)), 36) }", false},
		{"parameter narrowed in the callee", "storeID atomic.Uint64", "store = mux.acquire(store)",
			"func (mux *Mux) acquire(s *Store) *Store { s.bind(mux.storeID.Add(1)); return s }\n" +
				"func (store *Store) bind(ticket uint64) { store.id = strconv.AppendUint(store.id, uint64(uint32(ticket)), 36) }", false},
		{"argument narrowed at the call site", "storeID atomic.Uint64", "store = mux.acquire(store)",
			"func (mux *Mux) acquire(s *Store) *Store { s.bind(mux.storeID.Add(1) % 1296); return s }\n" +
				"func (store *Store) bind(ticket uint64) { store.id = strconv.AppendUint(store.id, ticket, 36) }", false},
		{"parameter of a narrower type", "storeID atomic.Uint64", "store = mux.acquire(store)",
			"func (mux *Mux) acquire(s *Store) *Store { s.bind(uint32(mux.storeID.Add(1))); return s }\n" +
				"func (store *Store) bind(ticket uint32) { store.id = strconv.AppendUint(store.id, uint64(ticket), 36) }", false},
		{"accessor that truncates", "storeID atomic.Uint64", "store.id = strconv.AppendUint(store.id, mux.nextTicket(), 36)",
			"func (mux *Mux) nextTicket() uint64 { return mux.storeID.Add(1) & 0xffff }", false},
		{"accessor with a narrower result", "storeID atomic.Uint64", "store.id = strconv.AppendUint(store.id, uint64(mux.nextTicket()), 36)",
			"func (mux *Mux) nextTicket() uint32 { return uint32(mux.storeID.Add(1)) }", false},
		{"declared, then assigned twice", "storeID atomic.Uint64", "var ticket uint64\n\tticket = mux.storeID.Add(1)\n\tticket = ticket >> 3\n\tstore.id = strconv.AppendUint(store.id, ticket, 36)", "", false},
		{"declared narrower, then assigned", "storeID atomic.Uint64", "var ticket uint32\n\tticket = uint32(mux.storeID.Add(1))\n\tstore.id = strconv.AppendUint(store.id, uint64(ticket), 36)", "", false},
		{"atomic.Int32", "storeID atomic.Int32", "store.id = strconv.AppendUint(store.id, uint64(mux.storeID.Add(1)), 36)", "", false},
		{"Int64 narrowed before the conversion", "storeID atomic.Int64", "store.id = strconv.AppendUint(store.id, uint64(int32(mux.storeID.Add(1))), 36)", "", false},
		{"hand-written rendering (unrecognised)", "storeID atomic.Uint64", "store.id = appendBase36(store.id, mux.storeID.Add(1))",
			"func appendBase36(b []byte, n uint64) []byte { for n > 0 { b = append(b, \"0123456789abcdefghijklmnopqrstuvwxyz\"[n%36]); n /= 36 }; return b }", false},
		{"seeded C05f: uint32 counter widened for rendering", "storeID uint32", "store.id = strconv.AppendUint(store.id, uint64(atomic.AddUint32(&mux.storeID, 1)), 36)", "", false},
		{"atomic.Uint32 field", "storeID atomic.Uint32", "store.id = strconv.AppendUint(store.id, uint64(mux.storeID.Add(1)), 36)", "", false},
		{"% 1296", "storeID atomic.Uint64", "store.id = strconv.AppendUint(store.id, mux.storeID.Add(1)%1296, 36)", "", false},
		{"% through the local", "storeID atomic.Uint64", "seq := mux.storeID.Add(1) % 1296\n\tstore.id = strconv.AppendUint(store.id, seq, 36)", "", false},
		{"mask", "storeID atomic.Uint64", "store.id = strconv.AppendUint(store.id, mux.storeID.Add(1)&0xffffffff, 36)", "", false},
		{"shift", "storeID atomic.Uint64", "store.id = strconv.AppendUint(store.id, mux.storeID.Add(1)>>8, 36)", "", false},
		{"conversion to a narrower type", "storeID atomic.Uint64", "store.id = strconv.AppendUint(store.id, uint64(uint32(mux.storeID.Add(1))), 36)", "", false},
		{"narrowing local", "storeID atomic.Uint64", "seq := uint32(mux.storeID.Add(1))\n\tstore.id = strconv.AppendUint(store.id, uint64(seq), 36)", "", false},
		{"local declared narrower", "storeID atomic.Uint64", "var seq uint16 = uint16(mux.storeID.Add(1))\n\tstore.id = strconv.AppendUint(store.id, uint64(seq), 36)", "", false},
		{"local assigned twice", "storeID atomic.Uint64", "seq := mux.storeID.Add(1)\n\tseq = seq % 7\n\tstore.id = strconv.AppendUint(store.id, seq, 36)", "", false},
		{"non-atomic increment", "storeID uint64", "mux.storeID++\n\tstore.id = strconv.AppendUint(store.id, mux.storeID, 36)", "", false},
		{"increment by 2", "storeID atomic.Uint64", "store.id = strconv.AppendUint(store.id, mux.storeID.Add(2), 36)", "", false},
		{"counter reset elsewhere", "storeID atomic.Uint64", "store.id = strconv.AppendUint(store.id, mux.storeID.Add(1), 36)",
			"func (mux *Mux) Reset() { mux.storeID.Store(0) }", false},
		{"no rendering at all", "storeID atomic.Uint64", "_ = mux.storeID.Add(1)", "", false},
		{"two renderings of increments", "storeID atomic.Uint64",
			"store.id = strconv.AppendUint(store.id, mux.storeID.Add(1), 36)\n\tstore.id = strconv.AppendUint(store.id, mux.storeID.Add(1), 36)", "", false},
		{"narrowing inside the helper", "storeID atomic.Uint64", "store.id = mux.appendNextID(store.id)",
			"func (mux *Mux) appendNextID(buf []byte) []byte { return strconv.AppendUint(buf, uint64(uint32(mux.storeID.Add(1))), 36) }", false},
	}
	for _, c := range cases {
		f := run(t, c.field, c.body, c.extra)
		if accepted(f) != c.ok {
			t.Errorf("%s: accepted=%v, want %v\n  %s\n  %s", c.name, accepted(f), c.ok, f.coq(), f.comment())
		}
	}
}
