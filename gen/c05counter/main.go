// c05counter <repo>: source facts about the request counter of httpd.Mux for property C05, as a Coq term of type
// Glb.Lib.CounterFacts.fact.
//
// C05_ids_unique has the hypothesis "the counter has not wrapped: ticket < 2^64".  Behaviour cannot show the width of
// the counter (2^32 requests are out of reach), so it is read from the source: the declared type of Mux.storeID, the
// shape of the expression whose value strconv.AppendUint renders into Store.id inside ServeHTTP, and every other use
// of the field in package httpd.  Only go/ast: anything that is not one of the two recognised shapes
//
//	atomic.AddUint64(&mux.storeID, 1)   with   storeID uint64                 (atomic = "sync/atomic")
//	mux.storeID.Add(1)                  with   storeID atomic.Uint64
//
// is printed verbatim with shape "other" and the Coq-side check fails (conversion to a narrower type, %, &, a local
// variable in between, a second increment ... are all "other").
package main

import (
	"bytes"
	"fmt"
	"go/ast"
	"go/parser"
	"go/printer"
	"go/token"
	"os"
	"path/filepath"
	"strings"
)

func show(fset *token.FileSet, n ast.Node) string {
	var b bytes.Buffer
	printer.Fprint(&b, fset, n)
	return strings.Join(strings.Fields(b.String()), " ")
}

// pkgPath: the import path the identifier stands for in file f ("" if it is not an imported package name)
func pkgPath(f *ast.File, ident string) string {
	for _, im := range f.Imports {
		path := strings.Trim(im.Path.Value, "\"")
		name := path[strings.LastIndex(path, "/")+1:]
		if im.Name != nil {
			name = im.Name.Name
		}
		if name == ident {
			return path
		}
	}
	return ""
}

// qualified: pkg.Name with pkg replaced by its import path
func qualified(fset *token.FileSet, f *ast.File, e ast.Expr) string {
	if s, ok := e.(*ast.SelectorExpr); ok {
		if id, ok := s.X.(*ast.Ident); ok {
			if p := pkgPath(f, id.Name); p != "" {
				return p + "." + s.Sel.Name
			}
		}
	}
	return show(fset, e)
}

func coqStr(s string) string { return "\"" + strings.ReplaceAll(s, "\"", "\"\"") + "\"" }

func main() {
	if len(os.Args) != 2 {
		fmt.Fprintln(os.Stderr, "usage: c05counter <repo>")
		os.Exit(2)
	}
	dir := filepath.Join(os.Args[1], "httpd")
	fset := token.NewFileSet()
	pkgs, err := parser.ParseDir(fset, dir, func(fi os.FileInfo) bool { return !strings.HasSuffix(fi.Name(), "_test.go") }, 0)
	if err != nil || pkgs["httpd"] == nil {
		fmt.Fprintln(os.Stderr, "c05counter: cannot parse", dir, err)
		os.Exit(1)
	}
	const field = "storeID"
	fieldType := "?"
	uses := 0 // selector expressions x.storeID anywhere in the package
	var rendered []string
	shape, delta, base := "none", "?", "?"
	for _, f := range pkgs["httpd"].Files {
		ast.Inspect(f, func(n ast.Node) bool {
			switch x := n.(type) {
			case *ast.TypeSpec:
				if st, ok := x.Type.(*ast.StructType); ok && x.Name.Name == "Mux" {
					for _, fl := range st.Fields.List {
						for _, nm := range fl.Names {
							if nm.Name == field {
								fieldType = qualified(fset, f, fl.Type)
							}
						}
					}
				}
			case *ast.SelectorExpr:
				if x.Sel.Name == field {
					uses++
				}
			case *ast.FuncDecl:
				if x.Name.Name != "ServeHTTP" || x.Recv == nil || x.Body == nil {
					return true
				}
				ast.Inspect(x.Body, func(m ast.Node) bool {
					c, ok := m.(*ast.CallExpr)
					if !ok {
						return true
					}
					if s, ok := c.Fun.(*ast.SelectorExpr); ok && s.Sel.Name == "AppendUint" && qualified(fset, f, c.Fun) == "strconv.AppendUint" && len(c.Args) == 3 {
						v := c.Args[1]
						rendered = append(rendered, show(fset, v))
						base = show(fset, c.Args[2])
						shape = "other"
						if call, ok := v.(*ast.CallExpr); ok && len(call.Args) >= 1 {
							fn := qualified(fset, f, call.Fun)
							switch {
							case fn == "sync/atomic.AddUint64" && len(call.Args) == 2 && strings.HasPrefix(show(fset, call.Args[0]), "&") && strings.HasSuffix(show(fset, call.Args[0]), "."+field):
								shape, delta = "AddUint64", show(fset, call.Args[1])
							case strings.HasSuffix(fn, "."+field+".Add") && len(call.Args) == 1:
								shape, delta = "MethodAdd", show(fset, call.Args[0])
							}
						}
					}
					return true
				})
			}
			return true
		})
	}
	fmt.Printf("{| cf_field_type := %s; cf_shape := %s; cf_delta := %s; cf_base := %s; cf_renderings := %d; cf_uses := %d |}\n",
		coqStr(fieldType), coqStr(shape), coqStr(delta), coqStr(base), len(rendered), uses)
	fmt.Printf("(* Mux.%s %s; rendered into Store.id in ServeHTTP: %s; selector uses of the field in package httpd: %d *)\n",
		field, fieldType, strings.Join(rendered, " ; "), uses)
}
