// c05counter <repo>: source facts about the request counter of httpd.Mux for property C05, as a Coq term of type
// Glb.Lib.CounterFacts.fact.
//
// C05_ids_unique has the hypothesis "the counter has not wrapped: ticket < 2^64".  Behaviour cannot show the width of
// the counter (2^32 requests are out of reach), so it is read from the source.  Only go/ast, no type information.
//
// What is looked for (names are NOT hard-coded except the type Mux and its method ServeHTTP):
//
//   - in EVERY function and method of package httpd (the id may be made in ServeHTTP, in the pool's New, lazily in GetID,
//     in a method of a nested id source ...), every RENDERING of a number: strconv.AppendUint(buf, V, base) or strconv.FormatUint(V, base), whose V is
//     counter-related, i.e. mentions an integer or sync/atomic field of Mux, a sync/atomic function, or a local assigned
//     from such an expression;
//   - V must RESOLVE to an INCREMENT   atomic.AddUint64(&x.f, d) / atomic.AddInt64(&x.f, d)   or   x.f.Add(d)   with f a field
//     of Mux or of a struct type of this package nested in Mux (mux.ids.seq), in at most three of these steps:
//   - uint64(...) around it (the identity on uint64, a bijection from int64),
//   - ONE local variable defined exactly once (`v := E`, `var v [uint64] = E`, or `var v uint64` followed by exactly
//     one `v = E`) and never assigned, incremented or address-taken otherwise,
//   - a PARAMETER of declared type uint64 of a function that has exactly one call site (the argument is resolved
//     in the caller),
//   - the RESULT of a same-package function or method without arguments whose result type is uint64 and whose
//     body is a single `return E`;
//   - the declared type of f, and every other mention of x.f in the package.
//
// Anything else about a counter-related V — a conversion to another type, %, &, >>, arithmetic, a plain read of the
// field, a parameter, a local assigned twice — is reported with shape "other" and the Coq-side check fails.  The base
// of the rendering is reported but is not a width matter (the dynamic check sees it).
package main

import (
	"bytes"
	"fmt"
	"go/ast"
	"go/parser"
	"go/printer"
	"go/token"
	"os"
	"path/filepath"
	"sort"
	"strings"
)

type fact struct {
	FieldType  string // declared type of the counter field, package names resolved to import paths ("?" if no counter was identified)
	Shape      string // AddUint64 | AddInt64 | MethodAdd | other | none
	Delta      string
	Base       string
	Renderings int // counter-related renderings in the package
	Uses       int // mentions x.<field> in the package
	Field      string
	Rendered   []string // the V expressions, verbatim
	ViaLocal   bool
	Reachable  []string
}

func (f fact) coq() string {
	return fmt.Sprintf("{| cf_field_type := %s; cf_shape := %s; cf_delta := %s; cf_base := %s; cf_renderings := %d; cf_uses := %d |}",
		coqStr(f.FieldType), coqStr(f.Shape), coqStr(f.Delta), coqStr(f.Base), f.Renderings, f.Uses)
}

func (f fact) comment() string {
	via := ""
	if f.ViaLocal {
		via = " (indirectly)"
	}
	return fmt.Sprintf("(* counter field Mux.%s %s; rendered%s: %s; mentions of the field in package httpd: %d; functions searched: %d *)",
		f.Field, f.FieldType, via, strings.Join(f.Rendered, " ; "), f.Uses, len(f.Reachable))
}

func show(fset *token.FileSet, n ast.Node) string {
	var b bytes.Buffer
	printer.Fprint(&b, fset, n)
	return strings.Join(strings.Fields(b.String()), " ")
}

func coqStr(s string) string { return "\"" + strings.ReplaceAll(s, "\"", "\"\"") + "\"" }

// pkgPath: the import path the identifier stands for in file f ("" if it is not an imported package name)
func pkgPath(f *ast.File, ident string) string {
	for _, im := range f.Imports {
		path := strings.Trim(im.Path.Value, "\"")
		name := path[strings.LastIndex(path, "/")+1:]
		if im.Name != nil {
			name = im.Name.Name
		}
		if name == ident {
			return path
		}
	}
	return ""
}

// qualified: pkg.Name with pkg replaced by its import path
func qualified(fset *token.FileSet, f *ast.File, e ast.Expr) string {
	if s, ok := e.(*ast.SelectorExpr); ok {
		if id, ok := s.X.(*ast.Ident); ok {
			if p := pkgPath(f, id.Name); p != "" {
				return p + "." + s.Sel.Name
			}
		}
	}
	return show(fset, e)
}

type fn struct {
	decl *ast.FuncDecl
	file *ast.File
}

type site struct {
	caller fn
	call   *ast.CallExpr
}

type analysis struct {
	fset   *token.FileSet
	files  []*ast.File
	fields map[string]string // field of Mux or of a nested struct of this package -> qualified type
	funcs  map[string][]fn   // name -> declarations (functions and methods of any receiver)
	sites  map[string][]site // name of a same-package function or method -> its call sites
}

// callee: the name of the same-package function or method a call goes to ("" if none; matched by name)
func (a *analysis) callee(file *ast.File, c *ast.CallExpr) string {
	name := ""
	switch f := c.Fun.(type) {
	case *ast.Ident:
		name = f.Name
	case *ast.SelectorExpr:
		if id, isID := f.X.(*ast.Ident); !isID || pkgPath(file, id.Name) == "" {
			name = f.Sel.Name
		}
	}
	if a.funcs[name] == nil {
		return ""
	}
	return name
}

// param: is name a parameter of d declared uint64?  its position among the parameters
func param(d *ast.FuncDecl, name string) (pos int, isUint64 bool, found bool) {
	i := 0
	for _, fl := range d.Type.Params.List {
		for _, nm := range fl.Names {
			if nm.Name == name {
				id, ok := fl.Type.(*ast.Ident)
				return i, ok && id.Name == "uint64", true
			}
			i++
		}
		if len(fl.Names) == 0 {
			i++
		}
	}
	return 0, false, false
}

type resolved struct {
	field, shape, delta string
	via                 []string
}

// resolve: follow V back to the increment it is the value of (see the header), at most `budget` steps
func (a *analysis) resolve(d fn, e ast.Expr, budget int) (resolved, bool) {
	e = unwrapUint64(e)
	if field, shape, delta, ok := a.increment(d.file, e); ok {
		return resolved{field: field, shape: shape, delta: delta}, true
	}
	if budget == 0 {
		return resolved{}, false
	}
	switch x := e.(type) {
	case *ast.Ident:
		if lc := locals(d.decl)[x.Name]; lc != nil {
			if rhs, ok := lc.single(); ok {
				r, ok := a.resolve(d, rhs, budget-1)
				r.via = append(r.via, "local "+x.Name)
				return r, ok
			}
			return resolved{}, false
		}
		if pos, isU64, found := param(d.decl, x.Name); found && isU64 {
			ss := a.sites[d.decl.Name.Name]
			if len(ss) != 1 || len(a.funcs[d.decl.Name.Name]) != 1 || pos >= len(ss[0].call.Args) || ss[0].call.Ellipsis.IsValid() {
				return resolved{}, false
			}
			r, ok := a.resolve(ss[0].caller, ss[0].call.Args[pos], budget-1)
			r.via = append(r.via, "parameter "+x.Name+" of "+d.decl.Name.Name)
			return r, ok
		}
	case *ast.CallExpr:
		name := a.callee(d.file, x)
		if name == "" || len(x.Args) != 0 || len(a.funcs[name]) != 1 {
			return resolved{}, false
		}
		g := a.funcs[name][0]
		res := g.decl.Type.Results
		if res == nil || len(res.List) != 1 || len(res.List[0].Names) > 1 || len(g.decl.Body.List) != 1 {
			return resolved{}, false
		}
		if id, ok := res.List[0].Type.(*ast.Ident); !ok || id.Name != "uint64" {
			return resolved{}, false
		}
		ret, ok := g.decl.Body.List[0].(*ast.ReturnStmt)
		if !ok || len(ret.Results) != 1 {
			return resolved{}, false
		}
		r, ok := a.resolve(g, ret.Results[0], budget-1)
		r.via = append(r.via, "result of "+name)
		return r, ok
	}
	return resolved{}, false
}

// increment: is e  atomic.AddUint64(&x.f, d)  or  x.f.Add(d)  with f a Mux field?
func (a *analysis) increment(file *ast.File, e ast.Expr) (field, shape, delta string, ok bool) {
	call, isCall := e.(*ast.CallExpr)
	if !isCall {
		return
	}
	if q := qualified(a.fset, file, call.Fun); (q == "sync/atomic.AddUint64" || q == "sync/atomic.AddInt64") && len(call.Args) == 2 {
		if u, isU := call.Args[0].(*ast.UnaryExpr); isU && u.Op == token.AND {
			if s, isS := u.X.(*ast.SelectorExpr); isS {
				if _, isF := a.fields[s.Sel.Name]; isF {
					return s.Sel.Name, strings.TrimPrefix(q, "sync/atomic."), show(a.fset, call.Args[1]), true
				}
			}
		}
		return
	}
	if s, isS := call.Fun.(*ast.SelectorExpr); isS && s.Sel.Name == "Add" && len(call.Args) == 1 {
		if inner, isS2 := s.X.(*ast.SelectorExpr); isS2 {
			if _, isF := a.fields[inner.Sel.Name]; isF {
				return inner.Sel.Name, "MethodAdd", show(a.fset, call.Args[0]), true
			}
		}
	}
	return
}

// local: the expressions assigned to an identifier of a function, and whether it is "disturbed"
// (assigned with =, op=, ++/--, address taken, declared with a type other than uint64, range target)
type local struct {
	rhs       []ast.Expr // every expression it is given (definitions and assignments)
	defs      int        // `v := E` / `var v = E`
	sets      int        // plain `v = E`
	bare      bool       // `var v uint64` without a value
	disturbed bool
}

// single: the one expression the local ever holds, if the local is of one of the accepted forms
func (l *local) single() (ast.Expr, bool) {
	if l.disturbed || len(l.rhs) != 1 {
		return nil, false
	}
	if (l.defs == 1 && l.sets == 0 && !l.bare) || (l.bare && l.defs == 0 && l.sets == 1) {
		return l.rhs[0], true
	}
	return nil, false
}

func locals(d *ast.FuncDecl) map[string]*local {
	res := map[string]*local{}
	get := func(n string) *local {
		if res[n] == nil {
			res[n] = &local{}
		}
		return res[n]
	}
	ast.Inspect(d.Body, func(n ast.Node) bool {
		switch x := n.(type) {
		case *ast.AssignStmt:
			for i, l := range x.Lhs {
				id, ok := l.(*ast.Ident)
				if !ok {
					continue
				}
				lc := get(id.Name)
				switch {
				case len(x.Lhs) != len(x.Rhs):
					lc.disturbed = true
				case x.Tok == token.DEFINE:
					lc.rhs, lc.defs = append(lc.rhs, x.Rhs[i]), lc.defs+1
				case x.Tok == token.ASSIGN:
					lc.rhs, lc.sets = append(lc.rhs, x.Rhs[i]), lc.sets+1
				default: // += and friends
					lc.rhs, lc.disturbed = append(lc.rhs, x.Rhs[i]), true
				}
			}
		case *ast.ValueSpec:
			for i, id := range x.Names {
				lc := get(id.Name)
				if x.Type != nil {
					if t, ok := x.Type.(*ast.Ident); !ok || t.Name != "uint64" {
						lc.disturbed = true
					}
				}
				switch {
				case len(x.Values) == len(x.Names):
					lc.rhs, lc.defs = append(lc.rhs, x.Values[i]), lc.defs+1
				case len(x.Values) == 0 && x.Type != nil:
					lc.bare = true // declared without a value: must be assigned exactly once
				default:
					lc.disturbed = true
				}
			}
		case *ast.IncDecStmt:
			if id, ok := x.X.(*ast.Ident); ok {
				get(id.Name).disturbed = true
			}
		case *ast.UnaryExpr:
			if id, ok := x.X.(*ast.Ident); ok && x.Op == token.AND {
				get(id.Name).disturbed = true
			}
		case *ast.RangeStmt:
			for _, e := range []ast.Expr{x.Key, x.Value} {
				if id, ok := e.(*ast.Ident); ok {
					get(id.Name).disturbed = true
				}
			}
		}
		return true
	})
	return res
}

// numeric: could a field of this declared type be a counter?  (integers and everything of sync/atomic)
func numeric(t string) bool {
	switch t {
	case "int", "int8", "int16", "int32", "int64", "uint", "uint8", "uint16", "uint32", "uint64", "uintptr", "byte":
		return true
	}
	return strings.HasPrefix(t, "sync/atomic.")
}

// related: does e mention an integer / atomic Mux field, a sync/atomic function, or a local assigned from a related expression?
func (a *analysis) related(d fn, loc map[string]*local, e ast.Expr, depth int) bool {
	file := d.file
	found := false
	ast.Inspect(e, func(n ast.Node) bool {
		if found {
			return false
		}
		switch x := n.(type) {
		case *ast.SelectorExpr:
			if t, ok := a.fields[x.Sel.Name]; ok && numeric(t) {
				if id, isID := x.X.(*ast.Ident); !isID || pkgPath(file, id.Name) == "" {
					found = true
				}
			}
			if strings.HasPrefix(qualified(a.fset, file, x), "sync/atomic.") {
				found = true
			}
		case *ast.Ident:
			if lc := loc[x.Name]; lc != nil && depth < 4 {
				for _, r := range lc.rhs {
					if a.related(d, loc, r, depth+1) {
						found = true
					}
				}
			} else if pos, _, isParam := param(d.decl, x.Name); isParam && depth < 4 {
				for _, st := range a.sites[d.decl.Name.Name] {
					if pos < len(st.call.Args) && a.related(st.caller, locals(st.caller.decl), st.call.Args[pos], depth+1) {
						found = true
					}
				}
			}
		case *ast.CallExpr:
			if name := a.callee(file, x); name != "" && depth < 4 {
				for _, g := range a.funcs[name] {
					for _, st := range g.decl.Body.List {
						if ret, ok := st.(*ast.ReturnStmt); ok {
							for _, r := range ret.Results {
								if a.related(g, locals(g.decl), r, depth+1) {
									found = true
								}
							}
						}
					}
				}
			}
		}
		return true
	})
	return found
}

func unwrapUint64(e ast.Expr) ast.Expr {
	for {
		switch x := e.(type) {
		case *ast.ParenExpr:
			e = x.X
			continue
		case *ast.CallExpr:
			if id, ok := x.Fun.(*ast.Ident); ok && id.Name == "uint64" && len(x.Args) == 1 {
				e = x.Args[0]
				continue
			}
		}
		return e
	}
}

func analyze(fset *token.FileSet, files []*ast.File) fact {
	a := &analysis{fset: fset, files: files, fields: map[string]string{}, funcs: map[string][]fn{}}
	structs := map[string]*ast.StructType{}
	structFile := map[string]*ast.File{}
	for _, f := range files {
		for _, d := range f.Decls {
			switch x := d.(type) {
			case *ast.GenDecl:
				for _, sp := range x.Specs {
					if ts, ok := sp.(*ast.TypeSpec); ok {
						if st, ok := ts.Type.(*ast.StructType); ok {
							structs[ts.Name.Name], structFile[ts.Name.Name] = st, f
						}
					}
				}
			case *ast.FuncDecl:
				if x.Body != nil {
					a.funcs[x.Name.Name] = append(a.funcs[x.Name.Name], fn{x, f})
				}
			}
		}
	}
	// the fields of Mux and of the struct types of this package nested in it (by value or pointer)
	todo, done := []string{"Mux"}, map[string]bool{}
	for len(todo) > 0 {
		name := todo[0]
		todo = todo[1:]
		st := structs[name]
		if st == nil || done[name] {
			continue
		}
		done[name] = true
		for _, fl := range st.Fields.List {
			for _, nm := range fl.Names {
				a.fields[nm.Name] = qualified(fset, structFile[name], fl.Type)
			}
			t := fl.Type
			if star, ok := t.(*ast.StarExpr); ok {
				t = star.X
			}
			if id, ok := t.(*ast.Ident); ok && structs[id.Name] != nil && id.Name != "Store" && id.Name != "RouteInfo" {
				todo = append(todo, id.Name)
			}
		}
	}
	a.sites = map[string][]site{}
	for _, ds := range a.funcs {
		for _, d := range ds {
			d := d
			ast.Inspect(d.decl.Body, func(n ast.Node) bool {
				if c, ok := n.(*ast.CallExpr); ok {
					if name := a.callee(d.file, c); name != "" {
						a.sites[name] = append(a.sites[name], site{d, c})
					}
				}
				return true
			})
		}
	}
	res := fact{FieldType: "?", Shape: "none", Delta: "?", Base: "?"}
	// Where the id is made differs between implementations (ServeHTTP, the pool's New, lazily in GetID or a helper of a
	// nested id source): every function and method of the package is searched.  What keeps unrelated numbers out is
	// the relatedness test below, not the call graph.
	for n := range a.funcs {
		res.Reachable = append(res.Reachable, n)
	}
	sort.Strings(res.Reachable)
	// renderings
	for _, name := range res.Reachable {
		for _, d := range a.funcs[name] {
			loc := locals(d.decl)
			ast.Inspect(d.decl.Body, func(n ast.Node) bool {
				c, ok := n.(*ast.CallExpr)
				if !ok {
					return true
				}
				var v, base ast.Expr
				switch q := qualified(fset, d.file, c.Fun); {
				case q == "strconv.AppendUint" && len(c.Args) == 3:
					v, base = c.Args[1], c.Args[2]
				case q == "strconv.FormatUint" && len(c.Args) == 2:
					v, base = c.Args[0], c.Args[1]
				default:
					return true
				}
				if !a.related(d, loc, v, 0) {
					return true // a number that has nothing to do with the Mux (a status code, a length ...)
				}
				res.Renderings++
				res.Rendered = append(res.Rendered, show(fset, v))
				res.Base = show(fset, base)
				res.Shape = "other"
				if r, ok := a.resolve(d, v, 3); ok {
					res.Field, res.Shape, res.Delta, res.FieldType = r.field, r.shape, r.delta, a.fields[r.field]
					if len(r.via) > 0 {
						res.ViaLocal = true
						res.Rendered[len(res.Rendered)-1] += " <- " + strings.Join(r.via, " <- ")
					}
				}
				return true
			})
		}
	}
	// every mention x.<field> in the package (the increment itself is one)
	if res.Field != "" {
		for _, f := range files {
			ast.Inspect(f, func(n ast.Node) bool {
				if s, ok := n.(*ast.SelectorExpr); ok && s.Sel.Name == res.Field {
					if id, isID := s.X.(*ast.Ident); !isID || pkgPath(f, id.Name) == "" {
						res.Uses++
					}
				}
				return true
			})
		}
	}
	return res
}

func main() {
	if len(os.Args) != 2 {
		fmt.Fprintln(os.Stderr, "usage: c05counter <repo>")
		os.Exit(2)
	}
	dir := filepath.Join(os.Args[1], "httpd")
	fset := token.NewFileSet()
	pkgs, err := parser.ParseDir(fset, dir, func(fi os.FileInfo) bool { return !strings.HasSuffix(fi.Name(), "_test.go") }, 0)
	if err != nil || pkgs["httpd"] == nil {
		fmt.Fprintln(os.Stderr, "c05counter: cannot parse", dir, err)
		os.Exit(1)
	}
	var names []string
	for n := range pkgs["httpd"].Files {
		names = append(names, n)
	}
	sort.Strings(names)
	var files []*ast.File
	for _, n := range names {
		files = append(files, pkgs["httpd"].Files[n])
	}
	f := analyze(fset, files)
	fmt.Println(f.coq())
	fmt.Println(f.comment())
}
