Open Scope N_scope.
Goal forall base p, Src.ResolveUrlPath base p = Some (resolve base p).
Proof.
  intros base p. unfold Src.ResolveUrlPath, resolve, force_slash, is_rooted.
  destruct p as [|c r]; g2c_eval; reflexivity.
Qed.
