(** Lockset — data-race freedom by lock discipline.

    An [access] is one syntactic access of a function to a shared location (a struct
    field), with what the function holds at that point.  Tables of accesses are produced
    from the Go sources by [gen/glbfacts]; the theorem in [Proofs/LocksetP.v] says that
    every program whose accesses come from a table satisfying [check_discipline] is free
    of data races, for every number of threads and every interleaving.

    Model: threads take and release (reader/writer) locks and enter / leave accesses.
    A thread may enter an access only while it holds what the table says the access
    holds (this is what the extractor read off the source: the access sits between
    Lock and Unlock), and it neither takes nor releases a lock while inside an access
    (an access is a single load or store of that thread).  Nothing else is assumed about
    the program: any number of threads, any order, any number of repetitions. *)
From Coq Require Import List Bool Arith String.
Import ListNotations.
Open Scope string_scope.

Inductive mode := Sh | Ex.
Definition lockid := string.
Definition locid := string.
Definition thread := nat.

Record access := mkAcc {
  fn : string;                    (* function the access occurs in (closures: the enclosing function) *)
  loc : locid;                    (* the field *)
  write : bool;
  atomic : bool;                  (* through sync/atomic *)
  held : list (lockid * mode);    (* locks held at the access *)
  prepub : bool                   (* on an object under construction, not yet published *)
}.
Definition table := list access.

Definition mode_eqb (a b : mode) : bool :=
  match a, b with Sh, Sh | Ex, Ex => true | _, _ => false end.
(** holding a lock in mode [have] satisfies a requirement [need] *)
Definition covers (have need : mode) : bool :=
  match need, have with Sh, _ => true | Ex, Ex => true | Ex, Sh => false end.

Record holding := mkHold { hthread : thread; hlock : lockid; hmode : mode }.
Record state := mkState { holds : list holding; inside : list (thread * access) }.
Definition init : state := mkState [] [].

Inductive label :=
| Acquire (t : thread) (m : lockid) (md : mode)
| Release (t : thread) (m : lockid)
| BeginAcc (t : thread) (i : nat)      (* i-th access of the table *)
| EndAcc (t : thread).

Definition on_lock (m : lockid) (h : holding) : bool := String.eqb (hlock h) m.
(** [Ex] needs nobody on [m]; [Sh] needs no [Ex] holder *)
Definition compatible (hs : list holding) (m : lockid) (md : mode) : bool :=
  match md with
  | Ex => forallb (fun h => negb (on_lock m h)) hs
  | Sh => forallb (fun h => negb (on_lock m h && mode_eqb (hmode h) Ex)) hs
  end.
Definition is_inside (t : thread) (ins : list (thread * access)) : bool :=
  existsb (fun p => Nat.eqb (fst p) t) ins.
Definition thread_holds (hs : list holding) (t : thread) (m : lockid) (need : mode) : bool :=
  existsb (fun h => Nat.eqb (hthread h) t && String.eqb (hlock h) m && covers (hmode h) need) hs.
Definition holds_all (hs : list holding) (t : thread) (req : list (lockid * mode)) : bool :=
  forallb (fun p => thread_holds hs t (fst p) (snd p)) req.

Fixpoint remove_first {A} (p : A -> bool) (l : list A) : option (list A) :=
  match l with
  | [] => None
  | x :: r => if p x then Some r
              else match remove_first p r with Some r' => Some (x :: r') | None => None end
  end.

Definition step (tbl : table) (s : state) (l : label) : option state :=
  match l with
  | Acquire t m md =>
      if negb (is_inside t (inside s)) && compatible (holds s) m md
      then Some (mkState (mkHold t m md :: holds s) (inside s)) else None
  | Release t m =>
      if is_inside t (inside s) then None
      else match remove_first (fun h => Nat.eqb (hthread h) t && String.eqb (hlock h) m) (holds s) with
           | Some hs => Some (mkState hs (inside s))
           | None => None
           end
  | BeginAcc t i =>
      match nth_error tbl i with
      | Some a => if negb (is_inside t (inside s)) && holds_all (holds s) t (held a)
                  then Some (mkState (holds s) ((t, a) :: inside s)) else None
      | None => None
      end
  | EndAcc t =>
      match remove_first (fun p => Nat.eqb (fst p) t) (inside s) with
      | Some ins => Some (mkState (holds s) ins)
      | None => None
      end
  end.

Fixpoint run (tbl : table) (s : state) (ls : list label) : option state :=
  match ls with
  | [] => Some s
  | l :: r => match step tbl s l with Some s' => run tbl s' r | None => None end
  end.
Definition reachable (tbl : table) (s : state) : Prop := exists ls, run tbl init ls = Some s.

(** two accesses that may not overlap *)
Definition conflict (a1 a2 : access) : bool :=
  String.eqb (loc a1) (loc a2) && (write a1 || write a2) && negb (atomic a1 && atomic a2)
  && negb (prepub a1) && negb (prepub a2).
(** A race: two different threads inside conflicting accesses at the same time. *)
Definition race (s : state) : Prop :=
  exists t1 a1 t2 a2, In (t1, a1) (inside s) /\ In (t2, a2) (inside s) /\ t1 <> t2 /\ conflict a1 a2 = true.
Definition race_b (s : state) : bool :=
  existsb (fun p1 => existsb (fun p2 => negb (Nat.eqb (fst p1) (fst p2)) && conflict (snd p1) (snd p2))
                             (inside s)) (inside s).

(** The discipline, per location, over the accesses made after publication:
    all atomic; or never written; or one lock held [Ex] by every write and at least [Sh] by every read. *)
Definition at_loc (l : locid) (a : access) : bool := negb (prepub a) && String.eqb (loc a) l.
Definition requires (a : access) (m : lockid) (need : mode) : bool :=
  existsb (fun p => String.eqb (fst p) m && covers (snd p) need) (held a).
Definition guarded_by (m : lockid) (a : access) : bool := requires a m (if write a then Ex else Sh).
Definition locks_of (A : list access) : list lockid := flat_map (fun a => map fst (held a)) A.
Definition loc_ok (tbl : table) (l : locid) : bool :=
  let A := filter (at_loc l) tbl in
  forallb atomic A || forallb (fun a => negb (write a)) A
  || existsb (fun m => forallb (guarded_by m) A) (locks_of A).
Definition check_discipline (tbl : table) : bool :=
  forallb (fun a => prepub a || loc_ok tbl (loc a)) tbl.
(** for reports: the locations on which the discipline fails *)
Definition failing_locs (tbl : table) : list locid :=
  nodup string_dec (map loc (filter (fun a => negb (prepub a || loc_ok tbl (loc a))) tbl)).

(** Scopes: a property names the functions that may run concurrently; only their accesses are checked. *)
Definition in_names (names : list string) (x : string) : bool := existsb (String.eqb x) names.
Definition restrict (scope : list string) (ignore_fields : list locid) (tbl : table) : table :=
  filter (fun a => in_names scope (fn a) && negb (in_names ignore_fields (loc a))) tbl.
