(** Go's unicode/utf8 as used by glb: DecodeRuneInString, the encoder, and the
    "each invalid byte becomes U+FFFD" sanitiser.  Bytes are [N] (< 256). No bit
    operations: comparisons and [*64 + ..] arithmetic so that [lia] closes goals. *)
From Coq Require Import List NArith Bool.
Import ListNotations.
Open Scope N_scope.

Fixpoint bytes_eqb (a b : list N) : bool :=
  match a, b with
  | [], [] => true
  | x :: a', y :: b' => (x =? y) && bytes_eqb a' b'
  | _, _ => false
  end.

Definition wf_bytes (s : list N) : bool := forallb (fun b => b <? 256) s.

Definition cont (b : N) : bool := (128 <=? b) && (b <? 192).
Definition RE : N := 65533.

(* decode returns (rune, size); invalid => (RE,1); size in 1..4 for non-empty input *)
Definition decode (s : list N) : N * nat :=
  match s with
  | [] => (RE, 0%nat)
  | b0 :: t =>
    if b0 <? 128 then (b0, 1%nat)
    else if b0 <? 194 then (RE, 1%nat)
    else if b0 <? 224 then
      match t with
      | b1 :: _ => if cont b1 then ((b0 - 192) * 64 + (b1 - 128), 2%nat) else (RE, 1%nat)
      | _ => (RE, 1%nat)
      end
    else if b0 <? 240 then
      match t with
      | b1 :: b2 :: _ =>
        if ((if b0 =? 224 then 160 else 128) <=? b1) && (b1 <? (if b0 =? 237 then 160 else 192)) && cont b2
        then ((b0 - 224) * 4096 + (b1 - 128) * 64 + (b2 - 128), 3%nat) else (RE, 1%nat)
      | _ => (RE, 1%nat)
      end
    else if b0 <? 245 then
      match t with
      | b1 :: b2 :: b3 :: _ =>
        if ((if b0 =? 240 then 144 else 128) <=? b1) && (b1 <? (if b0 =? 244 then 144 else 192)) && cont b2 && cont b3
        then ((b0 - 240) * 262144 + (b1 - 128) * 4096 + (b2 - 128) * 64 + (b3 - 128), 4%nat) else (RE, 1%nat)
      | _ => (RE, 1%nat)
      end
    else (RE, 1%nat)
  end.

Definition enc (c : N) : list N :=
  if c <? 128 then [c]
  else if c <? 2048 then [192 + c / 64; 128 + c mod 64]
  else if c <? 65536 then [224 + c / 4096; 128 + (c / 64) mod 64; 128 + c mod 64]
  else [240 + c / 262144; 128 + (c / 4096) mod 64; 128 + (c / 64) mod 64; 128 + c mod 64].

Definition invalid (d : N * nat) : bool := (fst d =? RE) && Nat.eqb (snd d) 1.


(** strings.ToValidUTF8(s, "\uFFFD") without run coalescing: every invalid byte becomes EF BF BD.
    Fuel = length s suffices (each step consumes at least one byte). *)
Fixpoint san (fuel : nat) (s : list N) : list N :=
  match fuel with
  | O => []
  | S f =>
    match s with
    | [] => []
    | b :: t =>
      if b <? 128 then b :: san f t else
      let d := decode s in
      if invalid d then 239 :: 191 :: 189 :: san f t
      else firstn (snd d) s ++ san f (skipn (snd d) s)
    end
  end.
Definition sanitize (s : list N) : list N := san (length s) s.
