(** Byte strings as [list N] and the few total helpers shared by the router
    specification (Lib/RouteSpec.v) and the router model (Model/Router.v). *)
From Coq Require Import List NArith Bool.
Import ListNotations.

Notation bytes := (list N) (only parsing).

Fixpoint bytes_eqb (a b : bytes) : bool :=
  match a, b with
  | [], [] => true
  | x :: a', y :: b' => (x =? y)%N && bytes_eqb a' b'
  | _, _ => false
  end.

Definition is_nil {A} (l : list A) : bool := match l with [] => true | _ => false end.

Fixpoint mem_bytes (x : bytes) (l : list bytes) : bool :=
  match l with
  | [] => false
  | y :: r => bytes_eqb y x || mem_bytes x r
  end.
