(** Table-level specification of the httpd router (no trie anywhere in this file).

    A route table is the list of registered (pattern, method) pairs; route ids are
    positions in that list.  [match_spec] says which route a request selects and what
    its parameters are bound to; [table_ok] says which registrations are accepted. *)
From Coq Require Import List NArith Bool.
Import ListNotations.
From Glb Require Import Lib.RouteBytes.
Local Open Scope N_scope.

(** ** Segments *)

(** [split_on sep s]: the maximal [sep]-free runs of [s], in order (always at least one). *)
Fixpoint split_on (sep : N) (s : bytes) : list bytes :=
  match s with
  | [] => [[]]
  | b :: r =>
    if (b =? sep)%N then [] :: split_on sep r
    else match split_on sep r with
         | f :: fs => (b :: f) :: fs
         | [] => [[b]]
         end
  end.

(** The router ignores the FIRST BYTE of a pattern and of a request path, whatever it is
    (["nolead/z"] registers like ["/olead/z"], request ["Xs/t"] matches like ["/s/t"]);
    the rest is split at '/' (47). *)
Definition segments (s : bytes) : list bytes := split_on 47 (tl s).

(** inverse of [split_on 47]: the text a run of segments stands for *)
Fixpoint join47 (segs : list bytes) : bytes :=
  match segs with
  | [] => []
  | s :: r => match r with [] => s | _ :: _ => s ++ 47 :: join47 r end
  end.

(** ** Patterns *)

Inductive pseg := PLit (s : bytes) | PParam (name : bytes) | PAny.

(** A pattern is the non-empty segments of the registered path up to and including the
    first ["*"]: empty segments (repeated or trailing slashes) and everything after ["*"]
    are ignored; a segment starting with ':' (58) is a parameter named by the rest. *)
Fixpoint pattern_of (segs : list bytes) : list pseg :=
  match segs with
  | [] => []
  | s :: r =>
    match s with
    | [] => pattern_of r
    | c :: n =>
      if bytes_eqb s [42] then [PAny]
      else if (c =? 58)%N then PParam n :: pattern_of r
      else PLit s :: pattern_of r
    end
  end.

Definition pattern (path : bytes) : list pseg := pattern_of (segments path).

(** the name under which [Store.RouteParamAny] finds the text bound by ["*"]: "/:any"
    (never a legal [:name], which cannot contain '/') *)
Definition any_name : bytes := [47;58;97;110;121].

Fixpoint param_names (pat : list pseg) : list bytes :=
  match pat with
  | [] => []
  | PParam n :: r => n :: param_names r
  | _ :: r => param_names r
  end.

(** names of the values a matched route binds, in binding order *)
Fixpoint pattern_names (pat : list pseg) : list bytes :=
  match pat with
  | [] => []
  | PLit _ :: r => pattern_names r
  | PParam n :: r => n :: pattern_names r
  | PAny :: r => any_name :: pattern_names r
  end.

Fixpoint nodup_bytes (l : list bytes) : bool :=
  match l with
  | [] => true
  | x :: r => negb (mem_bytes x r) && nodup_bytes r
  end.

(** every [:name] is non-empty and no name is repeated *)
Definition pattern_ok (pat : list pseg) : bool :=
  forallb (fun n => negb (is_nil n)) (param_names pat) && nodup_bytes (param_names pat).

(** ** Methods *)

Definition method_all : bytes := [42].
Definition methods : list bytes :=
  [ [71;69;84]; [72;69;65;68]; [80;79;83;84]; [80;85;84]; [80;65;84;67;72];
    [68;69;76;69;84;69]; [67;79;78;78;69;67;84]; [79;80;84;73;79;78;83]; [84;82;65;67;69];
    method_all ].
(*  GET         HEAD           POST           PUT        PATCH
    DELETE               CONNECT                 OPTIONS                 TRACE     "*" *)
Definition valid_method (m : bytes) : bool := mem_bytes m methods.

(** ** Registration *)

Notation route := (list N * list N)%type (only parsing).   (* registered path, method *)

(** two patterns that occupy the same place in the table: equal literals, a parameter
    where the other has a parameter (names do not matter), [*] where the other has [*] *)
Fixpoint same_shape (p q : list pseg) : bool :=
  match p, q with
  | [], [] => true
  | PLit s :: p', PLit t :: q' => bytes_eqb s t && same_shape p' q'
  | PParam _ :: p', PParam _ :: q' => same_shape p' q'
  | PAny :: p', PAny :: q' => same_shape p' q'
  | _, _ => false
  end.

Definition same_route (a b : route) : bool :=
  same_shape (pattern (fst a)) (pattern (fst b)) && bytes_eqb (snd a) (snd b).

(** [Handle] accepts a route iff its method is one of the ten, its parameter names are
    fine and no earlier route has the same shape and method. *)
Definition accepts (earlier : list route) (r : route) : bool :=
  valid_method (snd r) && pattern_ok (pattern (fst r)) && negb (existsb (same_route r) earlier).

Fixpoint table_ok_from (earlier rs : list route) : bool :=
  match rs with
  | [] => true
  | r :: rest => accepts earlier r && table_ok_from (earlier ++ [r]) rest
  end.
Definition table_ok (rs : list route) : bool := table_ok_from [] rs.

(** ** Dispatch *)

(** a candidate: a route that is still compatible with the part of the request read so far *)
Record cand := { c_id : nat; c_rest : list pseg; c_method : bytes; c_names : list bytes }.

Fixpoint cands_from (i : nat) (rs : list route) : list cand :=
  match rs with
  | [] => []
  | (p, m) :: rest =>
    {| c_id := i; c_rest := pattern p; c_method := m; c_names := pattern_names (pattern p) |}
    :: cands_from (S i) rest
  end.

Definition is_lit (seg : bytes) (c : cand) : bool :=
  match c_rest c with PLit s :: _ => bytes_eqb s seg | _ => false end.
Definition is_param (c : cand) : bool :=
  match c_rest c with PParam _ :: _ => true | _ => false end.
Definition is_any (c : cand) : bool :=
  match c_rest c with PAny :: _ => true | _ => false end.
Definition is_done (c : cand) : bool := is_nil (c_rest c).
Definition advance (c : cand) : cand :=
  {| c_id := c_id c; c_rest := tl (c_rest c); c_method := c_method c; c_names := c_names c |}.

(** Narrow the candidate set segment by segment, never backtracking.  An empty request
    segment is dropped unless it is the last one.  At each remaining segment: the
    candidates whose next pattern segment is that literal, if there are any; else the
    candidates with a [:param] there, binding the segment text; else the candidates with
    [*] there, binding the whole remainder (this segment and everything after it, slashes
    and empty segments included) and ending the walk; else nothing matches. *)
Fixpoint walk_spec (cs : list cand) (segs : list bytes) (vals : list bytes)
  : option (list cand * list bytes) :=
  match segs with
  | [] => Some (cs, vals)
  | s :: rest =>
    if is_nil s && negb (is_nil rest) then walk_spec cs rest vals
    else
      match filter (is_lit s) cs with
      | (_ :: _) as ls => walk_spec (map advance ls) rest vals
      | [] =>
        match filter is_param cs with
        | (_ :: _) as ps => walk_spec (map advance ps) rest (vals ++ [s])
        | [] =>
          match filter is_any cs with
          | (_ :: _) as zs => Some (map advance zs, vals ++ [join47 (s :: rest)])
          | [] => None
          end
        end
      end
  end.

Record smatch := { m_route : nat; m_names : list bytes; m_values : list bytes }.

(** among the candidates whose pattern is used up: the request's method exactly, else "*" *)
Definition finish_spec (cs : list cand) (method : bytes) (vals : list bytes) : option smatch :=
  let fin := filter is_done cs in
  let mk c := {| m_route := c_id c; m_names := c_names c; m_values := vals |} in
  match find (fun c => bytes_eqb (c_method c) method) fin with
  | Some c => Some (mk c)
  | None =>
    match find (fun c => bytes_eqb (c_method c) method_all) fin with
    | Some c => Some (mk c)
    | None => None
    end
  end.

Definition walk_finish (cs : list cand) (segs : list bytes) (method : bytes) : option smatch :=
  match walk_spec cs segs [] with
  | Some (cs', vals) => finish_spec cs' method vals
  | None => None
  end.

(** [segs] is [segments path].  A path of at most one byte ([segs = [[]]]: "", "/", "x")
    is first offered to the routes with the empty pattern ("/" itself); only if none of
    them takes the method is it walked like every other path, as one final empty segment. *)
Definition match_spec (routes : list route) (segs : list bytes) (method : bytes) : option smatch :=
  let cs := cands_from 0%nat routes in
  match segs with
  | [ [] ] =>
    match finish_spec cs method [] with
    | Some m => Some m
    | None => walk_finish cs segs method
    end
  | _ => walk_finish cs segs method
  end.

(** what a handler reads: the value bound to [name] by the match, "" if the route has no
    such parameter (and for the no-route handler) *)
Fixpoint lookup_param (names values : list bytes) (name : bytes) : bytes :=
  match names, values with
  | n :: ns, v :: vs => if bytes_eqb n name then v else lookup_param ns vs name
  | _, _ => []
  end.

(** ** Rejected registrations that the caller recovers from

    [Handle] panics on a rejected route.  A caller that recovers keeps a Mux in which the rejected pattern has left its
    mark: parseRoute creates the trie nodes of the segments it has read before it meets the empty or repeated [:name].
    At table level such a GHOST is a candidate that can be narrowed to like any route up to that point and can never be
    selected: its pattern is the prefix read so far followed by a segment no request can contain ("/").  Unknown methods
    and duplicates are detected without creating anything and leave no ghost.  (C04 quantifies over tables whose
    registrations all succeeded, [match_spec]; C05's histories may contain rejected ones, [match_spec_g].) *)
Fixpoint residue_prefix (seen : list bytes) (pat : list pseg) : list pseg :=
  match pat with
  | [] => []
  | PParam n :: r => if is_nil n || mem_bytes n seen then [] else PParam n :: residue_prefix (n :: seen) r
  | x :: r => x :: residue_prefix seen r
  end.
Definition never_seg : bytes := [47].
Definition ghost_of (r : route) : option (list pseg) :=
  if valid_method (snd r) && negb (pattern_ok (pattern (fst r)))
  then Some (residue_prefix [] (pattern (fst r)) ++ [PLit never_seg])
  else None.
Definition ghost_cand (g : list pseg) : cand :=
  {| c_id := 0%nat; c_rest := g; c_method := []; c_names := [] |}.

Definition match_cands (cs : list cand) (segs : list bytes) (method : bytes) : option smatch :=
  match segs with
  | [ [] ] =>
    match finish_spec cs method [] with
    | Some m => Some m
    | None => walk_finish cs segs method
    end
  | _ => walk_finish cs segs method
  end.
Definition match_spec_g (routes : list route) (ghosts : list (list pseg)) (segs : list bytes) (method : bytes)
  : option smatch :=
  match_cands (cands_from 0%nat routes ++ map ghost_cand ghosts) segs method.
