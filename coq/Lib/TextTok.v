(** The key=value line tokenizer: the *specification* C13 is judged against.

    A line body (without the final newline) is one or more tokens separated by single
    spaces.  A token is [item '=' item].  An item is
    - QUOTED when it starts with DQUOTE: a Go double-quoted string literal
      (strconv.Unquote, Lib/GoQuote.v); its value is the unquoted bytes; or
    - BARE otherwise: the bytes up to the next ' ' or '=' or the end.  A bare item must
      be non-empty and free of ASCII control bytes (< 0x20, so no newline / tab), of
      DQUOTE and - read as UTF-8 - of every rune for which [isSpace] holds.
    Reading is left to right and deterministic; anything else is rejected ([None]).

    [isSpace] is unicode.IsSpace on runes >= 0x80 (an oracle; the ASCII part is concrete). *)
From Coq Require Import List NArith Bool.
Import ListNotations.
From Glb Require Import Lib.Utf8 Lib.GoQuote.
Open Scope N_scope.

Definition bytes := list N.

(** ---- abstract log inputs ---- *)
Inductive value :=
| VStr (s : bytes)
| VVerbatim (s : bytes)
| VGroup (ms : list (bytes * value)).

Definition attr := (bytes * value)%type.

Inductive level := LDebug | LInfo | LWarn | LError | LFatal.

(** what one Handle call gets: r.Time rendered RFC3339 (oracle text), r.Level,
    when addSource is on the frame of r.PC as (full f.File, decimal text of f.Line),
    r.Message, r.Attrs *)
Record record := mkRecord {
  time_txt : bytes;
  lvl : level;
  src : option (bytes * bytes);
  msg : bytes;
  attrs : list attr
}.

(** one step of a With / WithGroup chain *)
Inductive deriv := DAttrs (l : list attr) | DGroup (name : bytes).

Definition is_empty (s : bytes) : bool := match s with [] => true | _ => false end.

(** the five level names (labelList[l+2] in level.go, colour off) *)
Definition level_text (l : level) : bytes :=
  match l with
  | LDebug => [68; 69; 66; 85; 71]
  | LInfo => [73; 78; 70; 79]
  | LWarn => [87; 65; 82; 78]
  | LError => [69; 82; 82; 79; 82]
  | LFatal => [70; 65; 84; 65; 76]
  end.


(** the bytes up to the next ' ' or '=' *)
Fixpoint bare_span (s : bytes) : bytes * bytes :=
  match s with
  | [] => ([], [])
  | b :: t =>
    if (b =? 32) || (b =? 61) then ([], s)
    else let p := bare_span t in (b :: fst p, snd p)
  end.

Section Tok.
  Variable isSpace : N -> bool.   (* unicode.IsSpace on runes >= 0x80 *)

  (** no control byte, no ' ', '=', DQUOTE, no Unicode space; fuel = length s suffices *)
  Fixpoint bare_ok_go (fuel : nat) (s : bytes) : bool :=
    match fuel with
    | O => true
    | S f =>
      match s with
      | [] => true
      | b :: t =>
        if b <? 128 then
          negb (b <? 32) && negb (b =? 32) && negb (b =? 61) && negb (b =? 34) && bare_ok_go f t
        else
          let d := decode s in
          negb (isSpace (fst d)) && bare_ok_go f (skipn (snd d) s)
      end
    end.

  Definition bare_ok (s : bytes) : bool := bare_ok_go (length s) s.

  Definition is_bare (s : bytes) : bool :=
    match s with [] => false | _ => bare_ok s end.

  (** one item at the start of [s]: its value and the rest *)
  Definition parse_item (s : bytes) : option (bytes * bytes) :=
    match s with
    | [] => None
    | b :: _ =>
      if b =? 34 then unquote_prefix s
      else let p := bare_span s in if is_bare (fst p) then Some p else None
    end.

  (** item '=' item *)
  Definition parse_token (s : bytes) : option ((bytes * bytes) * bytes) :=
    match parse_item s with
    | None => None
    | Some (k, r1) =>
      match r1 with
      | [] => None
      | c :: r2 =>
        if c =? 61 then
          match parse_item r2 with
          | None => None
          | Some (v, r3) => Some ((k, v), r3)
          end
        else None
      end
    end.

  (** tokens separated by single spaces; every token consumes at least 3 bytes, so
      fuel = S (length s) suffices *)
  Fixpoint tokenize_go (fuel : nat) (s : bytes) : option (list (bytes * bytes)) :=
    match fuel with
    | O => None
    | S f =>
      match parse_token s with
      | None => None
      | Some (kv, rest) =>
        match rest with
        | [] => Some [kv]
        | c :: r =>
          if c =? 32 then
            match tokenize_go f r with
            | Some l => Some (kv :: l)
            | None => None
            end
          else None
        end
      end
    end.

  Definition tokenize (s : bytes) : option (list (bytes * bytes)) := tokenize_go (S (length s)) s.
End Tok.

(** [a.b.c] *)
Fixpoint join_dot (l : list bytes) : bytes :=
  match l with
  | [] => []
  | [a] => a
  | a :: r => a ++ 46 :: join_dot r
  end.

(** ---- hypotheses on the abstract input ---- *)

(** wf of the abstract input: every byte < 256; oracle texts (time, verbatim values) are
    bare items; group names of the chain are non-empty *)
Section Wf.
  Variable isSpace : N -> bool.
  Fixpoint wf_value (v : value) : bool :=
    match v with
    | VStr s => wf_bytes s
    | VVerbatim s => wf_bytes s && is_bare isSpace s
    | VGroup ms =>
      (fix go (ms : list (bytes * value)) : bool :=
         match ms with
         | [] => true
         | (k, v') :: r => wf_bytes k && wf_value v' && go r
         end) ms
    end.
  Definition wf_attrs (l : list attr) : bool := forallb (fun a : attr => wf_bytes (fst a) && wf_value (snd a)) l.
  Definition wf_deriv (d : deriv) : bool :=
    match d with
    | DAttrs l => wf_attrs l
    | DGroup n => wf_bytes n && negb (is_empty n)
    end.
  Definition wf_chain (c : list deriv) : bool := forallb wf_deriv c.
  Definition wf_record (r : record) : bool :=
    wf_bytes (time_txt r) && is_bare isSpace (time_txt r)
    && (match src r with Some s => wf_bytes (fst s) && wf_bytes (snd s) | None => true end)
    && wf_bytes (msg r) && wf_attrs (attrs r).
End Wf.

(** ---- what a line must say ---- *)

(** the (dotted path, value text) pairs of one attribute below the open path [path]:
    groups contribute their key to the path unless it is empty (inline group) *)
Fixpoint leaves (path : list bytes) (key : bytes) (v : value) {struct v} : list (bytes * bytes) :=
  match v with
  | VStr s => [(join_dot (path ++ [key]), s)]
  | VVerbatim s => [(join_dot (path ++ [key]), s)]
  | VGroup ms =>
    let path' := if is_empty key then path else path ++ [key] in
    (fix go (ms : list (bytes * value)) : list (bytes * bytes) :=
       match ms with
       | [] => []
       | (k, v') :: r => leaves path' k v' ++ go r
       end) ms
  end.

Definition attrs_pairs (path : list bytes) (l : list attr) : list (bytes * bytes) :=
  flat_map (fun a : attr => leaves path (fst a) (snd a)) l.

(** pairs contributed by a With / WithGroup chain, and the group names open at its end *)
Fixpoint chain_pairs (path : list bytes) (chain : list deriv) : list (bytes * bytes) * list bytes :=
  match chain with
  | [] => ([], path)
  | DAttrs l :: c => let r := chain_pairs path c in (attrs_pairs path l ++ fst r, snd r)
  | DGroup n :: c => chain_pairs (path ++ [n]) c
  end.

Definition k_time : bytes := [116; 105; 109; 101].
Definition k_level : bytes := [108; 101; 118; 101; 108].
Definition k_source : bytes := [115; 111; 117; 114; 99; 101].
Definition k_msg : bytes := [109; 115; 103].

(** the caller's place as the line states it: the last two elements of the file path
    (what follows its second-last '/'; the whole path without a leading '/' when there
    are fewer), ':' and the line number.  Read off the reversed path. *)
Fixpoint rtake (slashes : nat) (r : bytes) : bytes :=
  match r with
  | [] => []
  | b :: t =>
    if b =? 47 then match slashes with O => [] | S k => b :: rtake k t end
    else b :: rtake slashes t
  end.
Definition last_two (file : bytes) : bytes :=
  let l := rev (rtake 1 (rev file)) in
  match l with
  | [] => []
  | b :: t => if (b =? 47) && Nat.eqb (length l) (length file) then t else l
  end.
Definition source_value (s : bytes * bytes) : bytes := last_two (fst s) ++ 58 :: snd s.

Definition expected_pairs (chain : list deriv) (r : record) : list (bytes * bytes) :=
  let c := chain_pairs [] chain in
  (k_time, time_txt r) :: (k_level, level_text (lvl r))
  :: (match src r with Some s => [(k_source, source_value s)] | None => [] end)
  ++ (k_msg, msg r) :: fst c ++ attrs_pairs (snd c) (attrs r).
