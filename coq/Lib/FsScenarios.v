(** The concrete file systems the C18 correspondence check replays: one source file, one
    destination path of a given kind, one third-party file.  Built as data for the model of
    Model/FileOps.v; [scenario_wf] (Proofs/FileOpsP.v) shows the C18 theorems apply to each. *)
From Coq Require Import List NArith Bool.
Import ListNotations.
From Glb Require Import Model.FileOps.
Open Scope N_scope.

Inductive dkind :=
  | KMissing          (* destination does not exist *)
  | KOther            (* an existing, different regular file *)
  | KSamePath         (* the very same path as the source *)
  | KDotSpelling      (* the source path spelled with "./" or "//" in it *)
  | KSymlinkToSrc     (* a symbolic link to the source *)
  | KHardlink         (* a second hard link to the source's inode *)
  | KDir              (* an existing directory *)
  | KParentMissing    (* the destination's directory does not exist *)
  | KParentFile       (* the destination's "directory" is a regular file *)
  | KSymlinkToOther   (* a symbolic link to a different regular file *)
  (* fault scenarios: a real failure of one system call, without hooks *)
  | KDevFull          (* /dev/full: a device on a third file system; create succeeds, every write fails with ENOSPC *)
  | KSymlinkDevFull   (* a symbolic link to /dev/full *)
  | KNoWriteDir       (* missing destination in a directory without write permission: rename and create fail *)
  | KSrcUnreadable.   (* missing destination, source without read permission: open fails *)

Definition kind_of_N (k : N) : dkind :=
  if k =? 0 then KMissing else if k =? 1 then KOther else if k =? 2 then KSamePath
  else if k =? 3 then KDotSpelling else if k =? 4 then KSymlinkToSrc else if k =? 5 then KHardlink
  else if k =? 6 then KDir else if k =? 7 then KParentMissing else if k =? 8 then KParentFile
  else if k =? 9 then KSymlinkToOther else if k =? 10 then KDevFull else if k =? 11 then KSymlinkDevFull
  else if k =? 12 then KNoWriteDir else KSrcUnreadable.

Definition src_path : N := 0.
Definition tmp_path : N := 4.   (* the temporary name of the replace strategy, in the destination's directory *)
Definition third_path : N := 3.
Definition dst_path (k : dkind) : N := match k with KSamePath | KDotSpelling => 0 | _ => 1 end.

Definition other_content : list N := [2; 2].
Definition third_content : list N := [3; 3; 3].

(** slots: 0 source, 1 destination, 2 the file a symlink destination points to, 3 third party;
    devices: 0 the source's, 1 the other one, 2 the one /dev/full lives on;
    inodes: 0 source, 1 the other file or directory, 2 third party *)
Definition scenario (k : dkind) (otherdev srcmissing : bool) (c : list N) : fs :=
  let d := if otherdev then 1 else 0 in
  mkFs
    (fun e =>
       if e =? 0 then (if srcmissing then Empty else Link 0)
       else if e =? 1 then
         match k with
         | KOther | KDir | KDevFull => Link 1
         | KSymlinkToSrc => Sym 0
         | KHardlink => Link 0
         | KSymlinkToOther | KSymlinkDevFull => Sym 2
         | _ => Empty
         end
       else if e =? 2 then match k with KSymlinkToOther | KSymlinkDevFull => Link 1 | _ => Empty end
       else if e =? 3 then Link 2
       else Empty)
    (fun i =>
       if i =? 0 then Some (File c)
       else if i =? 1 then Some (match k with KDir => Dir | _ => File other_content end)
       else if i =? 2 then Some (File third_content)
       else None)
    3
    (fun e =>
       if (e =? 1) || ((e =? 4) && (dst_path k =? 1)) then match k with KParentMissing => PMissing | KParentFile => PNotDir | KDevFull => POk 2 | _ => POk d end
       else if e =? 2 then match k with KSymlinkDevFull => POk 2 | _ => POk d end
       else POk 0).

(** the fault a scenario provokes: which call fails, and how *)
Definition scenario_faults (replace : bool) (k : dkind) : faults :=
  fun st =>
    match k, st with
    | KDevFull, SCopy | KSymlinkDevFull, SCopy =>
        (* the device fails every write; the replace strategy writes its temporary file, not the device *)
        if replace then Pass else Short 0 ENOSPC
    | KNoWriteDir, STmpRename => Fail EACCES
    | KNoWriteDir, SRename | KNoWriteDir, SCreate => Fail EACCES
    | KSrcUnreadable, SOpen => Fail EACCES
    | _, _ => Pass
    end.

(** are the two paths names of one file (no copy can be made, a move has nothing to do)? *)
Definition is_alias (k : dkind) : bool :=
  match k with KSamePath | KDotSpelling | KSymlinkToSrc | KHardlink => true | _ => false end.

(** what CopyFile — before and after the repair — answers on an aliasing scenario with a three-byte
    source: (returned nil?, what the source reads as afterwards) *)
Definition old_outcome (k : dkind) : bool * option (list N) :=
  let (s', r) := copy_file_old (scenario k false false [1; 2; 3]) src_path (dst_path k) in
  (match r with None => true | _ => false end, read_path s' src_path).
Definition new_outcome (k : dkind) : bool * option (list N) :=
  let (s', r) := copy_file (scenario k false false [1; 2; 3]) src_path (dst_path k) in
  (match r with None => true | _ => false end, read_path s' src_path).
