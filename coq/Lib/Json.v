(** Json — the specification object of C01: a JSON AST and a STRICT RFC 8259 parser.

    The parser is executable (fuel) and strict: raw control bytes (< 0x20) inside strings,
    lone surrogates in [\u] escapes, unknown escapes, leading zeros / malformed numbers,
    trailing commas and (at top level) trailing garbage are all rejected.  Valid
    [\uD8xx\uDCxx] pairs are combined.  One leniency, the one of encoding/json's decoder and the
    one the property talks about: a byte that is not part of a valid UTF-8 sequence (Go's
    definition: overlongs, surrogates, > U+10FFFF, truncations) INSIDE A STRING reads as
    U+FFFD (EF BF BD) and the scan advances by one byte; the decoded strings are therefore
    always valid UTF-8.  Invalid bytes outside strings are syntax errors.
    Whitespace (space, TAB, LF, CR) is accepted wherever RFC 8259 allows it.
    Object members are kept in order, duplicates included.

    Fuel: [parse_value fuel] — [fuel] bounds the NESTING DEPTH only; the loops over
    members / elements take the length of the remaining input as their own fuel, and the
    string scanner likewise.  [length s] is always enough fuel for [s] (see
    [Proofs/JsonP.v]: monotonicity in both fuels). *)
From Coq Require Import List NArith Bool.
Import ListNotations.
From Glb Require Import Lib.Utf8.
Open Scope N_scope.

Notation bytes := (list N) (only parsing).

Inductive jval :=
| JStr (s : list N)             (* decoded string, UTF-8 *)
| JNum (t : list N)             (* the number's text *)
| JTrue | JFalse | JNull
| JArr (l : list jval)
| JObj (m : list (list N * jval)).

(** ** whitespace *)
Definition is_ws (b : N) : bool := (b =? 32) || (b =? 9) || (b =? 10) || (b =? 13).
Fixpoint skip_ws (s : list N) : list N :=
  match s with
  | b :: t => if is_ws b then skip_ws t else s
  | [] => []
  end.

(** ** strings *)
Definition unhex (b : N) : option N :=
  if (48 <=? b) && (b <? 58) then Some (b - 48)
  else if (97 <=? b) && (b <? 103) then Some (b - 87)
  else if (65 <=? b) && (b <? 71) then Some (b - 55)
  else None.

Definition hex4 (s : list N) : option (N * list N) :=
  match s with
  | h1 :: h2 :: h3 :: h4 :: t =>
    match unhex h1, unhex h2, unhex h3, unhex h4 with
    | Some a, Some b, Some c, Some d => Some (a * 4096 + b * 256 + c * 16 + d, t)
    | _, _, _, _ => None
    end
  | _ => None
  end.

Definition is_hi_surr (c : N) : bool := (55296 <=? c) && (c <? 56320).
Definition is_lo_surr (c : N) : bool := (56320 <=? c) && (c <? 57344).

(** after [\u]: the code point and the rest; a high surrogate must be followed by
    [\u] + low surrogate; a lone low / high surrogate is rejected *)
Definition uescape (s : list N) : option (N * list N) :=
  match hex4 s with
  | Some (c, t) =>
    if is_lo_surr c then None
    else if is_hi_surr c then
      match t with
      | b1 :: b2 :: t' =>
        if (b1 =? 92) && (b2 =? 117) then
          match hex4 t' with
          | Some (c2, t'') => if is_lo_surr c2 then Some (65536 + (c - 55296) * 1024 + (c2 - 56320), t'') else None
          | None => None
          end
        else None
      | _ => None
      end
    else Some (c, t)
  | None => None
  end.

(** one escape after the backslash: decoded bytes and the rest *)
Definition escape1 (s : list N) : option (list N * list N) :=
  match s with
  | e :: t =>
    if e =? 34 then Some ([34], t) else if e =? 92 then Some ([92], t) else if e =? 47 then Some ([47], t)
    else if e =? 98 then Some ([8], t) else if e =? 102 then Some ([12], t) else if e =? 110 then Some ([10], t)
    else if e =? 114 then Some ([13], t) else if e =? 116 then Some ([9], t)
    else if e =? 117 then match uescape t with Some (c, t') => Some (enc c, t') | None => None end
    else None
  | [] => None
  end.

(** string body: input just after the opening quote; result: decoded bytes, rest after the closing quote *)
Fixpoint psb (fuel : nat) (s : list N) : option (list N * list N) :=
  match fuel with
  | O => None
  | S f =>
    match s with
    | [] => None
    | b :: t =>
      if b =? 34 then Some ([], t)
      else if b =? 92 then
        match escape1 t with
        | Some (bs, r) => match psb f r with Some (o, r') => Some (bs ++ o, r') | None => None end
        | None => None
        end
      else if b <? 32 then None
      else if b <? 128 then match psb f t with Some (o, r') => Some (b :: o, r') | None => None end
      else
        let d := decode s in
        if invalid d then                      (* like encoding/json's decoder: one invalid byte reads as U+FFFD *)
          match psb f t with Some (o, r') => Some (239 :: 191 :: 189 :: o, r') | None => None end
        else match psb f (skipn (snd d) s) with
             | Some (o, r') => Some (firstn (snd d) s ++ o, r')
             | None => None
             end
    end
  end.
Definition parse_string_body (s : list N) : option (list N * list N) := psb (S (length s)) s.

(** ** numbers: optional minus; 0 or a nonzero digit and digits; optional fraction (dot, digits+); optional exponent (e|E, sign?, digits+) *)
Definition is_digit (b : N) : bool := (48 <=? b) && (b <=? 57).
Fixpoint span_digits (s : list N) : list N * list N :=
  match s with
  | d :: t => if is_digit d then let (a, r) := span_digits t in (d :: a, r) else ([], s)
  | [] => ([], [])
  end.

Definition num_sign (s : list N) : list N * list N :=
  match s with b :: t => if b =? 45 then ([45], t) else ([], s) | [] => ([], s) end.
Definition num_int (s : list N) : option (list N * list N) :=
  match s with
  | d :: t => if is_digit d then
                if d =? 48 then Some ([48], t) else let (a, r) := span_digits t in Some (d :: a, r)
              else None
  | [] => None
  end.
Definition num_frac (s : list N) : option (list N * list N) :=
  match s with
  | p :: t => if p =? 46 then
                let (a, r) := span_digits t in match a with [] => None | _ => Some (46 :: a, r) end
              else Some ([], s)
  | [] => Some ([], s)
  end.
Definition num_exp (s : list N) : option (list N * list N) :=
  match s with
  | e :: t => if (e =? 101) || (e =? 69) then
                let (sg, t') := match t with
                                | g :: u => if (g =? 43) || (g =? 45) then ([g], u) else ([], t)
                                | [] => ([], t)
                                end in
                let (a, r) := span_digits t' in match a with [] => None | _ => Some (e :: sg ++ a, r) end
              else Some ([], s)
  | [] => Some ([], s)
  end.
Definition parse_number (s : list N) : option (list N * list N) :=
  let (sg, s1) := num_sign s in
  match num_int s1 with
  | Some (ip, s2) =>
    match num_frac s2 with
    | Some (fp, s3) =>
      match num_exp s3 with
      | Some (ep, s4) => Some (sg ++ ip ++ fp ++ ep, s4)
      | None => None
      end
    | None => None
    end
  | None => None
  end.

(** literal tail: [lit_tail w v s] = [s] must start with the bytes [w] *)
Fixpoint strip_prefix (w s : list N) : option (list N) :=
  match w with
  | [] => Some s
  | x :: w' => match s with y :: s' => if x =? y then strip_prefix w' s' else None | [] => None end
  end.

(** ** members and elements, parametrised by the value parser one nesting level down *)
Section Loops.
  Variable pv : list N -> option (jval * list N).

  (** [mloop n s]: [s] starts (after whitespace) with a member ["key" : value], followed by [,] + more members or [}] *)
  Fixpoint mloop (n : nat) (s : list N) : option (list (list N * jval) * list N) :=
    match n with
    | O => None
    | S n' =>
      match skip_ws s with
      | b :: t =>
        if b =? 34 then
          match parse_string_body t with
          | Some (k, r1) =>
            match skip_ws r1 with
            | c :: r2 =>
              if c =? 58 then
                match pv r2 with
                | Some (v, r3) =>
                  match skip_ws r3 with
                  | d :: r4 =>
                    if d =? 44 then match mloop n' r4 with Some (ms, r5) => Some ((k, v) :: ms, r5) | None => None end
                    else if d =? 125 then Some ([(k, v)], r4)
                    else None
                  | [] => None
                  end
                | None => None
                end
              else None
            | [] => None
            end
          | None => None
          end
        else None
      | [] => None
      end
    end.

  (** after a member's value: [,] + members, or [}] *)
  Definition mtail (n : nat) (s : list N) : option (list (list N * jval) * list N) :=
    match skip_ws s with
    | d :: r => if d =? 44 then mloop n r else if d =? 125 then Some ([], r) else None
    | [] => None
    end.

  (** just after [{] *)
  Definition ostart (n : nat) (s : list N) : option (list (list N * jval) * list N) :=
    match skip_ws s with
    | c :: r => if c =? 125 then Some ([], r) else mloop n s
    | [] => None
    end.

  Fixpoint aloop (n : nat) (s : list N) : option (list jval * list N) :=
    match n with
    | O => None
    | S n' =>
      match pv s with
      | Some (v, r1) =>
        match skip_ws r1 with
        | d :: r2 =>
          if d =? 44 then match aloop n' r2 with Some (l, r3) => Some (v :: l, r3) | None => None end
          else if d =? 93 then Some ([v], r2)
          else None
        | [] => None
        end
      | None => None
      end
    end.

  (** just after [[] *)
  Definition astart (n : nat) (s : list N) : option (list jval * list N) :=
    match skip_ws s with
    | c :: r => if c =? 93 then Some ([], r) else aloop n s
    | [] => None
    end.
End Loops.

Fixpoint parse_value (fuel : nat) (s : list N) : option (jval * list N) :=
  match fuel with
  | O => None
  | S f =>
    match skip_ws s with
    | [] => None
    | b :: t =>
      if b =? 34 then match parse_string_body t with Some (x, r) => Some (JStr x, r) | None => None end
      else if b =? 123 then match ostart (parse_value f) (length t) t with Some (ms, r) => Some (JObj ms, r) | None => None end
      else if b =? 91 then match astart (parse_value f) (length t) t with Some (l, r) => Some (JArr l, r) | None => None end
      else if b =? 116 then match strip_prefix [114; 117; 101] t with Some r => Some (JTrue, r) | None => None end
      else if b =? 102 then match strip_prefix [97; 108; 115; 101] t with Some r => Some (JFalse, r) | None => None end
      else if b =? 110 then match strip_prefix [117; 108; 108] t with Some r => Some (JNull, r) | None => None end
      else match parse_number (b :: t) with Some (txt, r) => Some (JNum txt, r) | None => None end
    end
  end.

(** ** top level: exactly one value, optional whitespace around it, nothing else *)
Definition parse_json (s : list N) : option jval :=
  match parse_value (length s) s with
  | Some (v, r) => match skip_ws r with [] => Some v | _ => None end
  | None => None
  end.

(** exactly one JSON OBJECT; the result shape [(value, rest)] with [rest = []] is kept so that
    statements read "the whole text was consumed" *)
Definition parse_object (s : list N) : option (jval * list N) :=
  match parse_value (length s) s with
  | Some (JObj ms, r) => match skip_ws r with [] => Some (JObj ms, []) | _ => None end
  | _ => None
  end.

(** exactly one value and NO trailing bytes at all (what [encoding/json]'s encoder emits, minus its newline) *)
Definition parse_exact (s : list N) : option jval :=
  match parse_value (length s) s with
  | Some (v, []) => Some v
  | _ => None
  end.
