(** Source facts about the request counter of httpd.Mux (extracted by gen/c05counter on every run) and the
    discipline C05 demands of them: the counter is 64 bits wide and the value rendered into the request id is the
    untruncated result of the one atomic increment.  This discharges, for the source at hand, the hypothesis
    "the counter has not wrapped: ticket < 2^64" under which C05_ids_unique is stated — a narrower counter
    (uint32, [% n], a mask, a conversion) would wrap within reach and is rejected here, not by any test. *)
From Coq Require Import String NArith Bool.
Local Open Scope string_scope.

Record fact := {
  cf_field_type : string;   (* declared type of the Mux field f that is incremented, package names resolved to import paths *)
  cf_shape : string;        (* what is rendered into the id: "AddUint64" = atomic.AddUint64(&mux.f, d) | "MethodAdd" = mux.f.Add(d),
                               directly or through uint64(...), one local assigned once, a uint64 parameter with one call site, or the
                               result of a one-line accessor (gen/c05counter) | "AddInt64" | "other" | "none" *)
  cf_delta : string;        (* d *)
  cf_base : string;         (* base of the rendering: reported, not a width matter (the dynamic check sees the digits) *)
  cf_renderings : nat;      (* counter-related strconv.AppendUint / FormatUint calls reachable from ServeHTTP *)
  cf_uses : nat             (* mentions x.f in package httpd *)
}.

(** bits of the counter as declared; 0 = not a recognised 64-bit counter *)
Definition counter_width (f : fact) : N :=
  if String.eqb (cf_field_type f) "uint64" || String.eqb (cf_field_type f) "sync/atomic.Uint64"
     || String.eqb (cf_field_type f) "int64" || String.eqb (cf_field_type f) "sync/atomic.Int64" then 64%N else 0%N.

Definition check_counter (f : fact) : bool :=
  (counter_width f =? 64)%N
  && ((String.eqb (cf_field_type f) "uint64" && String.eqb (cf_shape f) "AddUint64")
      || (String.eqb (cf_field_type f) "sync/atomic.Uint64" && String.eqb (cf_shape f) "MethodAdd")
      (* a signed 64-bit counter reaches the rendering only through uint64(...), a bijection: 2^64 distinct values too *)
      || (String.eqb (cf_field_type f) "int64" && String.eqb (cf_shape f) "AddInt64")
      || (String.eqb (cf_field_type f) "sync/atomic.Int64" && String.eqb (cf_shape f) "MethodAdd"))
  && String.eqb (cf_delta f) "1"
  && Nat.eqb (cf_renderings f) 1
  && Nat.eqb (cf_uses f) 1.     (* the increment is the only access: nothing resets or reads the counter elsewhere *)
