(** JsonDec — Go's [strconv.AppendUint(_, n, 10)] / [strconv.AppendInt(_, z, 10)] on [N] / [Z],
    and the reader [of_dec] used to state that the printed text denotes the number. *)
From Coq Require Import List NArith ZArith Bool.
Import ListNotations.
Open Scope N_scope.

(** most significant digit first; [fuel] = number of digits available *)
Fixpoint udec (fuel : nat) (n : N) : list N :=
  match fuel with
  | O => []
  | S f => (if n / 10 =? 0 then [] else udec f (n / 10)) ++ [48 + n mod 10]
  end.

(** a number below 2^k has at most k (>= its number of decimal) digits *)
Definition to_dec (n : N) : list N := udec (S (N.to_nat (N.size n))) n.

Definition to_dec_z (z : Z) : list N :=
  match z with
  | Zneg p => 45 :: to_dec (Npos p)
  | _ => to_dec (Z.to_N z)
  end.

Definition of_dec (s : list N) : N := fold_left (fun a d => a * 10 + (d - 48)) s 0.
Definition of_dec_z (s : list N) : Z :=
  match s with
  | b :: t => if b =? 45 then Z.opp (Z.of_N (of_dec t)) else Z.of_N (of_dec s)
  | [] => 0%Z
  end.
