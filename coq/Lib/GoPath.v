(** GoPath — Go's [path.Clean], POSIX [filepath.Clean] / [filepath.Join] on byte strings,
    and the specification vocabulary for "lies beneath a directory".

    [path.Clean] (and [filepath.Clean] on a POSIX system, where the volume name is empty,
    the separator is '/' and [FromSlash] is the identity) scans the path once with a write
    buffer and a [dotdot] mark.  That is the same as: split at '/', run the segments
    through a stack (""/"." skipped; ".." pops an ordinary segment, is dropped at the root
    of a rooted path, is pushed on a relative path whose stack holds only ".."s), render.
    Bytes are [N]; '/' = 47, '.' = 46. *)
From Coq Require Import List NArith Bool.
Import ListNotations.
Open Scope N_scope.

Notation seg := (list N) (only parsing).

(** ** splitting at '/' : [segments "a//b" = ["a"; ""; "b"]], [segments "" = [""]] *)
Fixpoint split (s : list N) : seg * list seg :=
  match s with
  | [] => ([], [])
  | b :: r => let (h, t) := split r in if b =? 47 then ([], h :: t) else (b :: h, t)
  end.
Definition segments (s : list N) : list seg := let (h, t) := split s in h :: t.

(** strings.Join(l, "/") *)
Fixpoint intercalate (l : list seg) : list N :=
  match l with
  | [] => []
  | h :: t => match t with [] => h | _ => h ++ 47 :: intercalate t end
  end.

Definition is_empty (s : seg) : bool := match s with [] => true | _ => false end.
Definition is_dot (s : seg) : bool := match s with [a] => a =? 46 | _ => false end.
Definition is_dotdot (s : seg) : bool := match s with [a; b] => (a =? 46) && (b =? 46) | _ => false end.
Definition noslashb (s : seg) : bool := forallb (fun b => negb (b =? 47)) s.

(** ** the stack machine; the stack has its top at the head *)
Definition step (rooted : bool) (st : list seg) (s : seg) : list seg :=
  if is_empty s || is_dot s then st
  else if is_dotdot s then
    match st with
    | t :: st' => if negb rooted && is_dotdot t then s :: st else st'
    | [] => if rooted then [] else [s]
    end
  else s :: st.

Definition run (rooted : bool) (l : list seg) (st : list seg) : list seg := fold_left (step rooted) l st.

Definition is_rooted (s : list N) : bool := match s with b :: _ => b =? 47 | [] => false end.

(** the cleaned segment list of a path, bottom first *)
Definition stack (rooted : bool) (s : list N) : list seg := rev (run rooted (segments s) []).
Definition segs (s : list N) : list seg := stack (is_rooted s) s.

Definition render (rooted : bool) (st : list seg) : list N :=
  if rooted then 47 :: intercalate st
  else match st with [] => [46] | _ => intercalate st end.

(** path.Clean = filepath.Clean (POSIX) *)
Definition clean (s : list N) : list N := render (is_rooted s) (segs s).

(** filepath.Join(a, b) (POSIX): empty elements are ignored, the rest joined with '/' and cleaned;
    with a non-empty first element that is Clean(a + "/" + b) also when b is empty. *)
Definition join (a b : list N) : list N :=
  match a with
  | [] => match b with [] => [] | _ => clean b end
  | _ => clean (a ++ 47 :: b)
  end.

(** ** specification vocabulary *)

(** an ordinary file name: non-empty, not "." or "..", without '/' *)
Definition ordinary (s : seg) : Prop := s <> [] /\ s <> [46] /\ s <> [46; 46] /\ ~ In 47 s.
Definition ordinaryb (s : seg) : bool :=
  negb (is_empty s) && negb (is_dot s) && negb (is_dotdot s) && noslashb s.

Fixpoint bytes_eqb (a b : list N) : bool :=
  match a, b with
  | [], [] => true
  | x :: a', y :: b' => (x =? y) && bytes_eqb a' b'
  | _, _ => false
  end.

(** the path obtained by descending from the cleaned directory [cb] through the names [q] *)
Definition attach (cb : list N) (q : list seg) : list N :=
  match q with
  | [] => cb
  | _ => if bytes_eqb cb [47] then 47 :: intercalate q
         else if bytes_eqb cb [46] then intercalate q
         else cb ++ 47 :: intercalate q
  end.

Fixpoint strip_prefix (pre s : list N) : option (list N) :=
  match pre with
  | [] => Some s
  | x :: pre' => match s with y :: s' => if x =? y then strip_prefix pre' s' else None | [] => None end
  end.

(** decidable form: [out] is the cleaned directory [cb] itself or a path below it
    written with ordinary names only *)
Definition beneath (cb out : list N) : bool :=
  if bytes_eqb out cb then true
  else
    let rest :=
      if bytes_eqb cb [47] then strip_prefix [47] out
      else if bytes_eqb cb [46] then Some out
      else strip_prefix (cb ++ [47]) out in
    match rest with
    | Some r => forallb ordinaryb (segments r)
    | None => false
    end.

(** no segment is "." or ".." *)
Definition dot_free (p : list N) : Prop := Forall (fun s => s <> [46] /\ s <> [46; 46]) (segments p).
Definition dot_freeb (p : list N) : bool := forallb (fun s => negb (is_dot s) && negb (is_dotdot s)) (segments p).
