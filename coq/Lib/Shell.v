(** POSIX shell token recognition (XCU 2.2 Quoting, 2.3 Token Recognition) for one
    command line, as far as word splitting and quoting are concerned.  This is the
    *specification* C16 is judged against; it is validated against the real dash and
    bash by the correspondence check.  Bytes are [N]. *)
From Coq Require Import List NArith Bool.
Import ListNotations.
Open Scope N_scope.

(** A character of a word is either literal or "active": it would trigger expansion,
    substitution or pathname generation (unquoted [$], backquote, [*], [?], [[], a
    tilde-prefix). *)
Inductive item := Lit (b : N) | Act (b : N).
Definition word := list item.
Inductive token := W (w : word) | Operator (b : N).

Inductive mode := U | SQ | DQ | BS | DQBS | COMMENT.

Record lex := mkLex { lmode : mode; cur : option word; toks : list token }.

Definition cur_or_nil (st : lex) : word := match cur st with Some w => w | None => [] end.
Definition push (st : lex) (i : item) : lex :=
  mkLex (lmode st) (Some (cur_or_nil st ++ [i])) (toks st).
Definition set_mode (st : lex) (m : mode) : lex := mkLex m (cur st) (toks st).
(** entering quotes starts a word even when nothing follows ('' is an empty word) *)
Definition start_word (st : lex) : lex := mkLex (lmode st) (Some (cur_or_nil st)) (toks st).
Definition finish (st : lex) : lex :=
  match cur st with
  | Some w => mkLex (lmode st) None (toks st ++ [W w])
  | None => st
  end.
Definition emit_op (st : lex) (b : N) : lex :=
  let st' := finish st in mkLex (lmode st') None (toks st' ++ [Operator b]).

Definition is_blank (b : N) := (b =? 32) || (b =? 9).
Definition is_operator (b : N) :=
  (b =? 59) || (b =? 38) || (b =? 124) || (b =? 60) || (b =? 62) || (b =? 40) || (b =? 41).
Definition is_active_unquoted (b : N) :=
  (b =? 36) || (b =? 96) || (b =? 42) || (b =? 63) || (b =? 91).
Definition dq_escapable (b : N) := (b =? 36) || (b =? 96) || (b =? 34) || (b =? 92).

Definition lex_step (st : lex) (b : N) : lex :=
  match lmode st with
  | U =>
      if b =? 39 then set_mode (start_word st) SQ
      else if b =? 34 then set_mode (start_word st) DQ
      else if b =? 92 then set_mode st BS
      else if is_blank b then finish st
      else if b =? 10 then emit_op st 10
      else if is_operator b then emit_op st b
      else if (b =? 35) && (match cur st with None => true | Some _ => false end) then set_mode st COMMENT
      else if is_active_unquoted b then push st (Act b)
      else if (b =? 126) && (match cur st with None => true | Some _ => false end) then push st (Act b)
      else push st (Lit b)
  | SQ => if b =? 39 then set_mode st U else push st (Lit b)
  | DQ =>
      if b =? 34 then set_mode st U
      else if b =? 92 then set_mode st DQBS
      else if (b =? 36) || (b =? 96) then push st (Act b)
      else push st (Lit b)
  | DQBS =>
      if dq_escapable b then set_mode (push st (Lit b)) DQ
      else if b =? 10 then set_mode st DQ
      else set_mode (push (push st (Lit 92)) (Lit b)) DQ
  | BS => if b =? 10 then set_mode st U else set_mode (push st (Lit b)) U
  | COMMENT => if b =? 10 then emit_op (set_mode st U) 10 else st
  end.

Definition lex_run (st : lex) (s : list N) : lex := fold_left lex_step s st.
Definition lex_init : lex := mkLex U None [].

(** Tokens of a complete command line; [None] when a quote is left open. *)
Definition tokens (s : list N) : option (list token) :=
  let st := lex_run lex_init s in
  match lmode st with
  | U | COMMENT => Some (toks (finish st))
  | _ => None
  end.

Definition lit (s : list N) : word := map Lit s.

(** The value a shell gives a word after expansion, when that is determined by the
    word alone: all characters literal, except optionally a leading tilde-prefix [~]
    directly followed by [/], which becomes [home]. *)
Fixpoint all_lit (w : word) : option (list N) :=
  match w with
  | [] => Some []
  | Lit b :: r => match all_lit r with Some s => Some (b :: s) | None => None end
  | Act _ :: _ => None
  end.
Definition word_value (home : list N) (w : word) : option (list N) :=
  match w with
  | Act 126 :: Lit 47 :: r =>
      match all_lit r with Some s => Some (home ++ 47 :: s) | None => None end
  | _ => all_lit w
  end.
