(** Specification objects of C10: the documented command-line grammar of package config,
    written as inductive relations over tokens (byte strings), independent of the model
    in Model/ArgParse.v.

      -name=value   --name=value   -name value   --name value
      -bool  --bool  (no value needed; -bool=value also allowed)
      --  ends the flags (and is dropped); the first token that is not a flag ends them too.

    Bytes: 45 = '-', 61 = '='. *)
From Coq Require Import List NArith Bool.
Import ListNotations.
Open Scope N_scope.

Definition token := list N.

Fixpoint bytes_eqb (a b : list N) : bool :=
  match a, b with
  | [], [] => true
  | x :: a', y :: b' => (x =? y) && bytes_eqb a' b'
  | _, _ => false
  end.

(** The flag table: defined names and whether the flag is boolean. *)
Definition flagtable := list (token * bool).

Fixpoint lookup (tbl : flagtable) (name : token) : option bool :=
  match tbl with
  | [] => None
  | (n, b) :: r => if bytes_eqb n name then Some b else lookup r name
  end.

(** "true" *)
Definition true_text : token := [116; 114; 117; 101].

(** Errors of the grammar, with the text the message carries. *)
Inductive err :=
| BadSyntax (tok : token)     (* config: bad flag syntax: <tok> *)
| NotDefined (name : token)   (* config: flag provided but not defined: <name> *)
| NeedsArg (name : token).    (* config: flag needs an argument: <name> *)

(** ** Anatomy of one token *)

(** A flag name as it can appear on the command line: non-empty, does not start with
    '-' or '=', and (because the value is split off at the first '=' after the first
    byte) contains no further '='. *)
Definition name_ok (n : token) : Prop :=
  match n with
  | [] => False
  | c :: r => c <> 45 /\ c <> 61 /\ ~ In 61 r
  end.

(** tokens that end the flags and stay in Args(): shorter than two bytes (incl. "" and
    "-"), or not starting with '-'. *)
Inductive NonFlag : token -> Prop :=
| NF_empty : NonFlag []
| NF_single c : NonFlag [c]
| NF_nodash c r : c <> 45 -> NonFlag (c :: r).

(** the terminator "--" *)
Definition terminator : token := [45; 45].

(** malformed dashes or '=': "-=…", "--=…", "---…" *)
Inductive BadTok : token -> Prop :=
| Bad_eq1 r : BadTok (45 :: 61 :: r)
| Bad_eq2 r : BadTok (45 :: 45 :: 61 :: r)
| Bad_dash3 r : BadTok (45 :: 45 :: 45 :: r).

(** the four documented flag forms; [FlagTok tok name ov]: [tok] names flag [name] and
    carries the inline value [ov] *)
Inductive FlagTok : token -> token -> option token -> Prop :=
| FT_1 n : name_ok n -> FlagTok (45 :: n) n None                             (* -name *)
| FT_2 n : name_ok n -> FlagTok (45 :: 45 :: n) n None                       (* --name *)
| FT_1eq n v : name_ok n -> FlagTok (45 :: n ++ 61 :: v) n (Some v)          (* -name=value *)
| FT_2eq n v : name_ok n -> FlagTok (45 :: 45 :: n ++ 61 :: v) n (Some v).   (* --name=value *)

(** ** One flag occurrence: which tokens it uses and what it assigns *)
Inductive Consumes (tbl : flagtable) : list token -> token * token -> list token -> Prop :=
| C_eq tok n v b r :          (* -n=v / --n=v, any kind of flag, any value bytes (also empty) *)
    FlagTok tok n (Some v) -> lookup tbl n = Some b -> Consumes tbl (tok :: r) (n, v) r
| C_bool tok n r :            (* -b / --b : boolean flag, no value; the next token is NOT used *)
    FlagTok tok n None -> lookup tbl n = Some true -> Consumes tbl (tok :: r) (n, true_text) r
| C_next tok n v r :          (* -n v / --n v : the next token is the value whatever it looks like *)
    FlagTok tok n None -> lookup tbl n = Some false -> Consumes tbl (tok :: v :: r) (n, v) r.

(** ** The grammar: [Parses tbl toks asg rest] *)
Inductive Parses (tbl : flagtable) : list token -> list (token * token) -> list token -> Prop :=
| P_end : Parses tbl [] [] []
| P_nonflag tok r : NonFlag tok -> Parses tbl (tok :: r) [] (tok :: r)
| P_terminator r : Parses tbl (terminator :: r) [] r
| P_flag toks a toks' asg rest :
    Consumes tbl toks a toks' -> Parses tbl toks' asg rest -> Parses tbl toks (a :: asg) rest.

(** ** Vectors that violate the grammar, with the documented error *)
Inductive Malformed (tbl : flagtable) : list token -> err -> Prop :=
| M_bad tok r : BadTok tok -> Malformed tbl (tok :: r) (BadSyntax tok)
| M_undefined tok n ov r : FlagTok tok n ov -> lookup tbl n = None -> Malformed tbl (tok :: r) (NotDefined n)
| M_needs_arg tok n : FlagTok tok n None -> lookup tbl n = Some false -> Malformed tbl [tok] (NeedsArg n)
| M_later toks a toks' e : Consumes tbl toks a toks' -> Malformed tbl toks' e -> Malformed tbl toks e.

(** ** Effective values: assignments are executed in order, each overwriting
    ([flg.ArgValue = &argValue]); the effective value of a flag is what is stored last. *)
Definition store := token -> option token.
Definition empty_store : store := fun _ => None.
Definition assign (st : store) (a : token * token) : store :=
  fun n => if bytes_eqb (fst a) n then Some (snd a) else st n.
Definition final_store (asg : list (token * token)) : store := fold_left assign asg empty_store.
Definition final_value (asg : list (token * token)) (name : token) : option token := final_store asg name.

(** Well-formed tables (what NewFlagSet guarantees): no name starts with '-' or contains '=',
    none is empty. *)
Definition table_name_ok (n : token) : Prop :=
  match n with [] => False | c :: _ => c <> 45 end /\ ~ In 61 n.
Definition wf_table (tbl : flagtable) : Prop := forall n b, In (n, b) tbl -> table_name_ok n.
