(** Specification side of C11 / C12: a plain list-set of IPv4 prefixes.
    Nothing of the filter's data structure (list, maps, mask table, migration) appears
    here.  No proofs here. *)
From Coq Require Import List Arith NArith Bool.
Import ListNotations.
From Glb Require Import Lib.NetIP.
Open Scope N_scope.

(** the netmask of a prefix length, closed form: the top [n] of 32 bits *)
Definition pmask (n : N) : N := 2 ^ 32 - 2 ^ (32 - n).

(** a range = (network address with the host bits cleared, prefix length) *)
Definition key := (N * N)%type.
Definition key_eqb (a b : key) : bool := (fst a =? fst b) && (snd a =? snd b).
Definition canon (nip ones : N) : key := (N.land nip (pmask ones), ones).

(** [ip] (a 32-bit number) lies inside the range *)
Definition covers (k : key) (ip : N) : bool := N.land ip (pmask (snd k)) =? fst k.

(** When is a [*net.IPNet] an IPv4 CIDR, and which (address, prefix length) does it
    denote: a 4-byte mask of [ones] one-bits followed by zeros, and a 4-byte address. *)
Definition cidr_arg (c : cidr) : option (N * N) :=
  let '(ones, bits) := mask_size (c_mask c) in
  if (bits =? 32) && (ones <=? 32) && (length (c_ip c) =? 4)%nat
  then Some (be32 (c_ip c), ones) else None.

Inductive op := Add (c : cidr) | Remove (c : cidr).

(** the live set after a history: the flag for 0.0.0.0/0 and the list of the other
    ranges added and not removed since (Remove deletes every copy) *)
Definition sstate := (bool * list key)%type.

Definition spec_step (st : sstate) (o : op) : sstate :=
  match o with
  | Add c =>
      match cidr_arg c with
      | None => st
      | Some (nip, ones) =>
          if ones =? 0 then (true, snd st) else (fst st, canon nip ones :: snd st)
      end
  | Remove c =>
      match cidr_arg c with
      | None => st
      | Some (nip, ones) =>
          if ones =? 0 then (false, snd st)
          else (fst st, filter (fun k => negb (key_eqb k (canon nip ones))) (snd st))
      end
  end.

Definition spec_run_from (st : sstate) (ops : list op) : sstate := fold_left spec_step ops st.
Definition spec_run (ops : list op) : sstate := spec_run_from (false, []) ops.
Definition match_all_live (ops : list op) : bool := fst (spec_run ops).
Definition live_set (ops : list op) : list key := snd (spec_run ops).

(** the answer the specification gives for a probe (any byte slice) in a live set *)
Definition spec_contains_st (st : sstate) (ip : list N) : bool :=
  match to4 ip with
  | Some b => fst st || existsb (fun k => covers k (be32 b)) (snd st)
  | None => fst st
  end.
Definition spec_contains (ops : list op) (ip : list N) : bool := spec_contains_st (spec_run ops) ip.

(** arithmetic reading of [covers], used only to explain the specification
    (Proofs/FilterP.v proves it equivalent for 32-bit numbers) *)
Definition same_prefix (n a ip : N) : bool := ip / 2 ^ (32 - n) =? a / 2 ^ (32 - n).
