(** Go slices over an explicit heap of backing arrays (shared library, used where a property is
    about aliasing: C03).

    A backing array is the list of its cells; its capacity is the length of that list (so the heap
    maps [addr] to (cap, contents) with cap = length contents).  The heap is the list of all arrays
    ever allocated, an address is a position in it; allocation appends, nothing is ever freed
    (garbage collection is invisible).  A slice is Go's triple (pointer, len, cap), the pointer being
    (array, offset).

    [append] follows the language specification: when the new elements fit the capacity they are
    written IN PLACE behind the current length - visible through every other slice of that array -
    otherwise a fresh array is allocated whose capacity is ANY number >= the needed length: the
    surplus is chosen by the oracle [grow], which sees the allocation counter, the old capacity and
    the needed length, so every allocation of a history may choose independently.  Theorems quantify
    over all oracles.  No proofs here. *)
From Coq Require Import List NArith Arith Bool.
Import ListNotations.

Definition addr := nat.
Definition heap := list (list N).
Record slice := mkSlice { sa : addr; soff : nat; slen : nat; scap : nat }.

(** the nil slice: no array behind it (capacity 0, so its address is never dereferenced for writing) *)
Definition nil_slice : slice := mkSlice 0 0 0 0.

Definition arr (H : heap) (a : addr) : list N := nth a H [].

(** s[0:len(s)] as a value *)
Definition read (H : heap) (s : slice) : list N :=
  firstn (slen s) (skipn (soff s) (arr H (sa s))).

(** slices.Clip(s) = s[:len(s):len(s)] *)
Definition clip (s : slice) : slice := mkSlice (sa s) (soff s) (slen s) (slen s).

(** s[lo:hi] (two-index reslice; [None] = Go panics) *)
Definition reslice (s : slice) (lo hi : nat) : option slice :=
  if (lo <=? hi) && (hi <=? scap s) then Some (mkSlice (sa s) (soff s + lo) (hi - lo) (scap s - lo)) else None.

(** copy [bs] over the cells [pos, pos + length bs) of one array *)
Definition overwrite (l : list N) (pos : nat) (bs : list N) : list N :=
  firstn pos l ++ bs ++ skipn (pos + length bs) l.

Fixpoint set_nth {A} (n : nat) (x : A) (l : list A) : list A :=
  match l, n with
  | [], _ => []
  | _ :: r, O => x :: r
  | y :: r, S k => y :: set_nth k x r
  end.

Definition growth := nat -> nat -> nat -> nat.   (* allocation counter, old cap, needed length -> surplus *)

Definition append (grow : growth) (H : heap) (s : slice) (bs : list N) : heap * slice :=
  let need := slen s + length bs in
  if need <=? scap s then
    (set_nth (sa s) (overwrite (arr H (sa s)) (soff s + slen s) bs) H,
     mkSlice (sa s) (soff s) need (scap s))
  else
    let c := need + grow (length H) (scap s) need in
    (H ++ [read H s ++ bs ++ repeat 0%N (c - need)], mkSlice (length H) 0 need c).

(** several appends in a row, as in [for _, a := range attrs { buf = append(buf, …) }] *)
Fixpoint append_all (grow : growth) (H : heap) (s : slice) (chunks : list (list N)) : heap * slice :=
  match chunks with
  | [] => (H, s)
  | bs :: r => let (H1, s1) := append grow H s bs in append_all grow H1 s1 r
  end.

(** a slice value that makes sense in heap [H] *)
Definition wf (H : heap) (s : slice) : Prop :=
  slen s <= scap s /\ (scap s = 0 \/ (sa s < length H /\ soff s + scap s <= length (arr H (sa s)))).
