(** (DQUOTE stands for the double-quote byte 34 in comments.)  Go strconv.AppendQuote (the printer, used by the model) and strconv.Unquote for
    double-quoted literals (the reader, used by the C13 tokenizer).  Bytes are [N].

    Source followed: go/src/strconv/quote.go — appendQuotedWith / appendEscapedRune
    (quote = DQUOTE, ASCIIonly = graphicOnly = false) and unquote / UnquoteChar.

    strconv.IsPrint is concrete on ASCII (0x20..0x7e) and an oracle [sp_print] on runes
    >= 0x80; nothing is assumed about the oracle. *)
From Coq Require Import List NArith Bool.
Import ListNotations.
From Glb Require Import Lib.Utf8.
Open Scope N_scope.

(** lowerhex[d] *)
Definition hexdigit (d : N) : N := if d <? 10 then 48 + d else 87 + d.

(** [n] hex digits of [r], most significant first (the loops
    [for s := 12; s >= 0; s -= 4 { lowerhex[r>>s & 0xF] }]). *)
Fixpoint hexn (n : nat) (r : N) : list N :=
  match n with
  | O => []
  | S k => hexdigit ((r / 16 ^ N.of_nat k) mod 16) :: hexn k r
  end.

Definition ascii_print (b : N) : bool := (32 <=? b) && (b <=? 126).

Section Quote.
  Variable sp_print : N -> bool.   (* strconv.IsPrint on runes >= 0x80 *)

  Definition str_is_print (r : N) : bool := if r <? 128 then ascii_print r else sp_print r.

  (** appendEscapedRune(buf, r, DQUOTE, false, false) for a valid rune [r]. *)
  Definition escape_rune (r : N) : list N :=
    if (r =? 34) || (r =? 92) then [92; r]
    else if str_is_print r then enc r
    else if r =? 7 then [92; 97]
    else if r =? 8 then [92; 98]
    else if r =? 12 then [92; 102]
    else if r =? 10 then [92; 110]
    else if r =? 13 then [92; 114]
    else if r =? 9 then [92; 116]
    else if r =? 11 then [92; 118]
    else if (r <? 32) || (r =? 127) then 92 :: 120 :: hexn 2 r
    else if r <? 65536 then 92 :: 117 :: hexn 4 r
    else 92 :: 85 :: hexn 8 r.

  (** the loop of appendQuotedWith; fuel = length s suffices *)
  Fixpoint quote_go (fuel : nat) (s : list N) : list N :=
    match fuel with
    | O => []
    | S f =>
      match s with
      | [] => []
      | b :: t =>
        if b <? 128 then escape_rune b ++ quote_go f t
        else
          let d := decode s in
          if invalid d then 92 :: 120 :: hexn 2 b ++ quote_go f t
          else escape_rune (fst d) ++ quote_go f (skipn (snd d) s)
      end
    end.

  Definition quote_body (s : list N) : list N := quote_go (length s) s.
  Definition quote (s : list N) : list N := 34 :: quote_body s ++ [34].
End Quote.

(** ---- the reader: strconv.Unquote restricted to double-quoted literals ---- *)

Definition unhex (c : N) : option N :=
  if (48 <=? c) && (c <=? 57) then Some (c - 48)
  else if (97 <=? c) && (c <=? 102) then Some (c - 87)
  else if (65 <=? c) && (c <=? 70) then Some (c - 55)
  else None.

(** reads exactly [n] hex digits: [v = v<<4 | x] *)
Fixpoint unhexn (n : nat) (s : list N) (acc : N) : option (N * list N) :=
  match n with
  | O => Some (acc, s)
  | S k =>
    match s with
    | [] => None
    | c :: t => match unhex c with Some x => unhexn k t (acc * 16 + x) | None => None end
    end
  end.

(** utf8.ValidRune *)
Definition valid_rune (v : N) : bool := (v <? 55296) || ((57344 <=? v) && (v <? 1114112)).

Definition octal (c : N) : option N := if (48 <=? c) && (c <=? 55) then Some (c - 48) else None.

(** UnquoteChar(s, DQUOTE) followed by the append in [unquote]: the bytes the character
    contributes and the tail.  [None] = ErrSyntax.  The caller has already excluded a
    leading DQUOTE; a raw newline is rejected here as [unquote] does. *)
Definition unquote_char (s : list N) : option (list N * list N) :=
  match s with
  | [] => None
  | c :: t =>
    if c =? 34 then None
    else if c =? 10 then None
    else if 128 <=? c then let d := decode s in Some (enc (fst d), skipn (snd d) s)
    else if negb (c =? 92) then Some ([c], t)
    else
      match t with
      | [] => None
      | e :: u =>
        if e =? 97 then Some ([7], u)
        else if e =? 98 then Some ([8], u)
        else if e =? 102 then Some ([12], u)
        else if e =? 110 then Some ([10], u)
        else if e =? 114 then Some ([13], u)
        else if e =? 116 then Some ([9], u)
        else if e =? 118 then Some ([11], u)
        else if e =? 120 then
          match unhexn 2 u 0 with Some (v, r) => Some ([v], r) | None => None end
        else if e =? 117 then
          match unhexn 4 u 0 with
          | Some (v, r) => if valid_rune v then Some (enc v, r) else None
          | None => None
          end
        else if e =? 85 then
          match unhexn 8 u 0 with
          | Some (v, r) => if valid_rune v then Some (enc v, r) else None
          | None => None
          end
        else if (48 <=? e) && (e <=? 55) then
          match u with
          | o1 :: o2 :: r =>
            match octal o1, octal o2 with
            | Some x1, Some x2 =>
              let v := ((e - 48) * 8 + x1) * 8 + x2 in
              if 255 <? v then None else Some ([v], r)
            | _, _ => None
            end
          | _ => None
          end
        else if e =? 92 then Some ([92], u)
        else if e =? 34 then Some ([34], u)
        else None
      end
  end.

(** the loop of [unquote] after the opening quote: returns the value and what follows
    the terminating quote.  Every step consumes at least one byte, so
    fuel = S (length s) suffices; out of fuel is reported as a syntax error. *)
Fixpoint unquote_go (fuel : nat) (s : list N) : option (list N * list N) :=
  match fuel with
  | O => None
  | S f =>
    match s with
    | [] => None
    | c :: t =>
      if c =? 34 then Some ([], t)
      else
        match unquote_char s with
        | None => None
        | Some (bs, r) =>
          match unquote_go f r with
          | Some (v, rest) => Some (bs ++ v, rest)
          | None => None
          end
        end
    end
  end.

(** strconv.QuotedPrefix + Unquote of it, for an input that starts with DQUOTE. *)
Definition unquote_prefix (s : list N) : option (list N * list N) :=
  match s with
  | [] => None
  | c :: t => if c =? 34 then unquote_go (S (length t)) t else None
  end.

(** strconv.Unquote on a whole double-quoted literal *)
Definition unquote (s : list N) : option (list N) :=
  match unquote_prefix s with
  | Some (v, []) => Some v
  | _ => None
  end.
