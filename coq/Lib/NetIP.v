(** The part of Go's [net] / [encoding/binary] that util/netutil/filter.go calls, as
    executable functions over byte lists ([list N], every byte < 256):
    [binary.BigEndian.Uint32], [net.IP.To4], [net.IPMask.Size].  No proofs here. *)
From Coq Require Import List Arith NArith Bool.
Import ListNotations.
Open Scope N_scope.

(** binary.BigEndian.Uint32(b) on a slice of at least 4 bytes (shorter: Go panics; the
    callers check the length first, the model returns 0). *)
Definition be32 (b : list N) : N :=
  match b with
  | b0 :: b1 :: b2 :: b3 :: _ => ((b0 * 256 + b1) * 256 + b2) * 256 + b3
  | _ => 0
  end.

Definition is_zeros (l : list N) : bool := forallb (fun b => b =? 0) l.

(** net.IP.To4: a 4-byte slice is returned as it is; a 16-byte slice is an IPv4 address
    iff bytes 0..9 are 0 and bytes 10, 11 are 0xff (then its last four bytes); everything
    else gives nil ([None]). *)
Definition to4 (ip : list N) : option (list N) :=
  if (length ip =? 4)%nat then Some ip
  else if (length ip =? 16)%nat && is_zeros (firstn 10 ip)
          && (nth 10 ip 0 =? 255) && (nth 11 ip 0 =? 255)
       then Some (skipn 12 ip)
       else None.

(** net.simpleMaskLength: the inner loop [for v&0x80 != 0 { n++; v <<= 1 }] on one byte
    (at most 8 rounds), returning the count and what is left of [v]. *)
Fixpoint byte_ones (fuel : nat) (v n : N) : N * N :=
  match fuel with
  | O => (n, v)
  | S f => if N.testbit v 7 then byte_ones f ((v * 2) mod 256) (n + 1) else (n, v)
  end.

(** [None] is Go's -1 (the mask is not of the form 1...10...0). *)
Fixpoint simple_mask_length (m : list N) : option N :=
  match m with
  | [] => Some 0
  | v :: r =>
      if v =? 255 then option_map (N.add 8) (simple_mask_length r)
      else let '(n, v') := byte_ones 8 v 0 in
           if negb (v' =? 0) then None
           else if is_zeros r then Some n else None
  end.

(** net.IPMask.Size(): (ones, bits), or (0, 0) when the mask is not canonical. *)
Definition mask_size (m : list N) : N * N :=
  match simple_mask_length m with
  | Some n => (n, 8 * N.of_nat (length m))
  | None => (0, 0)
  end.

(** a [*net.IPNet] argument: the two byte slices it carries *)
Record cidr := mkCidr { c_ip : list N; c_mask : list N }.

(** big-endian bytes of a 32-bit number (used to build examples and test inputs) *)
Definition bytes_of_u32 (x : N) : list N :=
  [x / 16777216 mod 256; x / 65536 mod 256; x / 256 mod 256; x mod 256].

Fixpoint bytes_eqb (a b : list N) : bool :=
  match a, b with
  | [], [] => true
  | x :: a', y :: b' => (x =? y) && bytes_eqb a' b'
  | _, _ => false
  end.
Definition cidr_eqb (c d : cidr) : bool :=
  bytes_eqb (c_ip c) (c_ip d) && bytes_eqb (c_mask c) (c_mask d).

(** binary.BigEndian.Uint32 with Go's bounds check: a slice shorter than 4 bytes panics ([None]) *)
Definition be32_p (b : list N) : option N :=
  match b with
  | _ :: _ :: _ :: _ :: _ => Some (be32 b)
  | _ => None
  end.
