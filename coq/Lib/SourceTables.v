(** Source tables: the DATA of the Go code (constant tables and literals).

    On every run gen/glbfacts (sub-command [tables]) extracts the constant tables and literals
    from the CURRENT source of the tree under verification and lib/tables.py generates a small
    .v in which Coq proves, by [vm_compute] on finite domains lifted with the lemmas of
    Proofs/SourceTablesP.v, that they are exactly what the executable models assume.

    Most models carry their constants explicitly ([Filter.ipv4_masks], [Router.method_tag_map],
    [Config.cfg_prefix], [LoggerConc.max_buf] ...) or as a total function on a finite domain
    ([LoggerJson.safe], [LoggerJson.hexd], [level_text]); the obligations are then stated
    against the model's own definition.  This file holds
      - the boolean checkers those finite obligations are computed with, and
      - the constants that a model has only implicitly (inlined in an [if b =? 39]):
        the literals of strutil.ShellEscape / ShellEscapeExceptTilde, together with a
        literal-parametrised reading of the two Go functions.  Proofs/SourceTablesP.v shows
        that [Model/ShellEscape.v] IS that reading at these literals.
    No proofs here. *)
From Coq Require Import List NArith Bool Arith.
Import ListNotations.
Open Scope N_scope.

(** ** finite tables against a function of the model *)

(** [tbl] has exactly [n] entries and entry [i] is [f i] *)
Definition table_is_b (tbl : list bool) (f : N -> bool) (n : nat) : bool :=
  Nat.eqb (length tbl) n &&
  forallb (fun i => Bool.eqb (nth i tbl false) (f (N.of_nat i))) (seq 0 n).

Definition table_is_N (tbl : list N) (f : N -> N) (n : nat) : bool :=
  Nat.eqb (length tbl) n &&
  forallb (fun i => N.eqb (nth i tbl 0) (f (N.of_nat i))) (seq 0 n).

(** [l[i]] with an index in [N] (never converted to [nat]: an absurd index taken from a changed
    source must make the obligation fail quickly, not make Coq build a huge unary number) *)
Fixpoint nthN {A} (l : list A) (i : N) (d : A) : A :=
  match l with
  | [] => d
  | x :: r => if i =? 0 then x else nthN r (i - 1) d
  end.

(** ** byte strings *)
Fixpoint bytes_eqb (a b : list N) : bool :=
  match a, b with
  | [], [] => true
  | x :: a', y :: b' => (x =? y) && bytes_eqb a' b'
  | _, _ => false
  end.

Fixpoint strings_eqb (a b : list (list N)) : bool :=
  match a, b with
  | [], [] => true
  | x :: a', y :: b' => bytes_eqb x y && strings_eqb a' b'
  | _, _ => false
  end.

(** ** Go map literals: equal as finite maps, whatever the order of the entries.
    [get] is the model's lookup; each entry of one side must be found, with an equal value,
    on the other side. *)
Definition assoc_same (get : list N -> list (list N * list N) -> option (list N))
           (src model : list (list N * list N)) : bool :=
  forallb (fun kv => match get (fst kv) model with Some v => bytes_eqb v (snd kv) | None => false end) src &&
  forallb (fun kv => match get (fst kv) src with Some v => bytes_eqb v (snd kv) | None => false end) model.

(** the two lists have the same elements (order and repetitions ignored) *)
Fixpoint mem_str (x : list N) (l : list (list N)) : bool :=
  match l with
  | [] => false
  | y :: r => bytes_eqb y x || mem_str x r
  end.
Definition same_strings (a b : list (list N)) : bool :=
  forallb (fun x => mem_str x b) a && forallb (fun x => mem_str x a) b.

(** ** strutil.ShellEscape / ShellEscapeExceptTilde: the literals and a literal-parametrised reading *)

Definition sh_open : list N := [39].                        (* "'" *)
Definition sh_pattern : list N := [39].                     (* "'"      old of strings.Replace *)
Definition sh_replacement : list N := [39; 34; 39; 34; 39]. (* `'"'"'`  new of strings.Replace *)
Definition sh_close : list N := [39].                       (* "'" *)
Definition tilde_prefix : list N := [126; 47].              (* "~/" : tested by HasPrefix and emitted *)
Definition tilde_skip : N := 2.                             (* s[2:] *)

Fixpoint has_prefix (p s : list N) : bool :=
  match p with
  | [] => true
  | x :: p' => match s with [] => false | y :: s' => (x =? y) && has_prefix p' s' end
  end.

(** strings.Replace(s, pat, rep, -1) for a non-empty [pat]: leftmost, non-overlapping.
    Fuel = length of [s] (every iteration consumes at least one byte). *)
Fixpoint replace_all_go (fuel : nat) (pat rep s : list N) : list N :=
  match fuel with
  | O => s
  | S f =>
    match s with
    | [] => []
    | b :: t =>
      if has_prefix pat s then rep ++ replace_all_go f pat rep (skipn (length pat) s)
      else b :: replace_all_go f pat rep t
    end
  end.
Definition replace_all (pat rep s : list N) : list N := replace_all_go (length s) pat rep s.

(** return OPEN + strings.Replace(s, PAT, REP, -1) + CLOSE *)
Definition shell_escape_lit (o pat rep c s : list N) : list N := o ++ replace_all pat rep s ++ c.

(** if strings.HasPrefix(s, TEST) { return OUT + ShellEscape(s[K:]) }; return ShellEscape(s) *)
Definition shell_escape_except_tilde_lit (test out : list N) (k : N) (o pat rep c s : list N) : list N :=
  if has_prefix test s then out ++ shell_escape_lit o pat rep c (skipn (N.to_nat k) s)
  else shell_escape_lit o pat rep c s.
