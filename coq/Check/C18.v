(** Executable verdict for one observed case of C18.  The harness ran CopyFile or MoveFile
    on real files arranged as one of the scenarios of Lib/FsScenarios.v and reports the outcome
    class; here the property's statement is evaluated on that outcome (spec) and the outcome is
    compared with what the model computes for the same scenario (projection: error or not,
    source present, source content intact, destination holds the original content). *)
From Coq Require Import List NArith Bool.
Import ListNotations.
From Glb Require Import Model.FileOps Lib.FsScenarios.
Open Scope N_scope.

Fixpoint bytes_eqb (a b : list N) : bool :=
  match a, b with
  | [], [] => true
  | x :: a', y :: b' => (x =? y) && bytes_eqb a' b'
  | _, _ => false
  end.

Record outcome := { o_ok : bool; o_src_present : bool; o_src_orig : bool; o_dst_orig : bool; o_third_ok : bool }.

Definition reads (s : fs) (p : N) (c : list N) : bool :=
  match read_path s p with Some c' => bytes_eqb c' c | None => false end.

Definition present (s : fs) (p : N) : bool := match slot s p with Empty => false | _ => true end.

(** the content standing for "the bytes the source held when the call began" *)
Definition content (nonempty : bool) : list N := if nonempty then [1] else [].

(** [replace] selects the copy strategy the implementation is compared with: writing through the
    destination path (create + truncate) or temporary file + rename over the destination name *)
Definition model_outcome_v (replace noop is_move : bool) (k : dkind) (otherdev srcmissing nonempty : bool) : outcome :=
  let c := content nonempty in
  let s := scenario k otherdev srcmissing c in
  let F := scenario_faults replace k in
  let src := src_path in
  let dst := dst_path k in
  let (s', r) :=
    match replace, noop, is_move with
    | false, false, false => copy_file_f F s src dst
    | false, false, true => move_file_f F s src dst
    | true, false, false => copy_replace_f F s src dst tmp_path
    | true, false, true => move_replace_f F s src dst tmp_path
    | false, true, false => copy_file_n F s src dst
    | false, true, true => move_file_n F s src dst
    | true, true, false => copy_replace_n F s src dst tmp_path
    | true, true, true => move_replace_n F s src dst tmp_path
    end in
  {| o_ok := match r with None => true | Some _ => false end;
     o_src_present := present s' src_path;
     o_src_orig := negb srcmissing && reads s' src_path c;
     o_dst_orig := negb srcmissing && reads s' (dst_path k) c;
     o_third_ok := reads s' third_path third_content |}.

Definition model_outcome (replace is_move : bool) (k : dkind) (otherdev srcmissing nonempty : bool) : outcome :=
  let c := content nonempty in
  let s := scenario k otherdev srcmissing c in
  let F := scenario_faults replace k in
  let (s', r) :=
    if replace then
      (if is_move then move_replace_f F s src_path (dst_path k) tmp_path else copy_replace_f F s src_path (dst_path k) tmp_path)
    else
      (if is_move then move_file_f F s src_path (dst_path k) else copy_file_f F s src_path (dst_path k)) in
  {| o_ok := match r with None => true | Some _ => false end;
     o_src_present := present s' src_path;
     o_src_orig := negb srcmissing && reads s' src_path c;
     o_dst_orig := negb srcmissing && reads s' (dst_path k) c;
     o_third_ok := reads s' third_path third_content |}.

(** the property, read on an observed outcome *)
Definition spec_ok (is_move : bool) (k : dkind) (srcmissing : bool) (o : outcome) : bool :=
  o_third_ok o &&
  (if srcmissing then true
   else if o_ok o then
     o_dst_orig o &&
     (if is_move then negb (o_src_present o) || (is_alias k && o_src_orig o)
      else o_src_present o && o_src_orig o)
   else o_src_present o && o_src_orig o).

Definition outcome_eqb (a b : outcome) : bool :=
  Bool.eqb (o_ok a) (o_ok b) && Bool.eqb (o_src_present a) (o_src_present b)
  && Bool.eqb (o_src_orig a) (o_src_orig b) && Bool.eqb (o_dst_orig a) (o_dst_orig b)
  && Bool.eqb (o_third_ok a) (o_third_ok b).

(** [model_eq]: agreement with the write-through model, [model_eq_replace]: with the replace model (both refusing an
    alias), [model_eq_noop] / [model_eq_replace_noop]: the same two with the no-op alias policy.
    Variant numbers: 0 through+refuse, 1 replace+refuse, 2 through+noop, 3 replace+noop. *)
Record verdict := { spec : bool; model_eq : bool; model_eq_replace : bool; model_eq_noop : bool; model_eq_replace_noop : bool }.

Definition nz (x : N) : bool := negb (x =? 0).

(** all fields as numbers: op (0 CopyFile, 1 MoveFile), kind (0..13, the last four provoke a real fault), other device?, source missing?,
    content non-empty?, then the observed ok / src present / src original / dst original / third party intact *)
Definition check_case (op kind otherdev srcmissing nonempty ok srcp srco dsto third : N) : verdict :=
  let k := kind_of_N kind in
  let o := {| o_ok := nz ok; o_src_present := nz srcp; o_src_orig := nz srco; o_dst_orig := nz dsto; o_third_ok := nz third |} in
  {| spec := spec_ok (nz op) k (nz srcmissing) o;
     model_eq := outcome_eqb (model_outcome false (nz op) k (nz otherdev) (nz srcmissing) (nz nonempty)) o;
     model_eq_replace := outcome_eqb (model_outcome true (nz op) k (nz otherdev) (nz srcmissing) (nz nonempty)) o;
     model_eq_noop := outcome_eqb (model_outcome_v false true (nz op) k (nz otherdev) (nz srcmissing) (nz nonempty)) o;
     model_eq_replace_noop := outcome_eqb (model_outcome_v true true (nz op) k (nz otherdev) (nz srcmissing) (nz nonempty)) o |}.

(** full verdict of one case against the strategy the run was found to follow (0 = through, 1 = replace) *)
Definition matches (variant : N) (v : verdict) : bool :=
  if variant =? 0 then model_eq v else if variant =? 1 then model_eq_replace v
  else if variant =? 2 then model_eq_noop v else model_eq_replace_noop v.
Definition verdict_ok_for (variant : N) (v : verdict) : bool := spec v && matches variant v.
Definition verdict_ok (v : verdict) : bool := verdict_ok_for 0 v.

(** Sources that are not regular files with a truthful size — a /proc file (stat size 0, content on read) and a
    FIFO fed by a writer — are outside the file-system model ([File c] has exactly the bytes [c] and its size).
    They are judged by the specification on the observed outcome only, no model comparison:
    srckind 1 (/proc file, CopyFile only): the whole CopyFile clause; srckind 2 (FIFO: reading consumes the
    source, so only the destination clause): nil => the destination holds the bytes the writer fed; third
    party files intact in both. *)
Definition spec_special (srckind op kind ok srcp srco dsto third : N) : bool :=
  if srckind =? 1 then
    spec_ok (nz op) (kind_of_N kind) false
      {| o_ok := nz ok; o_src_present := nz srcp; o_src_orig := nz srco; o_dst_orig := nz dsto; o_third_ok := nz third |}
  else nz third && (if nz ok then nz dsto else true).

(** Directory-like destination SPELLINGS ("D" lines of the harness): the destination text ends in a path separator
    ("dir/", "dir//"), or in "/." , and names an existing directory — the source's own parent, another directory,
    either of them through a symbolic link to the directory — or a missing directory ("nodir/").
    Model/FileOps.v resolves paths to slots and has no notion of a spelling: for the code at HEAD such a destination
    IS the existing failure "the destination is a directory" ([KDir]; [KParentMissing] for the missing directory:
    stat, rename and create fail without effect) and the model outcome is that kind's.
    The property, however, does not forbid an implementation that reads "dir/" like cp(1): "copy into that directory
    under the source's base name". The judge therefore takes as "the destination" the path it passed if that
    resolves to a regular file ([dstgiven]) or else <dir>/<base name of the source> ([dstinside]), and accepts, besides
    the model's failure, every success that satisfies the property under this reading (extra acceptance, outside the
    model). When the directory is the source's own parent (or the directory holding the symbolic link used as the source
    path), <dir>/<base> is the source itself: the two are aliases, read like [KSamePath] (a nil MoveFile may leave the
    source in place, intact).
    [srcsym]: the source path is a symbolic link to the data file. For MoveFile that is outside the property's quantifier
    as far as the fate of the source NAME goes (it may be moved as a link): only "error => the source path still reads the
    original bytes" and "nil => the destination reads them" are judged. *)
Definition spec_dirlike (op mkind selfparent srcsym ok srcp srco dstgiven dstinside third : N) : bool :=
  let dst := nz dstgiven || nz dstinside in
  if nz srcsym && nz op then
    nz third && (if nz ok then dst else nz srcp && nz srco)
  else
    spec_ok (nz op) (if nz selfparent then KSamePath else kind_of_N mkind) false
      {| o_ok := nz ok; o_src_present := nz srcp; o_src_orig := nz srco; o_dst_orig := dst; o_third_ok := nz third |}.

(** agreement with the model variant of the run: the model's failure for kind [mkind] (6 directory, 7 missing directory),
    observed on the path as given — or a success, which the model does not have (judged by [spec_dirlike] alone) *)
Definition dirlike_matches (variant op mkind otherdev nonempty ok srcp srco dstgiven third : N) : bool :=
  nz ok ||
  outcome_eqb
    (model_outcome_v ((variant =? 1) || (variant =? 3)) (2 <=? variant) (nz op) (kind_of_N mkind) (nz otherdev) false (nz nonempty))
    {| o_ok := nz ok; o_src_present := nz srcp; o_src_orig := nz srco; o_dst_orig := nz dstgiven; o_third_ok := nz third |}.

(** fields of a "D" line after the tag: op mkind otherdev srcmissing(0) nonempty ok srcpresent srcorig dstgiven thirdok
    dstinside selfparent srcsym *)
Definition dirlike_ok_for (variant op mkind otherdev srcmissing nonempty ok srcp srco dstgiven third dstinside selfparent srcsym : N) : bool :=
  negb (nz srcmissing) &&
  spec_dirlike op mkind selfparent srcsym ok srcp srco dstgiven dstinside third &&
  dirlike_matches variant op mkind otherdev nonempty ok srcp srco dstgiven third.

(** the outcome the model computes, as numbers (for the driver's messages) *)
Definition model_fields_for (variant op kind otherdev srcmissing nonempty : N) : list bool :=
  let o := model_outcome_v ((variant =? 1) || (variant =? 3)) (2 <=? variant) (nz op) (kind_of_N kind) (nz otherdev) (nz srcmissing) (nz nonempty) in
  [o_ok o; o_src_present o; o_src_orig o; o_dst_orig o; o_third_ok o].
Definition model_fields (op kind otherdev srcmissing nonempty : N) : list bool :=
  let o := model_outcome false (nz op) (kind_of_N kind) (nz otherdev) (nz srcmissing) (nz nonempty) in
  [o_ok o; o_src_present o; o_src_orig o; o_dst_orig o; o_third_ok o].
