(** Executable verdict for one observed history of C02.

    The harness runs one scenario - [nthr] goroutines logging planned records (some below the level)
    through the root or derived handlers - and reports: the plan (record id, thread, enabled?), the
    Write calls the destination received in order (record id found in the chunk, 0 = none or several;
    byte-identical to the line the implementation writes for that record alone?), the number of Write
    calls that began while another was in progress, and the number of disabled records whose values were
    formatted.

      [spec_ok]  the specification monitor accepts the history: the multiset of written record ids is the
                 set of enabled planned records, each exactly once; every chunk equals the solo line;
                 no overlap; no disabled record formatted;
      [model_ok] the LTS under the discipline ACCEPTS the observed order of Write calls (driven thread by thread
                 in that order, line c r := [r]) and delivers exactly that sequence - so every goroutine's records
                 appear in its program order -, passes the no-overlap monitor, one Write per enabled record. *)
From Coq Require Import List NArith ZArith Arith Bool.
Import ListNotations.
From Glb Require Import Model.LoggerConc.

Record planned := mkPlanned { p_id : N; p_thread : nat; p_enabled : bool; p_depth : nat (* length of the handler's chain *) }.
Record wrote := mkWrote { w_id : N; w_eq : bool }.

Fixpoint insert (x : N) (l : list N) : list N :=
  match l with [] => [x] | y :: r => if (x <=? y)%N then x :: l else y :: insert x r end.
Definition sort (l : list N) : list N := fold_right insert [] l.
Fixpoint list_eqb (a b : list N) : bool :=
  match a, b with
  | [], [] => true
  | x :: a', y :: b' => N.eqb x y && list_eqb a' b'
  | _, _ => false
  end.

Definition enabled_ids (ps : list planned) : list N := map p_id (filter p_enabled ps).

Definition monitor (ps : list planned) (ws : list wrote) (overlaps formatted_disabled : nat) : bool :=
  list_eqb (sort (map w_id ws)) (sort (enabled_ids ps))
  && forallb w_eq ws && Nat.eqb overlaps 0 && Nat.eqb formatted_disabled 0.

(** the abstract program: thread t logs its planned records in plan order; record r is enabled iff planned so *)
Definition prog_of (nthr : nat) (ps : list planned) : list (list (instr unit N)) :=
  map (fun t => map (fun p => ILog (repeat tt (p_depth p)) (p_id p)) (filter (fun p => Nat.eqb (p_thread p) t) ps)) (seq 0 nthr).
Definition en_of (ps : list planned) (r : N) : bool :=
  existsb (fun p => N.eqb (p_id p) r && p_enabled p) ps.

(** The model is driven by the OBSERVED order of the Write calls: for each observed chunk, in order, the thread
    that planned that record is advanced (through the disabled records in front of it, which end at the gate,
    and through one complete call Gate .. PoolPut|Drop); at the end every thread is drained.  The run must be
    accepted by the LTS, finish, deliver exactly the observed sequence of records (so each goroutine's records
    appear in its program order) and pass the no-overlap monitor. *)
Fixpoint drive (f : cflags) (en : N -> bool) (fuel : nat) (s : state unit N) (t : nat) (acc : list label) : state unit N * list label :=
  match fuel with
  | O => (s, acc)
  | S k =>
      match next_label unit N f s t with
      | Some l =>
          match step unit N (fun _ r => [r]) en (fun _ _ => 0%N) f s l with
          | Some s' =>
              match l with
              | LPoolPut _ | LDrop _ => (s', acc ++ [l])
              | _ => drive f en k s' t (acc ++ [l])
              end
          | None => (s, acc)
          end
      | None => (s, acc)
      end
  end.

Definition thread_of (ps : list planned) (id : N) : nat :=
  match find (fun p => N.eqb (p_id p) id) ps with Some p => p_thread p | None => 0 end.

Definition model_run (f : cflags) (nthr : nat) (ps : list planned) (ws : list wrote) : state unit N * list label :=
  let en := en_of ps in
  let fuel := 12 * (length ps + 1) in
  let after_obs :=
    fold_left (fun (sa : state unit N * list label) w => drive f en fuel (fst sa) (thread_of ps (w_id w)) (snd sa))
              ws (init unit N (prog_of nthr ps), []) in
  (* drain: what is left are disabled records (and, if the observation lacks a record, its call) *)
  fold_left (fun (sa : state unit N * list label) t =>
               fold_left (fun sa' _ => drive f en fuel (fst sa') t (snd sa')) (seq 0 (S (length ps))) sa)
            (seq 0 nthr) after_obs.

Record verdict := mkV { spec_ok : bool; model_ok : bool; nwrites : nat }.

Definition check_case (nthr : nat) (ps : list planned) (ws : list wrote) (overlaps formatted_disabled : nat) : verdict :=
  let (s, sched) := model_run good_flags nthr ps ws in
  {| spec_ok := monitor ps ws overlaps formatted_disabled;
     model_ok := finished unit N s
                 && list_eqb (concat (dest unit N s)) (map w_id ws)
                 && no_overlap None sched
                 && forallb (fun t => Nat.eqb (count_writes t sched)
                                        (length (filter (fun p => Nat.eqb (p_thread p) t && p_enabled p) ps))) (seq 0 nthr);
     nwrites := length ws |}.

Definition verdict_ok (v : verdict) : bool := spec_ok v && model_ok v.

(** One logging call at level [lv] through a logger whose handler was configured with threshold [th]
    (arbitrary integers): [writes] Write calls were observed, [eq] = the (single) chunk is the solo line.
    spec: exactly one whole-line Write iff th <= lv, none otherwise.
    model: the LTS with the gate [level_enabled th], run on the one-record program, makes the same number of Writes. *)
Definition check_threshold (th lv : Z) (writes : nat) (eq : bool) : bool * bool :=
  let spec := if level_enabled th lv then Nat.eqb writes 1 && eq else Nat.eqb writes 0 in
  let (s, sched) := sched_rr unit Z (fun _ _ => [1%N]) (level_enabled th) (fun _ _ => 0%N) good_flags 20
                             (init unit Z [[ILog [] lv]]) [] in
  (spec, finished unit Z s && Nat.eqb (length (dest unit Z s)) writes && Nat.eqb (count_writes 0 sched) writes).
