(** Executable verdict for one observed Launch of C20.

    Specification on the implementation's observation: Launch returned nil and the daemon's pid, the
    marker existed when Launch returned, the daemon is alive and re-parented, the launcher is gone.
    Model vs implementation: the observed outcome class must be one the model produces for the
    extracted action list on the schedule(s) that the forced timing allows: when the launcher is paused
    behind cmd.Start() for much longer than the daemon needs to reach Done(), only the schedule
    "daemon first"; otherwise either extreme. *)
From Coq Require Import List Bool Arith NArith.
Import ListNotations.
From Glb Require Import Model.Daemon.

(** observed class of Launch's result *)
Inductive oclass := OOk | OErrRun | OErrStderr | OErrStdout | OOther.
Definition oclass_eqb (a b : oclass) : bool :=
  match a, b with
  | OOk, OOk | OErrRun, OErrRun | OErrStderr, OErrStderr | OErrStdout, OErrStdout | OOther, OOther => true
  | _, _ => false
  end.

Record obs := mkObs {
  o_class : oclass;
  o_pid_matches : bool;      (* returned pid = pid the daemon wrote into its marker *)
  o_marker_at_return : bool; (* the marker existed when Launch returned *)
  o_alive : bool;            (* /proc/<pid>/stat: the daemon is running *)
  o_reparented : bool;       (* its parent is not the caller *)
  o_launcher_gone : bool;    (* no child of the caller is left (zombies count) *)
  o_done_at_return : bool;   (* the marker the daemon writes immediately before calling Done() existed when Launch
                                returned: Launch did not return before Done() was entered (the signal is sent inside
                                Done(), so this is the observable that cannot give a false alarm) *)
  o_done_nil : bool;         (* Done() returned nil in the daemon (recorded by the handler), also when the handler
                                scrubbed its environment before calling it *)
  o_right_handler : bool;    (* the returned pid runs the handler registered under the name given to Launch, and no
                                other Launch of the group returned the same pid *)
  o_survived : bool          (* ~300 ms after Launch returned the daemon is still running and has got past its
                                late step (a write to its stderr in some variants): "keeps running after Launch
                                returns". The daemon's stderr is outside Model/Daemon.v: judged on the Go side only,
                                the model contributes nothing to this flag *)
}.

Definition spec_ok (o : obs) : bool :=
  oclass_eqb (o_class o) OOk && o_pid_matches o && o_marker_at_return o && o_alive o && o_reparented o && o_launcher_gone o
  && o_done_at_return o && o_done_nil o && o_right_handler o && o_survived o.

Definition class_of (s : state) : oclass :=
  match result s with
  | Some (Returned p) => if Nat.eqb p pid_daemon then OOk else OOther
  | Some (Failed ErrRun) => OErrRun
  | Some (Failed ErrStderr) => OErrStderr
  | Some (Failed ErrStdout) => OErrStdout
  | None => OOther
  end.

(** (class, daemon alive) the model predicts *)
Definition model_outcomes (acts : list action) (forced_daemon_first : bool) : list (oclass * bool) :=
  let df := run_skip acts 0 init (sched_daemon_first acts 0) in
  let lf := run_skip acts 0 init (sched_launcher_first acts 0) in
  if forced_daemon_first then [(class_of df, dalive df)]
  else [(class_of df, dalive df); (class_of lf, dalive lf)].

(** pause of the launcher behind cmd.Start() and delay of the daemon before Done(), in milliseconds:
    the schedule is forced when the pause exceeds the delay by 150 ms or more *)
Definition forced (delay_ms pause_ms : N) : bool := (delay_ms + 150 <=? pause_ms)%N.

Definition model_ok (acts : list action) (delay_ms pause_ms : N) (o : obs) : bool :=
  existsb (fun p => oclass_eqb (fst p) (o_class o) && Bool.eqb (snd p) (o_alive o))
          (model_outcomes acts (forced delay_ms pause_ms)).

Record verdict := { v_spec : bool; v_model : bool }.
Definition check_case (acts : list action) (delay_ms pause_ms : N) (o : obs) : verdict :=
  {| v_spec := spec_ok o; v_model := model_ok acts delay_ms pause_ms o |}.
Definition verdict_ok (v : verdict) : bool := v_spec v && v_model v.
