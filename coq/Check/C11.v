(** Executable verdict for one observed history of C11 (also used for the final
    membership cases of C12): the whole history is replayed on the model AND on the
    specification (the plain live set); every observed result — error or not of each
    Add/Remove, boolean of each Contains — is compared with both. *)
From Coq Require Import List Arith NArith Bool.
Import ListNotations.
From Glb Require Import Lib.NetIP Lib.CidrSet Model.Filter.
Open Scope N_scope.

(** observed result codes: 0 = nil error / false, 1 = ErrInvalidIPv4CIDR / true,
    2 = anything else (panic, another error) — never expected *)
Inductive obs :=
| OAdd (c : cidr) (res : N)
| ORemove (c : cidr) (res : N)
| OContains (ip : list N) (res : N).

Definition code_of_result (r : result) : N := match r with ROk => 0 | RErrInvalid => 1 end.
Definition code_of_bool (b : bool) : N := if b then 1 else 0.

Definition obs_res (o : obs) : N :=
  match o with OAdd _ r => r | ORemove _ r => r | OContains _ r => r end.
Definition obs_op (o : obs) : option op :=
  match o with OAdd c _ => Some (Add c) | ORemove c _ => Some (Remove c) | OContains _ _ => None end.

(** what the specification says the call returns in live set [st] *)
Definition spec_expect (st : sstate) (o : obs) : N :=
  match o with
  | OAdd c _ | ORemove c _ => match cidr_arg c with None => 1 | Some _ => 0 end
  | OContains ip _ => code_of_bool (spec_contains_st st ip)
  end.

(** what the model returns in state [s], and the state it moves to; a panic of the model
    is code 2 (and the state stays: nothing after a panic is meaningful) *)
Definition model_step (s : state) (o : obs) : state * N :=
  match o with
  | OAdd c _ => match add s c with Some (s', r) => (s', code_of_result r) | None => (s, 2) end
  | ORemove c _ => match remove s c with Some (s', r) => (s', code_of_result r) | None => (s, 2) end
  | OContains ip _ => (s, match contains s ip with Some b => code_of_bool b | None => 2 end)
  end.

Record acc := mkAcc {
  a_model : state; a_spec : sstate; a_pos : N;
  a_specfail : option N;      (* position of the first observation the specification rejects *)
  a_mismatch : option N;      (* position of the first observation the model disagrees with *)
  a_probes : N; a_invalid : N }.

Definition first_fail (cur : option N) (ok : bool) (pos : N) : option N :=
  match cur with Some i => Some i | None => if ok then None else Some pos end.

Definition step_acc (a : acc) (o : obs) : acc :=
  let r := obs_res o in
  let se := spec_expect (a_spec a) o in
  let '(s', me) := model_step (a_model a) o in
  mkAcc s'
        (match obs_op o with Some p => spec_step (a_spec a) p | None => a_spec a end)
        (a_pos a + 1)
        (first_fail (a_specfail a) (se =? r) (a_pos a))
        (first_fail (a_mismatch a) (me =? r) (a_pos a))
        (match obs_op o with None => a_probes a + 1 | Some _ => a_probes a end)
        (match obs_op o with Some _ => if se =? 1 then a_invalid a + 1 else a_invalid a | None => a_invalid a end).

Record verdict := mkVerdict {
  spec_fail : option N; model_fail : option N;
  n_obs : N; n_probes : N; n_invalid : N;
  final_maps : bool; final_index : N }.

(** the three pieces are extracted separately so that the driver can expand run-length
    encoded histories ("the same call n times") without building the list *)
Definition acc0 : acc := mkAcc init (false, []) 0 None None 0 0.

Definition verdict_of_acc (a : acc) : verdict :=
  mkVerdict (a_specfail a) (a_mismatch a) (a_pos a) (a_probes a) (a_invalid a)
            (mode_maps (a_model a)) (N.of_nat (index (a_model a))).

Definition check_history (h : list obs) : verdict := verdict_of_acc (fold_left step_acc h acc0).

Definition is_none {A} (o : option A) : bool := match o with None => true | Some _ => false end.
Definition verdict_ok (v : verdict) : bool := is_none (spec_fail v) && is_none (model_fail v).
