(** Canonical texts the harnesses of C09/C10 print for typed field values, and their
    comparison with model values:
      bool "true"/"false"; int/int64/uint/uint64 decimal (strconv); string and []byte the raw bytes;
      time.Duration decimal nanoseconds; float64 strconv.FormatFloat(v,'g',-1,64). *)
From Coq Require Import List NArith ZArith Bool.
Import ListNotations.
From Glb Require Import Lib.ArgGrammar Model.FlagValue.
Open Scope N_scope.

Fixpoint parse_dec_acc (s : list N) (acc : N) : option N :=
  match s with
  | [] => Some acc
  | c :: r => if (48 <=? c) && (c <=? 57) then parse_dec_acc r (acc * 10 + (c - 48)) else None
  end.

Definition parse_dec (s : list N) : option N :=
  match s with [] => None | _ => parse_dec_acc s 0 end.

Definition parse_dec_z (s : list N) : option Z :=
  match s with
  | c :: r => if c =? 45 then option_map (fun n => (- Z.of_N n)%Z) (parse_dec r)
              else option_map Z.of_N (parse_dec s)
  | [] => None
  end.

Definition text_true : list N := [116; 114; 117; 101].
Definition text_false : list N := [102; 97; 108; 115; 101].

Definition value_matches (v : value) (obs : list N) : bool :=
  match v with
  | VBool b => bytes_eqb obs (if b then text_true else text_false)
  | VInt z | VDur z => match parse_dec_z obs with Some z' => Z.eqb z z' | None => false end
  | VUint n => match parse_dec obs with Some n' => n =? n' | None => false end
  | VString s | VBytes s | VFloat s => bytes_eqb s obs
  end.

(** canonical text -> value of the given kind (used for JSON-assigned values in C09) *)
Definition value_of_canon (k : kind) (t : list N) : option value :=
  match k with
  | KBool => if bytes_eqb t text_true then Some (VBool true)
             else if bytes_eqb t text_false then Some (VBool false) else None
  | KInt | KInt64 => option_map VInt (parse_dec_z t)
  | KUint | KUint64 => option_map VUint (parse_dec t)
  | KString => Some (VString t)
  | KFloat => Some (VFloat t)
  | KDuration => option_map VDur (parse_dec_z t)
  | KBytes => Some (VBytes t)
  end.
