(** Executable verdict for one observed history of C03.

    The harness reports an abstract history: the operations on a tree of loggers in the order they
    were planned (node 0 is the root, the k-th derivation creates node k), the number of bytes each
    derivation appended, and for every Log what the implementation wrote, abstracted to
    (equal to the isolated replay in the implementation?, marker ids of the attribute values seen in
    the line, marker ids of the open groups seen in the line).

    The verdict replays the history on the heap model (Model/LoggerChain, token rendering, Go-like
    growth policy) under the discipline read from the source (clips, fresh_only):
      - [spec_ok]   every line equalled its isolated replay AND carries exactly the attribute markers of its own
                    chain, in order, followed by the record's own (the property itself, on the implementation);
      - [model_ok]  the model's lines carry exactly the observed marker ids (pi(model) = pi(impl));
      - [iso_ok]    the model's in-tree lines equal the model's isolated lines (instance of C03_isolation);
      - [noclip_viol] the same history on the model WITHOUT clip breaks isolation somewhere
                    (self-test of the model's discriminating power; counted, not a verdict). *)
From Coq Require Import List NArith Arith Bool.
Import ListNotations.
From Glb Require Import Lib.GoSlice Model.LoggerChain.

Inductive cop :=
| CA (parent : nat) (id : N) (sizes : list nat)          (* WithAttrs: one attribute per size *)
| CG (parent : nat) (id : N) (size : nat)                (* WithGroup *)
| CL (node : nat) (eq : bool) (ownid : N) (ownsize : nat) (obs_attrs obs_groups : list N).

Definition tA := (N * nat)%type.
Definition tG := (N * nat)%type.
Definition top := op tA tG unit.

Definition to_op (o : cop) : top :=
  match o with
  | CA p id sizes => Derive p (DAttrs (map (fun s => (id, s)) sizes))
  | CG p id size => Derive p (DGroup (id, size))
  | CL n _ ownid ownsize _ _ => Log n (mkRecord tt (match ownsize with 0 => [] | _ => [(ownid, ownsize)] end))
  end.

(** Go's growslice for byte slices, approximately: double (1.25x + 192 from 256 on) or the needed
    length, rounded up to a malloc size class. Only the self-test depends on it. *)
Definition size_classes : list nat :=
  map N.to_nat [8;16;24;32;48;64;80;96;112;128;144;160;176;192;208;224;240;256;288;320;352;384;416;448;480;512;
                576;640;704;768;896;1024;1152;1280;1408;1536;1792;2048;2304;2688;3072;3200;3456;4096;4864;5376;6144;
                6528;6784;6912;8192;9472;9728;10240;10880;12288;13568;14336;16384]%N.
Fixpoint round_class (l : list nat) (n : nat) : nat :=
  match l with [] => n | c :: r => if n <=? c then c else round_class r n end.
Definition go_grow : growth := fun _ oldcap need =>
  let dbl := if oldcap <? 256 then 2 * oldcap else oldcap + (oldcap + 768) / 4 in
  let c := if dbl <? need then need else dbl in
  round_class size_classes c - need.

Definition kind_group (kind : nat) := tok_render_group kind.
Definition flags_of (kind : nat) (clip fresh : bool) : flags := mkFlags clip fresh (Nat.eqb kind 2).

Definition run_model (kind : nat) (f : flags) (ops : list top) : list (nat * list N) :=
  written (list N) (exec_all (list N) tA tG unit tok_render_attrs (kind_group kind) tok_header tok_closer [] f go_grow ops).

Definition alone_model (kind : nat) (f : flags) (ops : list top) (n : nat) (r : record tA unit) : list N :=
  line_alone (list N) tA tG unit tok_render_attrs (kind_group kind) tok_header tok_closer [] f go_grow (chain_of tA tG unit ops n) r.

Fixpoint list_eqb (a b : list N) : bool :=
  match a, b with
  | [], [] => true
  | x :: a', y :: b' => N.eqb x y && list_eqb a' b'
  | _, _ => false
  end.

(** projection: marker ids of attributes (odd tokens) and of groups (even tokens > 0) *)
Definition attr_ids (l : list N) : list N :=
  flat_map (fun t => if N.odd t then [N.div2 t] else []) l.
Definition group_ids (l : list N) : list N :=
  flat_map (fun t => if N.odd t || N.eqb t 0 then [] else [N.div2 t - 1]%N) l.

Definition logs (ops : list cop) : list cop :=
  filter (fun o => match o with CL _ _ _ _ _ _ => true | _ => false end) ops.

Fixpoint zip_all {X Y} (f : X -> Y -> bool) (a : list X) (b : list Y) : bool :=
  match a, b with
  | [], [] => true
  | x :: a', y :: b' => f x y && zip_all f a' b'
  | _, _ => false
  end.

(** the attribute markers a node's line must carry, read off its chain alone (no heap): the attributes
    of every With on the way from the root, in order, then the record's own *)
Definition chain_attr_ids (c : chain tA tG) : list N :=
  flat_map (fun d => match d with DAttrs l => map fst l | DGroup _ => [] end) c.
Definition want_ids (tops : list top) (o : cop) : list N :=
  match o with
  | CL n _ ownid ownsize _ _ => chain_attr_ids (chain_of tA tG unit tops n) ++ (match ownsize with 0 => [] | _ => [ownid] end)
  | _ => []
  end.

Record verdict := mkV { spec_ok : bool; model_ok : bool; iso_ok : bool; noclip_viol : bool; nlogs : nat }.

Definition check_case (kind : nat) (clip fresh : bool) (ops : list cop) : verdict :=
  let tops := map to_op ops in
  let ls := logs ops in
  let good := run_model kind (flags_of kind clip fresh) tops in
  let bad := run_model kind (flags_of kind false fresh) tops in
  let rec_of (o : cop) := match to_op o with Log _ r => r | _ => mkRecord tt [] end in
  {| spec_ok := forallb (fun o => match o with CL _ e _ _ oa _ => e && list_eqb oa (want_ids tops o) | _ => true end) ops;
     model_ok := zip_all (fun o w => match o with
                                     | CL n _ _ ownsize oa og =>
                                         Nat.eqb n (fst w) && list_eqb (attr_ids (snd w)) oa
                                         (* a Text line shows its open groups only in the keys of the record's own attributes *)
                                         && ((Nat.eqb kind 1 && Nat.eqb ownsize 0) || list_eqb (group_ids (snd w)) og)
                                     | _ => false end) ls good;
     iso_ok := zip_all (fun o w => match o with
                                   | CL n _ _ _ _ _ => list_eqb (snd w) (alone_model kind (flags_of kind clip fresh) tops n (rec_of o))
                                   | _ => false end) ls good;
     noclip_viol := negb (zip_all (fun o w => match o with
                                   | CL n _ _ _ _ _ => list_eqb (snd w) (alone_model kind (flags_of kind false fresh) tops n (rec_of o))
                                   | _ => false end) ls bad);
     nlogs := length ls |}.

Definition verdict_ok (v : verdict) : bool := spec_ok v && model_ok v && iso_ok v.

(** With == call site on the token rendering: [ng] WithGroup and [na0] With steps in front, then
    With(a) + Log(b) against Log(a ++ b); [eq] is what the implementation showed. *)
Definition callsite_model (kind ng na0 na nb : nat) : bool :=
  let mk (base : N) (n : nat) := map (fun i => ((base + N.of_nat i)%N, 2)) (seq 0 n) in
  let c : chain tA tG := map (fun i => DGroup (N.of_nat i, 3)) (seq 0 ng) ++ map (fun i => DAttrs [((100 + N.of_nat i)%N, 2)]) (seq 0 na0) in
  let f := flags_of kind true true in
  let la := mk 200%N na in
  let lb := mk 300%N nb in
  list_eqb
    (line_alone (list N) tA tG unit tok_render_attrs (kind_group kind) tok_header tok_closer [] f go_grow (c ++ [DAttrs la]) (mkRecord tt lb))
    (line_alone (list N) tA tG unit tok_render_attrs (kind_group kind) tok_header tok_closer [] f go_grow c (mkRecord tt (la ++ lb))).
Definition check_callsite (kind : nat) (eq : bool) (ng na0 na nb : nat) : bool * bool :=
  (eq, callsite_model kind ng na0 na nb).
