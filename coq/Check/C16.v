(** Executable verdict for one observed case of C16: the implementation's output is
    judged by the specification (the shell lexer), and compared with the model. *)
From Coq Require Import List NArith Bool.
Import ListNotations.
From Glb Require Import Lib.Shell Model.ShellEscape.
Open Scope N_scope.

Fixpoint bytes_eqb (a b : list N) : bool :=
  match a, b with
  | [], [] => true
  | x :: a', y :: b' => (x =? y) && bytes_eqb a' b'
  | _, _ => false
  end.

(** spec: [out] read as a command line is exactly one word whose value is [s] *)
Definition one_word_value (home out expect : list N) : bool :=
  match tokens out with
  | Some [W w] => match word_value home w with Some v => bytes_eqb v expect | None => false end
  | _ => false
  end.

Definition home : list N := [47; 104].  (* "/h" *)

Definition starts_tilde_slash (s : list N) : bool :=
  match s with a :: b :: _ => (a =? 126) && (b =? 47) | _ => false end.

Record verdict := { spec_escape : bool; spec_tilde : bool; model_escape : bool; model_tilde : bool }.

Definition check_case (s out out_tilde : list N) : verdict :=
  {| spec_escape := one_word_value home out s;
     spec_tilde := if starts_tilde_slash s then one_word_value home out_tilde (home ++ tl s)
                   else one_word_value home out_tilde s;
     model_escape := bytes_eqb (shell_escape s) out;
     model_tilde := bytes_eqb (shell_escape_except_tilde s) out_tilde |}.

Definition verdict_ok (v : verdict) := spec_escape v && spec_tilde v && model_escape v && model_tilde v.
