(** Executable verdict for one observed case of C10.
    Input: the token vector handed to Parse and what the real code did (error class and the
    text its message carries, Args(), ShowUsage(), canonical texts of the fields).
    The prediction is computed by [arg_parse] — by C10_grammar exactly the documented
    grammar — followed by [set_T] on the effective (last) value of every flag in flag order. *)
From Coq Require Import List NArith ZArith Bool.
Import ListNotations.
From Glb Require Import Lib.ArgGrammar Model.ArgParse Model.FlagValue Check.FlagCanon.
Open Scope N_scope.

(** the flags of the harness struct in flagList order: name, kind, tag default *)
Definition flagdef := (token * kind * list N)%type.

Definition c10_flags : list flagdef :=
  [ ([104;101;108;112], KBool, [102;97;108;115;101]);      (* help  "false" *)
    ([99;111;110;102;105;103], KString, []);                (* config "" *)
    ([98], KBool, [102;97;108;115;101]);                    (* b     "false" *)
    ([118], KBool, []);                                     (* v     "" *)
    ([115], KString, []);                                   (* s     "" *)
    ([110;97;109;101], KString, [100;101;102]);             (* name  "def" *)
    ([110], KInt, [52;50]);                                 (* n     "42" *)
    ([117], KUint64, [48]);                                 (* u     "0" *)
    ([100], KDuration, [49;115]);                           (* d     "1s" *)
    ([102], KFloat, []);                                    (* f     "" *)
    ([107], KBytes, []);                                    (* k     "" *)
    ([100;114;121;45;114;117;110], KBool, [102;97;108;115;101]);          (* dry-run   "false"  ('-' inside the name) *)
    ([108;111;103;46;108;101;118;101;108], KString, [105;110;102;111]);   (* log.level "info"   ('.' inside the name) *)
    ([103;114;195;182;195;159;101], KInt, [55]);                          (* größe     "7"      (non-ASCII UTF-8 name) *)
    ([255;122], KUint64, []);                                             (* \xffz     ""       (name with a non-UTF-8 byte) *)
    ([105;110;110;101;114], KString, [105;110]) ].          (* inner "in" (nested struct) *)

(** small flag sets in which a non-ASCII name is the longest in bytes / ties with "config" *)
Definition hlp : flagdef := ([104;101;108;112], KBool, [102;97;108;115;101]).
Definition cfg : flagdef := ([99;111;110;102;105;103], KString, []).
Definition c10_small1 : list flagdef :=       (* struct{Größe int; V bool} *)
  [ hlp; cfg; ([103;114;195;182;195;159;101], KInt, []); ([118], KBool, []) ].
Definition c10_small2 : list flagdef :=       (* größ (6 bytes, 4 runes) "x"; q *)
  [ hlp; cfg; ([103;114;195;182;195;159], KString, [120]); ([113], KBool, []) ].
Definition c10_small3 : list flagdef :=       (* naïveté-ñ "d"; b int; résumé bool; w uint *)
  [ hlp; cfg; ([110;97;195;175;118;101;116;195;169;45;195;177], KString, [100]); ([98], KInt, []);
    ([114;195;169;115;117;109;195;169], KBool, []); ([119], KUint, []) ].

(** the nested-struct zoo: outer fields name(string,"def") verbose(bool) count(int,"3") and one nested group of
    k = 1..6 inner fields i1..ik (kinds cycling string, bool, int), the group placed first / in the middle / last;
    the same table serves the one-level and the two-level nesting (flag names do not carry the group path) *)
Definition inner_flag (j : N) : flagdef :=
  ([105; 48 + j], (if j mod 3 =? 1 then KString else if j mod 3 =? 2 then KBool else KInt), []).
Definition inner_flags (k : nat) : list flagdef := map (fun j => inner_flag (N.of_nat j)) (seq 1 k).
Definition o_name : flagdef := ([110;97;109;101], KString, [100;101;102]).
Definition o_verbose : flagdef := ([118;101;114;98;111;115;101], KBool, []).
Definition o_count : flagdef := ([99;111;117;110;116], KInt, [51]).
Definition zoo_table (k : nat) (pos : nat) : list flagdef :=
  hlp :: cfg :: match pos with
                | O => inner_flags k ++ [o_name; o_verbose; o_count]
                | S O => [o_name] ++ inner_flags k ++ [o_verbose; o_count]
                | _ => [o_name; o_verbose; o_count] ++ inner_flags k
                end.
Definition zoo_tables : list (list flagdef) :=
  flat_map (fun k => map (zoo_table k) [0; 1; 2]%nat) [1; 2; 3; 4; 5; 6]%nat.

Definition c10_tables : list (list flagdef) := [c10_flags; c10_small1; c10_small2; c10_small3] ++ zoo_tables.

Definition table_of (flags : list flagdef) : flagtable :=
  map (fun f => (fst (fst f), is_bool_kind (snd (fst f)))) flags.

Definition config_name : token := [99;111;110;102;105;103].

(** observed error classes *)
Definition cls_nil : N := 0.
Definition cls_bad_syntax : N := 1.
Definition cls_not_defined : N := 2.
Definition cls_needs_arg : N := 3.
Definition cls_other_error : N := 4.   (* any other error: value error from Set, unreadable -config file, unrecognised wording *)
Definition cls_panic : N := 5.

(** the property only requires "an error": the verdict distinguishes nil / error / PANIC; the
    wording (message prefix and carried text) refines DRIFT only *)
Definition is_error (cls : N) : bool := (1 <=? cls) && (cls <=? 4).

Definition class_of (e : err) : N :=
  match e with BadSyntax _ => cls_bad_syntax | NotDefined _ => cls_not_defined | NeedsArg _ => cls_needs_arg end.
Definition detail_of (e : err) : list N :=
  match e with BadSyntax t => t | NotDefined n => n | NeedsArg n => n end.

Definition no_oracle (int_size : N) : oracle := {| o_int_size := int_size; o_parse := fun _ _ => SErr |}.

(** [None]: the text is outside the modelled sub-language of the kind's parser (see
    Model/FlagValue.v) — the check is lenient there. *)
Definition set_known (isz : N) (k : kind) (t : list N) : option sres :=
  match t with
  | [] => Some (set_T (no_oracle isz) k t)
  | _ => if in_model k t then Some (set_T (no_oracle isz) k t) else None
  end.

Fixpoint tokens_eqb (a b : list token) : bool :=
  match a, b with
  | [], [] => true
  | x :: a', y :: b' => bytes_eqb x y && tokens_eqb a' b'
  | _, _ => false
  end.

Fixpoint fields_match (rs : list (option sres)) (obs : list (list N)) : bool :=
  match rs, obs with
  | [], [] => true
  | r :: rs', o :: obs' =>
      (match r with Some (SOk v) => value_matches v o | _ => true end) && fields_match rs' obs'
  | _, _ => false
  end.

Record verdict := {
  v_class : bool;    (* nil / bad syntax / not defined / needs argument / other error / PANIC as predicted *)
  v_args : bool;     (* Args() = the predicted rest *)
  v_help : bool;     (* ShowUsage() *)
  v_fields : bool;   (* every field holds its effective value (or its default when not assigned) *)
  v_detail : bool;   (* the text carried by the error message (byte level; drift only) *)
  v_lenient : bool   (* some effective value was outside the modelled parsers *)
}.

Definition all_ok : verdict := {| v_class := true; v_args := true; v_help := true; v_fields := true; v_detail := true; v_lenient := false |}.

Definition is_err (r : option sres) : bool := match r with Some SErr => true | _ => false end.
Definition is_unknown (r : option sres) : bool := match r with None => true | _ => false end.

Definition check_first (int_size : N) (flags : list flagdef) (vec : list token)
    (cls : N) (detail : list N) (args : list token) (help : bool) (fields : list (list N)) : verdict :=
  match arg_parse (table_of flags) vec with
  | Panic => {| v_class := false; v_args := false; v_help := false; v_fields := false; v_detail := false; v_lenient := false |}
  | Err e =>
      {| v_class := is_error cls; v_args := true; v_help := true; v_fields := true;
         v_detail := (cls =? class_of e) && bytes_eqb detail (detail_of e); v_lenient := false |}
  | Ok asg rest =>
      match final_value asg config_name with
      | Some (_ :: _) =>
          (* a non-empty -config names a file: what happens then is outside the grammar property (C09); lenient *)
          {| v_class := negb (cls =? cls_panic); v_args := true; v_help := true; v_fields := true; v_detail := true; v_lenient := true |}
      | _ =>
          let rs := map (fun f => match final_value asg (fst (fst f)) with
                                  | Some t => set_known int_size (snd (fst f)) t
                                  | None => set_known int_size (snd (fst f)) (snd f)
                                  end) flags in
          let lenient := existsb is_unknown rs in
          if existsb is_err rs then
            {| v_class := is_error cls; v_args := true; v_help := true; v_fields := true; v_detail := cls =? cls_other_error; v_lenient := lenient |}
          else if is_error cls && lenient then
            {| v_class := true; v_args := true; v_help := true; v_fields := true; v_detail := true; v_lenient := true |}
          else
            {| v_class := cls =? cls_nil;
               v_args := tokens_eqb args rest;
               v_help := match rs with Some (SOk (VBool b)) :: _ => Bool.eqb b help | _ => true end;
               v_fields := fields_match (skipn 2 rs) fields;
               v_detail := true; v_lenient := lenient |}
      end
  end.

(** [callno] = 0: the first Parse on a fresh FlagSet (also through FromCommandLine: Parse(os.Args[1:])).
    [callno] > 0: a later Parse on the same FlagSet — refused by the code under verification ("must be called
    once"), fields untouched (both are facts about the model only: deviations are drift).  Should an implementation accept it (return nil), the grammar still binds it:
    the assignments must be those of THIS vector ("never a silently different assignment"); agreement with that is
    reported as drift from the model only. *)
Definition check_case (int_size : N) (flags : list flagdef) (callno : N) (unchanged : bool) (vec : list token)
    (cls : N) (detail : list N) (args : list token) (help : bool) (fields : list (list N)) : verdict :=
  if callno =? 0 then check_first int_size flags vec cls detail args help fields
  else if cls =? cls_nil then
    let v := check_first int_size flags vec cls detail args help fields in
    {| v_class := v_class v; v_args := v_args v; v_help := v_help v; v_fields := v_fields v; v_detail := false; v_lenient := v_lenient v |}
  else
    (* the later call returned an error (or panicked): the property constrains nothing but "an error, not a panic";
       the fields after a FAILED Parse are unconstrained — a change is only drift from the model *)
    {| v_class := is_error cls; v_args := true; v_help := true; v_fields := true; v_detail := unchanged; v_lenient := false |}.

Definition verdict_ok (v : verdict) : bool := v_class v && v_args v && v_help v && v_fields v.
Definition verdict_clean (v : verdict) : bool := verdict_ok v && v_detail v.
