(** C07 uses the shared TaskLane verdict (monitors + acceptor): see Check/TaskLane.v. *)
From Glb Require Export Check.TaskLane.
