(** Executable verdict for one observed run of ProgressWriter (C19).

    Observed: the script with the counts the wrapped writer reported, Size() read by the
    writing goroutine after every call, the sequence of values the consumer received from
    Status(), whether the consumer finally saw the channel closed, and the consumer kind
    (0 = "absent until Close": it provably never receives before all writes returned).

    spec_*  : the property evaluated on the implementation's output;
    model_run: the observed history is a possible run of the LTS [Model.Progress]: labels are
    reconstructed (which writes delivered = greedy matching of the received values against
    the running sums) and executed with [run]; the final state must reproduce the
    observation. *)
From Coq Require Import List NArith Bool Arith.
Import ListNotations.
From Glb Require Import Model.Progress.
Open Scope N_scope.

Fixpoint eqbl (a b : list N) : bool :=
  match a, b with
  | [], [] => true
  | x :: a', y :: b' => (x =? y) && eqbl a' b'
  | _, _ => false
  end.

Fixpoint nondecb (lo : N) (l : list N) : bool :=
  match l with [] => true | x :: r => (lo <=? x) && nondecb x r end.

Fixpoint memb (x : N) (l : list N) : bool :=
  match l with [] => false | y :: r => (x =? y) || memb x r end.

Definition is_nil {A} (l : list A) : bool := match l with [] => true | _ => false end.

(** greedy matching of received values against the running sums: [true] = this call's
    non-blocking send was taken *)
Fixpoint plan (acc : N) (ops : list op) (rw : list N) : list bool :=
  match ops with
  | [] => []
  | o :: r =>
      let a := acc + orep o in
      match rw with
      | v :: rw' => if v =? a then true :: plan a r rw' else false :: plan a r rw
      | [] => false :: plan a r []
      end
  end.

Fixpoint write_labels (i : nat) (ds : list bool) : list label :=
  match ds with
  | [] => []
  | true :: r => CWait :: Under i :: WriteDone i true :: write_labels (S i) r
  | false :: r => Under i :: WriteDone i false :: write_labels (S i) r
  end.

Definition close_labels : list label := [CWait; CloseSend; CloseChan; CWait; CRecvClosed].

Definition labels_of (sc : script) (rc : list N) : list label :=
  write_labels 0 (plan 0 sc (removelast rc)) ++ close_labels.

Record verdict := {
  spec_size : bool;     (* Size() after call i = k_1 + ... + k_i *)
  spec_mono : bool;     (* received values non-decreasing *)
  spec_prefix : bool;   (* each received value is Size() after some completed call *)
  spec_final : bool;    (* the last received value is the final total *)
  spec_closed : bool;   (* the channel is closed after Close *)
  model_run : bool      (* the history is a run of the model *)
}.

(** [pieces]: the counts the wrapped writer reported, one per call MADE TO IT, in order.  An
    implementation may hand one Write on in several pieces; Size() after each completed write of the
    wrapped writer is a running sum of these counts (a superset of the per-call sums when the pieces of
    a call add up to the call's total). *)
Definition check_case (ckind : N) (sc : script) (pieces sizes rc : list N) (closed_seen : bool) : verdict :=
  let ps := psums 0 (reps sc) in
  let pps := psums 0 pieces in
  {| spec_size := eqbl sizes ps;
     spec_mono := nondecb 0 rc;
     spec_prefix := forallb (fun v => memb v ps || memb v pps) (removelast rc);
     spec_final := negb (is_nil rc) && (last rc 0 =? total sc);
     spec_closed := closed_seen;
     model_run :=
       let ds := plan 0 sc (removelast rc) in
       (if ckind =? 0 then negb (existsb (fun d => d) ds) else true) &&
       match run (init sc) (labels_of sc rc) with
       | Some s => eqbl (recvd s) rc && (size s =? last sizes 0) && Bool.eqb (closed s) closed_seen
                   && Nat.eqb (eofs s) 1
       | None => false
       end |}.

Definition spec_ok (v : verdict) : bool :=
  spec_size v && spec_mono v && spec_prefix v && spec_final v && spec_closed v.
Definition verdict_ok (v : verdict) : bool := spec_ok v && model_run v.

Definition mk_op (is_string : bool) (n k : N) (err : bool) : op :=
  mkOp (if is_string then KWriteString else KWrite) n k err.
