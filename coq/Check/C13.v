(** Executable verdict for one observed case of C13: the writes of the real TextHandler
    are judged by the specification (the tokenizer of Lib/TextTok.v against
    [expected_pairs]) and compared byte for byte with the model. *)
From Coq Require Import List NArith Bool.
Import ListNotations.
From Glb Require Import Lib.Utf8 Lib.GoQuote Lib.TextTok Model.LoggerText.
Open Scope N_scope.

(** oracle tables as sorted inclusive range lists (dumped from the Go toolchain) *)
Fixpoint in_ranges (tbl : list (N * N)) (r : N) : bool :=
  match tbl with
  | [] => false
  | (lo, hi) :: t => if r <? lo then false else if r <=? hi then true else in_ranges t r
  end.

Fixpoint pairs_eqb (a b : list (bytes * bytes)) : bool :=
  match a, b with
  | [], [] => true
  | (k, v) :: a', (k', v') :: b' => bytes_eqb k k' && bytes_eqb v v' && pairs_eqb a' b'
  | _, _ => false
  end.

(** split a write into body and final newline *)
Fixpoint split_last (s : bytes) : option (bytes * N) :=
  match s with
  | [] => None
  | [b] => Some ([], b)
  | b :: t => match split_last t with Some (body, l) => Some (b :: body, l) | None => None end
  end.

Definition has_newline (s : bytes) : bool := existsb (fun b => b =? 10) s.

Record verdict := {
  wf_input : bool;      (* the abstract input satisfies the theorem's hypotheses *)
  one_write : bool;     (* exactly one Write *)
  one_line : bool;      (* it ends in a newline and contains no other *)
  tokens_ok : bool;     (* tokenize body = Some expected_pairs *)
  model_eq : bool       (* model bytes = implementation bytes *)
}.

Definition check_case (isSpace isPrint sp_print : N -> bool)
           (chain : list deriv) (r : record) (writes : list bytes) : verdict :=
  let wf := wf_chain isSpace chain && wf_record isSpace r && src_agrees r in
  match writes with
  | [w] =>
    let line_ok := match split_last w with Some (body, l) => (l =? 10) && negb (has_newline body) | None => false end in
    let tok := match split_last w with
               | Some (body, _) =>
                 match tokenize isSpace body with
                 | Some ps => pairs_eqb ps (expected_pairs chain r)
                 | None => false
                 end
               | None => false
               end in
    {| wf_input := wf; one_write := true; one_line := line_ok; tokens_ok := tok;
       model_eq := bytes_eqb (handle isSpace isPrint sp_print (derive isSpace isPrint sp_print chain) r) w |}
  | _ => {| wf_input := wf; one_write := false; one_line := false; tokens_ok := false; model_eq := false |}
  end.

Definition spec_ok (v : verdict) : bool := one_write v && one_line v && tokens_ok v.
Definition verdict_ok (v : verdict) : bool := wf_input v && spec_ok v && model_eq v.

(** the tokenizer's unquoting on a whole literal, for the cross-check against strconv.Unquote *)
Definition unquote_whole (s : bytes) : option bytes := unquote s.
(** items of a body as the tokenizer reads them, for diagnostics *)
Definition tokens_of (isSpace : N -> bool) (body : bytes) := tokenize isSpace body.
