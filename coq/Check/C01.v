(** Executable verdict for one observed case of C01.
    Input: the abstract description of what was logged (derivation chain + record, with the
    oracle texts the harness obtained from the standard library) and the byte strings the
    real handler passed to its io.Writer.  The SPECIFICATION ([parse_object] + [expected])
    judges the implementation's bytes; the model is compared byte-wise (drift only).
    [expected] is the theorem's function, applied to the input with its encoding/json oracle texts
    re-printed canonically (numbers marked for numeric comparison); nothing else differs. *)
From Coq Require Import List NArith ZArith Bool.
Import ListNotations.
From Glb Require Import Lib.Utf8 Lib.JsonDec Lib.Json Model.LoggerJson Model.LoggerJsonSpec.
Open Scope N_scope.

(** ** numbers that come from an encoding/json oracle are compared NUMERICALLY
    The expected text of a float is what the harness obtained from encoding/json; an implementation may print
    the same number differently (1e-07 / 1e-7, 1e+20 / 100000000000000000000).  [canon_num] maps a JSON number
    text to sign, mantissa digits without leading / trailing zeros, 'E', exponent; zero is "0E0".  Go never
    prints a capital E, so a capital E marks an expected number as "compare canonically".  Integers of
    VInt / VUint / VDur stay textual. *)
Fixpoint strip0 (l : list N) : list N :=
  match l with d :: t => if d =? 48 then strip0 t else l | [] => [] end.

Definition canon_num (t : list N) : list N :=
  let (sg, s1) := num_sign t in
  let (ip, s2) := span_digits s1 in
  let (fp, s3) := match s2 with
                  | p :: u => if p =? 46 then span_digits u else ([], s2)
                  | [] => ([], s2)
                  end in
  let ex : Z := match s3 with
                | e :: u => if (e =? 101) || (e =? 69) then
                              match u with
                              | g :: w => if g =? 45 then Z.opp (Z.of_N (of_dec (fst (span_digits w))))
                                          else if g =? 43 then Z.of_N (of_dec (fst (span_digits w)))
                                          else Z.of_N (of_dec (fst (span_digits u)))
                              | [] => 0%Z
                              end
                            else 0%Z
                | [] => 0%Z
                end in
  let d1 := strip0 (ip ++ fp) in
  let d2r := strip0 (rev d1) in
  let e := (ex - Z.of_nat (length fp) + Z.of_nat (length d1 - length d2r))%Z in
  match d2r with
  | [] => [48; 69; 48]
  | _ => sg ++ rev d2r ++ [69] ++ to_dec_z e
  end.

Fixpoint print_canon (j : jval) {struct j} : list N :=
  match j with
  | JStr s => quoted s
  | JNum t => canon_num t
  | JTrue => [116; 114; 117; 101]
  | JFalse => [102; 97; 108; 115; 101]
  | JNull => [110; 117; 108; 108]
  | JArr l =>
    [91] ++ (fix go (l : list jval) (first : bool) : list N :=
               match l with
               | [] => []
               | x :: t => (if first then [] else [44]) ++ print_canon x ++ go t false
               end) l true ++ [93]
  | JObj m =>
    [123] ++ (fix go (m : list (list N * jval)) (first : bool) : list N :=
                match m with
                | [] => []
                | (k, x) :: t => (if first then [] else [44]) ++ quoted k ++ [58] ++ print_canon x ++ go t false
                end) m true ++ [125]
  end.

Definition canon_raw (b : list N) : list N :=
  match parse_exact b with Some j => print_canon j | None => b end.

(** An encoding FAILURE must show up as a JSON string; its wording is the implementation's business (the theorem's
    [expected] pins the wording of the code as it is; here a different wording is drift).  The expected leaf is
    replaced by a mark that no real number text canonicalises to ([canon_num] writes zero as 0E0 only):
    0E7 = "any non-empty string", 0E8 = "any string" (when the error text itself is empty). *)
Definition wild_nonempty : list N := [48; 69; 55].
Definition wild_any : list N := [48; 69; 56].

Fixpoint canon_value (v : value) : value :=
  match v with
  | VRaw (ROk b) => VRaw (ROk (canon_raw b))
  | VRaw (RErr m) => VRaw (ROk (if is_empty m then wild_any else wild_nonempty))
  | VGroup l => VGroup ((fix go (l : list (list N * value)) : list (list N * value) :=
                           match l with [] => [] | (k, v') :: t => (k, canon_value v') :: go t end) l)
  | _ => v
  end.
Definition canon_attrs (l : list (list N * value)) : list (list N * value) := map (fun kv => (fst kv, canon_value (snd kv))) l.
Definition canon_chain (c : list deriv) : list deriv :=
  map (fun d => match d with DAttrs al => DAttrs (canon_attrs al) | DGroup g => DGroup g end) c.
Definition canon_record (r : record) : record :=
  mkR (time_txt r) (lvl r) (src r) (msg r) (canon_attrs (attrs r)).

(** [a] = expected (numbers with a capital E are canonical), [b] = observed *)
Fixpoint jval_eqb (a b : jval) {struct a} : bool :=
  match a, b with
  | JStr x, JStr y => bytes_eqb x y
  | JNum x, JStr y => (bytes_eqb x wild_nonempty && negb (is_empty y)) || bytes_eqb x wild_any
  | JNum x, JNum y => if existsb (fun c => c =? 69) x then bytes_eqb x (canon_num y) else bytes_eqb x y
  | JTrue, JTrue | JFalse, JFalse | JNull, JNull => true
  | JArr l, JArr m =>
    (fix go (l m : list jval) : bool :=
       match l, m with
       | [], [] => true
       | x :: l', y :: m' => jval_eqb x y && go l' m'
       | _, _ => false
       end) l m
  | JObj l, JObj m =>
    (fix go (l m : list (list N * jval)) : bool :=
       match l, m with
       | [], [] => true
       | (k, x) :: l', (k', y) :: m' => bytes_eqb k k' && jval_eqb x y && go l' m'
       | _, _ => false
       end) l m
  | _, _ => false
  end.

(** [w] = body ++ [10] with no 10 in body *)
Fixpoint split_line (w : list N) : option (list N) :=
  match w with
  | [] => None
  | [b] => if b =? 10 then Some [] else None
  | b :: t => if b =? 10 then None else match split_line t with Some body => Some (b :: body) | None => None end
  end.

Record verdict := {
  wf_ok : bool;        (* the oracle texts are what the theorem's hypotheses demand *)
  one_write : bool;    (* exactly one Write *)
  line_ok : bool;      (* ends in exactly one newline, none inside *)
  spec_ok : bool;      (* parses as one JSON object that decodes to [expected] *)
  utf8_line : bool;    (* the line is valid UTF-8 unless an embedded encoding/json text is not *)
  model_ok : bool      (* bytes equal to the model's *)
}.

Definition check_case (chain : list deriv) (r : record) (writes : list (list N)) : verdict :=
  let wf := wf_chain chain && wf_record r in
  match writes with
  | [w] =>
    let body := split_line w in
    {| wf_ok := wf; one_write := true;
       line_ok := match body with Some _ => true | None => false end;
       spec_ok := match body with
                  | Some b => match parse_object b with
                              | Some (j, _) => jval_eqb (JObj (expected (canon_chain chain) (canon_record r))) j
                              | None => false
                              end
                  | None => false
                  end;
       utf8_line := if raws_utf8 chain r then utf8_ok w else true;
       model_ok := bytes_eqb (handle (derive chain) r) w |}
  | _ => {| wf_ok := wf; one_write := false; line_ok := false; spec_ok := false; utf8_line := false; model_ok := false |}
  end.

Definition spec_holds (v : verdict) : bool := one_write v && line_ok v && spec_ok v && utf8_line v.
Definition verdict_ok (v : verdict) : bool := wf_ok v && spec_holds v && model_ok v.

(** for the cross-validation of the parser against encoding/json: a canonical dump of a parsed text *)
Definition parse_any (s : list N) : option jval := parse_json s.
