(** Executable verdict for one observed case of C01.
    Input: the abstract description of what was logged (derivation chain + record, with the
    oracle texts the harness obtained from the standard library) and the byte strings the
    real handler passed to its io.Writer.  The SPECIFICATION ([parse_object] + [expected])
    judges the implementation's bytes; the model is compared byte-wise (drift only). *)
From Coq Require Import List NArith ZArith Bool.
Import ListNotations.
From Glb Require Import Lib.Utf8 Lib.JsonDec Lib.Json Model.LoggerJson Model.LoggerJsonSpec.
Open Scope N_scope.

Fixpoint jval_eqb (a b : jval) {struct a} : bool :=
  match a, b with
  | JStr x, JStr y => bytes_eqb x y
  | JNum x, JNum y => bytes_eqb x y
  | JTrue, JTrue | JFalse, JFalse | JNull, JNull => true
  | JArr l, JArr m =>
    (fix go (l m : list jval) : bool :=
       match l, m with
       | [], [] => true
       | x :: l', y :: m' => jval_eqb x y && go l' m'
       | _, _ => false
       end) l m
  | JObj l, JObj m =>
    (fix go (l m : list (list N * jval)) : bool :=
       match l, m with
       | [], [] => true
       | (k, x) :: l', (k', y) :: m' => bytes_eqb k k' && jval_eqb x y && go l' m'
       | _, _ => false
       end) l m
  | _, _ => false
  end.

(** [w] = body ++ [10] with no 10 in body *)
Fixpoint split_line (w : list N) : option (list N) :=
  match w with
  | [] => None
  | [b] => if b =? 10 then Some [] else None
  | b :: t => if b =? 10 then None else match split_line t with Some body => Some (b :: body) | None => None end
  end.

Record verdict := {
  wf_ok : bool;        (* the oracle texts are what the theorem's hypotheses demand *)
  one_write : bool;    (* exactly one Write *)
  line_ok : bool;      (* ends in exactly one newline, none inside *)
  spec_ok : bool;      (* parses as one JSON object that decodes to [expected] *)
  model_ok : bool      (* bytes equal to the model's *)
}.

Definition check_case (chain : list deriv) (r : record) (writes : list (list N)) : verdict :=
  let wf := wf_chain chain && wf_record r in
  match writes with
  | [w] =>
    let body := split_line w in
    {| wf_ok := wf; one_write := true;
       line_ok := match body with Some _ => true | None => false end;
       spec_ok := match body with
                  | Some b => match parse_object b with
                              | Some (j, _) => jval_eqb j (JObj (expected chain r))
                              | None => false
                              end
                  | None => false
                  end;
       model_ok := bytes_eqb (handle (derive chain) r) w |}
  | _ => {| wf_ok := wf; one_write := false; line_ok := false; spec_ok := false; model_ok := false |}
  end.

Definition spec_holds (v : verdict) : bool := one_write v && line_ok v && spec_ok v.
Definition verdict_ok (v : verdict) : bool := wf_ok v && spec_holds v && model_ok v.

(** for the cross-validation of the parser against encoding/json: a canonical dump of a parsed text *)
Definition parse_any (s : list N) : option jval := parse_json s.
