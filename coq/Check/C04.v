(** Executable verdict for one observed C04 case: a route table as registered on the real
    Mux (with the outcome of registration) and a batch of requests with what the single
    invoked handler observed.  The SPECIFICATION ([table_ok], [match_spec]) judges the
    implementation's output; the MODEL (trie) is compared on the same projection. *)
From Coq Require Import List NArith Bool Arith.
Import ListNotations.
From Glb Require Import Lib.RouteBytes Lib.RouteSpec Model.Router.

(** who ran: a registered route's handler, the no-route handler, or something the property
    forbids (panic, zero or several invocations, a RouteInfo that is not the route's) *)
Inductive who := WRoute (i : nat) | WNoRoute | WBad.

Record obs := { o_who : who; o_any : bytes; o_vals : list bytes }.
Record req := { q_path : bytes; q_method : bytes; q_obs : obs }.

Definition who_eqb (a b : who) : bool :=
  match a, b with
  | WRoute i, WRoute j => Nat.eqb i j
  | WNoRoute, WNoRoute => true
  | _, _ => false          (* WBad equals nothing *)
  end.
Fixpoint list_bytes_eqb (a b : list bytes) : bool :=
  match a, b with
  | [], [] => true
  | x :: a', y :: b' => bytes_eqb x y && list_bytes_eqb a' b'
  | _, _ => false
  end.
Definition obs_eqb (a b : obs) : bool :=
  who_eqb (o_who a) (o_who b) && bytes_eqb (o_any a) (o_any b) && list_bytes_eqb (o_vals a) (o_vals b).

(** what the specification says the handler sees *)
Definition spec_obs (routes : list route) (names : list bytes) (path method : bytes) : obs :=
  match match_spec routes (segments path) method with
  | Some m => {| o_who := WRoute (m_route m);
                 o_any := lookup_param (m_names m) (m_values m) any_name;
                 o_vals := map (lookup_param (m_names m) (m_values m)) names |}
  | None => {| o_who := WNoRoute; o_any := []; o_vals := map (fun _ => []) names |}
  end.

Fixpoint map_opt {A B} (f : A -> option B) (l : list A) : option (list B) :=
  match l with
  | [] => Some []
  | x :: r => match f x with
              | Some y => match map_opt f r with Some ys => Some (y :: ys) | None => None end
              | None => None
              end
  end.

(** what the model says the handler sees ([None]: the model panics or does not make exactly one call) *)
Definition model_obs (t : table) (names : list bytes) (path method : bytes) : option obs :=
  match serve_http t path method with
  | Some [Call tg ps] =>
    match route_param_any_of ps, map_opt (route_param_of ps) names with
    | Some a, Some vs =>
      Some {| o_who := match tg with Route r => WRoute r | NoRoute => WNoRoute end; o_any := a; o_vals := vs |}
    | _, _ => None
    end
  | _ => None
  end.

Inductive verdict := VOk | VSpecFail | VMismatch.

Definition check_req (routes : list route) (t : option table) (names : list bytes) (q : req) : verdict :=
  if obs_eqb (spec_obs routes names (q_path q) (q_method q)) (q_obs q) then
    match t with
    | Some t =>
      match model_obs t names (q_path q) (q_method q) with
      | Some o => if obs_eqb o (q_obs q) then VOk else VMismatch
      | None => VMismatch
      end
    | None => VMismatch
    end
  else VSpecFail.

(** registration: index of the first route that is rejected, [None] if all are accepted *)
Fixpoint spec_first_rejected (earlier rs : list route) (i : nat) : option nat :=
  match rs with
  | [] => None
  | r :: rest => if accepts earlier r then spec_first_rejected (earlier ++ [r]) rest (S i) else Some i
  end.
Fixpoint model_first_rejected (t : table) (rs : list route) (i : nat) : option nat :=
  match rs with
  | [] => None
  | (p, m) :: rest => match handle t p m with
                      | Some t' => model_first_rejected t' rest (S i)
                      | None => Some i
                      end
  end.
Definition opt_nat_eqb (a b : option nat) : bool :=
  match a, b with
  | None, None => true
  | Some x, Some y => Nat.eqb x y
  | _, _ => false
  end.

(** worst verdict over the batch and the index of the first request that has it
    (registration itself counts as index 0 when it is what fails) *)
Fixpoint check_reqs (routes : list route) (t : option table) (names : list bytes) (qs : list req)
         (i : nat) (mis : option nat) : verdict * nat :=
  match qs with
  | [] => match mis with Some j => (VMismatch, j) | None => (VOk, 0) end
  | q :: rest =>
    match check_req routes t names q with
    | VSpecFail => (VSpecFail, i)
    | VMismatch => check_reqs routes t names rest (S i) (match mis with Some j => Some j | None => Some i end)
    | VOk => check_reqs routes t names rest (S i) mis
    end
  end.

(** [reg]: [None] = every Handle returned, [Some i] = Handle of route i panicked *)
(** the implementation rejects a route the specification would accept (before any route the specification rejects):
    the property quantifies over SUCCESSFULLY registered routes, an implementation may be stricter *)
Definition rejects_more (spec impl : option nat) : bool :=
  match impl, spec with
  | Some i, None => true
  | Some i, Some j => Nat.ltb i j
  | None, _ => false
  end.

(** third component: [true] = nothing to judge, the implementation rejected more than the specification demands *)
Definition check_case (routes : list route) (reg : option nat) (names : list bytes) (qs : list req)
  : verdict * nat * bool :=
  let spec := spec_first_rejected [] routes 0 in
  if opt_nat_eqb spec reg then
    if opt_nat_eqb (model_first_rejected empty_table routes 0) reg then
      (check_reqs routes (register_all routes) names qs 0 None, false)
    else
      match check_reqs routes (register_all routes) names qs 0 None with
      | (VSpecFail, i) => (VSpecFail, i, false)
      | _ => (VMismatch, 0, false)
      end
  else if rejects_more spec reg then (VOk, 0, true)
  else (VSpecFail, 0, false).          (* it ACCEPTED a duplicate / a bad :name / an unknown method *)

Definition verdict_ok (v : verdict * nat * bool) : bool :=
  match fst (fst v) with VOk => true | _ => false end.
