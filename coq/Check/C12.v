(** Executable verdict for C12's final-membership cases: after the concurrent churn has
    stopped, the harness writes one history line per run — every writer's operations in its
    program order, one writer after the other (the order C12_quiescent says is irrelevant
    for disjoint owners), followed by the probes made on the quiescent filter.  The line is
    judged exactly like a C11 history: replayed on the model and on the specification. *)
From Coq Require Import List NArith Bool.
Import ListNotations.
From Glb Require Import Lib.NetIP Lib.CidrSet Model.Filter Check.C11.
Open Scope N_scope.

Definition check_final (h : list obs) : verdict := check_history h.
Definition final_ok (v : verdict) : bool := verdict_ok v.
