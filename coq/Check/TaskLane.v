(** Executable verdict for one observed TaskLane history (C06, C07, C08, C14).

    Part 1 - MONITORS: the properties, evaluated on the implementation's history alone
             (failure = the implementation violates the specification: SPECFAIL).
    Part 2 - ACCEPTOR: belief-set simulation over the model's [step]: the set of model states
             consistent with the events so far; the history is accepted iff the set never becomes
             empty (failure with all monitors passing = the model does not cover this real
             behaviour: MISMATCH).

    History format and interval semantics: docs/TASKLANE.md. No proofs here: this file is the
    executable tie between [Model/TaskLane.v] and the Go code, used extracted and under vm_compute. *)
From Coq Require Import List Arith Bool.
Import ListNotations.
From Glb Require Import Model.TaskLane.

Inductive lpv := LNone | LVal (v : pv) | LForeign.   (* LastPanic: nil / value of task panic v / a value no task raised *)

Inductive event :=
| EB (p i : nat) (t : task)            (* B:p:i:t  PushTask(t, lane i) about to be called by producer p *)
| ER (p : nat) (r : option result)     (* R:p:...  it returned; None = an error that is neither the ctx error nor ErrTimeout *)
| ES (t : task)                        (* S:t *)
| EF (t : task) (r : option pv)        (* F:t:ret / F:t:p<v> *)
| EXb | EXe
| EQb (o : nat)
| EQe (o pending : nat) (v : lpv)
| EW
| EZ (n : nat).

Definition mem (x : nat) (l : list nat) : bool := existsb (Nat.eqb x) l.
Fixpoint remove1 (x : nat) (l : list nat) : list nat :=
  match l with [] => [] | y :: r => if Nat.eqb x y then r else y :: remove1 x r end.

(* ------------------------------------------------------------------ *)
(** * Part 1: monitors *)

(** the result of the PushTask call begun by [EB p _ _]: the next [ER p] *)
Fixpoint next_result (p : nat) (evs : list event) : option (option result) :=
  match evs with
  | [] => None
  | ER p' r :: rest => if Nat.eqb p' p then Some r else next_result p rest
  | _ :: rest => next_result p rest
  end.

Definition is_ok (r : option (option result)) : bool :=
  match r with Some (Some ROk) | None => true | _ => false end.          (* None: no answer recorded (yet) *)
Definition is_ctx (r : option (option result)) : bool :=
  match r with Some (Some RCtxErr) | None => true | _ => false end.

Fixpoint starts (evs : list event) : list task :=
  match evs with [] => [] | ES t :: r => t :: starts r | _ :: r => starts r end.

(** C06: no task is started twice *)
Fixpoint m_once (seen : list task) (evs : list event) : bool :=
  match evs with
  | [] => true
  | ES t :: r => negb (mem t seen) && m_once (t :: seen) r
  | _ :: r => m_once seen r
  end.

(** C06: only tasks handed to PushTask are started (S:t is preceded by a B for t) *)
Fixpoint m_started_pushed (begun : list task) (evs : list event) : bool :=
  match evs with
  | [] => true
  | EB _ _ t :: r => negb (mem t begun) && m_started_pushed (t :: begun) r   (* task ids are unique per history *)
  | ES t :: r => mem t begun && m_started_pushed begun r
  | _ :: r => m_started_pushed begun r
  end.

(** C06: a task whose PushTask returned an error (timeout, ctx error, anything else) is never started *)
Fixpoint m_failed_not_started (all : list task) (evs : list event) : bool :=
  match evs with
  | [] => true
  | EB p _ t :: r => (is_ok (next_result p r) || negb (mem t all)) && m_failed_not_started all r
  | _ :: r => m_failed_not_started all r
  end.

(** well-formedness of results: every R answers an open B of that producer, is nil / ctx error / ErrTimeout,
    and the ctx error is only returned once the cancellation has begun *)
Fixpoint m_results (open : list nat) (xb : bool) (evs : list event) : bool :=
  match evs with
  | [] => true
  | EB p _ _ :: r => negb (mem p open) && m_results (p :: open) xb r
  | ER p res :: r =>
      mem p open &&
      match res with None => false | Some RCtxErr => xb | Some _ => true end &&
      m_results (remove1 p open) xb r
  | EXb :: r => m_results open true r
  | _ :: r => m_results open xb r
  end.

(** S/F bracket: F:t only for a running t *)
Fixpoint m_fin (running : list task) (evs : list event) : bool :=
  match evs with
  | [] => true
  | ES t :: r => m_fin (t :: running) r
  | EF t _ :: r => mem t running && m_fin (remove1 t running) r
  | _ :: r => m_fin running r
  end.

(** C08: at most laneSize tasks between S and F at any time *)
Fixpoint m_bound (n cur : nat) (evs : list event) : bool :=
  match evs with
  | [] => true
  | ES _ :: r => (S cur <=? n) && m_bound n (S cur) r
  | EF _ _ :: r => m_bound n (pred cur) r
  | _ :: r => m_bound n cur r
  end.

(** C14: 0 <= PendingTask <= laneSize * (queueSize + 1) *)
Fixpoint m_pending (bound : nat) (evs : list event) : bool :=
  match evs with
  | [] => true
  | EQe _ pd _ :: r => (pd <=? bound) && m_pending bound r
  | _ :: r => m_pending bound r
  end.

(** C14: LastPanic is the value of a panic raised before the call returned; it never goes back to nil
    (nil is wrong if a call that completed before this one began already showed a value, or if the
    call began after Wait() returned and some task had panicked) *)
(** value id 0 stands for "the nil panic value": a task did panic(nil) in a program where recover() then returns
    nil (GODEBUG=panicnil=1). nil IS the value of a panic that occurred: once such a panic happened, LastPanic may
    be nil/unset at any time (an implementation may store it, or may not notice it at all). *)
Fixpoint m_lastpanic (raised : list pv) (seenval waited : bool) (open : list (nat * bool)) (evs : list event) : bool :=
  match evs with
  | [] => true
  | EF _ (Some v) :: r => m_lastpanic (v :: raised) seenval waited open r
  | EW :: r => m_lastpanic raised seenval true open r
  | EQb o :: r =>
      let must := seenval || (waited && negb (match raised with [] => true | _ => false end)) in
      m_lastpanic raised seenval waited ((o, must) :: open) r
  | EQe o _ v :: r =>
      let must := aget false open o in
      match v with
      | LForeign => false
      | LVal x => mem x raised && m_lastpanic raised true waited open r
      | LNone => (negb must || mem 0 raised) && m_lastpanic raised seenval waited open r
      end
  | _ :: r => m_lastpanic raised seenval waited open r
  end.

(** C07: when Wait() returns no task is inside Start(), and no task starts afterwards *)
Fixpoint m_after_wait (cur : nat) (waited : bool) (evs : list event) : bool :=
  match evs with
  | [] => true
  | ES _ :: r => negb waited && m_after_wait (S cur) waited r
  | EF _ _ :: r => m_after_wait (pred cur) waited r
  | EW :: r => Nat.eqb cur 0 && m_after_wait cur true r
  | _ :: r => m_after_wait cur waited r
  end.

(** C07: no goroutine of the lane is left after Wait() *)
Fixpoint m_leak (evs : list event) : bool :=
  match evs with
  | [] => true
  | EZ n :: r => Nat.eqb n 0 && m_leak r
  | _ :: r => m_leak r
  end.

(** C07: a PushTask call begun after cancel() returned is answered with the ctx error *)
Fixpoint m_after_cancel (xe : bool) (evs : list event) : bool :=
  match evs with
  | [] => true
  | EXe :: r => m_after_cancel true r
  | EB p _ _ :: r => (negb xe || is_ctx (next_result p r)) && m_after_cancel xe r
  | _ :: r => m_after_cancel xe r
  end.

(** C14 (at rest after shutdown): a Status() call made after Wait() returned, with no PushTask call in flight,
    reports exactly the accepted tasks that were never started: (#pushes that returned nil) - (#S).
    This is what every all-dead state of the model gives: a task left in a buffer stays in its length,
    a task the queue goroutine held when it died stays in the counter (QDead (Some t)), nothing else remains. *)
Fixpoint m_pending_after_wait (exact : bool) (oks ss : nat) (open : list nat) (waited : bool) (clean : list nat) (evs : list event) : bool :=
  match evs with
  | [] => true
  | EB p _ _ :: r => m_pending_after_wait exact oks ss (p :: open) waited [] r          (* a call in flight spoils the calls being measured *)
  | ER p (Some ROk) :: r => m_pending_after_wait exact (S oks) ss (remove1 p open) waited clean r
  | ER p _ :: r => m_pending_after_wait exact oks ss (remove1 p open) waited clean r
  | ES _ :: r => m_pending_after_wait exact oks (S ss) open waited clean r
  | EW :: r => m_pending_after_wait exact oks ss open true clean r
  | EQb o :: r =>
      let clean' := if waited && (match open with [] => true | _ => false end) then o :: clean else clean in
      m_pending_after_wait exact oks ss open waited clean' r
  | EQe o pd _ :: r =>
      (negb (mem o clean) || (if exact then Nat.eqb (pd + ss) oks else pd + ss <=? oks)) &&
      m_pending_after_wait exact oks ss open waited clean r
  | _ :: r => m_pending_after_wait exact oks ss open waited clean r
  end.

(** every PushTask call has returned by the end of the history (histories are written after the run has
    settled: a producer that is still inside PushTask then - in particular after the cancel - is stuck) *)
Fixpoint m_push_returns (open : list nat) (evs : list event) : bool :=
  match evs with
  | [] => match open with [] => true | _ => false end
  | EB p _ _ :: r => m_push_returns (p :: open) r
  | ER p _ :: r => m_push_returns (remove1 p open) r
  | _ :: r => m_push_returns open r
  end.

(** observer ids are fresh per Status() call and every Qe answers an open Qb (the acceptor keys the
    snapshot of a call by its observer id) *)
Fixpoint m_obs_ids (used open : list nat) (evs : list event) : bool :=
  match evs with
  | [] => true
  | EQb o :: r => negb (mem o used) && m_obs_ids (o :: used) (o :: open) r
  | EQe o _ _ :: r => mem o open && m_obs_ids used (remove1 o open) r
  | _ :: r => m_obs_ids used open r
  end.

Record monitors := {
  mo_once : bool; mo_started_pushed : bool; mo_failed_not_started : bool; mo_results : bool;
  mo_fin : bool; mo_bound : bool; mo_pending : bool; mo_lastpanic : bool;
  mo_after_wait : bool; mo_leak : bool; mo_after_cancel : bool;
  mo_pending_after_wait : bool;      (* C14: exactly accepted - started *)
  mo_pending_after_wait_le : bool;   (* C06/C07/C08: nothing but accepted, unstarted tasks is counted (dropped tasks may be forgotten) *)
  mo_push_returns : bool; mo_obs_ids : bool }.

Definition run_monitors (n qs : nat) (evs : list event) : monitors :=
  {| mo_once := m_once [] evs;
     mo_started_pushed := m_started_pushed [] evs;
     mo_failed_not_started := m_failed_not_started (starts evs) evs;
     mo_results := m_results [] false evs;
     mo_fin := m_fin [] evs;
     mo_bound := m_bound n 0 evs;
     mo_pending := m_pending (n * (qs + 1)) evs;
     mo_lastpanic := m_lastpanic [] false false [] evs;
     mo_after_wait := m_after_wait 0 false evs;
     mo_leak := m_leak evs;
     mo_after_cancel := m_after_cancel false evs;
     mo_pending_after_wait := m_pending_after_wait true 0 0 [] false [] evs;
     mo_pending_after_wait_le := m_pending_after_wait false 0 0 [] false [] evs;
     mo_push_returns := m_push_returns [] evs;
     mo_obs_ids := m_obs_ids [] [] evs |}.

Definition monitors_ok (m : monitors) : bool :=
  mo_once m && mo_started_pushed m && mo_failed_not_started m && mo_results m && mo_fin m && mo_bound m &&
  mo_pending m && mo_lastpanic m && mo_after_wait m && mo_leak m && mo_after_cancel m &&
  mo_pending_after_wait m && mo_push_returns m && mo_obs_ids m.

(** for the properties that do not speak about the value of PendingTask at rest (C06: "pending tasks may be
    dropped"): after Wait() only the upper bound is required *)
Definition monitors_ok_lax (m : monitors) : bool :=
  mo_once m && mo_started_pushed m && mo_failed_not_started m && mo_results m && mo_fin m && mo_bound m &&
  mo_pending m && mo_lastpanic m && mo_after_wait m && mo_leak m && mo_after_cancel m &&
  mo_pending_after_wait_le m && mo_push_returns m && mo_obs_ids m.

(* ------------------------------------------------------------------ *)
(** * Part 2: acceptor *)

(** what the rest of the history will reveal (used only to drop states that are already doomed:
    a state that took [PushTimeout p] when the call is going to return nil can never pass the
    filter at [R]; dropping it early changes nothing but the size of the belief set) *)
Record look := {
  lk_starts : list task;                         (* tasks with an S event *)
  lk_res : list (task * result);                 (* task -> result of its PushTask call, when recorded *)
  lk_snaps : list (nat * (nat * option pv)) }.   (* observer -> (PendingTask, LastPanic) of its call, when recorded *)

Fixpoint afind {A} (l : list (nat * A)) (k : nat) : option A :=
  match l with [] => None | kv :: r => if Nat.eqb k (fst kv) then Some (snd kv) else afind r k end.

Fixpoint look_res (evs : list event) : list (task * result) :=
  match evs with
  | [] => []
  | EB p _ t :: r => match next_result p r with Some (Some x) => (t, x) :: look_res r | _ => look_res r end
  | _ :: r => look_res r
  end.
Fixpoint look_snaps (evs : list event) : list (nat * (nat * option pv)) :=
  match evs with
  | [] => []
  | EQe o pd LNone :: r => (o, (pd, None)) :: look_snaps r
  | EQe o pd (LVal v) :: r => (o, (pd, Some v)) :: look_snaps r
  | _ :: r => look_snaps r
  end.
Definition mk_look (evs : list event) : look :=
  {| lk_starts := starts evs; lk_res := look_res evs; lk_snaps := look_snaps evs |}.

(** calls in flight etc. at the current position of the history *)
Record actx := {
  a_calls : list (nat * (nat * task));   (* PushTask calls begun (B) and not yet answered (R): p -> (lane, task) *)
  a_cancel : bool;                       (* between Xb and Xe *)
  a_obs : list nat;                      (* Status() calls between Qb and Qe *)
  a_fin : list (task * option pv) }.     (* F seen: the worker may now leave Start() with this outcome *)

Definition actx0 : actx := {| a_calls := []; a_cancel := false; a_obs := []; a_fin := [] |}.

Definition opt_cons {A} (o : option A) (l : list A) : list A := match o with Some x => x :: l | None => l end.
Definition opv_eqb (a b : option pv) : bool :=
  match a, b with None, None => true | Some x, Some y => Nat.eqb x y | _, _ => false end.
Definition result_eqb (a b : result) : bool :=
  match a, b with ROk, ROk | RCtxErr, RCtxErr | RTimeout, RTimeout => true | _, _ => false end.

Definition snap_of (s : state) (o : nat) : option (nat * option pv) :=
  afind (map (fun x => (fst (fst x), (snd (fst x), snd x))) (snaps s)) o.

Section Acceptor.
Variable qs : nat.       (* queueSize *)
Variable n : nat.        (* laneSize *)
Variable lk : look.
Variable reduce : bool.  (* quotient by the silent steps that commute with everything observable *)
Variable prune : bool.   (* drop states the rest of the history already dooms (look-ahead) *)

(** successors of [s] by the labels one lane's goroutines may take silently *)
Definition lane_succs (c : actx) (s : state) (i : nat) : list state :=
  let st l := step qs s l in
  match nth_error (lanes s) i with
  | None => []
  | Some ln =>
    let can_start := negb prune || match q ln with QTry t | QOffer t => mem t (lk_starts lk) | _ => false end in
    let hand :=
      if can_start then
        opt_cons (st (QTryOwn i)) (opt_cons (st (QOfferOwn i))
          (fold_right (fun j acc => opt_cons (st (QOfferUni i j)) acc) [] (seq 0 n)))
      else [] in
    let wend := match w ln with
                | WRun t => match afind (a_fin c) t with Some r => st (WEnd i r) | None => None end
                | _ => None end in
    opt_cons (st (QTake i)) (opt_cons (st (QCount i)) (opt_cons (st (QCheck i)) (opt_cons (st (QTryFail i))
    (opt_cons (st (QDecr i)) (opt_cons (st (QDie i)) (opt_cons (st (WCheck i)) (opt_cons (st (WTryFail i))
    (opt_cons (st (WDie i)) (opt_cons wend hand)))))))))
  end.

(** a PushTask call in flight: begin it, or complete it the way the history says it completes *)
Definition call_succs (s : state) (pc : nat * (nat * task)) : list state :=
  let '(p, (i, t)) := pc in
  let want := if prune then afind (lk_res lk) t else None in
  let allowed r := match want with Some x => result_eqb x r | None => true end in
  if negb (mem t (pushed s)) then
    match step qs s (PushBegin p i t) with
    | Some s' => match result_of s' p with
                 | Some r => if allowed r then [s'] else []      (* begun after Cancel: answered at once *)
                 | None => [s'] end
    | None => [] end
  else match pstate_of s p with
       | Pending _ _ =>
           (if allowed ROk then opt_cons (step qs s (PushOk p)) [] else []) ++
           (if allowed RCtxErr then opt_cons (step qs s (PushCtxErr p)) [] else []) ++
           (if allowed RTimeout then opt_cons (step qs s (PushTimeout p)) [] else [])
       | _ => []
       end.

(** a Status() call in flight: its next read *)
Definition obs_succs (s : state) (o : nat) : list state :=
  match snap_of s o with
  | Some _ => []                                  (* this call is complete *)
  | None =>
    let want := if prune then afind (lk_snaps lk) o else None in
    match ostate_of s o with
    | OIdle => opt_cons (step qs s (StatusBegin o)) []
    | OLen k a =>
        if k <? n then
          match step qs s (StatusReadLen o k) with
          | Some s' => match want, ostate_of s' o with
                       | Some (pd, _), OLen _ a' => if a' <=? pd then [s'] else []
                       | _, _ => [s'] end
          | None => [] end
        else
          match step qs s (StatusReadCnt o) with
          | Some s' => match want, ostate_of s' o with
                       | Some (pd, _), OPanic a' => if Nat.eqb a' pd then [s'] else []
                       | _, _ => [s'] end
          | None => [] end
    | OPanic _ =>
        match want with
        | Some (_, v) => if opv_eqb v (last_panic s) then opt_cons (step qs s (StatusReadPanic o)) [] else []
        | None => opt_cons (step qs s (StatusReadPanic o)) []
        end
    end
  end.

Definition succs (c : actx) (s : state) : list state :=
  flat_map (lane_succs c s) (seq 0 n) ++
  flat_map (call_succs s) (a_calls c) ++
  (if a_cancel c then opt_cons (step qs s Cancel) [] else []) ++
  flat_map (obs_succs s) (a_obs c).

(** Reduction (quotient by silent steps that no observation can tell apart). Always:
    - an idle worker at WTop / WTry is the same as one at WBlock while the context is live (WCheck and
      WTryFail are always enabled, WBlock accepts everything WTry accepts); at WTop after the cancel it
      can only die;
    - a queue goroutine at QHeld / QTry is the same as one at QOffer while the context is live (same
      contribution to the counter, QOffer accepts the own-worker hand-over too and can still die
      holding the task after a cancel); at QHeld after the cancel it can only die holding the task;
    - a worker whose task recorded [F:t:ret] may be taken to have left Start() ([WEnd j None] changes
      nothing a filter reads and only enables more).
    When no Status() result lies ahead in the history ([sa = false]) the counter, the buffer lengths
    and the panic slot are unobservable, and also [QDecr], [QTake], [QCount] and [WEnd j (Some v)] are
    taken eagerly. [reduce = false] switches all of this off (the driver can compare both). *)
Definition try_step (s : state) (l : label) : state := match step qs s l with Some x => x | None => s end.
Definition no_more_starts (s : state) : bool :=
  forallb (fun t => mem t (started s)) (lk_starts lk).
(* a PushTask call in flight that may still put a task into lane i *)
Definition push_may_arrive (c : actx) (s : state) (i : nat) : bool :=
  existsb (fun pc => let '(p, (j, t)) := pc in
                     Nat.eqb i j &&
                     match afind (lk_res lk) t with Some ROk | None => true | _ => false end &&
                     match pstate_of s p with Done _ _ => false | _ => true end)
          (a_calls c).
Definition norm_lane (sa : bool) (c : actx) (s : state) (i : nat) : state :=
  let s :=
    match nth_error (lanes s) i with
    | Some ln => match w ln with
                 | WRun t => match afind (a_fin c) t with
                             | Some None => try_step s (WEnd i None)
                             | Some (Some v) => if sa then s else try_step s (WEnd i (Some v))
                             | None => s end
                 | _ => s end
    | None => s end in
  let s := try_step (try_step s (WCheck i)) (WTryFail i) in
  let s := if sa then s else try_step (try_step (try_step s (QDecr i)) (QTake i)) (QCount i) in
  let s := try_step (try_step s (QCheck i)) (QTryFail i) in
  (* after the cancel: goroutines that can do nothing but die *)
  if cancelled s then
    let s := if no_more_starts s then try_step s (WDie i) else s in
    match nth_error (lanes s) i with
    | Some ln =>
        match q ln with
        | QOffer t => if mem t (lk_starts lk) && negb (mem t (started s)) then s else try_step s (QDie i)
        | QWait => match buf ln with
                   | [] => if push_may_arrive c s i then s else try_step s (QDie i)
                   | _ => s end
        | _ => s end
    | None => s end
  else s.
(* calls and observers in flight: beginning them is silent and cannot be told from beginning later
   ([cancelled] only ever turns true, and a call begun while it is false can still end with the ctx error) *)
Definition norm_calls (c : actx) (s : state) : state :=
  let s := fold_left (fun s pc => let '(p, (i, t)) := pc in
                                  if mem t (pushed s) then s else try_step s (PushBegin p i t)) (a_calls c) s in
  fold_left (fun s o => match snap_of s o with Some _ => s | None => try_step s (StatusBegin o) end) (a_obs c) s.
Definition norm (sa : bool) (c : actx) (s : state) : state :=
  if reduce then fold_left (norm_lane sa c) (seq 0 n) (norm_calls c s) else s.

(** canonical key of a state: everything the future can depend on (lanes, flag, counter, panic slot,
    the calls and observers in flight); the logs of the past (accepted/started/finished/...) are not
    read by [step] nor by the filters below, and the results of completed calls are the same in all
    states of the belief set (they were filtered on) *)
Definition key_q (x : qpc) : list nat :=
  match x with QWait => [0] | QTook t => [1; t] | QHeld t => [2; t] | QTry t => [3; t] | QOffer t => [4; t]
             | QSent => [5] | QDead None => [6] | QDead (Some t) => [7; t] end.
Definition key_w (x : wpc) : list nat :=
  match x with WTop => [0] | WTry => [1] | WBlock => [2] | WRun t => [3; t] | WDead => [4] end.
Definition key_lane (l : lane) : list nat := key_w (w l) ++ key_q (q l) ++ length (buf l) :: buf l.
Definition key_opv (x : option pv) : nat := match x with None => 0 | Some v => S v end.
Definition key_call (s : state) (pc : nat * (nat * task)) : nat :=
  let '(p, (_, t)) := pc in
  if negb (mem t (pushed s)) then 0
  else match pstate_of s p with Pending _ _ => 1 | Done _ ROk => 2 | Done _ RCtxErr => 3 | Done _ RTimeout => 4 | Idle => 5 end.
Definition key_obs (s : state) (o : nat) : list nat :=
  match snap_of s o with
  | Some (pd, v) => [3; pd; key_opv v]
  | None => match ostate_of s o with OIdle => [0] | OLen k a => [1; k; a] | OPanic a => [2; a] end
  end.
Definition key (c : actx) (s : state) : list nat :=
  flat_map key_lane (lanes s) ++
  (if cancelled s then 1 else 0) :: cnt s :: key_opv (last_panic s) ::
  map (key_call s) (a_calls c) ++ flat_map (key_obs s) (a_obs c).

Fixpoint lcmp (a b : list nat) : comparison :=
  match a, b with
  | [], [] => Eq
  | [], _ => Lt
  | _, [] => Gt
  | x :: a', y :: b' => match Nat.compare x y with Eq => lcmp a' b' | c => c end
  end.

Inductive tree := Leaf | Node (l : tree) (k : list nat) (r : tree).
Fixpoint tinsert (k : list nat) (t : tree) : option tree :=      (* None: already present *)
  match t with
  | Leaf => Some (Node Leaf k Leaf)
  | Node l k' r =>
      match lcmp k k' with
      | Eq => None
      | Lt => match tinsert k l with Some l' => Some (Node l' k' r) | None => None end
      | Gt => match tinsert k r with Some r' => Some (Node l k' r') | None => None end
      end
  end.

Fixpoint add_all (c : actx) (ns : list state) (seen : tree) (work : list state) : tree * list state :=
  match ns with
  | [] => (seen, work)
  | x :: r => match tinsert (key c x) seen with
              | Some seen' => add_all c r seen' (x :: work)
              | None => add_all c r seen work
              end
  end.

(** closure of the work list under the silent labels; [None] = out of fuel *)
Fixpoint close (fuel : nat) (sa : bool) (c : actx) (work : list state) (seen : tree) (acc : list state) : option (list state) :=
  match work with
  | [] => Some acc
  | s :: w' =>
      match fuel with
      | O => None
      | S f => let '(seen', work') := add_all c (map (norm sa c) (succs c s)) seen w' in
               close f sa c work' seen' (s :: acc)
      end
  end.

Definition closure (fuel : nat) (sa : bool) (c : actx) (belief : list state) : option (list state) :=
  let '(seen, work) := add_all c (map (norm sa c) belief) Leaf [] in
  close fuel sa c work seen [].

Definition all_dead (s : state) : bool :=
  forallb (fun l => match q l, w l with QDead _, WDead => true | _, _ => false end) (lanes s).

(** does the event filter the belief set, and how *)
Definition filter_of (c : actx) (e : event) : option (state -> bool) :=
  match e with
  | ES t => Some (fun s => mem t (running s))
  | ER p (Some r) =>
      Some (fun s => match afind (a_calls c) p, pstate_of s p with
                     | Some (_, t), Done t' r' => Nat.eqb t t' && result_eqb r r'
                     | _, _ => false end)
  | ER p None => Some (fun _ => false)
  | EXe => Some (fun s => cancelled s)
  | EQe o pd (LVal v) => Some (fun s => match snap_of s o with Some (pd', Some v') => Nat.eqb pd pd' && Nat.eqb v v' | _ => false end)
  | EQe o pd LNone => Some (fun s => match snap_of s o with Some (pd', None) => Nat.eqb pd pd' | _ => false end)
  | EQe o pd LForeign => Some (fun _ => false)
  | EW => Some all_dead
  | _ => None
  end.

Fixpoint adel {A} (l : list (nat * A)) (k : nat) : list (nat * A) :=
  match l with [] => [] | kv :: r => if Nat.eqb k (fst kv) then r else kv :: adel r k end.

(** the event's effect on the calls in flight (applied before the closure for opening events, after
    the filter for closing events) *)
Definition ctx_open (c : actx) (e : event) : actx :=
  match e with
  | EB p i t => {| a_calls := a_calls c ++ [(p, (i, t))]; a_cancel := a_cancel c; a_obs := a_obs c; a_fin := a_fin c |}
  | EXb => {| a_calls := a_calls c; a_cancel := true; a_obs := a_obs c; a_fin := a_fin c |}
  | EQb o => {| a_calls := a_calls c; a_cancel := a_cancel c; a_obs := a_obs c ++ [o]; a_fin := a_fin c |}
  | EF t r => {| a_calls := a_calls c; a_cancel := a_cancel c; a_obs := a_obs c; a_fin := (t, r) :: a_fin c |}
  | _ => c
  end.
Definition ctx_close (c : actx) (e : event) : actx :=
  match e with
  | ER p _ => {| a_calls := adel (a_calls c) p; a_cancel := a_cancel c; a_obs := a_obs c; a_fin := a_fin c |}
  | EXe => {| a_calls := a_calls c; a_cancel := false; a_obs := a_obs c; a_fin := a_fin c |}
  | EQe o _ _ => {| a_calls := a_calls c; a_cancel := a_cancel c; a_obs := remove1 o (a_obs c); a_fin := a_fin c |}
  | _ => c
  end.

Definition is_status (e : event) : bool := match e with EQe _ _ _ => true | _ => false end.

Inductive aresult :=
| Accepted (max_belief : nat)
| Rejected (at_event : nat) (max_belief : nat)   (* no model state is consistent with the history up to and including this event *)
| FuelOut (at_event : nat).

(** Opening events only change what may happen silently; the closure is taken lazily, right before
    the next filtering event (everything enabled earlier is still enabled then, and what is enabled
    only now - e.g. [WEnd] after [F] - could not have been used to pass an earlier filter). *)
Fixpoint accept (fuel : nat) (c : actx) (belief : list state) (evs : list event) (idx maxb : nat) : aresult :=
  match evs with
  | [] => Accepted maxb
  | e :: r =>
      let c1 := ctx_open c e in
      match filter_of c1 e with
      | None => accept fuel c1 belief r (S idx) maxb
      | Some f =>
          match closure fuel (existsb is_status evs) c1 belief with
          | None => FuelOut idx
          | Some all =>
              let maxb' := Nat.max maxb (length all) in
              match filter f all with
              | [] => Rejected idx maxb'
              | b' => accept fuel (ctx_close c1 e) b' r (S idx) maxb'
              end
          end
      end
  end.
End Acceptor.

(** C06 / C07 / C08 do not speak about the value of PendingTask once the lane has shut down ("pending tasks may
    be dropped"): for them ([lax]) the Status() calls made after Wait() returned are left to the monitors
    (LastPanic is a raised panic, PendingTask <= accepted - started) and are not shown to the acceptor, whose model
    keeps dropped tasks counted. C14 ([lax = false]) checks them against the model exactly. *)
Fixpoint strip_status_after_wait (waited : bool) (evs : list event) : list event :=
  match evs with
  | [] => []
  | EW :: r => EW :: strip_status_after_wait true r
  | EQb o :: r => if waited then strip_status_after_wait waited r else EQb o :: strip_status_after_wait waited r
  | EQe o p v :: r => if waited then strip_status_after_wait waited r else EQe o p v :: strip_status_after_wait waited r
  | e :: r => e :: strip_status_after_wait waited r
  end.

Definition accept_history (n qs fuel : nat) (reduce lax : bool) (evs : list event) : aresult :=
  let evs := if lax then strip_status_after_wait false evs else evs in
  accept qs n (mk_look evs) reduce true fuel actx0 [init n] evs 0 1.

(** the plain semantics: no reduction, no look-ahead pruning (reference for the comparison run) *)
Definition accept_history_plain (n qs fuel : nat) (lax : bool) (evs : list event) : aresult :=
  let evs := if lax then strip_status_after_wait false evs else evs in
  accept qs n (mk_look evs) false false fuel actx0 [init n] evs 0 1.

(* ------------------------------------------------------------------ *)
(** * Verdict *)

Record verdict := { v_mon : monitors; v_acc : aresult }.

Definition check_history (n qs fuel : nat) (evs : list event) : verdict :=
  {| v_mon := run_monitors n qs evs; v_acc := accept_history n qs fuel true false evs |}.
Definition check_history_lax (n qs fuel : nat) (evs : list event) : verdict :=
  {| v_mon := run_monitors n qs evs; v_acc := accept_history n qs fuel true true evs |}.

(** true = nothing to report for this history (monitors hold and the model did not reject it;
    running out of fuel is counted separately by the driver, it is not a rejection) *)
Definition verdict_ok (v : verdict) : bool :=
  monitors_ok (v_mon v) && match v_acc v with Rejected _ _ => false | _ => true end.
Definition verdict_ok_lax (v : verdict) : bool :=
  monitors_ok_lax (v_mon v) && match v_acc v with Rejected _ _ => false | _ => true end.

Definition default_fuel : nat := 20 * 1000.
