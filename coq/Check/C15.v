(** Executable verdict for one observed request through Logger.Relay (C15).

    Observed: threshold of the log handler, the request (method, URI, client ip, request id —
    abstract numbers assigned by the harness), the handler script, whether a panic escaped
    ServeHTTP, the status and body chunks the client received, and the decoded log records
    attributed to this request (by id or by URI), in stream order.

    spec_*: the property evaluated on the implementation's output (END code against the
    status the client really received, ...); model_ok: the projection equals what the model
    [Model.Relay.relay] computes with a total rendering oracle. *)
From Coq Require Import List NArith Bool.
Import ListNotations.
From Glb Require Import Model.Relay.
Open Scope N_scope.

Definition pval_eqb (a b : pval) : bool :=
  match a, b with
  | AbortHandler, AbortHandler => true
  | PV x, PV y => x =? y
  | _, _ => false
  end.

Definition record_eqb (a b : record) : bool :=
  match a, b with
  | BEG i m u d, BEG i' m' u' d' => (i =? i') && (m =? m') && (u =? u') && (d =? d')
  | ERR p d, ERR p' d' => pval_eqb p p' && (d =? d')
  | END c i m u d, END c' i' m' u' d' => (c =? c') && (i =? i') && (m =? m') && (u =? u') && (d =? d')
  | _, _ => false
  end.

(** as [record_eqb], but the END code is compared only when [with_code] *)
Definition record_eqb_upto (with_code : bool) (a b : record) : bool :=
  match a, b with
  | END c i m u d, END c' i' m' u' d' =>
      (negb with_code || (c =? c')) && (i =? i') && (m =? m') && (u =? u') && (d =? d')
  | _, _ => record_eqb a b
  end.

Fixpoint list_eqb {A} (eqb : A -> A -> bool) (a b : list A) : bool :=
  match a, b with
  | [], [] => true
  | x :: a', y :: b' => eqb x y && list_eqb eqb a' b'
  | _, _ => false
  end.

Fixpoint memN (x : N) (l : list N) : bool :=
  match l with [] => false | y :: r => (x =? y) || memN x r end.

Fixpoint has_hdr (c : N) (sc : script) : bool :=
  match sc with
  | [] => false
  | Hdr c' :: r => (c =? c') || has_hdr c r
  | Panic _ :: _ => false
  | _ :: r => has_hdr c r       (* Nop, Body, Flush *)
  end.

Definition total_render (v : N) : option N := Some v.

(** END code as the property demands it: the status the client received, when the handler set
    the status at most once; otherwise (outside the property's quantifier) any code *)
Definition end_ok (sc : script) (wire_obs : N) (rq : req) (r : record) : bool :=
  match r with
  | END c i m u d =>
      (if set_once sc then c =? wire_obs else true)
      && (i =? rip rq) && (m =? rmethod rq) && (u =? ruri rq) && (d =? rid rq)
  | _ => false
  end.
Definition beg_ok (rq : req) (r : record) : bool :=
  record_eqb r (BEG (rip rq) (rmethod rq) (ruri rq) (rid rq)).
Definition err_ok (sc : script) (rq : req) (r : record) : bool :=
  match panic_of sc with
  | Some p => record_eqb r (ERR p (rid rq))
  | None => false
  end.

Definition is_some {A} (o : option A) : bool := match o with Some _ => true | None => false end.

(** the record sequence demanded by the property for this threshold *)
Definition records_ok (thr : N) (rq : req) (sc : script) (wire_obs : N) (recs : list record) : bool :=
  let info := enabled thr LInfo in
  let err := enabled thr LError && is_some (panic_of sc) in
  match info, err, recs with
  | true, true, [b; e; f] => beg_ok rq b && err_ok sc rq e && end_ok sc wire_obs rq f
  | true, false, [b; f] => beg_ok rq b && end_ok sc wire_obs rq f
  | false, true, [e] => err_ok sc rq e
  | false, false, [] => true
  | _, _, _ => false
  end.

Record verdict := {
  in_scope : bool;        (* the script is inside the property's quantifier (no ErrAbortHandler, [codes_ok]: first code 200..999
                             or one net/http rejects) *)
  spec_noescape : bool;   (* no panic left ServeHTTP *)
  spec_500 : bool;        (* status 500 sent by Relay iff the handler panicked before any header; the property does
                             not constrain the body of that answer *)
  spec_records : bool;    (* exactly BEG, [ERR pv], END (per threshold), all with the request's fields and id,
                             END carrying the status the client received *)
  model_ok : bool;        (* escaped?, status on the wire, records: as the model computes them *)
  model_body : bool       (* the body chunks too (a difference is DRIFT, e.g. a bare 500 without http.Error's text) *)
}.

Definition check_case (thr : N) (rq : req) (sc : script)
    (esc : bool) (wire_obs : N) (body_seen : bool) (body_obs : list N) (recs : list record) : verdict :=
  let scope := no_abortb sc && codes_ok sc in
  let r := relay total_render thr rq sc in
  {| in_scope := scope;
     spec_noescape := negb scope || negb esc;
     spec_500 := negb scope || esc ||
       (if panics_before_header sc
        then wire_obs =? 500
        else negb (wire_obs =? 500) || has_hdr 500 sc);
     spec_records := negb scope || esc || records_ok thr rq sc wire_obs recs;
     model_ok :=
       Bool.eqb (escaped r) esc
       && (esc || (wire r =? wire_obs))
       (* a repeated WriteHeader is outside the property: which of the codes REQ_END carries is left open *)
       && list_eqb (record_eqb_upto (set_once sc)) (records r) recs;
     model_body := esc || negb body_seen || list_eqb N.eqb (body r) body_obs |}.

Definition spec_ok (v : verdict) : bool := spec_noescape v && spec_500 v && spec_records v.
Definition verdict_ok (v : verdict) : bool := spec_ok v && model_ok v && model_body v.

(** constructors for the driver *)
Definition mk_act (tag a b : N) : act :=
  if tag =? 0 then Nop
  else if tag =? 1 then Hdr a
  else if tag =? 2 then Body (if a =? 0 then ViaWrite else if a =? 1 then ViaCopyString
                              else if a =? 2 then ViaCopyFile else ViaHelper) b
  else if tag =? 4 then Flush (negb (a =? 0))
  else Panic (if a =? 0 then AbortHandler else PV a).
Definition mk_rec (tag code ip m u id pv : N) : record :=
  if tag =? 1 then BEG ip m u id
  else if tag =? 2 then ERR (if pv =? 0 then AbortHandler else PV pv) id
  else if tag =? 3 then END code ip m u id
  else ERR AbortHandler 0.   (* undecodable record: never equal to an expected one *)
Definition mk_req (m u ip id : N) : req := mkReq m u ip id.
