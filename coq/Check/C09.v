(** Executable verdict for one observed case of C09 (one NewFlagSet + Parse).
    The case carries the struct's fields (kind, flag name, group path + Go name, tag default),
    the argument vector, the environment, which JSON carriers exist and what each assigns, the
    observed final value of every field, and — as the oracle for value texts — what the
    standard-library parser of the field's kind makes of every text offered to the field.
      spec   : per field, the winner by the priority rule  cli > env > JSON > default
               (JSON = the file named by -config, else CFG_CONFIG_B64), compared with the observed value;
               and Flag.Env against [fenv] (Underscore);
      model  : [run] of Model/Config.v in the world described by the case, compared with the
               observed outcome, Args() and values;
      parsers: Model/FlagValue.v against the standard-library answers, inside its sub-language. *)
From Coq Require Import List NArith ZArith Bool.
Import ListNotations.
From Glb Require Import Lib.ArgGrammar Model.ArgParse Model.FlagValue Model.Config Check.FlagCanon.
Open Scope N_scope.

Record fobs := {
  fo_kind : kind;
  fo_group : list N;                                (* group path of the enclosing structs, e.g. "Sub_Deep_" *)
  fo_goname : list N;                               (* Go field name *)
  fo_tag : list N;                                  (* field.Tag.Get("flag") *)
  fo_hname : list N;                                (* flag name and tag default as the harness author reads the documentation *)
  fo_hdef : list N;
  fo_bound : bool;                                  (* Lookup(hname).Value.Set(probe) changes exactly this field (tested on a throw-away instance) *)
  fo_usage : list N;                                (* Flag.Usage of the implementation *)
  fo_init : list N;                                 (* canonical field value right after NewFlagSet *)
  fo_envhand : list N;                              (* the env name the harness used (written by hand) *)
  fo_envobs : list N;                               (* Flag.Env of the implementation *)
  fo_env : option (list N);                         (* text of the env variable, None = unset *)
  fo_jfile : option (list N);                       (* canonical value the -config file assigns, None = not mentioned *)
  fo_jb64 : option (list N);                        (* same for CFG_CONFIG_B64 *)
  fo_final : option (list N);                       (* observed canonical final value (None when Parse failed) *)
  fo_oracle : list (list N * option (list N))       (* text -> canonical value by the stdlib parser, None = error *)
}.

(** the flag the MODEL derives from the struct field (parse_tag, group recursion) *)
Definition fo_flag (fo : fobs) : flag := flag_of_field (fo_group fo) (fo_goname fo) (fo_tag fo) (fo_kind fo).

Definition kind_eqb (a b : kind) : bool :=
  match a, b with
  | KBool, KBool | KInt, KInt | KInt64, KInt64 | KUint, KUint | KUint64, KUint64
  | KString, KString | KFloat, KFloat | KDuration, KDuration | KBytes, KBytes => true
  | _, _ => false
  end.

Fixpoint pair_lookup (l : list (list N * option (list N))) (t : list N) : option (option (list N)) :=
  match l with
  | [] => None
  | (x, c) :: r => if bytes_eqb x t then Some c else pair_lookup r t
  end.

Fixpoint oracle_of (fos : list fobs) (k : kind) (t : list N) : sres :=
  match fos with
  | [] => SErr
  | fo :: r =>
      if kind_eqb (fo_kind fo) k then
        match pair_lookup (fo_oracle fo) t with
        | Some (Some c) => match value_of_canon k c with Some v => SOk v | None => SErr end
        | Some None => SErr
        | None => oracle_of r k t
        end
      else oracle_of r k t
  end.

Fixpoint env_lookup (l : list (list N * list N)) (n : list N) : option (list N) :=
  match l with
  | [] => None
  | (x, t) :: r => if bytes_eqb x n then Some t else env_lookup r n
  end.

Definition overlay_of (sel : fobs -> option (list N)) (fos : list fobs) : list (token * value) :=
  flat_map (fun fo => match sel fo with
                      | Some c => match value_of_canon (fo_kind fo) c with
                                  | Some v => [(fname (fo_flag fo), v)]
                                  | None => []
                                  end
                      | None => []
                      end) fos.

Definition data_file : list N := [70].   (* stands for the bytes of the -config file *)
Definition data_b64 : list N := [98].    (* stands for the decoded CFG_CONFIG_B64 *)
Definition text_b64 : list N := [66].

(** the world the harness set up *)
Definition world_of (isz : N) (fos : list fobs) (cfgfile : option (list N)) (b64set : bool) : world :=
  let envs := flat_map (fun fo => match fo_env fo with Some t => [(fo_envhand fo, t)] | None => [] end) fos in
  {| w_env := fun n => if bytes_eqb n b64_env_name then (if b64set then Some text_b64 else None) else env_lookup envs n;
     w_file := fun p => match cfgfile with Some q => if bytes_eqb p q then Some data_file else None | None => None end;
     w_b64 := fun s => if bytes_eqb s text_b64 then Some data_b64 else None;
     w_json := fun d => if bytes_eqb d data_file then Some (overlay_of fo_jfile fos)
                        else if bytes_eqb d data_b64 then Some (overlay_of fo_jb64 fos) else None;
     w_set := {| o_int_size := isz; o_parse := oracle_of fos |} |}.

Record verdict := {
  v_spec_fail : list token;     (* fields whose observed value is not the priority rule's winner *)
  v_env_fail : list token;      (* fields whose Flag.Env is not Underscore("CFG_"+path, true) / not the documented name *)
  v_tag_fail : list token;      (* fields whose tag is not split as documented (name, default, usage, binding, initial value) *)
  v_skipped : N;                (* fields the priority rule could not be applied to (Parse failed: the property is conditional) *)
  v_model_fail : list token;    (* fields where [run] and the implementation differ *)
  v_outcome : bool;             (* success / failure as the model predicts *)
  v_rest : bool;                (* Args() *)
  v_parsers : bool;             (* modelled value parsers agree with the stdlib answers *)
  v_later_accepted : bool;      (* a later Parse on the same FlagSet returned nil (the model refuses it); drift only *)
  v_changed_on_error : bool     (* a later Parse returned an error and changed fields (the model leaves them alone); drift only *)
}.

Fixpoint tokens_eqb (a b : list token) : bool :=
  match a, b with
  | [], [] => true
  | x :: a', y :: b' => bytes_eqb x y && tokens_eqb a' b'
  | _, _ => false
  end.

Definition no_oracle (int_size : N) : oracle := {| o_int_size := int_size; o_parse := fun _ _ => SErr |}.

Definition sres_value (r : sres) : option value := match r with SOk v => Some v | SErr => None end.

(** the priority rule, evaluated directly *)
Definition expected (o : oracle) (asg : list (token * token)) (use_file use_b64 : bool) (fo : fobs) : option value :=
  let f := fo_flag fo in
  match final_value asg (fname f) with
  | Some t => sres_value (set_T o (fkind f) t)
  | None =>
      match fo_env fo with
      | Some t => sres_value (set_T o (fkind f) t)
      | None =>
          match (if use_file then fo_jfile fo else if use_b64 then fo_jb64 fo else None) with
          | Some c => value_of_canon (fkind f) c
          | None => sres_value (set_T o (fkind f) (fdef f))
          end
      end
  end.

Definition sres_eqb (a b : sres) : bool :=
  match a, b with
  | SErr, SErr => true
  | SOk (VBool x), SOk (VBool y) => Bool.eqb x y
  | SOk (VInt x), SOk (VInt y) | SOk (VDur x), SOk (VDur y) => Z.eqb x y
  | SOk (VUint x), SOk (VUint y) => x =? y
  | SOk (VString x), SOk (VString y) | SOk (VBytes x), SOk (VBytes y) | SOk (VFloat x), SOk (VFloat y) => bytes_eqb x y
  | _, _ => false
  end.

Definition parsers_ok (isz : N) (fos : list fobs) : bool :=
  forallb (fun fo =>
    let k := fo_kind fo in
    forallb (fun p => match fst p with
                      | [] => sres_eqb (set_T (no_oracle isz) k []) (oracle_of [fo] k [])
                      | t => if in_model k t then sres_eqb (set_T (no_oracle isz) k t) (oracle_of [fo] k t) else true
                      end) (fo_oracle fo)) fos.

Definition check_case (int_size : N) (fos : list fobs) (vec : list token) (cfgfile : option (list N)) (b64set : bool)
    (ok : bool) (rest : list token) (help : option bool) (callno : N) (unchanged : bool) : verdict :=
  let fields := map fo_flag fos in
  let w := world_of int_size fos cfgfile b64set in
  let orc := w_set w in
  let env_fail := flat_map (fun fo => if bytes_eqb (fenv (fo_flag fo)) (fo_envobs fo) && bytes_eqb (fo_envhand fo) (fo_envobs fo)
                                      then [] else [fname (fo_flag fo)]) fos in
  let spec_fail :=
    if ok then
      match arg_parse (table_of (builtins ++ fields)) vec with
      | Ok asg _ =>
          let cfg := final_value asg config_name in
          let use_file := match cfg with Some (_ :: _) => true | _ => false end in
          (match help with
           | Some h => match (match final_value asg help_name with Some t => set_T (no_oracle int_size) KBool t | None => SOk (VBool false) end) with
                       | SOk (VBool b) => if Bool.eqb b h then [] else [help_name]
                       | _ => [help_name]
                       end
           | None => []
           end) ++
          flat_map (fun fo => match fo_final fo, expected orc asg use_file b64set fo with
                              | Some fin, Some v => if value_matches v fin then [] else [fname (fo_flag fo)]
                              | Some _, None => [fname (fo_flag fo)]   (* success although the winner is unparsable *)
                              | None, _ => []
                              end) fos
      | _ => map (fun fo => fname (fo_flag fo)) fos                      (* success although the command line is malformed *)
      end
    else [] in
  let tag_fail := flat_map (fun fo =>
      let '(n, d, u) := parse_tag (fo_tag fo) (fo_goname fo) in
      if bytes_eqb n (fo_hname fo) && bytes_eqb d (fo_hdef fo) && bytes_eqb u (fo_usage fo) && fo_bound fo
         && match set_T orc (fo_kind fo) d with SOk v => value_matches v (fo_init fo) | SErr => false end
      then [] else [fo_hname fo]) fos in
  let skipped := N.of_nat (length (filter (fun fo => match fo_final fo with None => true | Some _ => false end) fos)) in
  if negb (callno =? 0) then
    (* a later call on the same FlagSet: the model (C09_parse_once) refuses it and leaves the fields alone;
       the specification still applies if the implementation returns nil: the winners of THIS call's sources *)
    (* The property does not say that Parse may succeed only once: an ACCEPTED later call is judged by the
       specification alone (spec_fail: the winners of this call's own sources) and is otherwise drift; the fields
       after a later call that fails are unconstrained. *)
    match parse_call w {| ob_parsed := true; ob_fs := builtins ++ fields; ob_st := None |} vec with
    | (_, PAlready) =>
        {| v_spec_fail := spec_fail; v_env_fail := env_fail; v_tag_fail := tag_fail; v_skipped := skipped;
           v_model_fail := []; v_outcome := true; v_rest := true; v_parsers := parsers_ok int_size fos;
           v_later_accepted := ok; v_changed_on_error := negb ok && negb unchanged |}
    | _ =>
        {| v_spec_fail := spec_fail; v_env_fail := env_fail; v_tag_fail := tag_fail; v_skipped := skipped;
           v_model_fail := []; v_outcome := false; v_rest := true; v_parsers := true;
           v_later_accepted := false; v_changed_on_error := false |}
    end
  else
  match run w fields vec with
  | RParse (POk s rest') =>
      {| v_spec_fail := spec_fail; v_env_fail := env_fail; v_tag_fail := tag_fail; v_skipped := skipped;
         v_model_fail :=
           (match help, get s help_name with
            | Some h, Some (VBool b) => if Bool.eqb b h then [] else [help_name]
            | _, _ => [help_name]
            end) ++ flat_map (fun fo => match fo_final fo, get s (fname (fo_flag fo)) with
                                             | Some fin, Some v => if value_matches v fin then [] else [fname (fo_flag fo)]
                                             | _, _ => [fname (fo_flag fo)]
                                             end) fos;
         v_outcome := ok; v_rest := tokens_eqb rest rest'; v_parsers := parsers_ok int_size fos;
         v_later_accepted := false; v_changed_on_error := false |}
  | _ =>
      {| v_spec_fail := spec_fail; v_env_fail := env_fail; v_tag_fail := tag_fail; v_skipped := skipped; v_model_fail := [];
         v_outcome := negb ok; v_rest := true; v_parsers := parsers_ok int_size fos;
         v_later_accepted := false; v_changed_on_error := false |}
  end.

Definition is_nil {A} (l : list A) : bool := match l with [] => true | _ => false end.
Definition verdict_spec_ok (v : verdict) : bool := is_nil (v_spec_fail v) && is_nil (v_env_fail v) && is_nil (v_tag_fail v).
Definition verdict_ok (v : verdict) : bool :=
  verdict_spec_ok v && is_nil (v_model_fail v) && v_outcome v && v_rest v && v_parsers v.
Definition verdict_clean (v : verdict) : bool := verdict_ok v && negb (v_later_accepted v) && negb (v_changed_on_error v).
