(** The specification is about the location the output names, not its spelling: the output is cleaned
    lexically (the model's [clean]) before [beneath] and before the comparison with Join(base, path) (which is
    clean already, Proofs/UrlPathP.join_clean); a different spelling of the same location is only byte drift
    ([model_eq]).  See Properties/C17.C17_judged_modulo_clean.

    Executable verdict for one observed case of C17: the implementation's output is judged
    by the specification ([beneath] the cleaned base; Join for dot-free paths) and compared
    with the model. *)
From Coq Require Import List NArith Bool.
Import ListNotations.
From Glb Require Import Lib.GoPath Model.UrlPath.
Open Scope N_scope.

Record verdict := { spec_contained : bool; spec_dot_free : bool; model_eq : bool }.

Definition check_case (base p out : list N) : verdict :=
  {| spec_contained := beneath (clean base) (clean out);
     spec_dot_free := if dot_freeb p then bytes_eqb (clean out) (join base p) else true;
     model_eq := bytes_eqb (resolve base p) out |}.

Definition verdict_ok (v : verdict) : bool := spec_contained v && spec_dot_free v && model_eq v.
