(** Executable verdict for one observed C05 history: the events of one real Mux
    (registrations, handler entries with everything read through the Store, WriteHeader
    calls, handler exits) in the order they happened.

    SPECIFICATION judged on the implementation's observations, per request:
      - who ran / RouteParam(name) for every name / RouteParamAny are those of the table-level
        router specification on the routes registered so far ([match_spec_g]: the accepted routes,
        and the rejected attempts as ghosts that can shadow but never be selected) — i.e. what a
        fresh Mux with the same registration attempts would answer, independent of every earlier
        or concurrent request; OR, consistently within the history, [match_spec] on the accepted
        routes alone (an implementation whose rejected Handle leaves nothing behind is as good);
        Handle accepts exactly what [accepts] says;
      - W.Status is 0 at handler entry;
      - GetID() is an opaque byte string different from every id seen before in the history
        (how it is laid out is the implementation's business; the model's prefix ++ base-36 ticket
        and the proof that those are distinct below 2^64 stay in the model, C05_ids_unique);
      - constant during the request: at handler exit and in the relay after the handler, who / every
        RouteParam / RouteParamAny / GetID are what they were at entry, and W.Status is what was
        read back after the request's own last action on its writer (an [EvWrite]: the harness
        logs the status it reads right after WriteHeader / Flush / installing a wrapper, so that
        no particular recording policy of the writer is demanded).
    MODEL: the LTS of Model/StorePool.v is run on the same events (sync.Pool.Get modelled as
    "most recently Put Store, else New") and must show the same observations. *)
From Coq Require Import List NArith Bool Arith.
Import ListNotations.
From Glb Require Import Lib.RouteBytes Lib.RouteSpec Model.Router Model.StorePool Check.C04.

Record cobs := { co_who : who; co_status : N; co_id : list N; co_any : list N; co_vals : list (list N) }.

Inductive ev :=
| EvRegister (p m : list N) (accepted : bool)           (* Handle returned / panicked and the caller recovered *)
| EvBegin (k : nat) (path method : list N) (o : cobs)   (* everything read at handler entry *)
| EvWrite (k : nat) (code : N)                          (* W.Status read back after an own action of the request changed it *)
| EvFlush (k : nat)                                     (* the handler called W.Flush() *)
| EvExit (k : nat) (o : cobs)                           (* everything read again at handler exit *)
| EvAfter (k : nat) (how : exit_kind) (o : cobs).       (* ... and again by the relay after the handler returned or
                                                           while its panic unwinds; then ServeHTTP resets / drops the Store *)

(** ** replay state *)
Record rstate := {
  r_mux : mux;                          (* the model, rejected registrations leaving their nodes behind (what HEAD does) *)
  r_model_ok : bool;                    (* that model could follow every event so far and agreed *)
  r_mux_c : mux;                        (* the model of an implementation whose rejected Handle leaves NOTHING behind *)
  r_model_ok_c : bool;
  r_variant : option bool;              (* which of the two the implementation has shown to be: [Some true] residue kept,
                                           [Some false] nothing kept, [None] no request has told them apart yet *)
  r_routes : list (list N * list N);    (* specification: routes accepted so far *)
  r_ghosts : list (list pseg);          (* ... and what the rejected attempts left behind *)
  r_ids : list (list N);                (* every id seen so far in this history (opaque byte strings) *)
  r_entry : list (nat * cobs);          (* requests in flight: what they read at entry, status updated by their own writes *)
  r_begins : N;                         (* number of requests begun *)
  r_rejects_more : nat;                 (* registrations the implementation rejected although the specification accepts them *)
  r_id_differs : bool;                  (* some id is not laid out as the model's prefix ++ base36(ticket): tolerated, counted *)
  r_model_off : bool                    (* a handler registered a route while requests were in flight: the model's LRegister is
                                           not enabled then (Model/StorePool.v); from there on the history is judged by the
                                           specification alone *)
}.

Fixpoint assoc_nat (k : nat) (l : list (nat * cobs)) : option cobs :=
  match l with
  | [] => None
  | (k', v) :: r => if Nat.eqb k' k then Some v else assoc_nat k r
  end.
Fixpoint remove_nat (k : nat) (l : list (nat * cobs)) : list (nat * cobs) :=
  match l with
  | [] => []
  | (k', v) :: r => if Nat.eqb k' k then r else (k', v) :: remove_nat k r
  end.
Fixpoint update_nat (k : nat) (g : cobs -> cobs) (l : list (nat * cobs)) : list (nat * cobs) :=
  match l with
  | [] => []
  | (k', v) :: r => if Nat.eqb k' k then (k', g v) :: r else (k', v) :: update_nat k g r
  end.
Definition set_status (c : N) (o : cobs) : cobs :=
  {| co_who := co_who o; co_status := c; co_id := co_id o; co_any := co_any o; co_vals := co_vals o |}.
Definition cobs_eqb (a b : cobs) : bool :=
  who_eqb (co_who a) (co_who b) && (co_status a =? co_status b)%N && bytes_eqb (co_id a) (co_id b)
  && bytes_eqb (co_any a) (co_any b) && list_bytes_eqb (co_vals a) (co_vals b).

(** sync.Pool.Get in the replay: the most recently Put Store if there is one *)
Definition lifo_choice (m : mux) : option nat :=
  match length (m_pool m) with O => None | S n => Some n end.

Definition opt_list_eqb (a : list (option (list N))) (b : list (list N)) : bool :=
  (fix go (a : list (option (list N))) (b : list (list N)) : bool :=
     match a, b with
     | [], [] => true
     | Some x :: a', y :: b' => bytes_eqb x y && go a' b'
     | _, _ => false
     end) a b.
Definition target_who_eqb (t : target) (w : who) : bool :=
  match t, w with
  | Route r, WRoute i => Nat.eqb r i
  | NoRoute, WNoRoute => true
  | _, _ => false
  end.

(** model observation of request k agrees with the implementation's at entry *)
Definition model_agrees (sequential : bool) (m : mux) (k : nat) (names : list (list N)) (o : cobs) : bool :=
  match observe m k names with
  | Some mo =>
    target_who_eqb (ob_target mo) (co_who o)
    && opt_list_eqb (ob_vals mo) (co_vals o)
    && match ob_any mo with Some a => bytes_eqb a (co_any o) | None => false end
    && (ob_status mo =? co_status o)%N
  | None => false
  end.

(** the implementation's id is laid out like the model's (prefix ++ base-36 ticket, tickets in the order of the B events);
    only meaningful when the B events are in ticket order.  A different layout is NOT an error: the property wants ids
    that are unique within the Mux and constant during the request, nothing about how they look. *)
Definition model_id_same (sequential : bool) (m : mux) (k : nat) (o : cobs) : bool :=
  if sequential then
    match observe m k [] with
    | Some mo => bytes_eqb (ob_id mo) (co_id o)
    | None => true
    end
  else true.

Definition mstep (ok : bool) (m : mux) (l : label) (after : mux -> bool) : mux * bool :=
  if ok then
    match step m l with
    | Ok m' => (m', after m')
    | _ => (m, false)
    end
  else (m, false).

(** one event: [None] = the specification fails here *)
Definition mk (s : rstate) (mr mc : mux * bool) (entry : list (nat * cobs)) : rstate :=
  {| r_mux := fst mr; r_model_ok := snd mr; r_mux_c := fst mc; r_model_ok_c := snd mc; r_variant := r_variant s;
     r_routes := r_routes s; r_ghosts := r_ghosts s; r_ids := r_ids s;
     r_entry := entry; r_begins := r_begins s; r_rejects_more := r_rejects_more s; r_id_differs := r_id_differs s; r_model_off := r_model_off s |}.
(** the same label in both models *)
Definition both (s : rstate) (l : label) (after : mux -> bool) : (mux * bool) * (mux * bool) :=
  (mstep (r_model_ok s) (r_mux s) l after, mstep (r_model_ok_c s) (r_mux_c s) l after).

Definition spec_obs_g (routes : list (list N * list N)) (ghosts : list (list pseg)) (names : list (list N))
           (path method : list N) : obs :=
  match match_spec_g routes ghosts (segments path) method with
  | Some m => {| o_who := WRoute (m_route m);
                 o_any := lookup_param (m_names m) (m_values m) any_name;
                 o_vals := map (lookup_param (m_names m) (m_values m)) names |}
  | None => {| o_who := WNoRoute; o_any := []; o_vals := map (fun _ => []) names |}
  end.

(** A rejected Handle may or may not leave trie nodes behind: the property speaks about the registered routes, so an
    implementation that validates the whole pattern before it inserts anything is as good as HEAD.  Dispatch is therefore
    accepted when it is that of the GHOST specification ([match_spec_g], HEAD) or that of the CLEAN one ([match_spec] on
    the accepted routes) — but one and the same within a history: the first request that tells them apart fixes
    [r_variant].  Everything else (status 0, id, values of the selected route, nothing from earlier requests) is judged
    the same in both. *)
Definition check_ev (prefix : list N) (sequential : bool) (names : list (list N)) (s : rstate) (e : ev)
  : option rstate :=
  match e with
  | EvRegister p m accepted =>
    let spec_accepts := accepts (r_routes s) (p, m) in
    if accepted && negb spec_accepts then None        (* it ACCEPTED a duplicate / a bad :name / an unknown method *)
    else if negb accepted && spec_accepts then
      (* a stricter implementation: the property is about the routes that WERE registered; specification and both
         models follow the implementation's decision (the route is simply not there) *)
      Some {| r_mux := r_mux s; r_model_ok := r_model_ok s; r_mux_c := r_mux_c s; r_model_ok_c := r_model_ok_c s;
              r_variant := r_variant s; r_routes := r_routes s; r_ghosts := r_ghosts s; r_ids := r_ids s;
              r_entry := r_entry s; r_begins := r_begins s; r_rejects_more := S (r_rejects_more s); r_id_differs := r_id_differs s; r_model_off := r_model_off s |}
    else if negb (is_nil (r_entry s)) then
      (* Handle called from inside a handler: the specification goes on with the new table, the model stops here *)
      Some {| r_mux := r_mux s; r_model_ok := r_model_ok s; r_mux_c := r_mux_c s; r_model_ok_c := r_model_ok_c s;
              r_variant := r_variant s;
              r_routes := if accepted then r_routes s ++ [(p, m)] else r_routes s;
              r_ghosts := if accepted then r_ghosts s
                          else match ghost_of (p, m) with Some g => r_ghosts s ++ [g] | None => r_ghosts s end;
              r_ids := r_ids s; r_entry := r_entry s; r_begins := r_begins s; r_rejects_more := r_rejects_more s;
              r_id_differs := r_id_differs s; r_model_off := true |}
    else
      let acc (t : table) := match handle t p m with Some _ => true | None => false end in
      let mr := mstep (r_model_ok s) (r_mux s) (LRegister p m) (fun _ => Bool.eqb (acc (m_table (r_mux s))) accepted) in
      let mc := if accepted
                then mstep (r_model_ok_c s) (r_mux_c s) (LRegister p m) (fun _ => Bool.eqb (acc (m_table (r_mux_c s))) accepted)
                else (r_mux_c s, r_model_ok_c s && Bool.eqb (acc (m_table (r_mux_c s))) accepted) in
      Some {| r_mux := fst mr; r_model_ok := snd mr; r_mux_c := fst mc; r_model_ok_c := snd mc; r_variant := r_variant s;
              r_routes := if accepted then r_routes s ++ [(p, m)] else r_routes s;
              r_ghosts := if accepted then r_ghosts s
                          else match ghost_of (p, m) with Some g => r_ghosts s ++ [g] | None => r_ghosts s end;
              r_ids := r_ids s; r_entry := r_entry s; r_begins := r_begins s; r_rejects_more := r_rejects_more s; r_id_differs := r_id_differs s; r_model_off := r_model_off s |}
  | EvBegin k path method o =>
    let seen := {| o_who := co_who o; o_any := co_any o; o_vals := co_vals o |} in
    let is_g := obs_eqb (spec_obs_g (r_routes s) (r_ghosts s) names path method) seen in
    let is_c := obs_eqb (spec_obs (r_routes s) names path method) seen in
    let variant' :=
      match r_variant s with
      | Some true => if is_g then Some (Some true) else None
      | Some false => if is_c then Some (Some false) else None
      | None => if is_g && is_c then Some None
                else if is_g then Some (Some true)
                else if is_c then Some (Some false)
                else None
      end in
    match variant' with
    | Some v =>
      (* the id: an opaque byte string that no other request of this Mux has had *)
      if (co_status o =? 0)%N && negb (mem_bytes (co_id o) (r_ids s))
      then
        let (mr, mc) := both s (LBegin k (lifo_choice (r_mux s)) path method)
                             (fun m' => model_agrees sequential m' k names o) in
        Some {| r_mux := fst mr; r_model_ok := snd mr; r_mux_c := fst mc; r_model_ok_c := snd mc; r_variant := v;
                r_routes := r_routes s; r_ghosts := r_ghosts s; r_ids := co_id o :: r_ids s;
                r_entry := (k, o) :: r_entry s; r_begins := (r_begins s + 1)%N; r_rejects_more := r_rejects_more s;
                r_id_differs := r_id_differs s || negb (model_id_same sequential (fst mr) k o); r_model_off := r_model_off s |}
      else None
    | None => None
    end
  | EvWrite k code =>
    match assoc_nat k (r_entry s) with
    | Some _ =>
      let (mr, mc) := both s (LWrite k (WriteHeader code)) (fun _ => true) in
      Some (mk s mr mc (update_nat k (set_status code) (r_entry s)))
    | None => None
    end
  | EvFlush k =>
    match assoc_nat k (r_entry s) with
    | Some _ =>
      let (mr, mc) := both s (LWrite k Flush) (fun _ => true) in
      Some (mk s mr mc (update_nat k (fun o => set_status (apply_wop Flush (co_status o)) o) (r_entry s)))
    | None => None
    end
  | EvExit k o =>
    match assoc_nat k (r_entry s) with
    | Some o0 =>
      if cobs_eqb o0 o then
        Some (mk s (r_mux s, r_model_ok s && model_agrees sequential (r_mux s) k names o)
                   (r_mux_c s, r_model_ok_c s && model_agrees sequential (r_mux_c s) k names o) (r_entry s))
      else None
    | None => None
    end
  | EvAfter k how o =>
    match assoc_nat k (r_entry s) with
    | Some o0 =>
      if cobs_eqb o0 o then
        let ar := model_agrees sequential (r_mux s) k names o in
        let ac := model_agrees sequential (r_mux_c s) k names o in
        let mr := mstep (r_model_ok s) (r_mux s) (LEnd k how) (fun _ => ar) in
        let mc := mstep (r_model_ok_c s) (r_mux_c s) (LEnd k how) (fun _ => ac) in
        Some (mk s mr mc (remove_nat k (r_entry s)))
      else None
    | None => None
    end
  end.

(** the model agrees: the one of the variant the implementation showed, either if no request told them apart *)
Definition model_verdict (s : rstate) : bool :=
  r_model_off s ||
  match r_variant s with
  | Some true => r_model_ok s
  | Some false => r_model_ok_c s
  | None => r_model_ok s || r_model_ok_c s
  end.
(** the implementation's rejected registrations left nothing behind where HEAD's would have mattered: not an error *)
Definition residue_differs (s : rstate) : bool :=
  match r_variant s with Some false => true | _ => false end.
Definition stricter (s : rstate) : bool := match r_rejects_more s with O => false | _ => true end.

Fixpoint check_evs (prefix : list N) (sequential : bool) (names : list (list N)) (s : rstate) (evs : list ev) (i : nat)
  : verdict * nat * (bool * bool * bool * bool) :=
  match evs with
  | [] =>
    if model_verdict s then (VOk, 0, (residue_differs s, stricter s, r_id_differs s, r_model_off s))
    else (VMismatch, 0, (residue_differs s, stricter s, r_id_differs s, r_model_off s))
  | e :: rest =>
    match check_ev prefix sequential names s e with
    | Some s' => check_evs prefix sequential names s' rest (S i)
    | None => (VSpecFail, i, (false, false, false, false))
    end
  end.

Definition check_history (prefix : list N) (sequential : bool) (names : list (list N)) (evs : list ev)
  : verdict * nat * (bool * bool * bool * bool) :=
  check_evs prefix sequential names
            {| r_mux := new_mux prefix; r_model_ok := true; r_mux_c := new_mux prefix; r_model_ok_c := true; r_variant := None;
               r_routes := []; r_ghosts := []; r_ids := []; r_entry := []; r_begins := 0%N; r_rejects_more := 0; r_id_differs := false; r_model_off := false |} evs 0.

(** third component: (dispatch followed the clean specification where HEAD's residue would have shown,
    Handle rejected registrations the specification accepts, ids are laid out differently from the model's) — all tolerated *)
Definition history_ok (v : verdict * nat * (bool * bool * bool * bool)) : bool := match fst (fst v) with VOk => true | _ => false end.
