(** Model of config/value.go: the nine flag kinds and Value.Set per kind.

    Set(s): the empty text gives the zero value of the kind; otherwise the text goes
    through the kind's standard-library parser.  The parsers are modelled for a
    sub-language that is decided syntactically ([in_model]); outside it the answer comes
    from an oracle [o] (universally quantified in every theorem):
      bool      strconv.ParseBool — complete
      string    identity — complete
      (u)int*   strconv.ParseInt/ParseUint(s, 0, 64) — complete for texts without '_'
                (int/uint are bounded by the platform's IntSize, [o_int_size])
      duration  time.ParseDuration — complete for texts without '.'
      []byte    base64.StdEncoding.DecodeString — complete for texts without CR/LF
      float64   strconv.ParseFloat — not modelled (always the oracle); a float value is
                represented by its canonical text (FormatFloat 'g' -1). *)
From Coq Require Import List NArith ZArith Bool.
Import ListNotations.
From Glb Require Import Lib.ArgGrammar.
Open Scope N_scope.

Inductive kind := KBool | KInt | KInt64 | KUint | KUint64 | KString | KFloat | KDuration | KBytes.

Inductive value :=
| VBool (b : bool)
| VInt (z : Z)            (* int, int64 *)
| VUint (n : N)           (* uint, uint64 *)
| VString (s : list N)
| VFloat (canon : list N)
| VDur (ns : Z)           (* time.Duration, nanoseconds *)
| VBytes (b : list N).

Inductive sres := SOk (v : value) | SErr.

(** What lies outside the model about the platform: the word size (strconv.IntSize, 32 or 64;
    bounds the kinds int and uint) and the standard-library parsers outside the sub-language. *)
Record oracle := { o_int_size : N; o_parse : kind -> list N -> sres }.

Definition oracle_agree (o1 o2 : oracle) : Prop :=
  o_int_size o1 = o_int_size o2 /\ forall k t, o_parse o1 k t = o_parse o2 k t.

Definition zero (k : kind) : value :=
  match k with
  | KBool => VBool false
  | KInt | KInt64 => VInt 0%Z
  | KUint | KUint64 => VUint 0
  | KString => VString []
  | KFloat => VFloat [48]          (* "0" *)
  | KDuration => VDur 0%Z
  | KBytes => VBytes []
  end.

Fixpoint mem (c : N) (s : list N) : bool :=
  match s with [] => false | x :: r => (x =? c) || mem c r end.

(** ** strconv.ParseBool *)
Definition parse_bool (s : list N) : sres :=
  if bytes_eqb s [49] || bytes_eqb s [116] || bytes_eqb s [84]                     (* 1 t T *)
     || bytes_eqb s [84;82;85;69] || bytes_eqb s [116;114;117;101] || bytes_eqb s [84;114;117;101]
  then SOk (VBool true)
  else if bytes_eqb s [48] || bytes_eqb s [102] || bytes_eqb s [70]                (* 0 f F *)
     || bytes_eqb s [70;65;76;83;69] || bytes_eqb s [102;97;108;115;101] || bytes_eqb s [70;97;108;115;101]
  then SOk (VBool false)
  else SErr.

(** ** strconv.ParseUint(s, 0, bitSize) for texts without '_'; [maxv] = 1<<bitSize - 1 *)
Definition max_u64 : N := 18446744073709551615.
Definition two63 : N := 9223372036854775808.

Definition digit_val (c : N) : option N :=
  if (48 <=? c) && (c <=? 57) then Some (c - 48)
  else if (97 <=? c) && (c <=? 122) then Some (c - 87)
  else if (65 <=? c) && (c <=? 90) then Some (c - 55)
  else None.

Inductive ures := UOk (n : N) | USyntax | URange.

Fixpoint digits_loop (base maxv : N) (s : list N) (n : N) : ures :=
  match s with
  | [] => UOk n
  | c :: r =>
      match digit_val c with
      | None => USyntax
      | Some d =>
          if base <=? d then USyntax
          else let n1 := n * base + d in
               if maxv <? n1 then URange else digits_loop base maxv r n1
      end
  end.

Definition parse_uint (maxv : N) (s : list N) : ures :=
  match s with
  | [] => USyntax
  | c0 :: r0 =>
      if c0 =? 48 then
        match r0 with
        | c1 :: ((_ :: _) as r1) =>
            if (c1 =? 98) || (c1 =? 66) then digits_loop 2 maxv r1 0
            else if (c1 =? 111) || (c1 =? 79) then digits_loop 8 maxv r1 0
            else if (c1 =? 120) || (c1 =? 88) then digits_loop 16 maxv r1 0
            else digits_loop 8 maxv r0 0
        | _ => digits_loop 8 maxv r0 0
        end
      else digits_loop 10 maxv s 0
  end.

Definition set_uint (bits : N) (s : list N) : sres :=
  match parse_uint (2 ^ bits - 1) s with UOk n => SOk (VUint n) | _ => SErr end.

(** ** strconv.ParseInt(s, 0, bitSize) *)
Definition set_int (bits : N) (s : list N) : sres :=
  match s with
  | [] => SErr
  | c :: r =>
      let neg := c =? 45 in
      let body := if (c =? 43) || (c =? 45) then r else s in
      let half := 2 ^ (bits - 1) in
      match parse_uint (2 ^ bits - 1) body with
      | UOk un =>
          if neg then (if half <? un then SErr else SOk (VInt (- Z.of_N un)))
          else (if half <=? un then SErr else SOk (VInt (Z.of_N un)))
      | _ => SErr
      end
  end.

(** ** time.ParseDuration for texts without '.' *)
(** leadingInt: consumes [0-9]*; [None] = overflow *)
Fixpoint leading_int (s : list N) (x : N) : option (N * list N) :=
  match s with
  | c :: r =>
      if (c <? 48) || (57 <? c) then Some (x, s)
      else if two63 / 10 <? x then None
      else let x1 := x * 10 + (c - 48) in
           if two63 <? x1 then None else leading_int r x1
  | [] => Some (x, [])
  end.

(** the unit: the longest prefix without '.' and digits *)
Fixpoint unit_span (s : list N) : list N * list N :=
  match s with
  | c :: r =>
      if (c =? 46) || ((48 <=? c) && (c <=? 57)) then ([], s)
      else let (u, rest) := unit_span r in (c :: u, rest)
  | [] => ([], [])
  end.

Definition unit_ns (u : list N) : option N :=
  if bytes_eqb u [110;115] then Some 1                                   (* ns *)
  else if bytes_eqb u [117;115] then Some 1000                            (* us *)
  else if bytes_eqb u [194;181;115] then Some 1000                        (* U+00B5 s *)
  else if bytes_eqb u [206;188;115] then Some 1000                        (* U+03BC s *)
  else if bytes_eqb u [109;115] then Some 1000000                         (* ms *)
  else if bytes_eqb u [115] then Some 1000000000                          (* s *)
  else if bytes_eqb u [109] then Some 60000000000                         (* m *)
  else if bytes_eqb u [104] then Some 3600000000000                       (* h *)
  else None.

(** the loop [for s != ""]; fuel = len(s) suffices (every iteration consumes a unit) *)
Fixpoint dur_loop (fuel : nat) (s : list N) (d : N) : option N :=
  match s with
  | [] => Some d
  | c :: _ =>
      match fuel with
      | O => None
      | S fuel' =>
          if negb ((c =? 46) || ((48 <=? c) && (c <=? 57))) then None else
          match leading_int s 0 with
          | None => None
          | Some (v, s1) =>
              if (length s1 =? length s)%nat then None else      (* !pre && !post *)
              let (u, s2) := unit_span s1 in
              match u with
              | [] => None                                           (* missing unit *)
              | _ =>
                  match unit_ns u with
                  | None => None
                  | Some un =>
                      if two63 / un <? v then None else
                      let d1 := d + v * un in
                      if two63 <? d1 then None else dur_loop fuel' s2 d1
                  end
              end
          end
      end
  end.

Definition set_duration (s : list N) : sres :=
  let neg := match s with c :: _ => c =? 45 | [] => false end in
  let body := match s with c :: r => if (c =? 45) || (c =? 43) then r else s | [] => [] end in
  if bytes_eqb body [48] then SOk (VDur 0%Z)
  else match body with
       | [] => SErr
       | _ =>
           match dur_loop (length body) body 0 with
           | None => SErr
           | Some d =>
               if neg then SOk (VDur (- Z.of_N d))
               else if two63 - 1 <? d then SErr else SOk (VDur (Z.of_N d))
           end
       end.

(** ** base64.StdEncoding.DecodeString for texts without CR/LF *)
Definition b64v (c : N) : option N :=
  if (65 <=? c) && (c <=? 90) then Some (c - 65)
  else if (97 <=? c) && (c <=? 122) then Some (c - 71)
  else if (48 <=? c) && (c <=? 57) then Some (c + 4)
  else if c =? 43 then Some 62
  else if c =? 47 then Some 63
  else None.

Fixpoint b64_decode (s : list N) : option (list N) :=
  match s with
  | [] => Some []
  | a :: b :: c :: d :: r =>
      match b64v a, b64v b with
      | Some x, Some y =>
          let b1 := x * 4 + y / 16 in
          if c =? 61 then
            (if d =? 61 then match r with [] => Some [b1] | _ => None end else None)
          else
            match b64v c with
            | None => None
            | Some z =>
                let b2 := (y mod 16) * 16 + z / 4 in
                if d =? 61 then match r with [] => Some [b1; b2] | _ => None end
                else match b64v d with
                     | None => None
                     | Some w =>
                         match b64_decode r with
                         | Some t => Some (b1 :: b2 :: (z mod 4) * 64 + w :: t)
                         | None => None
                         end
                     end
            end
      | _, _ => None
      end
  | _ => None
  end.

Definition set_bytes (s : list N) : sres :=
  match b64_decode s with Some b => SOk (VBytes b) | None => SErr end.

(** ** Value.Set *)
Definition in_model (k : kind) (s : list N) : bool :=
  match k with
  | KBool | KString => true
  | KInt | KInt64 | KUint | KUint64 => negb (mem 95 s)
  | KFloat => false
  | KDuration => negb (mem 46 s)
  | KBytes => negb (mem 10 s || mem 13 s)
  end.

Definition set_T (o : oracle) (k : kind) (s : list N) : sres :=
  match s with
  | [] => SOk (zero k)                 (* "default zero if input is empty" *)
  | _ =>
      if in_model k s then
        match k with
        | KBool => parse_bool s
        | KInt => set_int (o_int_size o) s        (* strconv.IntSize *)
        | KInt64 => set_int 64 s
        | KUint => set_uint (o_int_size o) s
        | KUint64 => set_uint 64 s
        | KString => SOk (VString s)
        | KFloat => o_parse o k s
        | KDuration => set_duration s
        | KBytes => set_bytes s
        end
      else o_parse o k s
  end.

Definition is_bool_kind (k : kind) : bool := match k with KBool => true | _ => false end.
