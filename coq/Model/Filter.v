(** Model of util/netutil/filter.go (IPv4Filter), function by function, as the code is
    now (Contains normalises its argument with To4).  No proofs here.

    Go                                   model
    f.matchAll (atomic.Bool)             match_all
    f.mode == modeMaps                   mode_maps
    f.index                              index
    f.ipList [256][2]uint32              ip_list   (always 256 slots, (0,0) = unused / removed)
    f.ipMaps [32]map[uint32]bool         ip_maps   (32 sets; a set is a duplicate-free list)
    ipv4Masks[i]                         nth i ipv4_masks 0

    The mutex is not part of the sequential model: [add_locked], [remove_locked] and
    [scan] are the bodies of the three critical sections; Model/FilterConc.v turns each
    into one atomic label. *)
From Coq Require Import List Arith NArith Bool.
Import ListNotations.
From Glb Require Import Lib.NetIP.
Open Scope N_scope.

Definition ipv4_masks : list N :=
  [ 0x80000000; 0xc0000000; 0xe0000000; 0xf0000000;
    0xf8000000; 0xfc000000; 0xfe000000; 0xff000000;
    0xff800000; 0xffc00000; 0xffe00000; 0xfff00000;
    0xfff80000; 0xfffc0000; 0xfffe0000; 0xffff0000;
    0xffff8000; 0xffffc000; 0xffffe000; 0xfffff000;
    0xfffff800; 0xfffffc00; 0xfffffe00; 0xffffff00;
    0xffffff80; 0xffffffc0; 0xffffffe0; 0xfffffff0;
    0xfffffff8; 0xfffffffc; 0xfffffffe; 0xffffffff ].

Definition list_size : nat := 256.

(** ipv4Masks[ones-1]; only ever evaluated with 1 <= ones <= 32 *)
Definition mask (ones : N) : N := nth (N.to_nat (ones - 1)) ipv4_masks 0.

Record state := mkSt {
  match_all : bool;
  mode_maps : bool;
  index : nat;
  ip_list : list (N * N);
  ip_maps : list (list N)
}.

Definition empty_maps : list (list N) := repeat [] 32.

(** NewIPv4Filter *)
Definition init : state := mkSt false false 0 (repeat (0, 0) list_size) empty_maps.

(* ---- arrays and Go maps used as sets ---- *)

Fixpoint upd {A} (l : list A) (i : nat) (x : A) : list A :=
  match l, i with
  | [], _ => []
  | _ :: t, O => x :: t
  | h :: t, S k => h :: upd t k x
  end.

Fixpoint upd_f {A} (l : list A) (i : nat) (f : A -> A) : list A :=
  match l, i with
  | [], _ => []
  | h :: t, O => f h :: t
  | h :: t, S k => h :: upd_f t k f
  end.

Definition set_mem (x : N) (m : list N) : bool := existsb (N.eqb x) m.
Definition set_add (x : N) (m : list N) : list N := if set_mem x m then m else x :: m.
Definition set_del (x : N) (m : list N) : list N := filter (fun y => negb (y =? x)) m.

(** f.ipMaps[i][a] = true *)
Definition maps_insert (maps : list (list N)) (i : nat) (a : N) : list (list N) :=
  upd_f maps i (set_add a).
(** delete(f.ipMaps[i], a) *)
Definition maps_delete (maps : list (list N)) (i : nat) (a : N) : list (list N) :=
  upd_f maps i (set_del a).

(** the migration loop of Add: for i < index, if ipList[i][1] > 0 then
    ipMaps[ipList[i][1]-1][ipList[i][0]] = true *)
Definition migrate_slot (maps : list (list N)) (sl : N * N) : list (list N) :=
  if 0 <? snd sl then maps_insert maps (N.to_nat (snd sl - 1)) (fst sl) else maps.
Definition migrate (slots : list (N * N)) (maps : list (list N)) : list (list N) :=
  fold_left migrate_slot slots maps.

Definition set_match_all (s : state) (b : bool) : state :=
  mkSt b (mode_maps s) (index s) (ip_list s) (ip_maps s).

(* ---- argument validation shared by Add and Remove ----
   ones, bits := cidr.Mask.Size()
   if bits != 32 || ones > 32 || len(cidr.IP) != net.IPv4len { return ErrInvalidIPv4CIDR } *)
Definition invalid_arg (c : cidr) : bool :=
  let '(ones, bits) := mask_size (c_mask c) in
  negb (bits =? 32) || (32 <? ones) || negb (length (c_ip c) =? 4)%nat.
Definition arg_ones (c : cidr) : N := fst (mask_size (c_mask c)).
Definition arg_nip (c : cidr) : N := be32 (c_ip c).

(* ---- Add: the section between mutex.Lock() and Unlock() ---- *)
Definition add_locked (s : state) (nip ones : N) : state :=
  let e := N.land nip (mask ones) in
  let k := N.to_nat (ones - 1) in
  if mode_maps s then
    mkSt (match_all s) true (index s) (ip_list s) (maps_insert (ip_maps s) k e)
  else if (index s <? list_size)%nat then
    mkSt (match_all s) false (S (index s)) (upd (ip_list s) (index s) (e, ones)) (ip_maps s)
  else
    let m1 := migrate (firstn (index s) (ip_list s)) empty_maps in
    mkSt (match_all s) true (index s) (ip_list s) (maps_insert m1 k e).

(* ---- Remove: the section between mutex.Lock() and Unlock() ---- *)
Definition zero_if (e ones : N) (sl : N * N) : N * N :=
  if (ones =? snd sl) && (e =? fst sl) then (0, 0) else sl.

Definition remove_locked (s : state) (nip ones : N) : state :=
  let e := N.land nip (mask ones) in
  let k := N.to_nat (ones - 1) in
  if mode_maps s then
    mkSt (match_all s) true (index s) (ip_list s) (maps_delete (ip_maps s) k e)
  else
    mkSt (match_all s) false (index s)
         (map (zero_if e ones) (firstn (index s) (ip_list s)) ++ skipn (index s) (ip_list s))
         (ip_maps s).

Inductive result := ROk | RErrInvalid.

Definition add (s : state) (c : cidr) : state * result :=
  if invalid_arg c then (s, RErrInvalid)
  else if arg_ones c =? 0 then (set_match_all s true, ROk)
  else (add_locked s (arg_nip c) (arg_ones c), ROk).

Definition remove (s : state) (c : cidr) : state * result :=
  if invalid_arg c then (s, RErrInvalid)
  else if arg_ones c =? 0 then (set_match_all s false, ROk)
  else (remove_locked s (arg_nip c) (arg_ones c), ROk).

(* ---- Contains: the section between mutex.RLock() and RUnlock() ---- *)
Definition scan (s : state) (nip : N) : bool :=
  if mode_maps s then
    existsb (fun i => set_mem (N.land nip (nth i ipv4_masks 0)) (nth i (ip_maps s) []))
            (seq 0 32)
  else
    existsb (fun sl => (0 <? snd sl) && (N.land nip (mask (snd sl)) =? fst sl))
            (firstn (index s) (ip_list s)).

Definition contains (s : state) (ip : list N) : bool :=
  if match_all s then true
  else match to4 ip with
       | None => false
       | Some ip4 => scan s (be32 ip4)
       end.

(* ---- Contains at the pinned commit 8f4ffe7, before fix 6ec3904: [len(ip) != net.IPv4len] instead of
   To4, so the 16-byte form of an IPv4 address was never found.  Kept only for the refutation
   C11_pinned_refuted; nothing else uses it. ---- *)
Definition contains_pinned (s : state) (ip : list N) : bool :=
  if match_all s then true
  else if negb (length ip =? 4)%nat then false
  else scan s (be32 ip).

(* ---- histories ---- *)
From Glb Require Import Lib.CidrSet.

Definition apply (s : state) (o : op) : state * result :=
  match o with Add c => add s c | Remove c => remove s c end.

Definition run_from (s : state) (ops : list op) : state :=
  fold_left (fun s o => fst (apply s o)) ops s.
Definition run (ops : list op) : state := run_from init ops.
