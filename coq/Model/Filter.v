(** Model of util/netutil/filter.go (IPv4Filter), function by function, as the code is
    now (Contains normalises its argument with To4).  No proofs here.

    Go's run-time panics are outcomes of the model: every function that indexes an array,
    a slice or writes a map returns an [option], [None] = the goroutine panics
    (index out of range for [ipv4Masks[ones-1]], [ipList[i]], [ipMaps[ones-1]],
    [binary.BigEndian.Uint32] of a short slice; assignment to an entry of a nil map).
    That no call ever panics is a theorem (C11_no_panic, C12_no_crash), not an assumption.

    Go                                   model
    f.matchAll (atomic.Bool)             match_all
    f.mode == modeMaps                   mode_maps
    f.index                              index
    f.ipList [256][2]uint32              ip_list   (always 256 slots, (0,0) = unused / removed)
    f.ipMaps [32]map[uint32]bool         ip_maps   (32 maps; [None] = nil map, [Some l] = made map
                                                    with the duplicate-free key list l)
    ipv4Masks[i]                         nth_error ipv4_masks i

    The mutex is not part of the sequential model: [add_locked], [remove_locked] and
    [scan] are the bodies of the three critical sections; Model/FilterConc.v turns each
    into one atomic label. *)
From Coq Require Import List Arith NArith Bool.
Import ListNotations.
From Glb Require Import Lib.NetIP.
Open Scope N_scope.

Definition ipv4_masks : list N :=
  [ 0x80000000; 0xc0000000; 0xe0000000; 0xf0000000;
    0xf8000000; 0xfc000000; 0xfe000000; 0xff000000;
    0xff800000; 0xffc00000; 0xffe00000; 0xfff00000;
    0xfff80000; 0xfffc0000; 0xfffe0000; 0xffff0000;
    0xffff8000; 0xffffc000; 0xffffe000; 0xfffff000;
    0xfffff800; 0xfffffc00; 0xfffffe00; 0xffffff00;
    0xffffff80; 0xffffffc0; 0xffffffe0; 0xfffffff0;
    0xfffffff8; 0xfffffffc; 0xfffffffe; 0xffffffff ].

Definition list_size : nat := 256.

(** ipv4Masks[ones-1] as Go evaluates it: ones-1 = -1 (int) or 4294967295 (uint32) for
    ones = 0 and every index above 31 panic *)
Definition mask_at (ones : N) : option N :=
  if ones =? 0 then None else nth_error ipv4_masks (N.to_nat (ones - 1)).

(** the same table as a total function (what [mask_at] returns when it does not panic);
    used by the proofs and by the table obligations of lib/tables.py *)
Definition mask (ones : N) : N := nth (N.to_nat (ones - 1)) ipv4_masks 0.

(** a Go map used as a set: [None] is the nil map *)
Definition gomap := option (list N).

Record state := mkSt {
  match_all : bool;
  mode_maps : bool;
  index : nat;
  ip_list : list (N * N);
  ip_maps : list gomap
}.

(** NewIPv4Filter: the array of maps starts as 32 nil maps *)
Definition init : state := mkSt false false 0 (repeat (0, 0) list_size) (repeat None 32).

(* ---- arrays and Go maps ---- *)

Fixpoint upd {A} (l : list A) (i : nat) (x : A) : list A :=
  match l, i with
  | [], _ => []
  | _ :: t, O => x :: t
  | h :: t, S k => h :: upd t k x
  end.

Fixpoint upd_f {A} (l : list A) (i : nat) (f : A -> A) : list A :=
  match l, i with
  | [], _ => []
  | h :: t, O => f h :: t
  | h :: t, S k => h :: upd_f t k f
  end.

(** a[i] = x with the bounds check *)
Definition upd_p {A} (l : list A) (i : nat) (x : A) : option (list A) :=
  if (i <? length l)%nat then Some (upd l i x) else None.

Definition set_mem (x : N) (m : list N) : bool := existsb (N.eqb x) m.
Definition set_add (x : N) (m : list N) : list N := if set_mem x m then m else x :: m.
Definition set_del (x : N) (m : list N) : list N := filter (fun y => negb (y =? x)) m.

Definition gm_elems (m : gomap) : list N := match m with Some l => l | None => [] end.
(** m[x] : reading a nil map gives the zero value *)
Definition gm_mem (x : N) (m : gomap) : bool := set_mem x (gm_elems m).
(** m[x] = true : assignment to an entry of a nil map panics *)
Definition gm_add (x : N) (m : gomap) : option gomap :=
  match m with Some l => Some (Some (set_add x l)) | None => None end.
(** delete(m, x) : a no-op on a nil map *)
Definition gm_del (x : N) (m : gomap) : gomap :=
  match m with Some l => Some (set_del x l) | None => None end.

(** f.ipMaps[i][a] = true *)
Definition maps_insert (maps : list gomap) (i : nat) (a : N) : option (list gomap) :=
  match nth_error maps i with
  | None => None
  | Some m => match gm_add a m with
              | None => None
              | Some m' => Some (upd maps i m')
              end
  end.
(** delete(f.ipMaps[i], a) *)
Definition maps_delete (maps : list gomap) (i : nat) (a : N) : option (list gomap) :=
  match nth_error maps i with
  | None => None
  | Some m => Some (upd maps i (gm_del a m))
  end.

(** for i := 0; i < len(f.ipMaps); i++ { f.ipMaps[i] = make(map[uint32]bool) } *)
Definition made_maps (maps : list gomap) : list gomap := map (fun _ => Some []) maps.

(** the slots the loops [for i := 0; i < f.index; i++ { ... f.ipList[i] ... }] visit *)
Definition slots_upto (s : state) : option (list (N * N)) :=
  if (index s <=? length (ip_list s))%nat then Some (firstn (index s) (ip_list s)) else None.

(** the migration loop of Add: for i < index, if ipList[i][1] > 0 then
    ipMaps[ipList[i][1]-1][ipList[i][0]] = true *)
Definition migrate_slot (maps : list gomap) (sl : N * N) : option (list gomap) :=
  if 0 <? snd sl then maps_insert maps (N.to_nat (snd sl - 1)) (fst sl) else Some maps.
Fixpoint migrate (slots : list (N * N)) (maps : list gomap) : option (list gomap) :=
  match slots with
  | [] => Some maps
  | sl :: r => match migrate_slot maps sl with
               | None => None
               | Some maps' => migrate r maps'
               end
  end.

Definition set_match_all (s : state) (b : bool) : state :=
  mkSt b (mode_maps s) (index s) (ip_list s) (ip_maps s).

(* ---- argument validation shared by Add and Remove ----
   ones, bits := cidr.Mask.Size()
   if bits != 32 || ones > 32 || len(cidr.IP) != net.IPv4len { return ErrInvalidIPv4CIDR } *)
Definition invalid_arg (c : cidr) : bool :=
  let '(ones, bits) := mask_size (c_mask c) in
  negb (bits =? 32) || (32 <? ones) || negb (length (c_ip c) =? 4)%nat.
Definition arg_ones (c : cidr) : N := fst (mask_size (c_mask c)).
(** nip := binary.BigEndian.Uint32(cidr.IP) *)
Definition arg_nip (c : cidr) : option N := be32_p (c_ip c).

(* ---- Add: the section between mutex.Lock() and Unlock() ---- *)
Definition add_locked (s : state) (nip ones : N) : option state :=
  match mask_at ones with
  | None => None
  | Some m =>
    let e := N.land nip m in
    let k := N.to_nat (ones - 1) in
    if mode_maps s then
      match maps_insert (ip_maps s) k e with
      | None => None
      | Some mp => Some (mkSt (match_all s) true (index s) (ip_list s) mp)
      end
    else if (index s <? list_size)%nat then
      match upd_p (ip_list s) (index s) (e, ones) with
      | None => None
      | Some l => Some (mkSt (match_all s) false (S (index s)) l (ip_maps s))
      end
    else
      match slots_upto s with
      | None => None
      | Some slots =>
        match migrate slots (made_maps (ip_maps s)) with
        | None => None
        | Some m1 =>
          match maps_insert m1 k e with
          | None => None
          | Some mp => Some (mkSt (match_all s) true (index s) (ip_list s) mp)
          end
        end
      end
  end.

(* ---- Remove: the section between mutex.Lock() and Unlock() ---- *)
Definition zero_if (e ones : N) (sl : N * N) : N * N :=
  if (ones =? snd sl) && (e =? fst sl) then (0, 0) else sl.

Definition remove_locked (s : state) (nip ones : N) : option state :=
  match mask_at ones with
  | None => None
  | Some m =>
    let e := N.land nip m in
    let k := N.to_nat (ones - 1) in
    if mode_maps s then
      match maps_delete (ip_maps s) k e with
      | None => None
      | Some mp => Some (mkSt (match_all s) true (index s) (ip_list s) mp)
      end
    else
      match slots_upto s with
      | None => None
      | Some slots =>
        Some (mkSt (match_all s) false (index s)
                   (map (zero_if e ones) slots ++ skipn (index s) (ip_list s)) (ip_maps s))
      end
  end.

Inductive result := ROk | RErrInvalid.

Definition add (s : state) (c : cidr) : option (state * result) :=
  if invalid_arg c then Some (s, RErrInvalid)
  else if arg_ones c =? 0 then Some (set_match_all s true, ROk)
  else match arg_nip c with
       | None => None
       | Some nip => match add_locked s nip (arg_ones c) with
                     | None => None
                     | Some s' => Some (s', ROk)
                     end
       end.

Definition remove (s : state) (c : cidr) : option (state * result) :=
  if invalid_arg c then Some (s, RErrInvalid)
  else if arg_ones c =? 0 then Some (set_match_all s false, ROk)
  else match arg_nip c with
       | None => None
       | Some nip => match remove_locked s nip (arg_ones c) with
                     | None => None
                     | Some s' => Some (s', ROk)
                     end
       end.

(* ---- Contains: the section between mutex.RLock() and RUnlock() ---- *)

(** for i < index: if ipList[i][1] > 0 && nip&ipv4Masks[ipList[i][1]-1] == ipList[i][0] { return true } *)
Fixpoint scan_list (nip : N) (slots : list (N * N)) : option bool :=
  match slots with
  | [] => Some false
  | sl :: r =>
      if 0 <? snd sl then
        match mask_at (snd sl) with
        | None => None
        | Some m => if N.land nip m =? fst sl then Some true else scan_list nip r
        end
      else scan_list nip r
  end.

(** for i := 0; i < 32; i++ { if f.ipMaps[i][nip&ipv4Masks[i]] { return true } } *)
Fixpoint scan_maps (nip : N) (maps : list gomap) (is : list nat) : option bool :=
  match is with
  | [] => Some false
  | i :: r =>
      match nth_error ipv4_masks i, nth_error maps i with
      | Some m, Some mp => if gm_mem (N.land nip m) mp then Some true else scan_maps nip maps r
      | _, _ => None
      end
  end.

Definition scan (s : state) (nip : N) : option bool :=
  if mode_maps s then scan_maps nip (ip_maps s) (seq 0 32)
  else match slots_upto s with
       | None => None
       | Some slots => scan_list nip slots
       end.

Definition contains (s : state) (ip : list N) : option bool :=
  if match_all s then Some true
  else match to4 ip with
       | None => Some false
       | Some ip4 => match be32_p ip4 with
                     | None => None
                     | Some nip => scan s nip
                     end
       end.

(* ---- Contains at the pinned commit 8f4ffe7, before fix 6ec3904: [len(ip) != net.IPv4len] instead of
   To4, so the 16-byte form of an IPv4 address was never found.  Kept only for the refutation
   C11_pinned_refuted; nothing else uses it. ---- *)
Definition contains_pinned (s : state) (ip : list N) : option bool :=
  if match_all s then Some true
  else if negb (length ip =? 4)%nat then Some false
  else match be32_p ip with
       | None => None
       | Some nip => scan s nip
       end.

(* ---- histories ---- *)
From Glb Require Import Lib.CidrSet.

Definition apply (s : state) (o : op) : option (state * result) :=
  match o with Add c => add s c | Remove c => remove s c end.

(** [None]: some call of the history panicked *)
Fixpoint run_from (s : state) (ops : list op) : option state :=
  match ops with
  | [] => Some s
  | o :: r => match apply s o with
              | None => None
              | Some (s', _) => run_from s' r
              end
  end.
Definition run (ops : list op) : option state := run_from init ops.
