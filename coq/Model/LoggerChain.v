(** Model of handler derivation in /repo/logger: clone(), WithAttrs, WithGroup and the use Handle
    makes of [preformatted], for JsonHandler, TextHandler and NanoHandler at once (C03).

    What is modelled exactly: the backing-array aliasing of [preformatted] (Lib/GoSlice) and who
    writes which handler's fields.  What is a PARAMETER: the bytes.  The pure part of a handler
    ([C]: JSON nOpenGroups+addSep, Text groupPrefix, Nano nothing), the rendering of attributes and
    group openers into a SEQUENCE of appended chunks (one [append] call each), the header and the
    closing bytes are Section variables - the theorems hold for every rendering (byte-level
    formatting is C01/C13's subject).

    The source discipline is a parameter too ([flags], filled in from the source by
    gen/loggerfacts): [clips] = clone() wraps preformatted in slices.Clip; [fresh_only] =
    WithAttrs/WithGroup assign only to fields of the fresh clone (otherwise the assignments land in
    the receiver as well); [group_noop] = WithGroup returns the receiver (NanoHandler).
    No proofs here. *)
From Coq Require Import List NArith Arith Bool.
Import ListNotations.
From Glb Require Import Lib.GoSlice.

Record flags := mkFlags { clips : bool; fresh_only : bool; group_noop : bool }.

Section Chain.
  Variables C A G M : Type.      (* handler context, attribute, group name, record header data *)
  Variable render_attrs : C -> list A -> list (list N) * C.
  Variable render_group : C -> G -> list (list N) * C.
  Variable header : M -> list N.
  Variable closer : C -> list N.
  Variable ctx0 : C.

  Record handler := mkHandler { pre : slice; ctx : C }.
  Inductive deriv := DAttrs (l : list A) | DGroup (g : G).
  Definition chain := list deriv.
  Record record := mkRecord { rmeta : M; rattrs : list A }.

  (** NewXxxHandler: preformatted is nil *)
  Definition root : handler := mkHandler nil_slice ctx0.

  (** func (h) clone() *)
  Definition clone (f : flags) (h : handler) : handler :=
    mkHandler (if clips f then clip (pre h) else pre h) (ctx h).

  (** func (h) WithAttrs(attrs): the receiver itself when attrs is empty *)
  Definition with_attrs (f : flags) (grow : growth) (H : heap) (h : handler) (l : list A) : heap * handler :=
    match l with
    | [] => (H, h)
    | _ =>
        let h2 := clone f h in
        let (chunks, c') := render_attrs (ctx h2) l in
        let (H', s') := append_all grow H (pre h2) chunks in
        (H', mkHandler s' c')
    end.

  (** func (h) WithGroup(name) *)
  Definition with_group (f : flags) (grow : growth) (H : heap) (h : handler) (g : G) : heap * handler :=
    if group_noop f then (H, h)
    else
      let h2 := clone f h in
      let (chunks, c') := render_group (ctx h2) g in
      let (H', s') := append_all grow H (pre h2) chunks in
      (H', mkHandler s' c').

  Definition derive (f : flags) (grow : growth) (H : heap) (h : handler) (d : deriv) : heap * handler :=
    match d with
    | DAttrs l => with_attrs f grow H h l
    | DGroup g => with_group f grow H h g
    end.

  (** the record's own attributes, rendered in the handler's context (nothing when there are none) *)
  Definition rec_bytes (c : C) (l : list A) : list N :=
    match l with [] => [] | _ => concat (fst (render_attrs c l)) end.

  (** the line Handle assembles *)
  Definition line_bytes (prebytes : list N) (c : C) (r : record) : list N :=
    header (rmeta r) ++ prebytes ++ rec_bytes c (rattrs r) ++ closer c.
  Definition line (H : heap) (h : handler) (r : record) : list N :=
    line_bytes (read H (pre h)) (ctx h) r.

  (** *** A tree of loggers, used in any order *)
  Inductive op := Derive (parent : nat) (d : deriv) | Log (node : nat) (r : record).
  Record tstate := mkT { theap : heap; nodes : list handler; written : list (nat * list N) }.
  Definition tinit : tstate := mkT [] [root] [].
  Definition node_of (st : tstate) (n : nat) : handler := nth n (nodes st) root.

  Definition exec (f : flags) (grow : growth) (st : tstate) (o : op) : tstate :=
    match o with
    | Derive p d =>
        let (H', h') := derive f grow (theap st) (node_of st p) d in
        (* a derivation that assigns to the receiver's fields changes the parent as well *)
        let ns := if fresh_only f then nodes st else set_nth p h' (nodes st) in
        mkT H' (ns ++ [h']) (written st)
    | Log n r => mkT (theap st) (nodes st) (written st ++ [(n, line (theap st) (node_of st n) r)])
    end.
  Definition exec_all (f : flags) (grow : growth) (ops : list op) : tstate :=
    fold_left (exec f grow) ops tinit.

  (** the line node [n] writes after the whole sequence *)
  Definition line_in_tree (f : flags) (grow : growth) (ops : list op) (n : nat) (r : record) : list N :=
    let st := exec_all f grow ops in line (theap st) (node_of st n) r.

  (** the derivation chain of each node, read off the operation sequence alone *)
  Definition chains_step (cs : list chain) (o : op) : list chain :=
    match o with
    | Derive p d => cs ++ [nth p cs [] ++ [d]]
    | Log _ _ => cs
    end.
  Definition chains_of (ops : list op) : list chain := fold_left chains_step ops [[]].
  Definition chain_of (ops : list op) (n : nat) : chain := nth n (chains_of ops) [].

  (** a handler built alone: fresh heap, fresh root, just this chain *)
  Definition replay_step (f : flags) (grow : growth) (Hh : heap * handler) (d : deriv) : heap * handler :=
    derive f grow (fst Hh) (snd Hh) d.
  Definition replay (f : flags) (grow : growth) (c : chain) : heap * handler :=
    fold_left (replay_step f grow) c ([], root).
  Definition line_alone (f : flags) (grow : growth) (c : chain) (r : record) : list N :=
    let Hh := replay f grow c in line (fst Hh) (snd Hh) r.

  (** *** The specification: what a chain means, without any heap *)
  Definition pure_step (noop : bool) (bc : list N * C) (d : deriv) : list N * C :=
    match d with
    | DAttrs [] => bc
    | DAttrs l => let rc := render_attrs (snd bc) l in (fst bc ++ concat (fst rc), snd rc)
    | DGroup g => if noop then bc else let rc := render_group (snd bc) g in (fst bc ++ concat (fst rc), snd rc)
    end.
  Definition pure_chain (noop : bool) (c : chain) : list N * C := fold_left (pure_step noop) c ([], ctx0).
  Definition pure_line (noop : bool) (c : chain) (r : record) : list N :=
    let bc := pure_chain noop c in line_bytes (fst bc) (snd bc) r.

  (** attributes given to With, moved to the call site *)
  Definition prepend (l : list A) (r : record) : record := mkRecord (rmeta r) (l ++ rattrs r).

  (** "compositional" rendering: rendering a list in one go = rendering its parts one after the
      other, threading the context; and attributes do not change what closes the line. *)
  Definition compositional : Prop :=
    (forall c a b, a <> [] -> b <> [] ->
       concat (fst (render_attrs c (a ++ b)))
       = concat (fst (render_attrs c a)) ++ concat (fst (render_attrs (snd (render_attrs c a)) b)))
    /\ (forall c a, closer (snd (render_attrs c a)) = closer c).
End Chain.

Arguments mkHandler {C}.
Arguments pre {C}.
Arguments ctx {C}.
Arguments DAttrs {A G}.
Arguments DGroup {A G}.
Arguments mkRecord {A M}.
Arguments rmeta {A M}.
Arguments rattrs {A M}.
Arguments Derive {A G M}.
Arguments Log {A G M}.

(** *** Source facts -> model flags (filled in by gen/loggerfacts, one record per handler type) *)
Record chain_facts := mkChainFacts {
  cf_clone_clips : bool;          (* clone(): preformatted: slices.Clip(h.preformatted) *)
  cf_with_attrs_fresh : bool;     (* WithAttrs assigns/appends only to fields of the clone *)
  cf_with_group_fresh : bool;     (* WithGroup assigns/appends only to fields of the clone, or returns h *)
  cf_group_returns_receiver : bool; (* WithGroup is "return h" *)
  cf_logger_fresh : bool          (* Logger.With / WithGroup return the receiver or a new &Logger{…}, never assign through the receiver *)
}.
Definition chain_flags (x : chain_facts) : flags :=
  mkFlags (cf_clone_clips x) (cf_with_attrs_fresh x && cf_with_group_fresh x && cf_logger_fresh x) (cf_group_returns_receiver x).
Definition chain_discipline (x : chain_facts) : bool :=
  cf_clone_clips x && cf_with_attrs_fresh x && cf_with_group_fresh x && cf_logger_fresh x.

(** *** A concrete rendering for witnesses and for the correspondence check.
    Bytes are tokens: attribute (id, size) is one chunk [2*id+1; 0; …; 0] of [size] cells, a group
    opener is the chunk [2*id+2; 0 …] ("JSON-like", kind 0) or nothing but context ("Text-like",
    kind 1: the open groups show up behind the record's attributes); kind 2 ("Nano") has no groups. *)
Definition tok_attr (a : N * nat) : list N := (2 * fst a + 1)%N :: repeat 0%N (snd a - 1).
Definition tok_render_attrs (c : list N) (l : list (N * nat)) : list (list N) * list N := (map tok_attr l, c).
Definition tok_render_group (kind : nat) (c : list N) (g : N * nat) : list (list N) * list N :=
  match kind with
  | 0 => ([(2 * fst g + 2)%N :: repeat 0%N (snd g - 1)], c)
  | _ => ([], c ++ [(2 * fst g + 2)%N])
  end.
Definition tok_closer (c : list N) : list N := c.
Definition tok_header (m : unit) : list N := [].
