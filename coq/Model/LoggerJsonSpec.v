(** The SPECIFICATION side of C01: what the JSON object of one record must decode to
    ([expected]), and the boolean well-formedness predicates that say only what the
    standard-library oracles promise.  Independent of the printing functions of
    [Model/LoggerJson.v] (it uses that file's input types only). *)
From Coq Require Import List NArith ZArith Bool.
Import ListNotations.
From Glb Require Import Lib.Utf8 Lib.JsonDec Lib.Json Model.LoggerJson.
Open Scope N_scope.

(** meaning of a leaf value *)
Definition sem (v : value) : jval :=
  match v with
  | VStr s => JStr (sanitize s)
  | VInt z => JNum (to_dec_z z)
  | VUint n => JNum (to_dec n)
  | VBool b => if b then JTrue else JFalse
  | VDur z => JNum (to_dec_z z)
  | VTime t => JStr t
  | VRaw (ROk b) => match parse_exact b with Some j => j | None => JNull end
  | VRaw (RErr m) => JStr (sanitize m)
  | VErrStr s => JStr (sanitize s)
  | VAnsi s => JStr (sanitize s)
  | VGroup _ => JNull            (* groups are handled by [exp_attr] *)
  end.

(** members contributed by one attribute: an inline group (empty key) splices its members, a keyed
    group is one member holding an object — or nothing at all when the object would have no members
    (recursively: a group whose members all vanish vanishes too) —, a leaf is one member *)
Fixpoint exp_attr (k : list N) (v : value) {struct v} : list (list N * jval) :=
  match v with
  | VGroup l =>
    let ms := (fix go (l : list (list N * value)) : list (list N * jval) :=
                 match l with
                 | [] => []
                 | (k', v') :: t => exp_attr k' v' ++ go t
                 end) l in
    if is_empty k then ms
    else match ms with [] => [] | _ => [(sanitize k, JObj ms)] end      (* a keyed group without members is omitted *)
  | _ => [(sanitize k, sem v)]
  end.

Fixpoint exp_attrs (l : list (list N * value)) : list (list N * jval) :=
  match l with
  | [] => []
  | (k, v) :: t => exp_attr k v ++ exp_attrs t
  end.

(** With-attributes come first at their nesting level; every WithGroup opens one object that holds
    everything that follows (innermost last) and is rendered even when nothing follows *)
Fixpoint nest (chain : list deriv) (inner : list (list N * value)) : list (list N * jval) :=
  match chain with
  | [] => exp_attrs inner
  | DAttrs al :: c => exp_attrs al ++ nest c inner
  | DGroup g :: c => [(sanitize g, JObj (nest c inner))]
  end.

Definition expected (chain : list deriv) (r : record) : list (list N * jval) :=
  [(k_time, JStr (time_txt r)); (k_level, JStr (level_text (lvl r)))]
  ++ (match src r with
      | Some (file, line) => [(k_source, JObj [(k_file, JStr (sanitize (source_file file))); (k_line, JNum (to_dec_z line))])]
      | None => []
      end)
  ++ [(k_msg, JStr (sanitize (msg r)))]
  ++ nest chain (attrs r).

(** ** what the oracles promise *)
(** time.AppendFormat(RFC3339Nano): digits, '-', ':', '.', 'T', 'Z', '+' — we only need: printable ASCII without quote and backslash *)
Definition clean_byte (b : N) : bool := (32 <=? b) && (b <? 128) && negb (b =? 34) && negb (b =? 92).
Definition clean_text (t : list N) : bool := forallb clean_byte t.

Definition no_newline (s : list N) : bool := forallb (fun b => negb (b =? 10)) s.

(** encoding/json's encoder output (minus its final newline): exactly one JSON value, no newline inside.
    Nothing is demanded about UTF-8: encoding/json copies a Marshaler's bytes unchecked, and the parser
    reads an invalid byte inside a string as U+FFFD, exactly what the property promises. *)
Definition wf_raw (r : raw) : bool :=
  match r with
  | ROk b => match parse_exact b with Some _ => no_newline b | None => false end
  | RErr _ => true
  end.

Fixpoint wf_value (v : value) : bool :=
  match v with
  | VTime t => clean_text t
  | VRaw r => wf_raw r
  | VGroup l => (fix go (l : list (list N * value)) : bool :=
                   match l with [] => true | (_, v') :: t => wf_value v' && go t end) l
  | _ => true
  end.
Fixpoint wf_attrs (l : list (list N * value)) : bool :=
  match l with [] => true | (_, v) :: t => wf_value v && wf_attrs t end.

Definition wf_deriv (d : deriv) : bool :=
  match d with
  | DAttrs al => wf_attrs al
  | DGroup _ => true     (* nothing is needed: Logger.WithGroup with an empty name returns the logger unchanged and
                            never reaches the handler; the handler itself would open a group with an empty key *)
  end.
Definition wf_chain (c : list deriv) : bool := forallb wf_deriv c.

Definition wf_record (r : record) : bool := clean_text (time_txt r) && wf_attrs (attrs r).

(** ** the line is UTF-8
    The parser reads invalid UTF-8 inside strings leniently because encoding/json hands a careless Marshaler's bytes
    through.  glb's own writer must never be the source of such bytes: whenever every embedded encoding/json text is
    valid UTF-8, the whole line has to be. *)
Fixpoint uv (fuel : nat) (s : list N) : bool :=
  match fuel with
  | O => is_empty s
  | S f =>
    match s with
    | [] => true
    | b :: t =>
      if b <? 128 then uv f t
      else let d := decode s in if invalid d then false else uv f (skipn (snd d) s)
    end
  end.
Definition utf8_ok (s : list N) : bool := uv (length s) s.

Fixpoint raws_utf8_value (v : value) : bool :=
  match v with
  | VRaw (ROk b) => utf8_ok b
  | VGroup l => (fix go (l : list (list N * value)) : bool :=
                   match l with [] => true | (_, v') :: t => raws_utf8_value v' && go t end) l
  | _ => true
  end.
Fixpoint raws_utf8_attrs (l : list (list N * value)) : bool :=
  match l with [] => true | (_, v) :: t => raws_utf8_value v && raws_utf8_attrs t end.
Definition raws_utf8 (c : list deriv) (r : record) : bool :=
  forallb (fun d => match d with DAttrs al => raws_utf8_attrs al | DGroup _ => true end) c && raws_utf8_attrs (attrs r).
