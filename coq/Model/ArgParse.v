(** Model of FlagSet.argParse, config/config.go, statement by statement.
    Tokens are byte strings; Go's partial operations (s[i], s[i:], s[:i]) return [option],
    [None] = the Go code would panic; it surfaces as the result [Panic]. *)
From Coq Require Import List NArith Bool Arith.
Import ListNotations.
From Glb Require Import Lib.ArgGrammar.
Open Scope N_scope.

(** Go: s[i] *)
Definition idx (s : list N) (i : nat) : option N := nth_error s i.
(** Go: s[i:] *)
Definition slice_from (s : list N) (i : nat) : option (list N) :=
  if (i <=? length s)%nat then Some (skipn i s) else None.
(** Go: s[0:i] *)
Definition slice_to (s : list N) (i : nat) : option (list N) :=
  if (i <=? length s)%nat then Some (firstn i s) else None.

Inductive result :=
| Ok (asg : list (token * token)) (rest : list token)   (* assignments in order; f.args afterwards *)
| Err (e : err)
| Panic.

(** What one loop iteration decides by looking at f.args[0] alone. *)
Inductive tokclass :=
| TStop                                   (* return nil, f.args unchanged *)
| TTerminator                             (* "--": f.args = f.args[1:]; return nil *)
| TBad                                    (* bad flag syntax *)
| TFlag (name : token) (value : option token)   (* name, and the value when hasValue *)
| TPanic.

(** for i := 1; i < len(name); i++ { if name[i] == '=' { … break } }
    [Some (Some i)]: found at i; [Some None]: loop ran to the end; [None]: index panic.
    [fuel] bounds the number of iterations (len(name) suffices). *)
Fixpoint find_eq (name : token) (i fuel : nat) : option (option nat) :=
  match fuel with
  | O => Some None
  | S fuel' =>
      if (i <? length name)%nat then
        match idx name i with
        | None => None
        | Some c => if c =? 61 then Some (Some i) else find_eq name (S i) fuel'
        end
      else Some None
  end.

(** the part of the iteration after the dashes have been stripped *)
Definition split_flag (name : token) : tokclass :=
  (* if len(name) == 0 || name[0] == '-' || name[0] == '=' { return bad flag syntax } *)
  if (length name =? 0)%nat then TBad else
  match idx name 0 with
  | None => TPanic
  | Some c =>
      if (c =? 45) || (c =? 61) then TBad else
      (* hasValue := false; argValue := ""; for i := 1; … *)
      match find_eq name 1 (length name) with
      | None => TPanic
      | Some None => TFlag name None
      | Some (Some i) =>
          (* argValue = name[i+1:]; name = name[0:i]; hasValue = true *)
          match slice_from name (i + 1), slice_to name i with
          | Some v, Some n => TFlag n (Some v)
          | _, _ => TPanic
          end
      end
  end.

Definition classify (arg0 : token) : tokclass :=
  let name := arg0 in
  (* if len(name) < 2 || name[0] != '-' { return nil } *)
  if (length name <? 2)%nat then TStop else
  match idx name 0 with
  | None => TPanic
  | Some c0 =>
      if negb (c0 =? 45) then TStop else
      (* name = name[1:] *)
      match slice_from name 1 with
      | None => TPanic
      | Some name =>
          (* if name[0] == '-' { *)
          match idx name 0 with
          | None => TPanic
          | Some c1 =>
              if c1 =? 45 then
                (* if len(name) == 1 { f.args = f.args[1:]; return nil } *)
                if (length name =? 1)%nat then TTerminator else
                (* name = name[1:] *)
                match slice_from name 1 with
                | None => TPanic
                | Some name => split_flag name
                end
              else split_flag name
          end
      end
  end.

Definition cons_asg (a : token * token) (r : result) : result :=
  match r with
  | Ok asg rest => Ok (a :: asg) rest
  | e => e
  end.

(** for len(f.args) > 0 { … } ; the result lists the assignments [flg.ArgValue = &argValue]
    in execution order and the final f.args. *)
Fixpoint arg_parse (tbl : flagtable) (args : list token) : result :=
  match args with
  | [] => Ok [] []
  | arg0 :: args1 =>
      match classify arg0 with
      | TStop => Ok [] args
      | TTerminator => Ok [] args1
      | TBad => Err (BadSyntax arg0)
      | TPanic => Panic
      | TFlag name ov =>
          (* f.args = f.args[1:] … flg, ok := f.flagMap[name] *)
          match lookup tbl name with
          | None => Err (NotDefined name)
          | Some is_bool =>
              match ov with
              | Some v => cons_asg (name, v) (arg_parse tbl args1)
              | None =>
                  (* if fv, ok := flg.Value.(boolFlag); ok && fv.IsBoolFlag() { argValue = "true" } *)
                  if is_bool then cons_asg (name, true_text) (arg_parse tbl args1)
                  else
                    (* else if len(f.args) > 0 { argValue, f.args = f.args[0], f.args[1:] } else needs an argument *)
                    match args1 with
                    | v :: args2 => cons_asg (name, v) (arg_parse tbl args2)
                    | [] => Err (NeedsArg name)
                    end
              end
          end
      end
  end.
