(** TaskLane LTS: model of /repo/tasklane/tasklane.go (startQueue, startWorker, PushTask, Status, New)
    for any laneSize, any queueSize (including 0), any number of producers and Status() observers.
    Interface fixed in docs/TASKLANE.md. No proofs here.

    Conventions
    - every label is one atomic action of one goroutine (or one rendezvous of two on an unbuffered channel);
    - all logs ([accepted], [started], [finished], [panics], [pushed], [failed], [snaps]) are
      most-recent-first (new entries are consed);
    - task ids are unique per history: [PushBegin p i t] is disabled when [t] was pushed before
      (field [pushed]); the harness chooses fresh ids, so this is a naming convention, not a restriction
      of behaviour;
    - [PushBegin p i t] with the context live and [i] out of range is disabled (the Go code panics with
      an index error there; not modelled, the harness never does it);
    - a [select] with several ready cases may take any of them; [default] branches (QTryFail, WTryFail)
      are always enabled (deliberately permissive). *)
From Coq Require Import List Arith Bool Lia.
Import ListNotations.

Definition task := nat.
Definition pv := nat.

Inductive qpc :=
| QWait                 (* at the first select: <-Done / <-buffered[i] *)
| QTook (t:task)        (* received t, before blockingTaskCnt.Add(1) *)
| QHeld (t:task)        (* counted, before the select { <-Done / default } *)
| QTry (t:task)         (* at the non-blocking send to blocking[i] *)
| QOffer (t:task)       (* parked in the blocking select: <-Done / blocking[i]<- / universal<- *)
| QSent                 (* handed over, before blockingTaskCnt.Add(-1) *)
| QDead (o: option task)(* returned; Some t = returned while holding t (t is dropped, stays counted) *).
Inductive wpc :=
| WTop                  (* at the loop top select { <-Done / default } *)
| WTry                  (* at the non-blocking receive from blocking[j] *)
| WBlock                (* parked in the blocking select: <-Done / <-blocking[j] / <-universal *)
| WRun (t:task)         (* inside task.Start() (receive and Start() are one step) *)
| WDead.
Record lane := mkLane { buf : list task; q : qpc; w : wpc }.

Inductive result := ROk | RCtxErr | RTimeout.
Inductive pstate := Idle | Pending (i:nat) (t:task) | Done (t:task) (r:result).
(* observer: OLen k a = lanes 0..k-1 read, sum a; OPanic a = counter read too, sum a *)
Inductive ostate := OIdle | OLen (k a:nat) | OPanic (a:nat).

Record state := mkSt {
  lanes : list lane; cancelled : bool; cnt : nat;
  accepted : list task; started : list task; finished : list task;
  last_panic : option pv; panics : list pv;
  prods : list (nat * pstate);
  obs : list (nat * ostate);
  pushed : list task;                       (* every task id a PushTask call was begun with *)
  failed : list task;                       (* tasks whose PushTask returned an error *)
  snaps : list (nat * nat * option pv)      (* completed Status() calls: (observer, PendingTask, LastPanic) *)
}.

Inductive label :=
| PushBegin (p i:nat) (t:task) | PushOk (p:nat) | PushCtxErr (p:nat) | PushTimeout (p:nat)
| Cancel
| QTake (i:nat) | QDie (i:nat) | QCount (i:nat) | QCheck (i:nat)
| QTryOwn (i:nat) | QTryFail (i:nat) | QOfferOwn (i:nat) | QOfferUni (i j:nat) | QDecr (i:nat)
| WCheck (j:nat) | WTryFail (j:nat) | WDie (j:nat) | WEnd (j:nat) (r:option pv)
| StatusBegin (o:nat) | StatusReadLen (o i:nat) | StatusReadCnt (o:nat) | StatusReadPanic (o:nat).

Definition internal (l : label) : bool :=
  match l with
  | QTake _ | QDie _ | QCount _ | QCheck _ | QTryOwn _ | QTryFail _ | QOfferOwn _ | QOfferUni _ _ | QDecr _
  | WCheck _ | WTryFail _ | WDie _ => true
  | _ => false
  end.

Fixpoint upd {A} (l : list A) (i : nat) (x : A) : list A :=
  match l, i with
  | [], _ => []
  | _ :: t, O => x :: t
  | h :: t, S k => h :: upd t k x
  end.

(* association lists keyed by producer / observer id *)
Fixpoint aget {A} (d : A) (l : list (nat * A)) (k : nat) : A :=
  match l with
  | [] => d
  | kv :: r => if Nat.eqb k (fst kv) then snd kv else aget d r k
  end.
Fixpoint aset {A} (l : list (nat * A)) (k : nat) (v : A) : list (nat * A) :=
  match l with
  | [] => [(k, v)]
  | kv :: r => if Nat.eqb k (fst kv) then (k, v) :: r else kv :: aset r k v
  end.

Definition setl (s : state) (i : nat) (ln : lane) : state :=
  mkSt (upd (lanes s) i ln) (cancelled s) (cnt s) (accepted s) (started s) (finished s)
       (last_panic s) (panics s) (prods s) (obs s) (pushed s) (failed s) (snaps s).
Definition set_cancelled (s : state) (c : bool) : state :=
  mkSt (lanes s) c (cnt s) (accepted s) (started s) (finished s)
       (last_panic s) (panics s) (prods s) (obs s) (pushed s) (failed s) (snaps s).
Definition set_cnt (s : state) (n : nat) : state :=
  mkSt (lanes s) (cancelled s) n (accepted s) (started s) (finished s)
       (last_panic s) (panics s) (prods s) (obs s) (pushed s) (failed s) (snaps s).
Definition set_accepted (s : state) (x : list task) : state :=
  mkSt (lanes s) (cancelled s) (cnt s) x (started s) (finished s)
       (last_panic s) (panics s) (prods s) (obs s) (pushed s) (failed s) (snaps s).
Definition set_started (s : state) (x : list task) : state :=
  mkSt (lanes s) (cancelled s) (cnt s) (accepted s) x (finished s)
       (last_panic s) (panics s) (prods s) (obs s) (pushed s) (failed s) (snaps s).
Definition set_finished (s : state) (x : list task) : state :=
  mkSt (lanes s) (cancelled s) (cnt s) (accepted s) (started s) x
       (last_panic s) (panics s) (prods s) (obs s) (pushed s) (failed s) (snaps s).
Definition set_panic (s : state) (v : pv) : state :=
  mkSt (lanes s) (cancelled s) (cnt s) (accepted s) (started s) (finished s)
       (Some v) (v :: panics s) (prods s) (obs s) (pushed s) (failed s) (snaps s).
Definition set_prods (s : state) (x : list (nat * pstate)) : state :=
  mkSt (lanes s) (cancelled s) (cnt s) (accepted s) (started s) (finished s)
       (last_panic s) (panics s) x (obs s) (pushed s) (failed s) (snaps s).
Definition set_obs (s : state) (x : list (nat * ostate)) : state :=
  mkSt (lanes s) (cancelled s) (cnt s) (accepted s) (started s) (finished s)
       (last_panic s) (panics s) (prods s) x (pushed s) (failed s) (snaps s).
Definition set_pushed (s : state) (x : list task) : state :=
  mkSt (lanes s) (cancelled s) (cnt s) (accepted s) (started s) (finished s)
       (last_panic s) (panics s) (prods s) (obs s) x (failed s) (snaps s).
Definition set_failed (s : state) (x : list task) : state :=
  mkSt (lanes s) (cancelled s) (cnt s) (accepted s) (started s) (finished s)
       (last_panic s) (panics s) (prods s) (obs s) (pushed s) x (snaps s).
Definition set_snaps (s : state) (x : list (nat * nat * option pv)) : state :=
  mkSt (lanes s) (cancelled s) (cnt s) (accepted s) (started s) (finished s)
       (last_panic s) (panics s) (prods s) (obs s) (pushed s) (failed s) x.

Definition pstate_of (s : state) (p : nat) : pstate := aget Idle (prods s) p.
Definition ostate_of (s : state) (o : nat) : ostate := aget OIdle (obs s) o.
Definition is_pending (x : pstate) : bool := match x with Pending _ _ => true | _ => false end.

Definition receptive_own (x : wpc) := match x with WTry | WBlock => true | _ => false end.
Definition receptive_uni (x : wpc) := match x with WBlock => true | _ => false end.

Section Step.
Variable qsize : nat.

(* hand task t from queue of lane i (moving it to QSent) to worker of lane j *)
Definition handover (s : state) (i j : nat) (t : task) : option state :=
  match nth_error (lanes s) i with
  | Some li =>
    let s1 := setl s i (mkLane (buf li) QSent (w li)) in
    match nth_error (lanes s1) j with
    | Some lj => let s2 := setl s1 j (mkLane (buf lj) (q lj) (WRun t)) in
        Some (set_started s2 (t :: started s2))
    | None => None
    end
  | None => None
  end.

(* the channel send of PushTask on lane li: an enqueue when queueSize >= 1 (needs room), a rendezvous
   with the queue goroutine waiting at its first select when queueSize = 0 *)
Definition push_lane (li : lane) (t : task) : option lane :=
  if qsize =? 0 then
    match q li with
    | QWait => Some (mkLane (buf li) (QTook t) (w li))
    | _ => None
    end
  else if length (buf li) <? qsize then Some (mkLane (buf li ++ [t]) (q li) (w li))
  else None.

Definition step (s : state) (l : label) : option state :=
  match l with
  | PushBegin p i t =>
    if is_pending (pstate_of s p) then None
    else if existsb (Nat.eqb t) (pushed s) then None
    else if cancelled s then
      Some (set_failed (set_pushed (set_prods s (aset (prods s) p (Done t RCtxErr))) (t :: pushed s)) (t :: failed s))
    else if i <? length (lanes s) then
      Some (set_pushed (set_prods s (aset (prods s) p (Pending i t))) (t :: pushed s))
    else None
  | PushOk p =>
    match pstate_of s p with
    | Pending i t =>
      match nth_error (lanes s) i with
      | Some li =>
        match push_lane li t with
        | Some li' =>
          Some (set_prods (set_accepted (setl s i li') (t :: accepted s)) (aset (prods s) p (Done t ROk)))
        | None => None
        end
      | None => None
      end
    | _ => None
    end
  | PushCtxErr p =>
    match pstate_of s p with
    | Pending i t =>
      if cancelled s then Some (set_failed (set_prods s (aset (prods s) p (Done t RCtxErr))) (t :: failed s))
      else None
    | _ => None
    end
  | PushTimeout p =>
    match pstate_of s p with
    | Pending i t => Some (set_failed (set_prods s (aset (prods s) p (Done t RTimeout))) (t :: failed s))
    | _ => None
    end
  | Cancel => if cancelled s then None else Some (set_cancelled s true)
  | QTake i =>
    match nth_error (lanes s) i with
    | Some (mkLane (t :: b) QWait wi) => Some (setl s i (mkLane b (QTook t) wi))
    | _ => None end
  | QDie i =>
    if cancelled s then
      match nth_error (lanes s) i with
      | Some (mkLane b QWait wi) => Some (setl s i (mkLane b (QDead None) wi))
      | Some (mkLane b (QOffer t) wi) => Some (setl s i (mkLane b (QDead (Some t)) wi))
      | _ => None end
    else None
  | QCount i =>
    match nth_error (lanes s) i with
    | Some (mkLane b (QTook t) wi) =>
        let s1 := setl s i (mkLane b (QHeld t) wi) in Some (set_cnt s1 (S (cnt s1)))
    | _ => None end
  | QCheck i =>
    match nth_error (lanes s) i with
    | Some (mkLane b (QHeld t) wi) =>
        Some (setl s i (mkLane b (if cancelled s then QDead (Some t) else QTry t) wi))
    | _ => None end
  | QTryOwn i =>
    match nth_error (lanes s) i with
    | Some (mkLane b (QTry t) wi) => if receptive_own wi then handover s i i t else None
    | _ => None end
  | QTryFail i =>
    match nth_error (lanes s) i with
    | Some (mkLane b (QTry t) wi) => Some (setl s i (mkLane b (QOffer t) wi))
    | _ => None end
  | QOfferOwn i =>
    match nth_error (lanes s) i with
    | Some (mkLane b (QOffer t) wi) => if receptive_own wi then handover s i i t else None
    | _ => None end
  | QOfferUni i j =>
    match nth_error (lanes s) i with
    | Some (mkLane b (QOffer t) wi) =>
        match nth_error (lanes s) j with
        | Some lj => if receptive_uni (w lj) then handover s i j t else None
        | None => None end
    | _ => None end
  | QDecr i =>
    match nth_error (lanes s) i with
    | Some (mkLane b QSent wi) =>
        let s1 := setl s i (mkLane b QWait wi) in Some (set_cnt s1 (pred (cnt s1)))
    | _ => None end
  | WCheck j =>
    match nth_error (lanes s) j with
    | Some (mkLane b qj WTop) => Some (setl s j (mkLane b qj (if cancelled s then WDead else WTry)))
    | _ => None end
  | WTryFail j =>
    match nth_error (lanes s) j with
    | Some (mkLane b qj WTry) => Some (setl s j (mkLane b qj WBlock))
    | _ => None end
  | WDie j =>
    if cancelled s then
      match nth_error (lanes s) j with
      | Some (mkLane b qj WBlock) => Some (setl s j (mkLane b qj WDead))
      | _ => None end
    else None
  | WEnd j r =>
    match nth_error (lanes s) j with
    | Some (mkLane b qj (WRun t)) =>
        let s1 := setl s j (mkLane b qj WTop) in
        let s2 := set_finished s1 (t :: finished s1) in
        Some (match r with Some v => set_panic s2 v | None => s2 end)
    | _ => None end
  | StatusBegin o =>
    match ostate_of s o with
    | OIdle => Some (set_obs s (aset (obs s) o (OLen 0 0)))
    | _ => None
    end
  | StatusReadLen o i =>
    match ostate_of s o with
    | OLen k a =>
      if k =? i then
        match nth_error (lanes s) i with
        | Some li => Some (set_obs s (aset (obs s) o (OLen (S k) (a + length (buf li)))))
        | None => None
        end
      else None
    | _ => None
    end
  | StatusReadCnt o =>
    match ostate_of s o with
    | OLen k a =>
      if length (lanes s) <=? k then Some (set_obs s (aset (obs s) o (OPanic (a + cnt s)))) else None
    | _ => None
    end
  | StatusReadPanic o =>
    match ostate_of s o with
    | OPanic a => Some (set_snaps (set_obs s (aset (obs s) o OIdle)) ((o, a, last_panic s) :: snaps s))
    | _ => None
    end
  end.

Fixpoint run (s : state) (ls : list label) : option state :=
  match ls with
  | [] => Some s
  | l :: r => match step s l with Some s' => run s' r | None => None end
  end.
End Step.

Definition init (n : nat) : state :=
  mkSt (repeat (mkLane [] QWait WTop) n) false 0 [] [] [] None [] [] [] [] [] [].

(* ---------- observable projections ---------- *)
Definition result_of (s : state) (p : nat) : option result :=
  match pstate_of s p with Done _ r => Some r | _ => None end.
Definition snapshots (s : state) : list (nat * option pv) :=
  map (fun x => (snd (fst x), snd x)) (snaps s).
Definition wtask (x : wpc) : list task := match x with WRun t => [t] | _ => [] end.
Definition running (s : state) : list task := flat_map (fun l => wtask (w l)) (lanes s).
(* what Status().PendingTask would be if it were read atomically *)
Definition pending_of (s : state) : nat := list_sum (map (fun l => length (buf l)) (lanes s)) + cnt s.

(* ---------- measure ---------- *)
Definition qrank (x : qpc) := match x with QDead _ => 0 | QWait => 1 | QSent => 2 | QOffer _ => 6 | QTry _ => 7 | QHeld _ => 8 | QTook _ => 9 end.
Definition wrank (x : wpc) := match x with WDead => 0 | WBlock => 1 | WTry => 2 | WTop => 3 | WRun _ => 4 end.
Definition lrank (l : lane) := 9 * length (buf l) + qrank (q l) + wrank (w l).
Definition measure (s : state) := list_sum (map lrank (lanes s)) + (if cancelled s then 0 else 1).

(* ---------- predicates the theorems are stated with ---------- *)
Definition is_wend (l : label) : bool := match l with WEnd _ _ => true | _ => false end.
Definition is_cancel (l : label) : bool := match l with Cancel => true | _ => false end.
(* labels that need nothing from outside the lane: internal steps and task returns *)
Definition quiet (l : label) : bool := internal l || is_wend l.
(* no label of class P is enabled *)
Definition stuck (qs : nat) (P : label -> bool) (s : state) : Prop :=
  forall l, P l = true -> step qs s l = None.
Definition qalive (x : qpc) : bool := match x with QDead _ => false | _ => true end.
Definition walive (x : wpc) : bool := match x with WDead => false | _ => true end.
Definition lane_dead (l : lane) : Prop := qalive (q l) = false /\ walive (w l) = false.
(* all 2*laneSize goroutines have returned: Wait() returns *)
Definition all_dead (s : state) : Prop := Forall lane_dead (lanes s).
Definition all_workers_running (s : state) : bool :=
  forallb (fun l => match w l with WRun _ => true | _ => false end) (lanes s).
Definition idle_worker (x : wpc) : bool := match x with WTop | WTry | WBlock => true | _ => false end.
(* no queue goroutine is between receive and count (QTook) or between hand-over and decrement (QSent) *)
Definition at_rest (s : state) : bool :=
  forallb (fun l => match q l with QTook _ | QSent => false | _ => true end) (lanes s).
