(** SEED (spike): TaskLane LTS without panics / producers / status observers. To be extended per DESIGN.md section 4 (C06-C08, C14). *)
From Coq Require Import List Arith Bool Lia.
Import ListNotations.

Definition task := nat.
Inductive qpc := QWait | QTook (t:task) | QHeld (t:task) | QTry (t:task) | QOffer (t:task) | QSent | QDead (o: option task).
Inductive wpc := WTop | WTry | WBlock | WRun (t:task) | WDead.
Record lane := mkLane { buf : list task; q : qpc; w : wpc }.
Record state := mkSt { lanes : list lane; cancelled : bool; cnt : nat;
   accepted : list task; started : list task; finished : list task }.

Inductive label :=
| Push (i:nat) (t:task) | Cancel
| QTake (i:nat) | QDie (i:nat) | QCount (i:nat) | QCheck (i:nat)
| QTryOwn (i:nat) | QTryFail (i:nat) | QOfferOwn (i:nat) | QOfferUni (i j:nat) | QDecr (i:nat)
| WCheck (j:nat) | WTryFail (j:nat) | WDie (j:nat) | WEnd (j:nat).

Fixpoint upd {A} (l : list A) (i : nat) (x : A) : list A :=
  match l, i with
  | [], _ => []
  | _ :: t, O => x :: t
  | h :: t, S k => h :: upd t k x
  end.

Section Step.
Variable qsize : nat.

Definition setl (s : state) (i : nat) (ln : lane) : state :=
  mkSt (upd (lanes s) i ln) (cancelled s) (cnt s) (accepted s) (started s) (finished s).
Definition receptive_own (x : wpc) := match x with WTry | WBlock => true | _ => false end.
Definition receptive_uni (x : wpc) := match x with WBlock => true | _ => false end.

(* hand task t from queue of lane i (moving it to QSent) to worker of lane j *)
Definition handover (s : state) (i j : nat) (t : task) : option state :=
  match nth_error (lanes s) i with
  | Some li =>
    let s1 := setl s i (mkLane (buf li) QSent (w li)) in
    match nth_error (lanes s1) j with
    | Some lj => let s2 := setl s1 j (mkLane (buf lj) (q lj) (WRun t)) in
        Some (mkSt (lanes s2) (cancelled s2) (cnt s2) (accepted s2) (t :: started s2) (finished s2))
    | None => None
    end
  | None => None
  end.

Definition step (s : state) (l : label) : option state :=
  match l with
  | Push i t =>
    match nth_error (lanes s) i with
    | Some li => if (length (buf li) <? qsize) && negb (existsb (Nat.eqb t) (accepted s))
                 then let s1 := setl s i (mkLane (buf li ++ [t]) (q li) (w li)) in
                      Some (mkSt (lanes s1) (cancelled s1) (cnt s1) (t :: accepted s1) (started s1) (finished s1))
                 else None
    | None => None end
  | Cancel => if cancelled s then None else Some (mkSt (lanes s) true (cnt s) (accepted s) (started s) (finished s))
  | QTake i =>
    match nth_error (lanes s) i with
    | Some (mkLane (t :: b) QWait wi) => Some (setl s i (mkLane b (QTook t) wi))
    | _ => None end
  | QDie i =>
    if cancelled s then
      match nth_error (lanes s) i with
      | Some (mkLane b QWait wi) => Some (setl s i (mkLane b (QDead None) wi))
      | Some (mkLane b (QOffer t) wi) => Some (setl s i (mkLane b (QDead (Some t)) wi))
      | _ => None end
    else None
  | QCount i =>
    match nth_error (lanes s) i with
    | Some (mkLane b (QTook t) wi) =>
        let s1 := setl s i (mkLane b (QHeld t) wi) in
        Some (mkSt (lanes s1) (cancelled s1) (S (cnt s1)) (accepted s1) (started s1) (finished s1))
    | _ => None end
  | QCheck i =>
    match nth_error (lanes s) i with
    | Some (mkLane b (QHeld t) wi) =>
        Some (setl s i (mkLane b (if cancelled s then QDead (Some t) else QTry t) wi))
    | _ => None end
  | QTryOwn i =>
    match nth_error (lanes s) i with
    | Some (mkLane b (QTry t) wi) => if receptive_own wi then handover s i i t else None
    | _ => None end
  | QTryFail i =>
    match nth_error (lanes s) i with
    | Some (mkLane b (QTry t) wi) => Some (setl s i (mkLane b (QOffer t) wi))
    | _ => None end
  | QOfferOwn i =>
    match nth_error (lanes s) i with
    | Some (mkLane b (QOffer t) wi) => if receptive_own wi then handover s i i t else None
    | _ => None end
  | QOfferUni i j =>
    match nth_error (lanes s) i with
    | Some (mkLane b (QOffer t) wi) =>
        match nth_error (lanes s) j with
        | Some lj => if receptive_uni (w lj) then handover s i j t else None
        | None => None end
    | _ => None end
  | QDecr i =>
    match nth_error (lanes s) i with
    | Some (mkLane b QSent wi) =>
        let s1 := setl s i (mkLane b QWait wi) in
        Some (mkSt (lanes s1) (cancelled s1) (pred (cnt s1)) (accepted s1) (started s1) (finished s1))
    | _ => None end
  | WCheck j =>
    match nth_error (lanes s) j with
    | Some (mkLane b qj WTop) => Some (setl s j (mkLane b qj (if cancelled s then WDead else WTry)))
    | _ => None end
  | WTryFail j =>
    match nth_error (lanes s) j with
    | Some (mkLane b qj WTry) => Some (setl s j (mkLane b qj WBlock))
    | _ => None end
  | WDie j =>
    if cancelled s then
      match nth_error (lanes s) j with
      | Some (mkLane b qj WBlock) => Some (setl s j (mkLane b qj WDead))
      | _ => None end
    else None
  | WEnd j =>
    match nth_error (lanes s) j with
    | Some (mkLane b qj (WRun t)) =>
        let s1 := setl s j (mkLane b qj WTop) in
        Some (mkSt (lanes s1) (cancelled s1) (cnt s1) (accepted s1) (started s1) (t :: finished s1))
    | _ => None end
  end.
End Step.

Definition init (n : nat) : state :=
  mkSt (repeat (mkLane [] QWait WTop) n) false 0 [] [] [].

(* ---------- measure ---------- *)
Definition qrank (x : qpc) := match x with QDead _ => 0 | QWait => 1 | QSent => 2 | QOffer _ => 6 | QTry _ => 7 | QHeld _ => 8 | QTook _ => 9 end.
Definition wrank (x : wpc) := match x with WDead => 0 | WBlock => 1 | WTry => 2 | WTop => 3 | WRun _ => 4 end.
Definition lrank (l : lane) := 9 * length (buf l) + qrank (q l) + wrank (w l).
Definition measure (s : state) := list_sum (map lrank (lanes s)) + (if cancelled s then 0 else 1).

