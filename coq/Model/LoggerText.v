(** Model of logger/text_handler.go (colour off), function by function.  No proofs here.

    Abstract inputs.  A slog.Value is, after Resolve,
    - [VStr s]      : anything the handler renders through appendTextString - strings,
                      TextMarshaler results or their error text, AnsiString values,
                      error texts, []byte, fmt.Sprint texts ([s] is that text);
    - [VVerbatim s] : texts the handler appends raw - strconv ints/uints/floats/bools,
                      Duration.String(), RFC3339 times ([s] is the stdlib's text, an oracle);
    - [VGroup ms]   : a group of attributes.
    An attribute is a pair (key, value).

    Oracles (section variables): [isSpace], [isPrint] = unicode.IsSpace / unicode.IsPrint
    on runes >= 0x80 and [sp_print] = strconv.IsPrint on runes >= 0x80 (used inside
    strconv.AppendQuote). *)
From Coq Require Import List NArith Bool.
Import ListNotations.
From Glb Require Import Lib.Utf8 Lib.GoQuote Lib.TextTok.
Open Scope N_scope.

(** TextHandler.preformatted / groupPrefix *)
Record handler := mkHandler { preformatted : bytes; groupPrefix : bytes }.

(** json_handler.go safeSet (indices < 0x80): 0x20..0x7f except DQUOTE and '\\' *)
Definition safe_set (b : N) : bool := (32 <=? b) && negb (b =? 34) && negb (b =? 92).

Section Model.
  Variable isSpace : N -> bool.   (* unicode.IsSpace, runes >= 0x80 *)
  Variable isPrint : N -> bool.   (* unicode.IsPrint, runes >= 0x80 *)
  Variable sp_print : N -> bool.  (* strconv.IsPrint, runes >= 0x80 *)

  (** the scanning loop of appendTextString: does some byte / rune force quoting?
      fuel = length s suffices *)
  Fixpoint needs_quote_go (fuel : nat) (s : bytes) : bool :=
    match fuel with
    | O => false
    | S f =>
      match s with
      | [] => false
      | b :: t =>
        if b <? 128 then
          if negb (b =? 92) && ((b =? 32) || (b =? 61) || negb (safe_set b)) then true
          else needs_quote_go f t
        else
          let d := decode s in
          if (fst d =? RE) || isSpace (fst d) || negb (isPrint (fst d)) then true
          else needs_quote_go f (skipn (snd d) s)
      end
    end.

  Definition needs_quote (s : bytes) : bool := needs_quote_go (length s) s.

  (** what appendTextString appends for [s] *)
  Definition text_string (s : bytes) : bytes :=
    if is_empty s then [34; 34]
    else if needs_quote s then quote sp_print s
    else s.

  Definition append_text_string (buf s : bytes) : bytes := buf ++ text_string s.

  (** appendTextValue on a resolved non-group value *)
  Definition append_text_value (buf : bytes) (v : value) : bytes :=
    match v with
    | VStr s => append_text_string buf s
    | VVerbatim s => buf ++ s
    | VGroup _ => buf   (* not reached: groups are handled by appendTextAttr *)
    end.

  (** appendTextSource, transcribed as is.  The loop
        for idx = len(f.File) - 1; idx > 0; idx-- { if f.File[idx] == '/' { if first { break }; first = true } }
      leaves idx at the second-last '/', or at 0 when it runs out (index 0 is never looked at),
      or at -1 for the empty path; the text is f.File[idx+1:] + ":" + line.  [src_loop] returns idx
      for a non-empty path.  Oddity kept on purpose: a relative path with fewer than two '/'
      loses its first character ([source_cut "a/b.go" = "/b.go"], [source_cut "main.go" = "ain.go"]). *)
  Fixpoint src_loop (file : bytes) (idx : nat) (first : bool) : nat :=
    match idx with
    | O => O
    | S i =>
      if nth idx file 0 =? 47 then (if first then idx else src_loop file i true)
      else src_loop file i first
    end.
  Definition source_cut (file : bytes) : bytes :=
    match file with
    | [] => []
    | _ :: _ => skipn (S (src_loop file (length file - 1) false)) file
    end.
  Definition append_text_source (buf file line : bytes) : bytes :=
    append_text_string buf (source_cut file ++ 58 :: line).

  (** hypothesis of the theorem on the record's frame: on this path the Go loop yields the
      path's last two elements (true for every path with a leading '/' or at least two '/',
      and for the empty path of PC = 0; false exactly for the oddity above) *)
  Definition src_agrees (r : record) : bool :=
    match src r with
    | Some s => bytes_eqb (source_cut (fst s)) (last_two (fst s))
    | None => true
    end.

  Definition nonempty_len (n : nat) : bool := match n with O => false | S _ => true end.

  (** appendTextAttr(buf, Attr{key, v}, prefix): returns the buffer and the prefix
      buffer as the Go code leaves them. *)
  Fixpoint append_text_attr (buf prefix key : bytes) (v : value) {struct v} : bytes * bytes :=
    match v with
    | VGroup ms =>
      let ori := length prefix in
      (fix loop (ms : list (bytes * value)) (buf prefix : bytes) {struct ms} : bytes * bytes :=
         match ms with
         | [] => (buf, prefix)
         | (k, v') :: ms' =>
           let p0 := firstn ori prefix in                                   (* prefix is cut back to its first ori bytes *)
           let p1 := if nonempty_len ori && negb (is_empty key) then p0 ++ [46] else p0 in
           let p2 := if negb (is_empty key) then p1 ++ key else p1 in
           let r := append_text_attr buf p2 k v' in
           loop ms' (fst r) (snd r)
         end) ms buf prefix
    | _ =>
      let buf1 := buf ++ [32] in
      let r :=
        if negb (is_empty prefix) then
          let p := prefix ++ 46 :: key in (append_text_string buf1 p, p)
        else (append_text_string buf1 key, prefix) in
      (append_text_value (fst r ++ [61]) v, snd r)
    end.

  (** one iteration of the loops in Handle / WithAttrs: a fresh prefix buffer holding groupPrefix *)
  Definition append_attrs (buf gp : bytes) (l : list attr) : bytes :=
    fold_left (fun b (a : attr) => fst (append_text_attr b gp (fst a) (snd a))) l buf.

  Definition with_attrs (h : handler) (l : list attr) : handler :=
    match l with
    | [] => h
    | _ => mkHandler (append_attrs (preformatted h) (groupPrefix h) l) (groupPrefix h)
    end.

  Definition with_group (h : handler) (name : bytes) : handler :=
    if is_empty (groupPrefix h) then mkHandler (preformatted h) name
    else mkHandler (preformatted h) (groupPrefix h ++ 46 :: name).

  Definition new_handler : handler := mkHandler [] [].

  Definition derive_step (h : handler) (d : deriv) : handler :=
    match d with DAttrs l => with_attrs h l | DGroup n => with_group h n end.

  Definition derive (chain : list deriv) : handler := fold_left derive_step chain new_handler.


  (** TextHandler.Handle: the bytes of the single Write *)
  Definition handle (h : handler) (r : record) : bytes :=
    let b := k_time ++ [61] ++ time_txt r in
    let b := b ++ [32] ++ k_level ++ [61] ++ level_text (lvl r) in
    let b := match src r with
             | Some s => append_text_source (b ++ [32] ++ k_source ++ [61]) (fst s) (snd s)
             | None => b
             end in
    let b := append_text_string (b ++ [32] ++ k_msg ++ [61]) (msg r) in
    let b := b ++ preformatted h in
    let b := append_attrs b (groupPrefix h) (attrs r) in
    b ++ [10].
End Model.
