(** Model of /repo/logger/json_handler.go (colour off), function by function.

    Go appends to a [*[]byte]; here every function RETURNS the bytes it appends.
    Oracles (standard library, not glb): [time.AppendFormat(RFC3339Nano)] is the text
    [time_txt] / [VTime t]; [encoding/json]'s encoder is [VRaw (ROk text | RErr message)];
    [slog.Value.Resolve] is applied before the model sees a value (a LogValuer is its
    resolved value); [runtime.CallersFrames] gives [src].  No proofs in this file. *)
From Coq Require Import List NArith ZArith Bool.
Import ListNotations.
From Glb Require Import Lib.Utf8 Lib.JsonDec.
Open Scope N_scope.

(** ** appendJsonString *)
Definition hexd (n : N) : N := if n <? 10 then 48 + n else 87 + n.   (* "0123456789abcdef"[n] *)

(** safeSet: 0x20..0x7f except the double quote (34) and the backslash (92); 0x7f IS in the table *)
Definition safe (b : N) : bool := (32 <=? b) && (b <? 128) && negb (b =? 34) && negb (b =? 92).

(** the [b < utf8.RuneSelf] branch *)
Definition esc_ascii (b : N) : list N :=
  if safe b then [b]
  else if (b =? 92) || (b =? 34) then [92; b]
  else if b =? 10 then [92; 110]
  else if b =? 13 then [92; 114]
  else if b =? 9 then [92; 116]
  else [92; 117; 48; 48; hexd (b / 16); hexd (b mod 16)].

(** The Go loop keeps [start]/[i] indices and copies untouched spans in one go; copying
    byte by byte is the same function.  Fuel = length of the string (every iteration
    consumes at least one byte). *)
Fixpoint ajs (fuel : nat) (s : list N) : list N :=
  match fuel with
  | O => []
  | S f =>
    match s with
    | [] => []
    | b :: t =>
      if b <? 128 then esc_ascii b ++ ajs f t
      else
        let d := decode s in
        if invalid d then [92; 117; 102; 102; 102; 100] ++ ajs f t               (* \ufffd, i += 1: ONE byte *)
        else if (fst d =? 8232) || (fst d =? 8233)
             then [92; 117; 50; 48; 50; hexd (fst d mod 16)] ++ ajs f (skipn (snd d) s)   (* \u2028 / \u2029 *)
             else firstn (snd d) s ++ ajs f (skipn (snd d) s)
    end
  end.
Definition append_json_string (s : list N) : list N := ajs (length s) s.

(** ** values *)
Inductive raw := ROk (b : list N) | RErr (msg : list N).

Inductive value :=
| VStr (s : list N)
| VInt (z : Z)
| VUint (n : N)
| VBool (b : bool)
| VDur (z : Z)                  (* int64 nanoseconds *)
| VTime (t : list N)            (* oracle: AppendFormat(RFC3339Nano) *)
| VRaw (r : raw)                (* everything that goes through appendJsonMarshal *)
| VErrStr (s : list N)          (* error value: text of Error() (safeErrorString) *)
| VAnsi (s : list N)            (* AnsiString.Value, colour off *)
| VGroup (l : list (list N * value)).

Notation attr := (list N * value)%type (only parsing).

Definition quoted (s : list N) : list N := 34 :: append_json_string s ++ [34].

Definition append_json_marshal (r : raw) : list N :=
  match r with
  | ROk b => b                                  (* bs[:len(bs)-1] *)
  | RErr m => quoted m
  end.

(** appendJsonValue; never reached with a group (appendJsonAttr handles groups), where Go's switch appends nothing *)
Definition append_json_value (v : value) : list N :=
  match v with
  | VStr s => quoted s
  | VInt z => to_dec_z z
  | VUint n => to_dec n
  | VBool b => if b then [116; 114; 117; 101] else [102; 97; 108; 115; 101]
  | VDur z => to_dec_z z
  | VTime t => 34 :: t ++ [34]
  | VRaw r => append_json_marshal r
  | VErrStr s => quoted s
  | VAnsi s => quoted s
  | VGroup _ => []
  end.

Definition is_empty (s : list N) : bool := match s with [] => true | _ => false end.
Definition sepb (addsep : bool) : list N := if addsep then [44] else [].

(** appendJsonAttr: returns the appended bytes and the new addSep; a group without members appends nothing *)
Fixpoint append_json_attr (k : list N) (v : value) (addsep : bool) {struct v} : list N * bool :=
  match v with
  | VGroup l =>
    let members :=
      (fix go (l : list (list N * value)) (addsep : bool) {struct l} : list N * bool :=
         match l with
         | [] => ([], addsep)
         | (k', v') :: t =>
           let (o1, s1) := append_json_attr k' v' addsep in
           let (o2, s2) := go t s1 in (o1 ++ o2, s2)
         end) in
    if is_empty k then members l addsep
    else
      (* Go writes [,]"key":{ , renders the members threading hasMember, and truncates the buffer back to
         where it started when no member was written (a keyed group without members is omitted) *)
      let (o, has_member) := members l false in
      if has_member
      then (sepb addsep ++ [34] ++ append_json_string k ++ [34; 58; 123] ++ o ++ [125], true)
      else ([], addsep)
  | _ => (sepb addsep ++ [34] ++ append_json_string k ++ [34; 58] ++ append_json_value v, true)
  end.

(** the [for _, a := range attrs { addSep = appendJsonAttr(buf, a, addSep) }] loops *)
Fixpoint append_json_attrs (l : list (list N * value)) (addsep : bool) : list N * bool :=
  match l with
  | [] => ([], addsep)
  | (k, v) :: t =>
    let (o1, s1) := append_json_attr k v addsep in
    let (o2, s2) := append_json_attrs t s1 in (o1 ++ o2, s2)
  end.

(** ** handler state and derivations *)
Record handler := mkH { pre : list N; nopen : nat; addsep : bool }.

Definition new_handler : handler := mkH [] 0 true.

Definition with_attrs (h : handler) (al : list (list N * value)) : handler :=
  match al with
  | [] => h
  | _ => let (o, s) := append_json_attrs al (addsep h) in mkH (pre h ++ o) (nopen h) s
  end.

Definition with_group (h : handler) (name : list N) : handler :=
  mkH (pre h ++ (if addsep h then [44; 34] else [34]) ++ append_json_string name ++ [34; 58; 123])
      (S (nopen h)) false.

Inductive deriv := DAttrs (al : list (list N * value)) | DGroup (name : list N).

Definition derive_from (h : handler) (chain : list deriv) : handler :=
  fold_left (fun h d => match d with DAttrs al => with_attrs h al | DGroup g => with_group h g end) chain h.
Definition derive (chain : list deriv) : handler := derive_from new_handler chain.

(** ** Handle
    time and level are written raw between quotes (AppendFormat / labelList); the guards
    [len(h.preformatted) > 0] and [r.NumAttrs() > 0] only skip no-ops; the record is written with ONE
    [Write] (the harness checks that on the real code). *)
Inductive level := LDebug | LInfo | LWarn | LError | LFatal.
Definition level_text (l : level) : list N :=
  match l with
  | LDebug => [68; 69; 66; 85; 71]
  | LInfo => [73; 78; 70; 79]
  | LWarn => [87; 65; 82; 78]
  | LError => [69; 82; 82; 79; 82]
  | LFatal => [70; 65; 84; 65; 76]
  end.

Record record := mkR {
  time_txt : list N;                       (* oracle *)
  lvl : level;
  src : option (list N * Z);               (* Some (f.File as the runtime reports it, f.Line) iff addSource *)
  msg : list N;
  attrs : list (list N * value) }.

Definition k_time : list N := [116; 105; 109; 101].
Definition k_level : list N := [108; 101; 118; 101; 108].
Definition k_source : list N := [115; 111; 117; 114; 99; 101].
Definition k_msg : list N := [109; 115; 103].
Definition k_file : list N := [102; 105; 108; 101].
Definition k_line : list N := [108; 105; 110; 101].

(** appendJsonSource.  The Go loop

      idx, first := 0, false
      for idx = len(f.File) - 1; idx > 0; idx-- {
          if f.File[idx] == '/' { if first { break }; first = true }
      }
      ... f.File[idx+1:]

    walks from the last byte down to the byte at index 1 (index 0 is never examined) and stops at
    the second '/'.  [scan_back] is that loop on the reversed string: [rev_rest] = the bytes not
    yet examined (last one first), [seen] = the bytes already passed = f.File[idx+1:].
    Transcribed AS IS: when the loop runs out (fewer than two '/' at index >= 1) idx ends as 0
    and the result is f.File[1:] — the first byte is dropped whatever it is. *)
Fixpoint scan_back (rev_rest seen : list N) (first : bool) : list N :=
  match rev_rest with
  | [] => seen                                         (* empty file name: idx = -1, f.File[0:] *)
  | b :: r =>
    match r with
    | [] => seen                                       (* b is f.File[0]: the condition idx > 0 fails *)
    | _ => if b =? 47
           then (if first then seen else scan_back r (b :: seen) true)
           else scan_back r (b :: seen) first
    end
  end.
Definition source_file (file : list N) : list N := scan_back (rev file) [] false.

Definition append_json_source (file : list N) (line : Z) : list N :=
  [34] ++ k_file ++ [34; 58; 34] ++ append_json_string (source_file file) ++ [34; 44; 34] ++ k_line ++ [34; 58] ++ to_dec_z line.

Definition handle (h : handler) (r : record) : list N :=
  [123; 34] ++ k_time ++ [34; 58; 34] ++ time_txt r
  ++ [34; 44; 34] ++ k_level ++ [34; 58; 34] ++ level_text (lvl r) ++ [34]
  ++ (match src r with
      | Some (file, line) => [44; 34] ++ k_source ++ [34; 58; 123] ++ append_json_source file line ++ [125]
      | None => []
      end)
  ++ [44; 34] ++ k_msg ++ [34; 58; 34] ++ append_json_string (msg r) ++ [34]
  ++ pre h
  ++ fst (append_json_attrs (attrs r) (addsep h))
  ++ repeat 125 (nopen h)
  ++ [125; 10].
