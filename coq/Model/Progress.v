(** Model of util/ioutil ProgressWriter (progress.go) as a labelled transition system.

    Two goroutines:
    - the *writer* runs a script of [Write]/[WriteString] calls and then [Close];
    - the *consumer* receives from [Status()]: at each instant it is either away or
      blocked in a receive on the unbuffered channel ([waiting = true]).

    Go code mirrored, function by function:

      func (pw) Write(p)       { n, err = pw.wr.Write(p); pw.sum(n); return }      -- [Under], [WriteDone]
      func (pw) WriteString(s) { n, err = (StringWriter or Write)(s); pw.sum(n) }  -- same labels, [okind] only selects the path
      func (pw) sum(n)         { pw.size += n; select { case pw.status <- pw.size: default: } }
      func (pw) Close()        { pw.status <- pw.size; close(pw.status) }          -- [CloseSend], [CloseChan]

    The wrapped writer's behaviour is data of the script: call i is made with [olen]
    bytes, the wrapped writer reports [orep] bytes (possibly short, possibly more than
    [olen] for a misbehaving writer: nothing is assumed) and an error or not.

    [sum] is one atomic label [WriteDone i delivered]: [size] is private to the writer
    goroutine (Size() is unsynchronised and only meaningful there), the only action
    another goroutine can observe is the select.  Go's select with [default] takes the
    send case iff a receiver is ready at that instant: [delivered = true] is enabled
    iff the consumer is waiting, [delivered = false] iff it is not.  A send on a closed
    channel panics: modelled as "no step".  No proofs in this file. *)
From Coq Require Import List NArith Bool Arith.
Import ListNotations.
Open Scope N_scope.

Inductive opkind := KWrite | KWriteString.
Record op := mkOp { okind : opkind; olen : N; orep : N; oerr : bool }.
Definition script := list op.

(** program counter of the writer goroutine *)
Inductive wpc :=
| Running            (* between calls; next call is the head of [todo], or Close when [todo = []] *)
| Summing (n : N)    (* the wrapped writer returned n; about to run sum(n) *)
| SentFinal          (* inside Close: final send done, close() pending *)
| Finished.          (* Close returned *)

Record state := mkState {
  todo    : list op;     (* calls not yet completed (head = the call in progress when Summing) *)
  done    : list op;     (* completed calls, in order *)
  pc      : wpc;
  size    : N;           (* pw.size *)
  waiting : bool;        (* consumer blocked in <-Status() *)
  closed  : bool;        (* channel closed *)
  recvd   : list N;      (* values received by the consumer, in order *)
  eofs    : nat          (* number of receives that returned "closed" *)
}.

Inductive label :=
| Under (i : nat)                       (* the wrapped writer's Write/WriteString of call i returns *)
| WriteDone (i : nat) (delivered : bool)(* sum(n) of call i: add, then the non-blocking send *)
| CloseSend                             (* Close: blocking send of the total; rendezvous with the consumer *)
| CloseChan                             (* Close: close(status) *)
| CWait                                 (* consumer starts a receive *)
| CLeave                                (* consumer abandons its receive (select with another ready case) *)
| CRecvClosed.                          (* consumer's receive completes on the closed channel *)

Definition init (sc : script) : state :=
  mkState sc [] Running 0 false false [] 0.

Definition step (s : state) (l : label) : option state :=
  match l with
  | Under i =>
      match pc s, todo s with
      | Running, o :: _ =>
          if Nat.eqb i (length (done s))
          then Some (mkState (todo s) (done s) (Summing (orep o)) (size s) (waiting s) (closed s) (recvd s) (eofs s))
          else None
      | _, _ => None
      end
  | WriteDone i delivered =>
      match pc s, todo s with
      | Summing n, o :: r =>
          if negb (Nat.eqb i (length (done s))) then None
          else if closed s then None                          (* send on closed channel: panic *)
          else if negb (Bool.eqb delivered (waiting s)) then None  (* select: send case iff a receiver is ready *)
          else
            let sz := size s + n in
            Some (mkState r (done s ++ [o]) Running sz
                          (if delivered then false else waiting s) (closed s)
                          (if delivered then recvd s ++ [sz] else recvd s) (eofs s))
      | _, _ => None
      end
  | CloseSend =>
      match pc s, todo s with
      | Running, [] =>
          if closed s then None
          else if waiting s
          then Some (mkState [] (done s) SentFinal (size s) false (closed s) (recvd s ++ [size s]) (eofs s))
          else None                                           (* blocks until a receiver arrives *)
      | _, _ => None
      end
  | CloseChan =>
      match pc s with
      | SentFinal =>
          if closed s then None                               (* close of closed channel: panic *)
          else Some (mkState (todo s) (done s) Finished (size s) (waiting s) true (recvd s) (eofs s))
      | _ => None
      end
  | CWait =>
      if waiting s then None
      else Some (mkState (todo s) (done s) (pc s) (size s) true (closed s) (recvd s) (eofs s))
  | CLeave =>
      if waiting s
      then Some (mkState (todo s) (done s) (pc s) (size s) false (closed s) (recvd s) (eofs s))
      else None
  | CRecvClosed =>
      if waiting s && closed s
      then Some (mkState (todo s) (done s) (pc s) (size s) false (closed s) (recvd s) (S (eofs s)))
      else None
  end.

Fixpoint run (s : state) (ls : list label) : option state :=
  match ls with
  | [] => Some s
  | l :: r => match step s l with Some s' => run s' r | None => None end
  end.

Definition reachable (sc : script) (s : state) : Prop := exists ls, run (init sc) ls = Some s.

(** sums *)
Fixpoint sumN (l : list N) : N := match l with [] => 0 | x :: r => x + sumN r end.
Definition reps (l : list op) : list N := map orep l.
Definition total (sc : script) : N := sumN (reps sc).

(** [psums acc ks]: Size() after each completed write, i.e. the running sums *)
Fixpoint psums (acc : N) (ks : list N) : list N :=
  match ks with [] => [] | k :: r => (acc + k) :: psums (acc + k) r end.

(** what Close has sent so far *)
Definition final_part (s : state) : list N :=
  match pc s with SentFinal | Finished => [size s] | _ => [] end.

Definition is_writer_label (l : label) : bool :=
  match l with Under _ | WriteDone _ _ | CloseSend | CloseChan => true | _ => false end.

(** number of writer steps still to go (2 per call, 2 for Close) *)
Definition writer_measure (s : state) : nat :=
  match pc s with
  | Running => 2 * length (todo s) + 2
  | Summing _ => 2 * length (todo s) + 1
  | SentFinal => 1
  | Finished => 0
  end.
