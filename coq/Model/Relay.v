(** Model of Logger.Relay (logger/httpd.go) with httpd.ResponseWriter (httpd/store.go) on top
    of net/http's response writer, as the code is after commit 8de6726.

      func (w *ResponseWriter) Write(b)        { if w.Status == 0 { w.WriteHeader(200) }; return w.Origin.Write(b) }
      func (w *ResponseWriter) WriteHeader(c)  { w.Origin.WriteHeader(c); w.Status = c }

      func (l *Logger) Relay(store) {
        if Enabled(Info) { Handle(REQ_BEG ip method path tid) }
        defer func() {                                   // runs LAST
          if Enabled(Info) { if Status == 0 { Status = 200 }; Handle(REQ_END code=Status dur ip method path tid) }
        }()
        defer func() {                                   // runs FIRST
          if err := recover(); err != nil && err != http.ErrAbortHandler {
            if Enabled(Error) { Handle(ERROR msg=stack panic=err tid) }
            if Status == 0 { http.Error(W, "Internal Server Error", 500) }
          }
        }()
        store.I.HandlerFunc(store)
      }

    net/http (Origin): the status on the wire is the first header written; a later
    WriteHeader is ignored ("superfluous"); a Write without header writes 200 first; if the
    handler returns without writing anything net/http sends 200.  A first WriteHeader(n) with
    n < 100 or n > 999 is rejected (checkWriteHeaderCode): net/http's response and httptest's
    recorder PANIC with the string "invalid WriteHeader code n" before anything is sent or
    recorded — for Relay that is a handler panic raised inside the call.  (Once a header went
    out the superfluous-check comes first: no panic, the call is ignored by net/http.)

    Abstractions: request fields, body chunks and panic values are opaque numbers; the log
    handler's rendering of a panic value is an oracle [render] ([None] = the rendering itself
    panics inside Handle).  No proofs in this file. *)
From Coq Require Import List NArith Bool.
Import ListNotations.
Open Scope N_scope.

(** the value passed to panic(): http.ErrAbortHandler itself, or any other value (by identity) *)
Inductive pval := AbortHandler | PV (v : N).

(** how a handler writes body bytes; all end in ResponseWriter.Write
    (ResponseWriter has no ReadFrom; io.Copy falls back to Write; the Store helpers
    Error404/Error500/Redirect/Respond200/RespondJson go through http.Error, http.Redirect,
    W.WriteHeader + W.Write and json.Encoder over W: the harness expands them into
    [Hdr c; Body ViaHelper chunk]) *)
Inductive via := ViaWrite | ViaCopyString | ViaCopyFile | ViaHelper.

Inductive act :=
| Nop                           (* touches only the header map: W.Header().Set(..) *)
| Hdr (code : N)                (* W.WriteHeader(code); any int: the harness maps negative ints above 999,
                                   all the model needs to know about them is [invalid_code] *)
| Body (how : via) (chunk : N)  (* W.Write / io.Copy(W, ..) of one chunk *)
| Flush (with_error : bool)     (* W.Flush() / W.FlushError(): commits the header (implicit 200) *)
| Panic (p : pval).             (* panic(p); execution of the handler stops here *)
Definition script := list act.

(** ** The response writer *)
Record rw := mkRw {
  status : N;              (* ResponseWriter.Status, 0 = nothing recorded *)
  wire_hdr : option N;     (* first header written to net/http *)
  wbody : list N           (* body chunks sent, in order *)
}.
Definition rw0 : rw := mkRw 0 None [].

(** net/http has sent a header (wroteHeader) *)
Definition started (w : rw) : bool := match wire_hdr w with Some _ => true | None => false end.

(** checkWriteHeaderCode: codes net/http refuses; Origin.WriteHeader panics with them unless a
    header was written before (then the call is superfluous and returns) *)
Definition invalid_code (c : N) : bool := (c <? 100) || (999 <? c).
Definition origin_rejects (c : N) (w : rw) : bool := negb (started w) && invalid_code c.
(** the panic value of that panic (the string "invalid WriteHeader code n"), as an opaque value *)
Definition invalid_hdr_pv : N := 29.

Definition origin_write_header (c : N) (w : rw) : rw :=
  match wire_hdr w with
  | None => mkRw (status w) (Some c) (wbody w)
  | Some _ => w                                   (* superfluous WriteHeader: ignored *)
  end.
Definition origin_write (chunk : N) (w : rw) : rw :=
  let w1 := origin_write_header 200 w in          (* implicit header; no-op if one was written *)
  mkRw (status w1) (wire_hdr w1) (wbody w1 ++ [chunk]).

Definition rw_write_header (c : N) (w : rw) : rw :=
  let w1 := origin_write_header c w in mkRw c (wire_hdr w1) (wbody w1).
Definition rw_write (chunk : N) (w : rw) : rw :=
  let w1 := if status w =? 0 then rw_write_header 200 w else w in
  origin_write chunk w1.

(** Flush / FlushError (the Origin can flush: net/http's response and httptest's recorder do):
    net/http sends the implicit 200 if no header went out yet.  Since commit 9de7f2e the
    ResponseWriter records that 200 ([records = true]); before, Status stayed 0
    ([records = false], kept to state what was wrong: [C15_flush_old_refuted]). *)
Definition rw_flush (records : bool) (w : rw) : rw :=
  let w1 := origin_write_header 200 w in
  mkRw (if records && (status w =? 0) then 200 else status w) (wire_hdr w1) (wbody w1).

(** http.Error(w, text, 500): WriteHeader(500) then one body chunk, the error text *)
Definition err_chunk : N := 999999.
Definition http_error_500 (w : rw) : rw := rw_write err_chunk (rw_write_header 500 w).

(** the handler: runs until the first Panic *)
Fixpoint exec (fr : bool) (sc : script) (w : rw) : rw * option pval :=
  match sc with
  | [] => (w, None)
  | Nop :: r => exec fr r w
  | Hdr c :: r =>
      (* ResponseWriter.WriteHeader delegates FIRST: when Origin.WriteHeader panics nothing is recorded *)
      if origin_rejects c w then (w, Some (PV invalid_hdr_pv)) else exec fr r (rw_write_header c w)
  | Body _ ch :: r => exec fr r (rw_write ch w)
  | Flush _ :: r => exec fr r (rw_flush fr w)
  | Panic p :: _ => (w, Some p)
  end.

(** ** Requests and records *)
Record req := mkReq { rmethod : N; ruri : N; rip : N; rid : N }.

Inductive record :=
| BEG (ip m u id : N)
| ERR (p : pval) (id : N)
| END (code ip m u id : N).

Definition rec_id (r : record) : N :=
  match r with BEG _ _ _ id => id | ERR _ id => id | END _ _ _ _ id => id end.

Definition LInfo : N := 4.
Definition LError : N := 12.
(** Options.Enabled: l >= opts.level *)
Definition enabled (thr l : N) : bool := thr <=? l.

Record result := mkRes {
  escaped : bool;          (* a panic leaves Relay *)
  relay500 : bool;         (* Relay's recover block called http.Error *)
  final : rw;
  records : list record
}.
Definition wire (r : result) : N := match wire_hdr (final r) with Some c => c | None => 200 end.
Definition body (r : result) : list N := wbody (final r).

Section Relay.
  (** rendering of a panic value by the log handler's Handle; [None] = it panics *)
  Variable render : N -> option N.

  (** the recover block (second defer, runs first).  Result: response writer, records written,
      whether http.Error was called, whether a (new) panic propagates. *)
  Definition recover_block (thr : N) (rq : req) (w : rw) (p : option pval)
    : rw * list record * bool * bool :=
    match p with
    | None => (w, [], false, false)                       (* recover() = nil *)
    | Some AbortHandler => (w, [], false, false)          (* recovered and dropped *)
    | Some (PV v) =>
        let send := fun w => if status w =? 0 then (http_error_500 w, true) else (w, false) in
        if enabled thr LError then
          match render v with
          | Some _ => let '(w', s) := send w in (w', [ERR (PV v) (rid rq)], s, false)
          | None => (w, [], false, true)                  (* Handle panics: block aborted *)
          end
        else let '(w', s) := send w in (w', [], s, false)
    end.

  (** the REQ_END block (first defer, runs last — also while a panic is propagating) *)
  Definition end_block (thr : N) (rq : req) (w : rw) : rw * list record :=
    if enabled thr LInfo then
      let w' := if status w =? 0 then mkRw 200 (wire_hdr w) (wbody w) else w in
      (w', [END (status w') (rip rq) (rmethod rq) (ruri rq) (rid rq)])
    else (w, []).

  (** [fr]: whether Flush records the implicit 200 ([true] = the code as it is now) *)
  Definition relay_gen (fr : bool) (thr : N) (rq : req) (sc : script) : result :=
    let recs0 := if enabled thr LInfo then [BEG (rip rq) (rmethod rq) (ruri rq) (rid rq)] else [] in
    let '(w1, p) := exec fr sc rw0 in
    let '(w2, recs1, sent, esc) := recover_block thr rq w1 p in
    let '(w3, recs2) := end_block thr rq w2 in
    mkRes esc sent w3 (recs0 ++ recs1 ++ recs2).
  Definition relay := relay_gen true.
End Relay.

(** ** Script predicates used by the property *)

(** the value the handler panics with, if it does: its own panic(p), or net/http's panic inside a
    first WriteHeader with a code it rejects ([started]: a header went out before) *)
Fixpoint panic_from (started : bool) (sc : script) : option pval :=
  match sc with
  | [] => None
  | Nop :: r => panic_from started r
  | Hdr c :: r => if negb started && invalid_code c then Some (PV invalid_hdr_pv) else panic_from true r
  | Body _ _ :: r => panic_from true r
  | Flush _ :: r => panic_from true r
  | Panic p :: _ => Some p
  end.
Definition panic_of (sc : script) : option pval := panic_from false sc.

(** the handler panics before any header was written (explicitly or by a body write) *)
Fixpoint panics_before_header (sc : script) : bool :=
  match sc with
  | [] => false
  | Nop :: r => panics_before_header r
  | Panic _ :: _ => true
  | Hdr c :: _ => invalid_code c  (* rejected by net/http: the call panics, no status was written *)
  | _ => false                  (* a valid Hdr, Body and Flush put a status on the wire *)
  end.

(** the status is set at most once: no WriteHeader once a header went out *)
Fixpoint set_once_from (started : bool) (sc : script) : bool :=
  match sc with
  | [] => true
  | Nop :: r => set_once_from started r
  | Hdr c :: r => if started then false else if invalid_code c then true (* panics: the handler ends here *)
                  else set_once_from true r
  | Body _ _ :: r => set_once_from true r
  | Flush _ :: r => set_once_from true r
  | Panic _ :: _ => true
  end.
Definition set_once (sc : script) : bool := set_once_from false sc.

(** status codes for which the net/http model above is faithful and the statements hold: the FIRST
    header is a final one (200..999; 1xx informational headers do not end the header phase) or one
    net/http rejects (0..99, >= 1000: the handler ends there with a panic); a WriteHeader after a header
    went out (superfluous for net/http, outside [set_once]) does not reset Status to 0 *)
Fixpoint codes_ok_from (started : bool) (sc : script) : bool :=
  match sc with
  | [] => true
  | Nop :: r => codes_ok_from started r
  | Hdr c :: r => if started then negb (c =? 0) && codes_ok_from true r
                  else if invalid_code c then true
                  else (200 <=? c) && codes_ok_from true r
  | Body _ _ :: r => codes_ok_from true r
  | Flush _ :: r => codes_ok_from true r
  | Panic _ :: _ => true
  end.
Definition codes_ok (sc : script) : bool := codes_ok_from false sc.

Definition no_abort (sc : script) : Prop := panic_of sc <> Some AbortHandler.
Definition no_abortb (sc : script) : bool :=
  match panic_of sc with Some AbortHandler => false | _ => true end.

(** the code of the END record, 0 if there is none *)
Fixpoint logged_of (rs : list record) : N :=
  match rs with
  | [] => 0
  | END c _ _ _ _ :: _ => c
  | _ :: r => logged_of r
  end.
Definition logged (r : result) : N := logged_of (records r).
