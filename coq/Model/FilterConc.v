(** C12 — IPv4Filter under concurrency: an interleaving semantics over Model/Filter.v.

    Threads run lists of calls.  The atomic actions (labels) of a thread are

      Add/Remove with an invalid argument   RejectArg t          (returns before touching shared state)
      Add/Remove of 0.0.0.0/0               StoreMatchAll t b    (f.matchAll.Store(b))
      Add of any other range                LockedAdd t c        (everything between mutex.Lock and Unlock,
                                                                  including the migration)
      Remove of any other range             LockedRemove t c     (ditto)
      Contains                              LoadMatchAll t       (f.matchAll.Load(); the call ends here when the
                                                                  flag is set or the argument is not IPv4)
                                            LockedScan t         (everything between RLock and RUnlock)

    A write-locked section excludes every other section and a read-locked section excludes
    all write-locked ones, so each section is one atomic step on the sequential state
    (read-locked sections of different threads do not write, so their overlap is invisible).
    That the sections really are guarded this way in the source is the lockset obligation
    (Lib/Lockset.v, checked on the extracted access table).

    [lin] is ghost state: the updates in the order their atomic step happened; the live
    set "at a state" is the specification's live set of that history.

    A run-time panic inside an atomic section (Model/Filter.v returns [None]) crashes the
    process: the step sets [crashed] and nothing is enabled afterwards.  C12_no_crash proves
    that no execution reaches such a state.  No proofs here. *)
From Coq Require Import List Arith NArith Bool.
Import ListNotations.
From Glb Require Import Lib.NetIP Lib.CidrSet Model.Filter.
Open Scope N_scope.

Inductive cop := CUpd (o : op) | CLookup (ip : list N).

Record tstate := mkT {
  t_done : list cop;                    (* calls that returned (ghost) *)
  t_todo : list cop;                    (* the current call is the head *)
  t_mid : option N;                     (* inside Contains after To4, before RLock: the address as uint32 *)
  t_results : list (list N * bool)      (* every returned Contains: argument, result *)
}.

Record cstate := mkC { filt : state; lin : list op; threads : list tstate; crashed : bool }.

Inductive label :=
| RejectArg (t : nat)
| StoreMatchAll (t : nat) (b : bool)
| LockedAdd (t : nat) (c : cidr)
| LockedRemove (t : nat) (c : cidr)
| LoadMatchAll (t : nat)
| LockedScan (t : nat).

Definition thread_of (l : label) : nat :=
  match l with
  | RejectArg t | StoreMatchAll t _ | LockedAdd t _ | LockedRemove t _ | LoadMatchAll t | LockedScan t => t
  end.

Definition op_cidr (o : op) : cidr := match o with Add c => c | Remove c => c end.
Definition is_add (o : op) : bool := match o with Add _ => true | Remove _ => false end.

(** which atomic action an Add/Remove call consists of *)
Inductive ukind := KReject | KStore (b : bool) | KAdd (c : cidr) | KRemove (c : cidr).

Definition classify (o : op) : ukind :=
  let c := op_cidr o in
  if invalid_arg c then KReject
  else if arg_ones c =? 0 then KStore (is_add o)
  else if is_add o then KAdd c else KRemove c.

Definition label_matches (l : label) (k : ukind) : bool :=
  match l, k with
  | RejectArg _, KReject => true
  | StoreMatchAll _ b, KStore b' => eqb b b'
  | LockedAdd _ c, KAdd c' => cidr_eqb c c'
  | LockedRemove _ c, KRemove c' => cidr_eqb c c'
  | _, _ => false
  end.

(** [None]: the call panics (nip := binary.BigEndian.Uint32(cidr.IP) before the lock, or
    something inside the locked section) *)
Definition effect (f : state) (k : ukind) : option state :=
  match k with
  | KReject => Some f
  | KStore b => Some (set_match_all f b)
  | KAdd c => match arg_nip c with Some nip => add_locked f nip (arg_ones c) | None => None end
  | KRemove c => match arg_nip c with Some nip => remove_locked f nip (arg_ones c) | None => None end
  end.

Definition set_thread (s : cstate) (t : nat) (th : tstate) : cstate :=
  mkC (filt s) (lin s) (upd (threads s) t th) (crashed s).

(** an unrecovered panic in some goroutine takes the process down *)
Definition crash (s : cstate) : cstate := mkC (filt s) (lin s) (threads s) true.

(** the call at the head of [todo] returns *)
Definition returned (th : tstate) (c : cop) (rest : list cop) (res : list (list N * bool)) : tstate :=
  mkT (t_done th ++ [c]) rest None (t_results th ++ res).

Definition step (s : cstate) (l : label) : option cstate :=
  let t := thread_of l in
  if crashed s then None else
  match nth_error (threads s) t with
  | None => None
  | Some th =>
    match t_mid th, t_todo th with
    | Some nip, CLookup ip :: rest =>
        match l with
        | LockedScan _ =>
            match scan (filt s) nip with
            | Some r => Some (set_thread s t (returned th (CLookup ip) rest [(ip, r)]))
            | None => Some (crash s)
            end
        | _ => None
        end
    | Some _, _ => None
    | None, [] => None
    | None, CUpd o :: rest =>
        if label_matches l (classify o)
        then match effect (filt s) (classify o) with
             | Some f' => Some (mkC f' (lin s ++ [o]) (upd (threads s) t (returned th (CUpd o) rest [])) false)
             | None => Some (crash s)
             end
        else None
    | None, CLookup ip :: rest =>
        match l with
        | LoadMatchAll _ =>
            if match_all (filt s) then Some (set_thread s t (returned th (CLookup ip) rest [(ip, true)]))
            else match to4 ip with
                 | None => Some (set_thread s t (returned th (CLookup ip) rest [(ip, false)]))
                 | Some b =>
                     match be32_p b with
                     | Some nip => Some (set_thread s t (mkT (t_done th) (t_todo th) (Some nip) (t_results th)))
                     | None => Some (crash s)
                     end
                 end
        | _ => None
        end
    end
  end.

(** an execution: the states before each label, and the final state *)
Fixpoint exec (s : cstate) (ls : list label) : option (list cstate * cstate) :=
  match ls with
  | [] => Some ([], s)
  | l :: r =>
      match step s l with
      | None => None
      | Some s' => match exec s' r with
                   | None => None
                   | Some (v, f) => Some (s :: v, f)
                   end
      end
  end.

Definition crun (s : cstate) (ls : list label) : option cstate :=
  match exec s ls with Some (_, f) => Some f | None => None end.

Definition cinit (progs : list (list cop)) : cstate :=
  mkC init [] (map (fun p => mkT [] p None []) progs) false.

Definition thread_finished (th : tstate) : bool :=
  match t_todo th, t_mid th with [], None => true | _, _ => false end.
Definition finished (s : cstate) : bool := forallb thread_finished (threads s).

Definition results_of (s : cstate) (t : nat) : list (list N * bool) :=
  match nth_error (threads s) t with Some th => t_results th | None => [] end.

(* ---- the vocabulary of the theorems ---- *)

(** a range of the live set: 0.0.0.0/0 (the flag) or a proper prefix *)
Inductive range := RAll | RKey (k : key).

(** the live set at a state = the specification's live set of the updates linearised so far *)
Definition live_at (s : cstate) : sstate := spec_run (lin s).

Definition rlive (s : cstate) (r : range) : Prop :=
  match r with
  | RAll => fst (live_at s) = true
  | RKey k => In k (snd (live_at s))
  end.

(** does the range contain the probe (a byte slice)? 0.0.0.0/0 matches everything. *)
Definition rcovers (r : range) (ip : list N) : bool :=
  match r with
  | RAll => true
  | RKey k => match to4 ip with Some b => covers k (be32 b) | None => false end
  end.

(** the updates of a program in program order *)
Definition updates_of (p : list cop) : list op :=
  flat_map (fun c => match c with CUpd o => [o] | CLookup _ => [] end) p.

(** the range an update is about ([None]: invalid argument) *)
Definition op_key (o : op) : option key :=
  match cidr_arg (op_cidr o) with Some (nip, ones) => Some (canon nip ones) | None => None end.
Definition touches (k : key) (o : op) : bool :=
  match op_key o with Some k' => key_eqb k' k | None => false end.
Definition touched_in (k : key) (l : list op) : bool := existsb (touches k) l.

(** threads own disjoint ranges: no range is the subject of updates of two threads *)
Definition disjoint_owners (progs : list (list cop)) : Prop :=
  forall t u pt pu k, t <> u -> nth_error progs t = Some pt -> nth_error progs u = Some pu ->
    touched_in k (updates_of pt) = true -> touched_in k (updates_of pu) = false.
