(** Model of the pooled per-request Store: Mux.ServeHTTP / Mux.Handle / newStoreWith of
    httpd/httpd.go and the Store accessors of httpd/store.go, on top of Model/Router.v.
    Executable, total, proof-free.

    A labelled transition system whose labels are the atomic actions of single goroutines:
    - [LRegister p m]            Mux.Handle(p, m, h) (under mux.mu).  If Handle rejects the route it panics; the label
                                 stands for "the caller recovered and goes on using the Mux": the table keeps the trie
                                 nodes parseRoute had created before it found the error ([handle_attempt])
    - [LBegin k choice path m]   request k: storePool.Get() (the result is ANY pooled Store, [Some i],
                                 or a fresh one from New, [None]), id = AppendUint(id, AddUint64(&storeID,1), 36),
                                 findRoute, store.I = info or routeNotFound; the relay handler is entered
    - [LWrite k op]              the handler (or relay) of request k changes W.Status: [WriteHeader code] =
                                 W.WriteHeader(code) (or a direct assignment, as Logger.Relay does), [Flush] =
                                 W.Flush()/FlushError(), which record the implicit 200 when nothing was written yet
    - [LEnd k how]               the relay handler of request k is left: [Returned], [Recovered] (a panic of the
                                 route handler recovered by the relay, e.g. Logger.Relay) — then ServeHTTP resets
                                 the Store and Puts it back; or [Escaped] (the panic leaves ServeHTTP: neither
                                 reset nor Put happen, the Store is dropped)
    - [LDrop i]                  sync.Pool forgets a pooled Store (it may at any GC)
    Between LBegin and LEnd request k owns its Store; everything a handler can read through
    the Store is [observe_flight].

    ASSUMPTION made explicit in enabledness: [LRegister] is enabled only while no request is in
    flight (ServeHTTP walks the trie without the mutex; registering during requests is a data
    race in the code and outside the property). *)
From Coq Require Import List NArith Bool Arith.
Import ListNotations.
From Glb Require Import Lib.RouteBytes Model.Router.

(** ** strconv.AppendUint(buf, n, 36) for n < 36^13 (uint64 < 2^64 < 36^13) *)
Definition digit36 (d : N) : N := if (d <? 10)%N then (48 + d)%N else (87 + d)%N.
Fixpoint render36 (fuel : nat) (n : N) : list N :=
  match fuel with
  | O => []
  | S f => if (n <? 36)%N then [digit36 n] else render36 f (n / 36)%N ++ [digit36 (n mod 36)%N]
  end.
Definition render_id (n : N) : list N := render36 13 n.

(** ** Store *)
Record store := { s_params : params; s_status : N; s_id : list N }.

(** [newStoreWith(prefix)]: V = make([]string, 0, maxParams); id = make([]byte, 9, 32) with the prefix copied in *)
Definition fit9 (p : list N) : list N := firstn 9 (p ++ repeat 0%N 9).
Definition new_store (prefix : list N) (max_params : nat) : store :=
  {| s_params := {| pK := []; pV := {| v_items := []; v_cap := max_params |} |};
     s_status := 0%N;
     s_id := fit9 prefix |}.

(** the reset at the end of ServeHTTP: W.Status = 0; P.K = nil (iff [reset_k]); P.V = P.V[:0]; id = id[:9] *)
Definition reset_store (reset_k : bool) (s : store) : store :=
  {| s_params := {| pK := if reset_k then [] else pK (s_params s);
                    pV := {| v_items := []; v_cap := v_cap (pV (s_params s)) |} |};
     s_status := 0%N;
     s_id := firstn 9 (s_id s) |}.

(** ** Mux *)
Record flight := { f_key : nat; f_store : store; f_info : option nat;
                   f_path : list N; f_method : list N; f_ticket : N }.

Record mux := {
  m_table : table;
  m_routes : list (list N * list N);   (* history variable: the registration ATTEMPTS so far, accepted or rejected; read by no operation *)
  m_prefix : list N;
  m_pool : list store;
  m_next_id : N;                       (* Mux.storeID *)
  m_flights : list flight
}.

Definition new_mux (prefix : list N) : mux :=
  {| m_table := empty_table; m_routes := []; m_prefix := fit9 prefix; m_pool := []; m_next_id := 0%N; m_flights := [] |}.

Inductive exit_kind := Returned | Recovered | Escaped.
Inductive wop := WriteHeader (code : N) | Flush.
Definition apply_wop (op : wop) (status : N) : N :=
  match op with
  | WriteHeader c => c
  | Flush => if (status =? 0)%N then 200%N else status
  end.
Inductive label :=
| LRegister (p m : list N)
| LBegin (k : nat) (choice : option nat) (path method : list N)
| LWrite (k : nat) (op : wop)
| LEnd (k : nat) (how : exit_kind)
| LDrop (i : nat).

Inductive outcome := Ok (m : mux) | Disabled | Panic.

Fixpoint find_flight (k : nat) (fs : list flight) : option flight :=
  match fs with
  | [] => None
  | f :: r => if Nat.eqb (f_key f) k then Some f else find_flight k r
  end.
Fixpoint remove_flight (k : nat) (fs : list flight) : list flight :=
  match fs with
  | [] => []
  | f :: r => if Nat.eqb (f_key f) k then r else f :: remove_flight k r
  end.
Fixpoint update_flight (k : nat) (g : flight -> flight) (fs : list flight) : list flight :=
  match fs with
  | [] => []
  | f :: r => if Nat.eqb (f_key f) k then g f :: r else f :: update_flight k g r
  end.
Fixpoint remove_nth {A} (i : nat) (l : list A) : list A :=
  match l, i with
  | [], _ => []
  | _ :: r, O => r
  | x :: r, S j => x :: remove_nth j r
  end.

Definition with_params (s : store) (ps : params) : store :=
  {| s_params := ps; s_status := s_status s; s_id := s_id s |}.
Definition with_status (s : store) (c : N) : store :=
  {| s_params := s_params s; s_status := c; s_id := s_id s |}.
Definition with_id (s : store) (i : list N) : store :=
  {| s_params := s_params s; s_status := s_status s; s_id := i |}.

(** [push]: how findRoute adds a value ([push_append] now); [reset_k]: whether ServeHTTP resets P.K (it does now) *)
Definition step_gen (push : vslice -> list N -> option vslice) (reset_k : bool) (m : mux) (l : label) : outcome :=
  match l with
  | LRegister p meth =>
    match m_flights m with
    | _ :: _ => Disabled
    | [] =>
      Ok {| m_table := handle_attempt (m_table m) p meth; m_routes := m_routes m ++ [(p, meth)]; m_prefix := m_prefix m;
            m_pool := m_pool m; m_next_id := m_next_id m; m_flights := m_flights m |}
    end
  | LBegin k choice path meth =>
    match find_flight k (m_flights m) with
    | Some _ => Disabled
    | None =>
      let got :=
        match choice with
        | None => Some (new_store (m_prefix m) (t_max_params (m_table m)), m_pool m)
        | Some i => match nth_error (m_pool m) i with
                    | Some s => Some (s, remove_nth i (m_pool m))
                    | None => None
                    end
        end in
      match got with
      | None => Disabled
      | Some (s, pool') =>
        let ticket := (m_next_id m + 1)%N in
        let s1 := with_id s (s_id s ++ render_id ticket) in
        match find_route_gen push (t_root (m_table m)) path meth (s_params s1) with
        | None => Panic
        | Some (info, ps') =>
          Ok {| m_table := m_table m; m_routes := m_routes m; m_prefix := m_prefix m;
                m_pool := pool'; m_next_id := ticket;
                m_flights := {| f_key := k; f_store := with_params s1 ps'; f_info := info;
                                f_path := path; f_method := meth; f_ticket := ticket |} :: m_flights m |}
        end
      end
    end
  | LWrite k op =>
    match find_flight k (m_flights m) with
    | None => Disabled
    | Some _ =>
      Ok {| m_table := m_table m; m_routes := m_routes m; m_prefix := m_prefix m; m_pool := m_pool m;
            m_next_id := m_next_id m;
            m_flights := update_flight k (fun f => {| f_key := f_key f; f_store := with_status (f_store f) (apply_wop op (s_status (f_store f)));
                                                      f_info := f_info f; f_path := f_path f; f_method := f_method f;
                                                      f_ticket := f_ticket f |}) (m_flights m) |}
    end
  | LEnd k how =>
    match find_flight k (m_flights m) with
    | None => Disabled
    | Some f =>
      Ok {| m_table := m_table m; m_routes := m_routes m; m_prefix := m_prefix m;
            m_pool := match how with
                      | Escaped => m_pool m
                      | _ => m_pool m ++ [reset_store reset_k (f_store f)]
                      end;
            m_next_id := m_next_id m;
            m_flights := remove_flight k (m_flights m) |}
    end
  | LDrop i =>
    match nth_error (m_pool m) i with
    | None => Disabled
    | Some _ =>
      Ok {| m_table := m_table m; m_routes := m_routes m; m_prefix := m_prefix m; m_pool := remove_nth i (m_pool m);
            m_next_id := m_next_id m; m_flights := m_flights m |}
    end
  end.

Definition step := step_gen push_append true.

Fixpoint run_gen (push : vslice -> list N -> option vslice) (reset_k : bool) (m : mux) (ls : list label) : outcome :=
  match ls with
  | [] => Ok m
  | l :: r => match step_gen push reset_k m l with
              | Ok m' => run_gen push reset_k m' r
              | o => o
              end
  end.
Definition run := run_gen push_append true.

(** ** what the handlers of a request in flight read through its Store *)
Record obs := {
  ob_target : target;                  (* Store.I: the route's info or the no-route info *)
  ob_vals : list (option (list N));    (* Store.RouteParam(name) for each queried name; [None] = it panics *)
  ob_any : option (list N);            (* Store.RouteParamAny() *)
  ob_status : N;                       (* Store.W.Status *)
  ob_id : list N                       (* Store.GetID() *)
}.
Definition observe_flight (f : flight) (names : list (list N)) : obs :=
  {| ob_target := match f_info f with Some r => Route r | None => NoRoute end;
     ob_vals := map (route_param_of (s_params (f_store f))) names;
     ob_any := route_param_any_of (s_params (f_store f));
     ob_status := s_status (f_store f);
     ob_id := s_id (f_store f) |}.
Definition observe (m : mux) (k : nat) (names : list (list N)) : option obs :=
  match find_flight k (m_flights m) with
  | Some f => Some (observe_flight f names)
  | None => None
  end.

(** the same request on a FRESH Mux on which exactly [routes] were registered, all of them accepted *)
Definition fresh_core (routes : list (list N * list N)) (path method : list N) (names : list (list N))
  : option (target * list (option (list N)) * option (list N)) :=
  match register_all routes with
  | Some t =>
    match serve_http t path method with
    | Some [Call tg ps] => Some (tg, map (route_param_of ps) names, route_param_any_of ps)
    | _ => None
    end
  | None => None
  end.

(** the same request on a FRESH Mux on which the same registration ATTEMPTS were made (rejected ones recovered) *)
Definition fresh_core_attempts (attempts : list (list N * list N)) (path method : list N) (names : list (list N))
  : option (target * list (option (list N)) * option (list N)) :=
  match serve_http (register_attempts attempts) path method with
  | Some [Call tg ps] => Some (tg, map (route_param_of ps) names, route_param_any_of ps)
  | _ => None
  end.

(** ** the two repaired defects: findRoute reslicing within capacity, ServeHTTP not resetting P.K *)
Definition push_reslice (v : vslice) (x : list N) : option vslice :=
  if length (v_items v) <? v_cap v
  then Some {| v_items := v_items v ++ [x]; v_cap := v_cap v |}
  else None.                                         (* params.V[:i+1] with i+1 > cap: panic *)
Definition step_pinned := step_gen push_reslice false.
Definition run_pinned := run_gen push_reslice false.

(** GetID() at handler entry of every request begun along a run *)
Fixpoint begin_ids (m : mux) (ls : list label) : list (list N) :=
  match ls with
  | [] => []
  | l :: r =>
    match step m l with
    | Ok m' =>
      match l with
      | LBegin k _ _ _ =>
        match find_flight k (m_flights m') with
        | Some f => s_id (f_store f) :: begin_ids m' r
        | None => begin_ids m' r
        end
      | _ => begin_ids m' r
      end
    | _ => []
    end
  end.

(** the registration attempts along a run (accepted or rejected): its LRegister labels *)
Fixpoint registered (ls : list label) : list (list N * list N) :=
  match ls with
  | [] => []
  | LRegister p m :: r => (p, m) :: registered r
  | _ :: r => registered r
  end.

