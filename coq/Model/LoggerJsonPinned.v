(** The appendJsonAttr of the PINNED commit (before fix 4bd39fe), kept as a documented refutation.

    There the function returned nothing: the caller passed [addSep] in and assumed a member had
    been written.  The comma was emitted BEFORE it was known whether a member follows:

      func appendJsonAttr(buf, a, addSep, colorful) {
          if addSep { write ',' ; addSep = false }
          a.Value = a.Value.Resolve()
          if a.Value.Kind() == slog.KindGroup {
              if len(a.Key) > 0 { write quoted key, ':', '{' }
              for _, aa := range a.Value.Group() { appendJsonAttr(buf, aa, addSep, colorful); addSep = true }
              if len(a.Key) > 0 { write '}' }
              return
          }
          write quoted key, ':', value
      }
    and Handle / WithAttrs did  [appendJsonAttr(buf, a, addSep); addSep = true]. *)
From Coq Require Import List NArith ZArith Bool.
Import ListNotations.
From Glb Require Import Lib.Utf8 Lib.JsonDec Model.LoggerJson.
Open Scope N_scope.

Fixpoint old_attr (k : list N) (v : value) (addsep : bool) {struct v} : list N :=
  sepb addsep ++
  match v with
  | VGroup l =>
    let members :=
      (fix go (l : list (list N * value)) (first : bool) {struct l} : list N :=
         match l with
         | [] => []
         | (k', v') :: t => old_attr k' v' (negb first) ++ go t false
         end) l true in
    if is_empty k then members
    else [34] ++ append_json_string k ++ [34; 58; 123] ++ members ++ [125]
  | _ => [34] ++ append_json_string k ++ [34; 58] ++ append_json_value v
  end.

(** the callers' loop: [appendJsonAttr(buf, a, addSep); addSep = true] *)
Fixpoint old_attrs (l : list (list N * value)) (addsep : bool) : list N :=
  match l with
  | [] => []
  | (k, v) :: t => old_attr k v addsep ++ old_attrs t true
  end.

(** Handle of a handler without derivations, with the old attribute printer *)
Definition old_handle (r : record) : list N :=
  [123; 34] ++ k_time ++ [34; 58; 34] ++ time_txt r
  ++ [34; 44; 34] ++ k_level ++ [34; 58; 34] ++ level_text (lvl r) ++ [34]
  ++ [44; 34] ++ k_msg ++ [34; 58; 34] ++ append_json_string (msg r) ++ [34]
  ++ old_attrs (attrs r) true
  ++ [125; 10].
