(** LTS of concurrent logging through /repo/logger: Logger.log/logf/logAttrs (level gate), Handle of the
    three handlers (newBuffer, formatting, outMu.Lock, out.Write, Unlock, freeBuffer), buffer.go
    (bufferPool, 16 KiB limit) and clone() sharing outMu (C02).

    Every label is one atomic action of one goroutine [t].  A logging call of thread [t] for record [r]
    through the handler with derivation chain [c] is the label sequence

      LGate t            the level gate; a disabled record ends the call here
      LPoolGet t src     bufferPool.Get(): ANY pooled buffer ([Some id]) or a fresh one ([None])
      LFormat t          buffer := its CURRENT contents ++ line c r   (a non-empty recycled buffer pollutes)
      LLock t            outMu.Lock()   (enabled iff the mutex is free)
      LWriteBegin t      entering out.Write( *buf)
      LWriteEnd t        out.Write returns: the destination has received the chunk
      LUnlock t          outMu.Unlock() (deferred)
      LPoolPut t | LDrop t   freeBuffer: reset to length 0 and Put, or drop when cap > 16 KiB

    [line c r] is a PARAMETER: any function (the sequential meaning of a handler is C01/C13/C03's
    subject).  Buffers have identities, so "a buffer is owned by at most one thread" is a statement.
    The source discipline is a parameter ([cflags], filled in from the source by gen/loggerfacts);
    with a flag off the model performs the corresponding defect (second Write for the newline, Write
    outside the lock, a new mutex per clone, no reset, buffer released before the Write, gate after
    formatting).  No proofs here. *)
From Coq Require Import List NArith ZArith Arith Bool.
Import ListNotations.

(** Options.Enabled: a record at [level] passes the gate of a handler whose threshold is [threshold] -
    for ARBITRARY integers (slog.Level is an int), not only the five named levels. *)
Definition level_enabled (threshold level : Z) : bool := (threshold <=? level)%Z.

Record cflags := mkCF {
  single_write : bool;       (* Handle calls out.Write exactly once, with the whole buffer *)
  write_under_lock : bool;   (* … after outMu.Lock(), Unlock deferred / afterwards *)
  shares_mu : bool;          (* clone() copies the outMu pointer *)
  reset_on_put : bool;       (* freeBuffer: buf = ( *buf)[:0] before Put; pool.New makes len 0 *)
  drops_oversized : bool;    (* freeBuffer refuses cap > maxBufferSize *)
  gate_first : bool;         (* Enabled(level) is tested before anything else in log/logf/logAttrs *)
  free_after_write : bool;   (* buf := newBuffer(); defer freeBuffer(buf) *)
  unlock_deferred : bool     (* outMu.Unlock() is DEFERRED: it also runs when the destination's Write panics *)
}.
Definition good_flags : cflags := mkCF true true true true true true true true.
Definition discipline (f : cflags) : bool :=
  single_write f && write_under_lock f && shares_mu f && reset_on_put f && gate_first f && free_after_write f && unlock_deferred f.

Definition updf {X} (g : nat -> X) (i : nat) (x : X) : nat -> X := fun j => if Nat.eqb j i then x else g j.

Fixpoint remove1 (b : nat) (l : list nat) : list nat :=
  match l with
  | [] => []
  | x :: r => if Nat.eqb x b then r else x :: remove1 b r
  end.
Definition memb (b : nat) (l : list nat) : bool := existsb (Nat.eqb b) l.

Section Conc.
  Variables D R : Type.
  Variable line : list D -> R -> list N.
  Variable enabled : R -> bool.
  Variable grow : N -> N -> N.      (* old capacity, needed length -> surplus of the regrown buffer *)

  Inductive instr := ILog (c : list D) (r : R) | IDerive (c : list D) (d : D).

  Inductive phase :=
  | Idle
  | Gated (w : bool)           (* past the gate; w = the record will be written *)
  | Got (w : bool) (b : nat)   (* holds buffer b *)
  | Fmt (w : bool) (b : nat)   (* line assembled in b *)
  | Lck (b k : nat)            (* between Lock and Unlock, k chunks written *)
  | InW (b k : nat)            (* inside the k-th Write *)
  | Unl (b : nat).             (* after Unlock, before freeBuffer *)

  Record thread := mkThread { todo : list instr; ph : phase }.
  Record buffer := mkBuf { bdata : list N; bcap : N }.
  Record state := mkState {
    nthr : nat; thr : nat -> thread;
    nbufs : nat; bufs : nat -> buffer;
    pool : list nat;
    mus : nat -> option nat;
    dest : list (list N)
  }.

  Inductive label :=
  | LDerive (t : nat) | LGate (t : nat) | LPoolGet (t : nat) (src : option nat) | LFormat (t : nat)
  | LLock (t : nat) | LWriteBegin (t : nat) | LWriteEnd (t : nat) | LUnlock (t : nat)
  | LPoolPut (t : nat) | LDrop (t : nat).

  Definition actor (l : label) : nat :=
    match l with
    | LDerive t | LGate t | LPoolGet t _ | LFormat t | LLock t | LWriteBegin t | LWriteEnd t | LUnlock t
    | LPoolPut t | LDrop t => t
    end.

  Definition init_buf : buffer := mkBuf [] 1024.
  Definition max_buf : N := 16384.

  Definition init (prog : list (list instr)) : state :=
    mkState (length prog) (fun t => mkThread (nth t prog []) Idle) 0 (fun _ => init_buf) [] (fun _ => None) [].

  (** which mutex a handler locks *)
  Definition mu_of (f : cflags) (c : list D) : nat := if shares_mu f then 0 else length c.

  (** the Write calls Handle makes for a buffer *)
  Definition chunks (f : cflags) (data : list N) : list (list N) :=
    if single_write f then [data] else [removelast data; [last data 0%N]].

  Definition format_buf (b : buffer) (l : list N) : buffer :=
    let d := bdata b ++ l in
    let need := N.of_nat (length d) in
    mkBuf d (if (need <=? bcap b)%N then bcap b else (need + grow (bcap b) need)%N).

  Definition released (f : cflags) (b : buffer) : buffer :=
    if reset_on_put f then mkBuf [] (bcap b) else b.

  Definition set_thr (s : state) (t : nat) (th : thread) : state :=
    mkState (nthr s) (updf (thr s) t th) (nbufs s) (bufs s) (pool s) (mus s) (dest s).

  Definition step (f : cflags) (s : state) (l : label) : option state :=
    let t := actor l in
    if negb (t <? nthr s) then None else
    let th := thr s t in
    match l, ph th, todo th with
    | LDerive _, Idle, IDerive _ _ :: rest => Some (set_thr s t (mkThread rest Idle))
    | LGate _, Idle, ILog c r :: rest =>
        if enabled r then Some (set_thr s t (mkThread (todo th) (Gated true)))
        else if gate_first f then Some (set_thr s t (mkThread rest Idle))
        else Some (set_thr s t (mkThread (todo th) (Gated false)))
    | LPoolGet _ (Some b), Gated w, _ =>
        if memb b (pool s) then
          Some (mkState (nthr s) (updf (thr s) t (mkThread (todo th) (Got w b))) (nbufs s) (bufs s)
                        (remove1 b (pool s)) (mus s) (dest s))
        else None
    | LPoolGet _ None, Gated w, _ =>
        Some (mkState (nthr s) (updf (thr s) t (mkThread (todo th) (Got w (nbufs s)))) (S (nbufs s))
                      (updf (bufs s) (nbufs s) init_buf) (pool s) (mus s) (dest s))
    | LFormat _, Got w b, ILog c r :: _ =>
        let fb := format_buf (bufs s b) (line c r) in
        if free_after_write f then
          Some (mkState (nthr s) (updf (thr s) t (mkThread (todo th) (Fmt w b))) (nbufs s)
                        (updf (bufs s) b fb) (pool s) (mus s) (dest s))
        else (* freeBuffer before the Write: the buffer is back in the pool while still in use *)
          Some (mkState (nthr s) (updf (thr s) t (mkThread (todo th) (Fmt w b))) (nbufs s)
                        (updf (bufs s) b (released f fb)) (pool s ++ [b]) (mus s) (dest s))
    | LLock _, Fmt true b, ILog c _ :: _ =>
        if write_under_lock f then
          match mus s (mu_of f c) with
          | None => Some (mkState (nthr s) (updf (thr s) t (mkThread (todo th) (Lck b 0))) (nbufs s) (bufs s)
                                  (pool s) (updf (mus s) (mu_of f c) (Some t)) (dest s))
          | Some _ => None
          end
        else Some (set_thr s t (mkThread (todo th) (Lck b 0)))
    | LWriteBegin _, Lck b k, _ =>
        if k <? length (chunks f (bdata (bufs s b))) then Some (set_thr s t (mkThread (todo th) (InW b k))) else None
    | LWriteEnd _, InW b k, _ =>
        Some (mkState (nthr s) (updf (thr s) t (mkThread (todo th) (Lck b (S k)))) (nbufs s) (bufs s) (pool s) (mus s)
                      (dest s ++ [nth k (chunks f (bdata (bufs s b))) []]))
    | LUnlock _, Lck b k, ILog c _ :: _ =>
        if Nat.eqb k (length (chunks f (bdata (bufs s b)))) then
          Some (mkState (nthr s) (updf (thr s) t (mkThread (todo th) (Unl b))) (nbufs s) (bufs s) (pool s)
                        (if write_under_lock f then updf (mus s) (mu_of f c) None else mus s) (dest s))
        else None
    | LPoolPut _, Unl b, _ :: rest | LPoolPut _, Fmt false b, _ :: rest =>
        if free_after_write f then
          if negb (drops_oversized f) || (bcap (bufs s b) <=? max_buf)%N then
            Some (mkState (nthr s) (updf (thr s) t (mkThread rest Idle)) (nbufs s)
                          (updf (bufs s) b (released f (bufs s b))) (pool s ++ [b]) (mus s) (dest s))
          else None
        else Some (set_thr s t (mkThread rest Idle))
    | LDrop _, Unl b, _ :: rest | LDrop _, Fmt false b, _ :: rest =>
        if free_after_write f && drops_oversized f && (max_buf <? bcap (bufs s b))%N then
          Some (set_thr s t (mkThread rest Idle))
        else None
    | _, _, _ => None
    end.

  (** What the destination's Write returns (n, err) is NOT an input of any transition: Handle hands the result
      to its caller and nobody looks at it again.  To make that a statement, schedules may carry a result for
      every label (only meaningful for LWriteEnd); [rstep] ignores it by definition of the model, and
      Properties/C02.v states the theorem for every assignment of results. *)
  Inductive wresult := WOk | WShort (n : nat) | WErr (kind : nat) | WPanic.
  (** [WPanic]: the Write does not return but unwinds (a panic recovered above the logging call). With the
      deferred Unlock and freeBuffer the unwinding runs the very same actions as a return, so the model
      continues as after any other Write.  WITHOUT the defer ([unlock_deferred] = false) the call is simply
      over: the chunk was handed over, the mutex stays locked for good and the buffer is lost. *)
  Definition rstep (f : cflags) (s : state) (lr : label * wresult) : option state :=
    match lr with
    | (LWriteEnd t, WPanic) =>
        if unlock_deferred f then step f s (LWriteEnd t)
        else match step f s (LWriteEnd t) with
             | Some s' => Some (set_thr s' t (mkThread (tl (todo (thr s' t))) Idle))
             | None => None
             end
    | (l, _) => step f s l
    end.
  Fixpoint rrun (f : cflags) (s : state) (ls : list (label * wresult)) : option state :=
    match ls with
    | [] => Some s
    | l :: r => match rstep f s l with Some s' => rrun f s' r | None => None end
    end.

  Fixpoint run (f : cflags) (s : state) (ls : list label) : option state :=
    match ls with
    | [] => Some s
    | l :: r => match step f s l with Some s' => run f s' r | None => None end
    end.

  Definition idle_done (th : thread) : bool :=
    match ph th, todo th with Idle, [] => true | _, _ => false end.
  Definition finished (s : state) : bool := forallb (fun t => idle_done (thr s t)) (seq 0 (nthr s)).

  (** *** specification *)
  (** the lines a list of instructions must produce: one per enabled record *)
  Definition lines_of (is : list instr) : list (list N) :=
    flat_map (fun i => match i with ILog c r => if enabled r then [line c r] else [] | IDerive _ _ => [] end) is.
  Definition expected (prog : list (list instr)) : list (list N) := flat_map lines_of prog.

  (** Write calls never overlap: between WriteBegin t and WriteEnd t no other WriteBegin *)
  Fixpoint no_overlap (cur : option nat) (ls : list label) : bool :=
    match ls with
    | [] => true
    | LWriteBegin t :: r => match cur with None => no_overlap (Some t) r | Some _ => false end
    | LWriteEnd t :: r => match cur with Some t' => Nat.eqb t t' && no_overlap None r | None => false end
    | _ :: r => no_overlap cur r
    end.

  Definition count_writes (t : nat) (ls : list label) : nat :=
    length (filter (fun l => match l with LWriteEnd t' => Nat.eqb t t' | _ => false end) ls).
  Definition count_formats (t : nat) (ls : list label) : nat :=
    length (filter (fun l => match l with LFormat t' => Nat.eqb t t' | _ => false end) ls).

  (** *** a deterministic scheduler (for the correspondence check and for witnesses): the next
      label of thread t, taking the first pooled buffer when there is one *)
  Definition next_label (f : cflags) (s : state) (t : nat) : option label :=
    let th := thr s t in
    match ph th, todo th with
    | Idle, IDerive _ _ :: _ => Some (LDerive t)
    | Idle, ILog _ _ :: _ => Some (LGate t)
    | Idle, [] => None
    | Gated _, _ => Some (LPoolGet t (match pool s with b :: _ => Some b | [] => None end))
    | Got _ _, _ => Some (LFormat t)
    | Fmt true _, _ => Some (LLock t)
    | Fmt false b, _ | Unl b, _ =>
        if free_after_write f && drops_oversized f && (max_buf <? bcap (bufs s b))%N then Some (LDrop t) else Some (LPoolPut t)
    | Lck b k, _ => if k <? length (chunks f (bdata (bufs s b))) then Some (LWriteBegin t) else Some (LUnlock t)
    | InW _ _, _ => Some (LWriteEnd t)
    end.

  (** round robin with [fuel] rounds; a thread whose next label is disabled (waiting for the mutex) is skipped *)
  Fixpoint sched_round (f : cflags) (s : state) (ts : list nat) (acc : list label) : state * list label :=
    match ts with
    | [] => (s, acc)
    | t :: r =>
        match next_label f s t with
        | Some l => match step f s l with
                    | Some s' => sched_round f s' r (acc ++ [l])
                    | None => sched_round f s r acc
                    end
        | None => sched_round f s r acc
        end
    end.
  Fixpoint sched_rr (f : cflags) (fuel : nat) (s : state) (acc : list label) : state * list label :=
    match fuel with
    | O => (s, acc)
    | S k => if finished s then (s, acc)
             else let (s', acc') := sched_round f s (seq 0 (nthr s)) acc in sched_rr f k s' acc'
    end.
End Conc.

Arguments ILog {D R}.
Arguments IDerive {D R}.

(** *** Source facts -> model flags (gen/loggerfacts conc, one record per handler type) *)
Record conc_facts := mkConcFacts {
  hf_single_write : bool;      (* Handle: exactly one h.out.Write( *buf), no other use of h.out *)
  hf_write_under_lock : bool;  (* … lexically after h.outMu.Lock(), with defer h.outMu.Unlock() before it or Unlock after it *)
  hf_clone_shares_mu : bool;   (* clone(): outMu: h.outMu *)
  hf_buf_from_pool : bool;     (* buf := newBuffer() *)
  hf_free_deferred : bool;     (* defer freeBuffer(buf), and no other release *)
  hf_handle_readonly : bool;   (* Handle assigns to no field of the handler *)
  ff_reset_before_put : bool;  (* freeBuffer: buf = ( *buf)[:0] before bufferPool.Put(buf) *)
  ff_refuses_oversized : bool; (* … inside `if cap( *buf) <= maxBufferSize` *)
  ff_pool_new_empty : bool;    (* bufferPool.New: make([]byte, 0, n) *)
  lf_gate_first : bool;        (* log, logf, logAttrs start with `if !l.h.Enabled(level) { return nil }` *)
  of_level_stored : bool;      (* NewOptions stores its level argument unchanged *)
  of_enabled_is_ge : bool;     (* Options.Enabled is `l >= opts.level` *)
  hf_mu_out_immutable : bool;  (* no method of the handler type assigns outMu or out *)
  hf_unlock_deferred : bool    (* the Unlock is a `defer` placed before the Write (not an explicit call after it) *)
}.
Definition conc_flags (x : conc_facts) : cflags :=
  mkCF (hf_single_write x) (hf_write_under_lock x) (hf_clone_shares_mu x && hf_mu_out_immutable x)
       (ff_reset_before_put x && ff_pool_new_empty x) (ff_refuses_oversized x) (lf_gate_first x)
       (hf_buf_from_pool x && hf_free_deferred x) (hf_unlock_deferred x).
(** the last two facts tie the model's gate predicate to [level_enabled threshold] with the threshold the caller configured *)
Definition conc_discipline (x : conc_facts) : bool :=
  discipline (conc_flags x) && hf_handle_readonly x && of_level_stored x && of_enabled_is_ge x.
