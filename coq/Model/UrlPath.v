(** Model of util/fsutil ResolveUrlPath (POSIX):

      if rawUrlPath == "" || rawUrlPath[0] != '/' { rawUrlPath = "/" + rawUrlPath }
      return filepath.Join(baseFilePath, filepath.FromSlash(path.Clean(rawUrlPath)))

    [filepath.FromSlash] is the identity where the separator is '/'. *)
From Coq Require Import List NArith Bool.
Import ListNotations.
From Glb Require Import Lib.GoPath.
Open Scope N_scope.

Definition force_slash (p : list N) : list N := if is_rooted p then p else 47 :: p.

Definition resolve (base p : list N) : list N := join base (clean (force_slash p)).
