(** Model of util/osutil CopyFile / MoveFile over a small file system.

    File system: directory entries ("slots", one per distinct path; two spellings of one
    path are the same slot) holding nothing, a hard link to an inode, or a symbolic link to
    another slot; inodes holding a regular file's bytes or a directory; per slot the state
    of its parent directory (exists on device d / missing / not a directory), which the
    operations never change.  Which slot a path names, and how slots alias (same slot, a
    symlink chain, two hard links to one inode) is data: the theorems quantify over all of it.

    System calls, as far as CopyFile/MoveFile use them:
      open/stat   follow symlinks (at most [max_links]), need an existing inode
      create      O_CREATE|O_TRUNC: follows symlinks, truncates the *inode* it reaches or
                  makes a new empty file in an empty slot; EISDIR on a directory
      io_copy     reads the source inode as it is *now* and writes it from offset 0
      rename      does not follow a final symlink; EXDEV across devices; success without
                  effect when both slots are the same or link the same inode; replaces a
                  file/symlink destination; errors on a directory destination
      remove      unlinks the slot itself
    Faults: every system call CopyFile/MoveFile make has a call site ([site]); a fault oracle
    [faults = site -> choice] decides per site whether the call behaves normally ([Pass]), fails
    without effect ([Fail e]: EACCES, EIO, ENOSPC, EINTR ...), or — for the data copy — stores only
    the first [n] bytes and then fails ([Short n e]).  The theorems quantify over the oracle.
    Outside the model (the property is partial there): concurrent modification by other
    processes, crash consistency. *)
From Coq Require Import List NArith Bool.
Import ListNotations.
Open Scope N_scope.

Inductive node := File (c : list N) | Dir.
Inductive slotv := Empty | Link (i : N) | Sym (e : N).
Inductive pstatus := POk (d : N) | PMissing | PNotDir.
Inductive err := ENOENT | ENOTDIR | EISDIR | EXDEV | ELOOP | ESAMEFILE | EIO | ENOSPC | EACCES | EEXIST.
Inductive res (A : Type) := Ok (a : A) | Err (e : err).
Arguments Ok {A} a.
Arguments Err {A} e.

(** fault oracle *)
Inductive site := SRename | SOpen | SFstat | SStatDst | SCreate | SCopy | SRemove | STmpRename | STmpRemove | SMoveAlias.
Inductive choice := Pass | Fail (e : err) | Short (n : nat) (e : err).
Definition faults := site -> choice.
Definition no_faults : faults := fun _ => Pass.

(** a call that either behaves as specified or fails without any effect *)
Definition faulty {A : Type} (ch : choice) (r : res A) : res A :=
  match ch with Pass => r | Fail e => Err e | Short _ e => Err e end.

Record fs := mkFs {
  slot : N -> slotv;
  inode : N -> option node;
  next : N;                 (* inode numbers >= next are unused *)
  parent : N -> pstatus
}.

Definition upd {A : Type} (f : N -> A) (k : N) (v : A) : N -> A := fun x => if x =? k then v else f x.

Definition set_inode (s : fs) (i : N) (n : node) : fs :=
  mkFs (slot s) (upd (inode s) i (Some n)) (next s) (parent s).
Definition set_slot (s : fs) (e : N) (v : slotv) : fs :=
  mkFs (upd (slot s) e v) (inode s) (next s) (parent s).

(** path resolution: follow symbolic links, every directory on the way must exist *)
Fixpoint follow (fuel : nat) (s : fs) (e : N) : res N :=
  match parent s e with
  | PMissing => Err ENOENT
  | PNotDir => Err ENOTDIR
  | POk _ =>
      match slot s e with
      | Sym e' => match fuel with O => Err ELOOP | S n => follow n s e' end
      | _ => Ok e
      end
  end.
Definition max_links : nat := 40.
Definition resolve (s : fs) (p : N) : res N := follow max_links s p.

(** os.Stat / the identity os.SameFile compares (inode numbers are unique over all devices here) *)
Definition stat (s : fs) (p : N) : res N :=
  match resolve s p with
  | Err e => Err e
  | Ok e =>
      match slot s e with
      | Link i => match inode s i with Some _ => Ok i | None => Err ENOENT end
      | _ => Err ENOENT
      end
  end.

(** os.Open (read-only; a directory can be opened, reading it fails later) *)
Definition open (s : fs) (p : N) : res N := stat s p.

(** os.Create = OpenFile(O_RDWR|O_CREATE|O_TRUNC) *)
Definition create (s : fs) (p : N) : res (fs * N) :=
  match resolve s p with
  | Err e => Err e
  | Ok e =>
      match slot s e with
      | Empty =>
          let n := next s in
          Ok (mkFs (upd (slot s) e (Link n)) (upd (inode s) n (Some (File []))) (N.succ n) (parent s), n)
      | Link i =>
          match inode s i with
          | Some (File _) => Ok (set_inode s i (File []), i)
          | Some Dir => Err EISDIR
          | None => Err ENOENT
          end
      | Sym _ => Err ELOOP
      end
  end.

Definition write_at0 (old c : list N) : list N := c ++ skipn (length c) old.

(** io.Copy(dest, src) on open files: what the source inode holds at this moment is written from
    offset 0; under [Short n e] only its first [n] bytes arrive before the error, under [Fail e] none *)
Definition io_copy (ch : choice) (s : fs) (d si : N) : fs * option err :=
  match inode s si with
  | Some (File c) =>
      match inode s d with
      | Some (File old) =>
          match ch with
          | Pass => (set_inode s d (File (write_at0 old c)), None)
          | Fail e => (s, Some e)
          | Short n e => (set_inode s d (File (write_at0 old (firstn n c))), Some e)
          end
      | _ => (s, Some EIO)
      end
  | Some Dir => (s, Some EISDIR)
  | None => (s, Some EIO)
  end.

Definition is_dir_slot (s : fs) (v : slotv) : bool :=
  match v with
  | Link i => match inode s i with Some Dir => true | _ => false end
  | _ => false
  end.

(** rename(2) *)
Definition rename (s : fs) (e1 e2 : N) : res fs :=
  match parent s e1, parent s e2 with
  | POk d1, POk d2 =>
      match slot s e1 with
      | Empty => Err ENOENT
      | v1 =>
          if negb (d1 =? d2) then Err EXDEV
          else if e1 =? e2 then Ok s
          else
            let same_inode :=
              match v1, slot s e2 with Link i, Link j => i =? j | _, _ => false end in
            if same_inode then Ok s
            else if is_dir_slot s v1 then
              match slot s e2 with
              | Empty => Ok (set_slot (set_slot s e2 v1) e1 Empty)
              | _ => Err ENOTDIR
              end
            else if is_dir_slot s (slot s e2) then Err EISDIR
            else Ok (set_slot (set_slot s e2 v1) e1 Empty)
      end
  | PMissing, _ => Err ENOENT
  | PNotDir, _ => Err ENOTDIR
  | _, PMissing => Err ENOENT
  | _, PNotDir => Err ENOTDIR
  end.

(** os.Remove on a file or symlink (directories are not removed in this model) *)
Definition remove (s : fs) (e : N) : res fs :=
  match parent s e with
  | POk _ =>
      match slot s e with
      | Empty => Err ENOENT
      | v => if is_dir_slot s v then Err EISDIR else Ok (set_slot s e Empty)
      end
  | PMissing => Err ENOENT
  | PNotDir => Err ENOTDIR
  end.

(** ** the two functions under a fault oracle [F]; result [None] = nil error *)

Definition copy_tail (F : faults) (s : fs) (si dst : N) : fs * option err :=
  match faulty (F SCreate) (create s dst) with
  | Err e => (s, Some e)
  | Ok (s1, d) => io_copy (F SCopy) s1 d si
  end.

(** CopyFile as it is now: open, src.Stat, os.Stat(dest) + os.SameFile, create, io.Copy.
    An error of os.Stat(dest) — whatever it is — means "go on" in the code. *)
Definition copy_file_f (F : faults) (s : fs) (src dst : N) : fs * option err :=
  match faulty (F SOpen) (open s src) with
  | Err e => (s, Some e)
  | Ok si =>
      match F SFstat with
      | Pass =>
          match faulty (F SStatDst) (stat s dst) with
          | Ok di => if si =? di then (s, Some ESAMEFILE) else copy_tail F s si dst
          | Err _ => copy_tail F s si dst
          end
      | Fail e => (s, Some e)
      | Short _ e => (s, Some e)
      end
  end.

(** MoveFile: rename, else CopyFile and then Remove *)
Definition move_file_f (F : faults) (s : fs) (src dst : N) : fs * option err :=
  match faulty (F SRename) (rename s src dst) with
  | Ok s1 => (s1, None)
  | Err _ =>
      match copy_file_f F s src dst with
      | (s1, Some e) => (s1, Some e)
      | (s1, None) =>
          match faulty (F SRemove) (remove s1 src) with
          | Ok s2 => (s2, None)
          | Err e => (s1, Some e)
          end
      end
  end.

(** ** the second copy strategy: write a temporary file next to the destination, rename it over the
    destination NAME ("atomic replace").  The destination entry is replaced — a symbolic link or a second
    hard link is not written through — and an existing destination file is never truncated.
    [tmp] is the slot of the temporary name (chosen by the implementation in the destination's
    directory, i.e. [parent s tmp = parent s dst] in a faithful instance; the guarantees do not depend on it). *)

(** OpenFile(O_WRONLY|O_CREATE|O_EXCL): does not follow a symbolic link, fails if the entry exists *)
Definition create_excl (s : fs) (t : N) : res (fs * N) :=
  match parent s t with
  | POk _ =>
      match slot s t with
      | Empty =>
          let n := next s in
          Ok (mkFs (upd (slot s) t (Link n)) (upd (inode s) n (Some (File []))) (N.succ n) (parent s), n)
      | _ => Err EEXIST
      end
  | PMissing => Err ENOENT
  | PNotDir => Err ENOTDIR
  end.

(** best-effort removal of the temporary file on a failure path: when it fails the file stays behind *)
Definition cleanup (F : faults) (s : fs) (t : N) : fs :=
  match faulty (F STmpRemove) (remove s t) with Ok s' => s' | Err _ => s end.

Definition replace_tail (F : faults) (s : fs) (si dst tmp : N) : fs * option err :=
  match faulty (F SCreate) (create_excl s tmp) with
  | Err e => (s, Some e)
  | Ok (s1, d) =>
      match io_copy (F SCopy) s1 d si with
      | (s2, Some e) => (cleanup F s2 tmp, Some e)
      | (s2, None) =>
          match faulty (F STmpRename) (rename s2 tmp dst) with
          | Ok s3 => (s3, None)
          | Err e => (cleanup F s2 tmp, Some e)
          end
      end
  end.

(** CopyFile, replace strategy: open, src.Stat, os.Stat(dest) + os.SameFile as before, then temp + rename *)
Definition copy_replace_f (F : faults) (s : fs) (src dst tmp : N) : fs * option err :=
  match faulty (F SOpen) (open s src) with
  | Err e => (s, Some e)
  | Ok si =>
      match F SFstat with
      | Pass =>
          match faulty (F SStatDst) (stat s dst) with
          | Ok di => if si =? di then (s, Some ESAMEFILE) else replace_tail F s si dst tmp
          | Err _ => replace_tail F s si dst tmp
          end
      | Fail e => (s, Some e)
      | Short _ e => (s, Some e)
      end
  end.

(** MoveFile on top of it: rename, else copy (replace strategy) and then Remove *)
Definition move_replace_f (F : faults) (s : fs) (src dst tmp : N) : fs * option err :=
  match faulty (F SRename) (rename s src dst) with
  | Ok s1 => (s1, None)
  | Err _ =>
      match copy_replace_f F s src dst tmp with
      | (s1, Some e) => (s1, Some e)
      | (s1, None) =>
          match faulty (F SRemove) (remove s1 src) with
          | Ok s2 => (s2, None)
          | Err e => (s1, Some e)
          end
      end
  end.

(** ** the second alias policy: when the destination IS the source (os.SameFile), CopyFile may refuse
    (as above: ESAMEFILE) or do nothing and report success — the destination already holds the source's
    bytes.  [alias_noop] puts that policy in front of either copy strategy [k]: the same three calls
    (open, src.Stat, os.Stat(dest)) under the same oracle; if they show an alias the result is nil and
    nothing is touched, otherwise [k] runs (and finds no alias either). *)
Definition alias_noop (F : faults) (s : fs) (src dst : N) (k : fs * option err) : fs * option err :=
  match faulty (F SOpen) (open s src) with
  | Ok si =>
      match F SFstat with
      | Pass =>
          match faulty (F SStatDst) (stat s dst) with
          | Ok di => if si =? di then (s, None) else k
          | Err _ => k
          end
      | _ => k
      end
  | Err _ => k
  end.

Definition copy_file_n (F : faults) (s : fs) (src dst : N) : fs * option err :=
  alias_noop F s src dst (copy_file_f F s src dst).
Definition copy_replace_n (F : faults) (s : fs) (src dst tmp : N) : fs * option err :=
  alias_noop F s src dst (copy_replace_f F s src dst tmp).

(** MoveFile over a no-op CopyFile must not go on to remove the source when the destination names it:
    after a failed rename it tests for the alias itself (os.Stat of both paths + os.SameFile; a failing
    Stat skips the test, site [SMoveAlias]) and returns the rename error. *)
Definition alias_check (F : faults) (s : fs) (src dst : N) : bool :=
  match faulty (F SMoveAlias) (stat s src), faulty (F SMoveAlias) (stat s dst) with
  | Ok a, Ok b => a =? b
  | _, _ => false
  end.

Definition move_n (copy : fs * option err) (F : faults) (s : fs) (src dst : N) : fs * option err :=
  match faulty (F SRename) (rename s src dst) with
  | Ok s1 => (s1, None)
  | Err re =>
      if alias_check F s src dst then (s, Some re)
      else
        match copy with
        | (s1, Some e) => (s1, Some e)
        | (s1, None) =>
            match faulty (F SRemove) (remove s1 src) with
            | Ok s2 => (s2, None)
            | Err e => (s1, Some e)
            end
        end
  end.
Definition move_file_n (F : faults) (s : fs) (src dst : N) : fs * option err :=
  move_n (copy_file_n F s src dst) F s src dst.
Definition move_replace_n (F : faults) (s : fs) (src dst tmp : N) : fs * option err :=
  move_n (copy_replace_n F s src dst tmp) F s src dst.

(** without faults *)
Definition copy_file (s : fs) (src dst : N) : fs * option err := copy_file_f no_faults s src dst.
Definition move_file (s : fs) (src dst : N) : fs * option err := move_file_f no_faults s src dst.

(** CopyFile before the repair (no same-file test): open, create, io.Copy; no faults *)
Definition copy_file_old (s : fs) (src dst : N) : fs * option err :=
  match open s src with
  | Err e => (s, Some e)
  | Ok si => copy_tail no_faults s si dst
  end.

(** what a path reads as: the bytes of the regular file it resolves to *)
Definition read_path (s : fs) (p : N) : option (list N) :=
  match stat s p with
  | Ok i => match inode s i with Some (File c) => Some c | _ => None end
  | Err _ => None
  end.

(** inode numbers at or above [next] are unused *)
Definition wf (s : fs) : Prop := forall j, next s <= j -> inode s j = None.
