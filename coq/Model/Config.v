(** Model of package config: NewFlagSet / parseStructFields, Parse (argParse, envParse, the
    -config path, parseConfigJson, the final flags loop) and strutil.Underscore (env names).

    Outside the model, entering as oracles of a [world] (every theorem quantifies over all
    worlds): the process environment, the file system, base64 decoding of CFG_CONFIG_B64,
    encoding/json (NOT modelled: [w_json data] is the partial map  flag name -> value  that
    json.Unmarshal assigns into the struct for these bytes, or an error), and the
    standard-library value parsers outside the sub-language of Model/FlagValue.v. *)
From Coq Require Import List NArith ZArith Bool.
Import ListNotations.
From Glb Require Import Lib.ArgGrammar Model.ArgParse Model.FlagValue.
Open Scope N_scope.

(** * strutil.Underscore, byte for byte *)
Inductive ulast := LInitial | LUpper | LLower | LNotAlnum.

Definition is_lower (c : N) : bool := (97 <=? c) && (c <=? 122).
Definition is_upper (c : N) : bool := (65 <=? c) && (c <=? 90).
Definition is_digit (c : N) : bool := (48 <=? c) && (c <=? 57).

Definition is_not_alnum (l : ulast) : bool := match l with LNotAlnum => true | _ => false end.
Definition is_lower_or_not_alnum (l : ulast) : bool := match l with LNotAlnum | LLower => true | _ => false end.
(** i+1 < len(s) && 'a' <= s[i+1] && s[i+1] <= 'z' *)
Definition next_is_lower (r : list N) : bool := match r with c :: _ => is_lower c | [] => false end.

(** the loop body; [nonempty] is len(buf) > 0, the result is what gets appended to buf from here on *)
Fixpoint underscore_from (s : list N) (upper : bool) (last : ulast) (nonempty : bool) : list N :=
  match s with
  | [] => []
  | c :: r =>
      if is_lower c then
        let c' := if upper then c - 32 else c in
        if nonempty && is_not_alnum last then 95 :: c' :: underscore_from r upper LLower true
        else c' :: underscore_from r upper LLower true
      else if is_upper c then
        let c' := if upper then c else c + 32 in
        if nonempty && is_lower_or_not_alnum last then 95 :: c' :: underscore_from r upper LUpper true
        else if nonempty && next_is_lower r then 95 :: c' :: underscore_from r upper LUpper true
        else c' :: underscore_from r upper LUpper true
      else if is_digit c then
        if nonempty && is_not_alnum last then 95 :: c :: underscore_from r upper LInitial true
        else c :: underscore_from r upper LInitial true
      else underscore_from r upper LNotAlnum nonempty
  end.

Definition underscore (s : list N) (upper : bool) : list N := underscore_from s upper LInitial false.

(** * Flags *)
Record flag := {
  fname : token;     (* name on the command line *)
  fpath : list N;    (* group + Go field name, e.g. "Server_Addr"; [] for the built-ins (Env == "") *)
  fkind : kind;
  fdef : list N      (* tag default text *)
}.

Definition cfg_prefix : list N := [67; 70; 71; 95].                                            (* "CFG_" *)
Definition b64_env_name : list N := [67;70;71;95;67;79;78;70;73;71;95;66;54;52].               (* "CFG_CONFIG_B64" *)
Definition help_name : token := [104; 101; 108; 112].
Definition config_name : token := [99; 111; 110; 102; 105; 103].

(** Flag.Env *)
Definition fenv (f : flag) : list N :=
  match fpath f with [] => [] | p => underscore (cfg_prefix ++ p) true end.

Definition flagset := list flag.

Definition builtins : flagset :=
  [ {| fname := help_name; fpath := []; fkind := KBool; fdef := [102; 97; 108; 115; 101] |};
    {| fname := config_name; fpath := []; fkind := KString; fdef := [] |} ].

Definition table_of (fs : flagset) : flagtable := map (fun f => (fname f, is_bool_kind (fkind f))) fs.

(** the struct fields (and the two built-in values): a finite map  flag name -> current value *)
Definition state := list (token * value).

Fixpoint get (st : state) (n : token) : option value :=
  match st with
  | [] => None
  | (m, v) :: r => if bytes_eqb m n then Some v else get r n
  end.

Fixpoint put (st : state) (n : token) (v : value) : state :=
  match st with
  | [] => [(n, v)]
  | (m, w) :: r => if bytes_eqb m n then (m, v) :: r else (m, w) :: put r n v
  end.

Definition defined (fs : flagset) (n : token) : bool := existsb (fun g => bytes_eqb (fname g) n) fs.

Definition starts_with_dash (n : token) : bool := match n with c :: _ => c =? 45 | [] => false end.

(** * parseStructFieldTag and the field recursion of parseStructFields *)

(** s[:pos], s[pos+1:] for pos = strings.IndexByte(s, sep); [None] when sep does not occur *)
Fixpoint cut (sep : N) (s : list N) : option (list N * list N) :=
  match s with
  | [] => None
  | c :: r =>
      if c =? sep then Some ([], r)
      else match cut sep r with
           | Some (a, b) => Some (c :: a, b)
           | None => None
           end
  end.

(** strings.ToLower for ASCII field names (Go field names outside ASCII are not modelled) *)
Definition ascii_lower (s : list N) : list N := map (fun c => if is_upper c then c + 32 else c) s.

(** the part of parseStructFieldTag after the separator is known:
     if pos := IndexByte(name, sep); pos >= 0 { value = name[pos+1:]; name = name[:pos];
        if pos = IndexByte(value, sep); pos >= 0 { usage = value[pos+1:]; value = value[:pos] } }
     if name == "" { name = strings.ToLower(field.Name) } *)
Definition split_tag (sep : N) (name : list N) (field_name : list N) : list N * list N * list N :=
  let '(name, value, usage) :=
    match cut sep name with
    | Some (n, v) => match cut sep v with
                     | Some (v', u) => (n, v', u)
                     | None => (n, v, [])
                     end
    | None => (name, [], [])
    end in
  ((match name with [] => ascii_lower field_name | _ => name end), value, usage).

(** parseStructFieldTag: [tag] is field.Tag.Get("flag"); result (name, value, usage).
     name = tag; sep := ','; if name != "" && name[0] == '|' { name = name[1:]; sep = '|' } *)
Definition parse_tag (tag : list N) (field_name : list N) : list N * list N * list N :=
  match tag with
  | c :: r => if c =? 124 then split_tag 124 r field_name else split_tag 44 tag field_name
  | [] => split_tag 44 [] field_name
  end.

(** the exported fields of a struct type, as parseStructFields sees them *)
Inductive sfield :=
| SLeaf (go_name : list N) (tag : list N) (k : kind)       (* a field of one of the nine kinds *)
| SStruct (go_name : list N) (fields : list sfield).       (* field.Type.Kind() == reflect.Struct (named or embedded) *)

Definition flag_of_field (group go_name tag : list N) (k : kind) : flag :=
  let '(name, value, _) := parse_tag tag go_name in
  {| fname := name; fpath := group ++ go_name; fkind := k; fdef := value |}.

(** the flags in the order parseStructFields registers them; nested: group + field.Name + "_" *)
Fixpoint flatten_field (group : list N) (f : sfield) : list flag :=
  match f with
  | SLeaf n tag k => [flag_of_field group n tag k]
  | SStruct n fs =>
      (fix go (l : list sfield) : list flag :=
         match l with
         | [] => []
         | x :: r => flatten_field (group ++ n ++ [95]) x ++ go r
         end) fs
  end.

Definition flatten (fs : list sfield) : list flag := flat_map (flatten_field []) fs.

(** * NewFlagSet *)
Inductive nres := NOk (fs : flagset) (st : state) | NErr.

(** parseStructFields over the (flattened) exported non-struct fields, in order *)
Fixpoint add_fields (o : oracle) (fields : list flag) (fs : flagset) (st : state) : nres :=
  match fields with
  | [] => NOk fs st
  | f :: r =>
      if starts_with_dash (fname f) then NErr            (* flag name begins with - *)
      else if mem 61 (fname f) then NErr                 (* flag name contains = *)
      else if defined fs (fname f) then NErr             (* flag name redefined *)
      else match set_T o (fkind f) (fdef f) with         (* newFlagValue: value.Set(defValue) *)
           | SErr => NErr
           | SOk v => add_fields o r (fs ++ [f]) (put st (fname f) v)
           end
  end.

Definition new_flag_set (o : oracle) (fields : list flag) : nres :=
  add_fields o fields builtins [(help_name, VBool false); (config_name, VString [])].

(** * Parse *)
Record world := {
  w_env : list N -> option (list N);                     (* os.LookupEnv *)
  w_file : list N -> option (list N);                    (* os.ReadFile(ExpandHomeDir(path)) in the CURRENT world: the '~' expansion (HOME), the working
                                                            directory and the file system are all part of this oracle; None = error *)
  w_b64 : list N -> option (list N);                     (* base64.StdEncoding.DecodeString; None = error *)
  w_json : list N -> option (list (token * value));      (* JsonUnmarshal: the assignments it makes; None = error *)
  w_set : oracle                                         (* value parsers outside the modelled sub-language *)
}.

Inductive presult :=
| POk (st : state) (rest : list token)
| PArgErr (e : err)          (* argParse error *)
| PErr                       (* Value.Set error, file / base64 / JSON error *)
| PAlready                   (* config: Parse() must be called once *)
| PPanic.

(** flg.ArgValue after argParse, flg.EnvValue after envParse *)
Definition cli_of (asg : list (token * token)) (f : flag) : option (list N) := final_value asg (fname f).
Definition env_of (w : world) (f : flag) : option (list N) :=
  match fenv f with [] => None | e => w_env w e end.      (* if flg.Env == "" { continue } *)

Fixpoint ov_lookup (ov : list (token * value)) (n : token) : option value :=
  match ov with
  | [] => None
  | (m, v) :: r => if bytes_eqb m n then Some v else ov_lookup r n
  end.

(** what the JSON assigns to the field of flag [f]; the built-ins are not struct fields *)
Definition json_of (ov : list (token * value)) (f : flag) : option value :=
  match fpath f with [] => None | _ => ov_lookup ov (fname f) end.

Definition apply_overlay (fs : flagset) (ov : list (token * value)) (st : state) : state :=
  fold_left (fun st f => match json_of ov f with Some v => put st (fname f) v | None => st end) fs st.

Inductive jres := JNone | JErr | JData (d : list N).

(** parseConfigJson up to the bytes: the file named by valueConfigPath, else CFG_CONFIG_B64 *)
Definition json_data (w : world) (st : state) : jres :=
  match get st config_name with
  | Some (VString (c :: p)) =>
      match w_file w (c :: p) with Some d => JData d | None => JErr end
  | _ =>
      match w_env w b64_env_name with
      | Some s => match w_b64 w s with Some d => JData d | None => JErr end
      | None => JNone
      end
  end.

(** for _, flg := range f.flagList { if ArgValue != nil {Set} else if EnvValue != nil {Set}; if err … } *)
Fixpoint set_flags (w : world) (fs : flagset) (asg : list (token * token)) (st : state) : option state :=
  match fs with
  | [] => Some st
  | f :: r =>
      match (match cli_of asg f with Some t => Some t | None => env_of w f end) with
      | Some t =>
          match set_T (w_set w) (fkind f) t with
          | SOk v => set_flags w r asg (put st (fname f) v)
          | SErr => None
          end
      | None => set_flags w r asg st
      end
  end.

Definition finish (w : world) (fs : flagset) (asg : list (token * token)) (rest : list token) (st : state) : presult :=
  match set_flags w fs asg st with Some s => POk s rest | None => PErr end.

Definition parse (w : world) (fs : flagset) (st0 : state) (args : list token) : presult :=
  match arg_parse (table_of fs) args with
  | Panic => PPanic
  | Err e => PArgErr e
  | Ok asg rest =>
      (* the config path is taken from the command line ONLY: flg.ArgValue of "config" *)
      match (match final_value asg config_name with
             | Some t => match set_T (w_set w) KString t with SOk v => Some (put st0 config_name v) | SErr => None end
             | None => Some st0
             end) with
      | None => PErr
      | Some st1 =>
          match json_data w st1 with
          | JErr => PErr
          | JNone => finish w fs asg rest st1
          | JData d =>
              match w_json w d with
              | None => PErr
              | Some ov => finish w fs asg rest (apply_overlay fs ov st1)
              end
          end
      end
  end.

Inductive rresult := RNewErr | RParse (r : presult).

(** NewFlagSet(&cfg) followed by Parse(args) *)
Definition run (w : world) (fields : list flag) (args : list token) : rresult :=
  match new_flag_set (w_set w) fields with
  | NErr => RNewErr
  | NOk fs st0 => RParse (parse w fs st0 args)
  end.

(** * The FlagSet as an object: histories of Parse calls on ONE FlagSet.
    [ob_parsed] is f.parsed, set at the entry of the first Parse whatever its outcome.  [ob_st]: the
    struct's fields; after a FAILED Parse they are partially assigned — that content is not modelled
    ([None]) — but no later call changes it. *)
Record fsobj := { ob_parsed : bool; ob_fs : flagset; ob_st : option state }.

Definition new_object (o : oracle) (fields : list flag) : option fsobj :=
  match new_flag_set o fields with
  | NOk fs st0 => Some {| ob_parsed := false; ob_fs := fs; ob_st := Some st0 |}
  | NErr => None
  end.

(** one call f.Parse(args) in world [w] *)
Definition parse_call (w : world) (ob : fsobj) (args : list token) : fsobj * presult :=
  if ob_parsed ob then (ob, PAlready)          (* if f.parsed { return errors.New("… must be called once") } *)
  else                                          (* f.parsed = true *)
    match ob_st ob with
    | None => ({| ob_parsed := true; ob_fs := ob_fs ob; ob_st := None |}, PErr)
    | Some st0 =>
        match parse w (ob_fs ob) st0 args with
        | POk s rest => ({| ob_parsed := true; ob_fs := ob_fs ob; ob_st := Some s |}, POk s rest)
        | r => ({| ob_parsed := true; ob_fs := ob_fs ob; ob_st := None |}, r)
        end
    end.

(** successive calls, each in its own world (the environment and the files may change in between) *)
Fixpoint history (ob : fsobj) (calls : list (world * list token)) : list presult :=
  match calls with
  | [] => []
  | (w, a) :: r => let (ob', res) := parse_call w ob a in res :: history ob' r
  end.

(** FromCommandLine(&cfg): NewFlagSet + Parse(os.Args[1:]) (printing the usage and exiting when -help is set is not modelled) *)
Definition from_command_line (w : world) (fields : list flag) (os_args : list token) : rresult :=
  run w fields (tl os_args).

(** NewFlagSet(&cfg) + Parse(args) for a struct type given by its exported fields *)
Definition run_struct (w : world) (fields : list sfield) (args : list token) : rresult := run w (flatten fields) args.

(** * Specification side: which JSON overlay a successful Parse has applied *)
Definition json_overlay (w : world) (asg : list (token * token)) : option (list (token * value)) :=
  match final_value asg config_name with
  | Some (c :: p) => match w_file w (c :: p) with Some d => w_json w d | None => None end
  | _ =>
      match w_env w b64_env_name with
      | Some s => match w_b64 w s with Some d => w_json w d | None => None end
      | None => Some []
      end
  end.

(** the highest-priority source mentioning a flag *)
Inductive source := SrcText (t : list N) | SrcJson (v : value) | SrcDefault.

Definition top_source (cli env : option (list N)) (json : option value) : source :=
  match cli, env, json with
  | Some t, _, _ => SrcText t
  | None, Some t, _ => SrcText t
  | None, None, Some v => SrcJson v
  | None, None, None => SrcDefault
  end.
