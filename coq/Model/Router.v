(** Model of httpd/tree.go (trie router) and of the routing part of httpd/httpd.go and
    httpd/store.go, function by function.  Executable, total, proof-free.

    Go's partial operations (index, slice) return [option]; [None] propagates as
    "the goroutine panics", so that panic-freedom is a theorem (Properties/C04.v).

    The trie: [treeNode{next map[string]*treeNode; info *RouteInfo; paramNameList []string}].
    Maps are association lists keyed by RAW byte strings exactly as in Go: a literal path
    segment ("abc"), "/:param", "/:any", or a method tag ("/get" ... "/*").  That the three
    namespaces cannot collide (a segment never contains '/') is not assumed here; it is
    lemma [seg_key_not_special] / [Sem] reasoning in Proofs/RouterP.v.
    [info] is the route id (position in registration order) standing for *RouteInfo.

    Go mutates the trie through a cursor ([node = node.nextNodeOrNew(..)]); the model
    rebuilds the spine functionally: "move the cursor to child k and continue" becomes
    "continue in child k, then store the resulting child under k".  Nodes created before
    an error is detected therefore stay in the returned trie, as in Go. *)
From Coq Require Import List NArith Bool Arith.
Import ListNotations.
From Glb Require Import Lib.RouteBytes.

(** ** Go slices of a string *)
Definition idx (s : bytes) (i : nat) : option N := nth_error s i.            (* s[i] *)
Definition slice (s : bytes) (lo hi : nat) : option bytes :=                 (* s[lo:hi] *)
  if (lo <=? hi) && (hi <=? length s) then Some (firstn (hi - lo) (skipn lo s)) else None.

(** ** Constants of tree.go / httpd.go *)
Definition route_param : bytes := [47;58;112;97;114;97;109]%N.     (* "/:param" *)
Definition route_param_any : bytes := [47;58;97;110;121]%N.        (* "/:any" *)
Definition method_all : bytes := [42]%N.                           (* MethodAll = "*" *)

Definition method_tag_map : list (bytes * bytes) :=
  [ ([71;69;84], [47;103;101;116]);                          (* GET -> /get *)
    ([72;69;65;68], [47;104;101;97;100]);                    (* HEAD -> /head *)
    ([80;79;83;84], [47;112;111;115;116]);                   (* POST -> /post *)
    ([80;85;84], [47;112;117;116]);                          (* PUT -> /put *)
    ([80;65;84;67;72], [47;112;97;116;99;104]);              (* PATCH -> /patch *)
    ([68;69;76;69;84;69], [47;100;101;108;101;116;101]);     (* DELETE -> /delete *)
    ([67;79;78;78;69;67;84], [47;99;111;110;110;101;99;116]);(* CONNECT -> /connect *)
    ([79;80;84;73;79;78;83], [47;111;112;116;105;111;110;115]);(* OPTIONS -> /options *)
    ([84;82;65;67;69], [47;116;114;97;99;101]);              (* TRACE -> /trace *)
    ([42], [47;42]) ]%N.                                      (* * -> /* *)

Fixpoint assoc_get {A} (k : bytes) (m : list (bytes * A)) : option A :=
  match m with
  | [] => None
  | (k', v) :: r => if bytes_eqb k' k then Some v else assoc_get k r
  end.

(** write m[k] = v : replace the binding if present, else add one *)
Fixpoint assoc_set {A} (k : bytes) (v : A) (m : list (bytes * A)) : list (bytes * A) :=
  match m with
  | [] => [(k, v)]
  | (k', v') :: r => if bytes_eqb k' k then (k', v) :: r else (k', v') :: assoc_set k v r
  end.

(** [tag, ok := methodTagMap[m]] *)
Definition method_tag (m : bytes) : option bytes := assoc_get m method_tag_map.
(** [methodTagMap[m]] without the ok: the zero value "" for unknown methods *)
Definition method_tag0 (m : bytes) : bytes :=
  match method_tag m with Some t => t | None => [] end.

(** ** The trie *)
Inductive node := Node (next : list (bytes * node)) (info : option nat) (names : list bytes).
Definition n_next (n : node) := let (x, _, _) := n in x.
Definition n_info (n : node) := let (_, x, _) := n in x.
Definition n_names (n : node) := let (_, _, x) := n in x.

Definition empty_node : node := Node [] None [].                  (* new(treeNode) *)
Definition next_get (nd : node) (k : bytes) : option node := assoc_get k (n_next nd).
Definition set_child (nd : node) (k : bytes) (c : node) : node :=
  Node (assoc_set k c (n_next nd)) (n_info nd) (n_names nd).
(** [nextNodeOrNew]: the child the cursor moves to *)
Definition next_or_new (nd : node) (k : bytes) : node :=
  match next_get nd k with Some c => c | None => empty_node end.

(** [methodNodeOrNil] *)
Definition method_node_or_nil (nd : node) (method : bytes) : option node :=
  match next_get nd (method_tag0 method) with
  | Some res => Some res
  | None => next_get nd (method_tag0 method_all)
  end.

(** the loop header test [right < length && path[right] != '/'] *)
Definition not_sep_at (path : bytes) (right : nat) : option bool :=
  if right <? length path then
    match idx path right with Some c => Some (negb (c =? 47)%N) | None => None end
  else Some false.

(** ** parseRoute *)
Inductive perr := ErrMethod | ErrFragment | ErrDuplicate | ErrRuntimePanic.
Inductive presult := POk (params_cnt : nat) | PErr (e : perr).

(** after the loop: the duplicate test and the new method node *)
Definition parse_finish (nd : node) (mtag : bytes) (info : nat) (names : list bytes) : node * presult :=
  match next_get nd mtag with
  | Some _ => (nd, PErr ErrDuplicate)
  | None => (set_child nd mtag (Node [] (Some info) names), POk (length names))
  end.

(** the loop [for ; right <= length; right++]; [fuel] = iterations left = length+1-right *)
Fixpoint parse_loop (fuel : nat) (nd : node) (path mtag : bytes) (info : nat)
         (left right : nat) (names : list bytes) {struct fuel} : node * presult :=
  match fuel with
  | O => parse_finish nd mtag info names
  | S fuel' =>
    match not_sep_at path right with
    | None => (nd, PErr ErrRuntimePanic)
    | Some true => parse_loop fuel' nd path mtag info left (S right) names      (* continue *)
    | Some false =>
      if right - left <? 2 then                                                 (* skip empty fragment *)
        parse_loop fuel' nd path mtag info right (S right) names
      else
        match slice path (left + 1) right with
        | None => (nd, PErr ErrRuntimePanic)
        | Some frag =>
          if bytes_eqb frag [42%N] then                                         (* "*": break *)
            let (child, res) := parse_finish (next_or_new nd route_param_any) mtag info
                                             (names ++ [route_param_any]) in
            (set_child nd route_param_any child, res)
          else
            match idx path (left + 1) with
            | None => (nd, PErr ErrRuntimePanic)
            | Some c =>
              if (c =? 58)%N then                                               (* ':' *)
                match slice path (left + 2) right with
                | None => (nd, PErr ErrRuntimePanic)
                | Some pname =>
                  if is_nil pname || mem_bytes pname names then (nd, PErr ErrFragment)
                  else
                    let (child, res) := parse_loop fuel' (next_or_new nd route_param) path mtag info
                                                   right (S right) (names ++ [pname]) in
                    (set_child nd route_param child, res)
                end
              else
                let (child, res) := parse_loop fuel' (next_or_new nd frag) path mtag info
                                               right (S right) names in
                (set_child nd frag child, res)
            end
        end
    end
  end.

Definition parse_route (root : node) (path method : bytes) (info : nat) : node * presult :=
  match method_tag method with
  | None => (root, PErr ErrMethod)
  | Some mtag => parse_loop (S (length path)) root path mtag info 0 0 []
  end.

(** ** Params (store.go) *)

(** [Params.V]: only length and capacity matter to the code; the backing array beyond
    [len] is never read ([append]/reslice overwrite the slot they expose). *)
Record vslice := { v_items : list bytes; v_cap : nat }.
Record params := { pK : list bytes; pV : vslice }.

(** [params.V = append(params.V, x)] — in place when it fits, else a bigger array *)
Definition push_append (v : vslice) (x : bytes) : option vslice :=
  Some {| v_items := v_items v ++ [x];
          v_cap := if length (v_items v) <? v_cap v then v_cap v else S (2 * v_cap v) |}.

(** [Params.Get]: [for i := range K { if K[i] == key { return V[i], true } }]; [None] = index panic *)
Fixpoint params_get_at (ks vs : list bytes) (i : nat) (key : bytes) : option (bytes * bool) :=
  match ks with
  | [] => Some ([], false)
  | k :: ks' =>
    if bytes_eqb k key then
      match nth_error vs i with Some v => Some (v, true) | None => None end
    else params_get_at ks' vs (S i) key
  end.
Definition params_get (ps : params) (key : bytes) : option (bytes * bool) :=
  params_get_at (pK ps) (v_items (pV ps)) 0 key.
(** [Store.RouteParam], [Store.RouteParamAny] *)
Definition route_param_of (ps : params) (name : bytes) : option bytes :=
  match params_get ps name with Some (v, _) => Some v | None => None end.
Definition route_param_any_of (ps : params) : option bytes := route_param_of ps route_param_any.

(** ** findRoute *)

(** the loop; result [Some (Some nd, v)] = fell out of the loop (or [break]) at [nd],
    [Some (None, v)] = [return nil], [None] = panic.  [push] is how a value is added to
    [params.V] ([push_append] for the current code). *)
Fixpoint find_loop (push : vslice -> bytes -> option vslice) (fuel : nat) (nd : node) (path : bytes)
         (left right : nat) (v : vslice) {struct fuel} : option (option node * vslice) :=
  match fuel with
  | O => Some (Some nd, v)
  | S fuel' =>
    match not_sep_at path right with
    | None => None
    | Some true => find_loop push fuel' nd path left (S right) v
    | Some false =>
      if (right - left <? 2) && (right <? length path) then       (* skip empty fragment unless last *)
        find_loop push fuel' nd path right (S right) v
      else
        match slice path (left + 1) right with
        | None => None
        | Some frag =>
          match next_get nd frag with
          | Some res => find_loop push fuel' res path right (S right) v
          | None =>
            match next_get nd route_param with
            | Some res =>
              match push v frag with
              | None => None
              | Some v' => find_loop push fuel' res path right (S right) v'
              end
            | None =>
              match next_get nd route_param_any with
              | Some res =>
                match slice path (left + 1) (length path) with
                | None => None
                | Some rem =>
                  match push v rem with
                  | None => None
                  | Some v' => Some (Some res, v')                 (* break *)
                  end
                end
              | None => Some (None, v)                             (* return nil *)
              end
            end
          end
        end
    end
  end.

(** result: the returned [info] ([None] = nil) and the Params afterwards *)
Definition find_route_gen (push : vslice -> bytes -> option vslice)
           (root : node) (path0 method : bytes) (ps : params) : option (option nat * params) :=
  let path := if is_nil path0 then [47%N] else path0 in
  match (if length path =? 1 then method_node_or_nil root method else None) with
  | Some n => Some (n_info n, {| pK := n_names n; pV := pV ps |})
  | None =>
    match find_loop push (S (length path)) root path 0 0 (pV ps) with
    | None => None
    | Some (None, v) => Some (None, {| pK := pK ps; pV := v |})
    | Some (Some nd, v) =>
      match method_node_or_nil nd method with
      | Some n => Some (n_info n, {| pK := n_names n; pV := v |})
      | None => Some (None, {| pK := pK ps; pV := v |})
      end
    end
  end.

Definition find_route := find_route_gen push_append.

(** ** Mux.Handle and the route table *)
Record table := { t_root : node; t_max_params : nat; t_count : nat }.
Definition empty_table : table := {| t_root := empty_node; t_max_params := 0; t_count := 0 |}.

(** [Handle]: [None] = it panicked with parseRoute's error.  The route gets id [t_count]. *)
Definition handle (t : table) (path method : bytes) : option table :=
  match parse_route (t_root t) path method (t_count t) with
  | (root', POk cnt) =>
    Some {| t_root := root'; t_max_params := Nat.max (t_max_params t) cnt; t_count := S (t_count t) |}
  | (_, PErr _) => None
  end.

Fixpoint register_from (t : table) (routes : list (bytes * bytes)) : option table :=
  match routes with
  | [] => Some t
  | (p, m) :: rest =>
    match handle t p m with
    | Some t' => register_from t' rest
    | None => None
    end
  end.
Definition register_all (routes : list (bytes * bytes)) : option table := register_from empty_table routes.

(** [Handle] whose panic is RECOVERED by the caller: the Mux lives on.  parseRoute creates trie nodes before it detects
    a bad [:name], so the rejected route leaves them behind (no info attached); counters are unchanged. *)
Definition handle_attempt (t : table) (path method : bytes) : table :=
  match parse_route (t_root t) path method (t_count t) with
  | (root', POk cnt) =>
    {| t_root := root'; t_max_params := Nat.max (t_max_params t) cnt; t_count := S (t_count t) |}
  | (root', PErr _) =>
    {| t_root := root'; t_max_params := t_max_params t; t_count := t_count t |}
  end.
Fixpoint attempts_from (t : table) (routes : list (bytes * bytes)) : table :=
  match routes with
  | [] => t
  | (p, m) :: rest => attempts_from (handle_attempt t p m) rest
  end.
(** the table after these registration attempts, accepted or rejected, in order *)
Definition register_attempts (routes : list (bytes * bytes)) : table := attempts_from empty_table routes.

(** ** ServeHTTP, routing part: one relay call with the found info or the no-route info *)
Inductive target := Route (r : nat) | NoRoute.
Inductive event := Call (t : target) (ps : params).

Definition fresh_params (max_params : nat) : params :=
  {| pK := []; pV := {| v_items := []; v_cap := max_params |} |}.

Definition serve_http (t : table) (path method : bytes) : option (list event) :=
  match find_route (t_root t) path method (fresh_params (t_max_params t)) with
  | None => None
  | Some (info, ps) => Some [Call (match info with Some r => Route r | None => NoRoute end) ps]
  end.
