(** Model of daemon.Launch / launch / Done (daemon/daemon.go): three processes — the caller of
    Launch, the launcher it starts, the daemon the launcher starts — and the launcher's
    disposition for SIGINT.

    The launcher's program is not written here: it is the list of [action]s extracted from
    the source of [func launch] (gen/glbfacts launch), interpreted by [step_launcher].

    - [ANotify]    signal.Notify(interrupt, os.Interrupt) on a channel with capacity >= 1, listening for the
                   signal Done() sends: from now on SIGINT is put into the channel (the extractor checks
                   capacity, signal set and Done()'s signal)
    - [ANotifyUnbuffered] the same on an unbuffered channel: os/signal never blocks, so a signal that arrives
                   while the launcher is not parked in its select is dropped (never well-formed; kept in the
                   model to show what goes wrong: [unbuffered_notify_deadlocks])
    - [AStart]     cmd.Start(): the daemon process exists, its parent is the launcher
    - [AWritePid]  binary.Write(os.Stdout, pid)
    - [ASpawnWait] go func() { cmd.Wait(); close(finished) }()
    - [ASelect]    select { case <-finished: case <-interrupt: }; afterwards launch returns and the process exits

    The daemon is [Marker; delay steps; Done; Continue forever]: it does something observable
    (the marker), takes any number of steps, calls Done() = SIGINT to its parent, and lives on.
    SIGINT delivered to a launcher without handler kills it: cmd.Run() in the caller then
    returns an error and Launch fails although the daemon is running.

    Interleaving semantics: a schedule is any list of [label]s; each label is one atomic step
    of one process ([Deliver] is the kernel delivering a pending signal to the launcher). *)
From Coq Require Import List Bool Arith NArith String Ascii.
Import ListNotations.

(** what the extractor could not recognise, as bytes; the extractor prints [AUnknown "…"] and the
    string literal is read through this coercion (strings themselves are never extracted) *)
Definition ubytes := list N.
Definition bytes_of_string (s : string) : ubytes := map N_of_ascii (list_ascii_of_string s).
Coercion bytes_of_string : string >-> ubytes.

Inductive action := ANotify | AStart | AWritePid | ASpawnWait | ASelect | AUnknown (what : ubytes)
                  | ANotifyUnbuffered.

Definition pid := nat.
Definition pid_init : pid := 1.      (* init or a subreaper: whoever adopts orphans *)
Definition pid_caller : pid := 100.
Definition pid_launcher : pid := 101.
Definition pid_daemon : pid := 102.

(** launcher: not started / running / exited normally / ended abnormally (killed by the signal, or crashed) *)
Inductive lstatus := LNone | LRun | LExited | LAbnormal.
Inductive dprog := DMarker | DDelay (k : nat) | DDone | DCont.
Inductive err := ErrRun       (* "start launcher: …": cmd.Run() returned an error *)
               | ErrStderr    (* the launcher wrote to stderr *)
               | ErrStdout.   (* no pid on the launcher's stdout *)
Inductive outcome := Returned (p : pid) | Failed (e : err).
Inductive cstatus := CInit | CWait | CRet (o : outcome) | CExit (o : outcome).

Record state := mkSt {
  caller : cstatus;
  (* launcher *)
  lst : lstatus; lpc : list action;
  handler : bool;            (* signal.Notify done *)
  sigchan : bool;            (* a signal sits in the (buffered, size 1) channel *)
  pending : bool;            (* SIGINT generated for the launcher, not yet delivered *)
  stdout : option pid; stderr : bool; waiter : bool;
  selected : bool;           (* the launcher has passed its select *)
  unbuf : bool;              (* the Notify channel is unbuffered *)
  (* daemon *)
  dalive : bool; dpc : dprog; dparent : pid;
  marker : bool; done : bool;
  (* what was true at the moment Launch returned *)
  ret_marker : bool; ret_done : bool
}.

Definition init : state :=
  mkSt CInit LNone [] false false false None false false false false false DMarker pid_init false false false false.

Inductive label := StepCaller | StepLauncher | StepDaemon | Deliver.

(** Launch's rule once the launcher is gone *)
Definition launch_result (l : lstatus) (so : option pid) (se : bool) : outcome :=
  match l with
  | LExited => if se then Failed ErrStderr
               else match so with Some p => Returned p | None => Failed ErrStdout end
  | _ => Failed ErrRun
  end.

Definition step_caller (acts : list action) (s : state) : option state :=
  let '(mkSt c l pc h ch pe so se w sl ub da dp pa m d rm rd) := s in
  match c with
  | CInit => Some (mkSt CWait LRun acts h ch pe so se w sl ub da dp pa m d rm rd)
  | CWait => match l with
             | LExited | LAbnormal => Some (mkSt (CRet (launch_result l so se)) l pc h ch pe so se w sl ub da dp pa m d m d)
             | _ => None                     (* cmd.Run() blocks while the launcher runs *)
             end
  | CRet o => Some (mkSt (CExit o) l pc h ch pe so se w sl ub da dp pa m d rm rd)
  | CExit _ => None
  end.

Definition step_launcher (s : state) : option state :=
  let '(mkSt c l pc h ch pe so se w sl ub da dp pa m d rm rd) := s in
  match l with
  | LRun =>
      match pc with
      | [] => (* launch returned, os.Exit(0); the daemon is re-parented *)
          Some (mkSt c LExited [] h ch pe so se w sl ub da dp pid_init m d rm rd)
      | ANotify :: r => Some (mkSt c l r true ch pe so se w sl ub da dp pa m d rm rd)
      | AStart :: r =>
          if da then Some (mkSt c l r h ch pe so se w sl ub da dp pa m d rm rd)
          else Some (mkSt c l r h ch pe so se w sl ub true DMarker pid_launcher m d rm rd)
      | AWritePid :: r =>
          if da then Some (mkSt c l r h ch pe (Some pid_daemon) se w sl ub da dp pa m d rm rd)
          else (* cmd.Process is nil: panic *) Some (mkSt c LAbnormal r h ch pe so se w sl ub da dp pid_init m d rm rd)
      | ASpawnWait :: r =>
          (* cmd.Wait() on a command that was not started returns an error, which is written to stderr *)
          Some (mkSt c l r h ch pe so (se || negb da) true sl ub da dp pa m d rm rd)
      | ASelect :: r =>
          (* the daemon of this model never exits, so [finished] is never closed *)
          if ch then Some (mkSt c l r h false pe so se w true ub da dp pa m d rm rd) else None
      | AUnknown _ :: r => Some (mkSt c l r h ch pe so se w sl ub da dp pa m d rm rd)
      | ANotifyUnbuffered :: r => Some (mkSt c l r true ch pe so se w sl true da dp pa m d rm rd)
      end
  | _ => None
  end.

(** the kernel delivers the pending SIGINT: to the handler (Go runtime -> channel), or it kills *)
Definition at_select (pc : list action) : bool :=
  match pc with ASelect :: _ => true | _ => false end.

Definition step_deliver (s : state) : option state :=
  let '(mkSt c l pc h ch pe so se w sl ub da dp pa m d rm rd) := s in
  match l with
  | LRun => if pe then
              if h then
                (* buffered: the signal waits in the channel; unbuffered: handed over only to a launcher that is
                   parked in its select at this moment, dropped otherwise *)
                Some (mkSt c l pc h (ch || negb ub || at_select pc) false so se w sl ub da dp pa m d rm rd)
              else Some (mkSt c LAbnormal pc h ch false so se w sl ub da dp pid_init m d rm rd)
            else None
  | _ => None
  end.

Definition step_daemon (delay : nat) (s : state) : option state :=
  let '(mkSt c l pc h ch pe so se w sl ub da dp pa m d rm rd) := s in
  if da then
    match dp with
    | DMarker => Some (mkSt c l pc h ch pe so se w sl ub da (DDelay delay) pa true d rm rd)
    | DDelay (S k) => Some (mkSt c l pc h ch pe so se w sl ub da (DDelay k) pa m d rm rd)
    | DDelay O => Some (mkSt c l pc h ch pe so se w sl ub da DDone pa m d rm rd)
    | DDone => (* Done(): SIGINT to getppid(); after re-parenting that is init, which ignores it *)
        Some (mkSt c l pc h ch (pe || Nat.eqb pa pid_launcher) so se w sl ub da DCont pa m true rm rd)
    | DCont => Some s
    end
  else None.

Definition step (acts : list action) (delay : nat) (s : state) (l : label) : option state :=
  match l with
  | StepCaller => step_caller acts s
  | StepLauncher => step_launcher s
  | StepDaemon => step_daemon delay s
  | Deliver => step_deliver s
  end.

Fixpoint run (acts : list action) (delay : nat) (s : state) (ls : list label) : option state :=
  match ls with
  | [] => Some s
  | l :: r => match step acts delay s l with Some s' => run acts delay s' r | None => None end
  end.

(** ** observations *)
Definition terminated (s : state) : bool :=
  match caller s with CRet _ | CExit _ => true | _ => false end.
Definition result (s : state) : option outcome :=
  match caller s with CRet o | CExit o => Some o | _ => None end.
Definition launcher_gone (s : state) : bool :=
  match lst s with LExited | LAbnormal => true | _ => false end.

(** ** the disciplines on the action list (what is checked on the extracted list) *)

(** every [AStart] is preceded by an [ANotify] *)
Fixpoint nbs_from (h : bool) (l : list action) : bool :=
  match l with
  | [] => true
  | ANotify :: r => nbs_from true r
  | AStart :: r => h && nbs_from h r
  | _ :: r => nbs_from h r
  end.
Definition notify_before_start (acts : list action) : bool := nbs_from false acts.

(** Notify (buffered), Start, SpawnWait exactly once each and before the one Select; SpawnWait after Start;
    WritePid exactly once, anywhere after Start (also after the Select: the pid only has to be on stdout
    when the launcher exits); nothing unrecognised, no unbuffered Notify *)
Fixpoint wf_from (n s w p sel : bool) (l : list action) : bool :=
  match l with
  | [] => n && s && w && p && sel
  | ANotify :: r => negb n && negb sel && wf_from true s w p sel r
  | AStart :: r => negb s && negb sel && wf_from n true w p sel r
  | AWritePid :: r => s && negb w && wf_from n s true p sel r
  | ASpawnWait :: r => s && negb p && negb sel && wf_from n s w true sel r
  | ASelect :: r => n && s && p && negb sel && wf_from n s w p true r
  | AUnknown _ :: _ => false
  | ANotifyUnbuffered :: _ => false
  end.
Definition well_formed (acts : list action) : bool := wf_from false false false false false acts.

(** ** schedules used by the correspondence check: run with disabled steps skipped *)
Fixpoint run_skip (acts : list action) (delay : nat) (s : state) (ls : list label) : state :=
  match ls with
  | [] => s
  | l :: r => match step acts delay s l with
              | Some s' => run_skip acts delay s' r
              | None => run_skip acts delay s r
              end
  end.

Fixpoint index_of_start (acts : list action) : nat :=
  match acts with
  | [] => 0
  | AStart :: _ => 0
  | _ :: r => S (index_of_start r)
  end.

(** the daemon reaches Done() while the launcher is still right behind cmd.Start() *)
Definition sched_daemon_first (acts : list action) (delay : nat) : list label :=
  [StepCaller] ++ repeat StepLauncher (S (index_of_start acts)) ++ repeat StepDaemon (delay + 3) ++ [Deliver]
  ++ repeat StepLauncher (S (List.length acts)) ++ [Deliver] ++ repeat StepLauncher (S (List.length acts)) ++ [StepCaller].
(** natural timing: the launcher is blocked in select long before the daemon calls Done() *)
Definition sched_launcher_first (acts : list action) (delay : nat) : list label :=
  [StepCaller] ++ repeat StepLauncher (S (List.length acts)) ++ repeat StepDaemon (delay + 3) ++ [Deliver]
  ++ repeat StepLauncher (S (List.length acts)) ++ [StepCaller].
