(** Model of util/strutil ShellEscape / ShellEscapeExceptTilde. *)
From Coq Require Import List NArith Bool.
Import ListNotations.
Open Scope N_scope.

(** strings.Replace(s, "'", `'"'"'`, -1) *)
Fixpoint replace_quote (s : list N) : list N :=
  match s with
  | [] => []
  | b :: r => if b =? 39 then 39 :: 34 :: 39 :: 34 :: 39 :: replace_quote r else b :: replace_quote r
  end.

Definition shell_escape (s : list N) : list N := 39 :: replace_quote s ++ [39].

Definition shell_escape_except_tilde (s : list N) : list N :=
  match s with
  | a :: b :: r => if (a =? 126) && (b =? 47) then 126 :: 47 :: shell_escape r else shell_escape s
  | _ => shell_escape s
  end.
