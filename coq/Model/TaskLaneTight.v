(** TaskLane, tight variant of the LTS: a [default] branch is disabled while the partner goroutine of the same
    lane sits in its blocking select. Same states and labels as [Model/TaskLane.v]; [tstep] is a restriction of
    [step]. IDEALISATION: the states [QOffer t] / [WBlock] also cover the instants between taking the previous
    [default] and actually being enqueued on the channels, where the real partner's non-blocking operation still
    falls through; so this variant does not contain every real schedule and is NOT used for trace acceptance.
    It is used to state what the loop structure guarantees once both goroutines of a lane have settled. No proofs here. *)
From Coq Require Import List Arith Bool.
Import ListNotations.
From Glb Require Import Model.TaskLane.

Definition tight_blocked (s : state) (l : label) : bool :=
  match l with
  | QTryFail i =>   (* non-blocking send to blocking[i] cannot fall through while worker i is in its blocking receive *)
      match nth_error (lanes s) i with
      | Some li => match w li with WBlock => true | _ => false end
      | None => false
      end
  | WTryFail j =>   (* non-blocking receive from blocking[j] cannot fall through while queue goroutine j is in its blocking offer *)
      match nth_error (lanes s) j with
      | Some lj => match q lj with QOffer _ => true | _ => false end
      | None => false
      end
  | _ => false
  end.

Definition tstep (qs : nat) (s : state) (l : label) : option state :=
  if tight_blocked s l then None else step qs s l.

Fixpoint trun (qs : nat) (s : state) (ls : list label) : option state :=
  match ls with
  | [] => Some s
  | l :: r => match tstep qs s l with Some s' => trun qs s' r | None => None end
  end.
