(** TaskLane: structural invariants of all reachable states
    (counter, buffer bound, liveness of goroutines before cancel, running tasks, conservation, panic slot). *)
From Coq Require Import List Arith Bool Lia.
Import ListNotations.
From Glb Require Import Model.TaskLane Proofs.TaskLaneP.

Ltac step_cases Hs s' l := destruct l; cbn [step] in Hs; inv_step Hs; fin_step Hs s'; st_simpl.

(* In a handover: identify the receiving lane [lj] (read after the sender's update). *)
Ltac resolve_hj :=
  match goal with
  | Hn : nth_error ?L ?i = Some ?a, Hj : nth_error (upd ?L ?i ?x) ?j = Some ?y |- _ =>
      let E1 := fresh "E" in let E2 := fresh "E" in
      destruct (nth_error_upd_inv L i j a x y Hn Hj) as [[E1 E2]|[E1 E2]];
      [ injection E2 as -> -> ->; try subst j;
        try match goal with
            | H1 : nth_error L i = Some a, H2 : nth_error L i = Some ?l0 |- _ =>
                is_var l0; rewrite H1 in H2; injection H2 as <-; cbn [buf q w] in *
            end
      | try (exfalso; apply E1; reflexivity);
        try match goal with
            | H : nth_error L j = Some ?l0 |- _ =>
                lazymatch l0 with y => fail | _ => rewrite E2 in H; injection H as <-; cbn [buf q w] in * end
            end ]
  end.

(* ---------- length of the lane list ---------- *)
Lemma step_length qs s l s' : step qs s l = Some s' -> length (lanes s') = length (lanes s).
Proof. intros Hs. step_cases Hs s' l; rewrite ?length_upd; reflexivity. Qed.

Lemma reachable_length qs n ls s : run qs (init n) ls = Some s -> length (lanes s) = n.
Proof.
  apply (run_invariant (fun s => length (lanes s) = n) qs).
  - intros s0 l s' H Hs. rewrite (step_length _ _ _ _ Hs). exact H.
  - cbn [init lanes]. apply repeat_length.
Qed.

(* ---------- the counter ---------- *)
Definition qcounted (x : qpc) : nat :=
  match x with QHeld _ | QTry _ | QOffer _ | QSent | QDead (Some _) => 1 | _ => 0 end.
Definition lcounted (l : lane) : nat := qcounted (q l).
Definition CntInv (s : state) : Prop := cnt s = list_sum (map lcounted (lanes s)).

Lemma push_lane_counted qs li t li' : push_lane qs li t = Some li' -> lcounted li' = lcounted li.
Proof.
  unfold push_lane. intros H. destruct li as [b0 q0 w0]. cbn [buf q w] in H.
  destruct (qs =? 0).
  - destruct q0; try discriminate. injection H as <-. reflexivity.
  - destruct (length b0 <? qs); [|discriminate]. injection H as <-. reflexivity.
Qed.

Theorem step_cntinv qs s l s' : CntInv s -> step qs s l = Some s' -> CntInv s'.
Proof.
  unfold CntInv. intros HI Hs.
  step_cases Hs s' l; try exact HI; upd_facts lcounted; unfold lcounted in *; cbn [buf q w qcounted] in *; try lia.
  - match goal with H : push_lane _ _ _ = Some _ |- _ => pose proof (push_lane_counted _ _ _ _ H) end.
    unfold lcounted in *. lia.
  - destruct (cancelled s); cbn [qcounted] in *; lia.
Qed.

Lemma init_cntinv n : CntInv (init n).
Proof.
  unfold CntInv, init; cbn [cnt lanes]. induction n; cbn [repeat map]; [reflexivity|].
  change (list_sum (?a :: ?l)) with (a + list_sum l). cbn [lcounted q qcounted]. lia.
Qed.

Theorem reachable_cntinv qs n ls s : run qs (init n) ls = Some s -> CntInv s.
Proof. apply (run_invariant CntInv qs (step_cntinv qs)). apply init_cntinv. Qed.

Lemma cnt_le_lanes s : CntInv s -> cnt s <= length (lanes s).
Proof.
  unfold CntInv. intros ->. apply sum_le_length. intros [b0 q0 w0]. unfold lcounted; cbn [q].
  destruct q0 as [| | | | | |[|]]; cbn [qcounted]; lia.
Qed.

(* ---------- per-lane facts: buffer bound; nobody is dead before the cancel ---------- *)
Definition lane_ok (qs : nat) (c : bool) (l : lane) : Prop :=
  length (buf l) <= qs /\ (c = false -> qalive (q l) = true /\ walive (w l) = true).
Definition LaneInv (qs : nat) (s : state) : Prop := Forall (lane_ok qs (cancelled s)) (lanes s).

Lemma push_lane_ok qs c li t li' : push_lane qs li t = Some li' -> lane_ok qs c li -> lane_ok qs c li'.
Proof.
  unfold push_lane, lane_ok. intros H [H1 H2]. destruct li as [b0 q0 w0]. cbn [buf q w] in *.
  destruct (qs =? 0) eqn:E0.
  - destruct q0; try discriminate. injection H as <-. cbn [buf q w qalive]. split; [auto|]. intros Hc. destruct (H2 Hc). auto.
  - destruct (Nat.ltb_spec (length b0) qs); [|discriminate]. injection H as <-. cbn [buf q w].
    rewrite app_length. cbn [length]. split; [lia|auto].
Qed.

Theorem step_laneinv qs s l s' : LaneInv qs s -> step qs s l = Some s' -> LaneInv qs s'.
Proof.
  unfold LaneInv. intros HI Hs.
  step_cases Hs s' l; try exact HI;
    repeat match goal with
    | Hn : nth_error (lanes s) _ = Some _ |- _ =>
        lazymatch type of Hn with _ = Some ?a =>
          lazymatch goal with
          | _ : lane_ok qs _ a |- _ => fail
          | _ => pose proof (Forall_nth_error _ _ _ _ HI Hn)
          end end
    end;
    try (match goal with Hj : nth_error (upd _ _ _) _ = Some _ |- _ =>
           resolve_hj end);
    repeat apply Forall_upd; try exact HI;
    unfold lane_ok in *; cbn [buf q w qalive walive length] in *;
    try match goal with H : cancelled s = _ |- _ => rewrite H in * end;
    try (intuition (auto; try discriminate; try lia); fail).
  - (* PushOk *)
    eapply push_lane_ok; eauto.
  - (* Cancel *)
    eapply Forall_impl; [|exact HI]. intros a [H1 H2]. split; [exact H1|discriminate].
  - destruct (cancelled s); cbn [qalive] in *; intuition (auto; discriminate).
  - destruct (cancelled s); cbn [walive] in *; intuition (auto; discriminate).
Qed.

Lemma init_laneinv qs n : LaneInv qs (init n).
Proof.
  unfold LaneInv, init; cbn [lanes cancelled]. apply Forall_forall. intros x Hx. apply repeat_spec in Hx. subst x.
  unfold lane_ok; cbn. split; [lia|auto].
Qed.

Theorem reachable_laneinv qs n ls s : run qs (init n) ls = Some s -> LaneInv qs s.
Proof. apply (run_invariant (LaneInv qs) qs (step_laneinv qs)). apply init_laneinv. Qed.

(* ---------- running tasks ---------- *)
Definition wcount (t : task) (l : lane) : nat := cnt_in t (wtask (w l)).
Definition RunInv (s : state) : Prop :=
  forall t, list_sum (map (wcount t) (lanes s)) + cnt_in t (finished s) = cnt_in t (started s).

Lemma push_lane_w qs li t li' : push_lane qs li t = Some li' -> w li' = w li.
Proof.
  unfold push_lane. intros H. destruct li as [b0 q0 w0]. cbn [buf q w] in H.
  destruct (qs =? 0).
  - destruct q0; try discriminate. injection H as <-. reflexivity.
  - destruct (length b0 <? qs); [|discriminate]. injection H as <-. reflexivity.
Qed.

Theorem step_runinv qs s l s' : RunInv s -> step qs s l = Some s' -> RunInv s'.
Proof.
  intros HI Hs u. specialize (HI u).
  step_cases Hs s' l; st_simpl_in HI; try exact HI;
    try (match goal with Hj : nth_error (upd _ _ _) _ = Some _ |- _ => resolve_hj end);
    upd_facts (wcount u); unfold wcount in *; cbn [buf q w wtask] in *; rewrite ?cnt_cons, ?cnt_nil in *;
    try lia;
    try (match goal with H : receptive_own ?x = true |- _ => destruct x; try discriminate H end;
         cbn [wtask] in *; rewrite ?cnt_nil in *; lia);
    try (match goal with H : receptive_uni ?x = true |- _ => destruct x; try discriminate H end;
         cbn [wtask] in *; rewrite ?cnt_nil in *; lia).
  - (* PushOk *)
    match goal with H : push_lane _ _ _ = Some _ |- _ => pose proof (push_lane_w _ _ _ _ H) as Ew end.
    rewrite Ew in *. lia.
  - (* WCheck *) destruct (cancelled s); cbn [wtask] in *; rewrite ?cnt_nil in *; lia.
Qed.

Lemma init_runinv n : RunInv (init n).
Proof.
  intros t. unfold init; cbn [lanes started finished]. rewrite !cnt_nil.
  induction n; cbn [repeat map]; [reflexivity|].
  change (list_sum (?a :: ?l)) with (a + list_sum l). unfold wcount at 1; cbn [w wtask]. rewrite cnt_nil. lia.
Qed.

Theorem reachable_runinv qs n ls s : run qs (init n) ls = Some s -> RunInv s.
Proof. apply (run_invariant RunInv qs (step_runinv qs)). apply init_runinv. Qed.

Theorem running_bound qs n ls s :
  run qs (init n) ls = Some s -> length (running s) <= n /\ NoDup (running s).
Proof.
  intros Hr. split.
  - unfold running. rewrite length_flat_map. rewrite <- (reachable_length _ _ _ _ Hr).
    apply sum_le_length. intros [b0 q0 w0]; cbn [w]. destruct w0; cbn [wtask length]; lia.
  - apply NoDup_cnt. intros t. unfold running. rewrite cnt_flat_map.
    pose proof (reachable_runinv _ _ _ _ Hr t) as HR. unfold wcount in HR.
    destruct (exactly_once _ _ _ _ Hr) as (Hnd & _).
    apply (NoDup_count_occ Nat.eq_dec) with (x := t) in Hnd. unfold cnt_in in *. lia.
Qed.

Lemma running_started qs n ls s t : run qs (init n) ls = Some s -> In t (running s) -> In t (started s) /\ ~ In t (finished s).
Proof.
  intros Hr Hin. apply cnt_pos_In in Hin. unfold running in Hin. rewrite cnt_flat_map in Hin.
  pose proof (reachable_runinv _ _ _ _ Hr t) as HR. unfold wcount in HR.
  destruct (exactly_once _ _ _ _ Hr) as (Hnd & _).
  apply (NoDup_count_occ Nat.eq_dec) with (x := t) in Hnd. unfold cnt_in in *.
  split; [apply (count_occ_In Nat.eq_dec); lia | apply (count_occ_not_In Nat.eq_dec); lia].
Qed.

(* ---------- conservation ---------- *)
Definition lheld (l : lane) : nat := length (ltasks l).
Definition ConsInv (s : state) : Prop :=
  length (accepted s) = list_sum (map lheld (lanes s)) + length (started s).

Lemma push_lane_held qs li t li' : push_lane qs li t = Some li' -> lheld li' = S (lheld li).
Proof.
  unfold push_lane. intros H. destruct li as [b0 q0 w0]. cbn [buf q w] in H.
  destruct (qs =? 0).
  - destruct q0; try discriminate. injection H as <-. unfold lheld, ltasks; cbn [buf q qtask]. rewrite !app_length. cbn [length]. lia.
  - destruct (length b0 <? qs); [|discriminate]. injection H as <-. unfold lheld, ltasks; cbn [buf q]. rewrite !app_length. cbn [length]. lia.
Qed.

Theorem step_consinv qs s l s' : ConsInv s -> step qs s l = Some s' -> ConsInv s'.
Proof.
  unfold ConsInv. intros HI Hs.
  step_cases Hs s' l; try exact HI; upd_facts lheld;
    unfold lheld, ltasks in *; cbn [buf q w qtask] in *; rewrite ?app_length in *; cbn [length] in *; try lia.
  - match goal with H : push_lane _ _ _ = Some _ |- _ => pose proof (push_lane_held _ _ _ _ H) as Ew end.
    unfold lheld, ltasks in Ew. rewrite ?app_length in *. lia.
  - destruct (cancelled s); cbn [qtask length] in *; lia.
Qed.

Lemma init_consinv n : ConsInv (init n).
Proof.
  unfold ConsInv, init; cbn [lanes started accepted length].
  induction n; cbn [repeat map]; [reflexivity|].
  change (list_sum (?a :: ?l)) with (a + list_sum l). unfold lheld at 1, ltasks; cbn [buf q qtask app length]. lia.
Qed.

Theorem reachable_consinv qs n ls s : run qs (init n) ls = Some s -> ConsInv s.
Proof. apply (run_invariant ConsInv qs (step_consinv qs)). apply init_consinv. Qed.

(* ---------- panic slot ---------- *)
Definition PanicInv (s : state) : Prop := forall v, last_panic s = Some v -> In v (panics s).

Theorem step_panicinv qs s l s' : PanicInv s -> step qs s l = Some s' -> PanicInv s'.
Proof.
  unfold PanicInv. intros HI Hs v.
  step_cases Hs s' l; try exact (HI v).
  intros E. injection E as ->. left. reflexivity.
Qed.

Theorem reachable_panicinv qs n ls s : run qs (init n) ls = Some s -> PanicInv s.
Proof. apply (run_invariant PanicInv qs (step_panicinv qs)). intros v; cbn; discriminate. Qed.

(* a panic step changes worker j, the finished log, the panic slot and the panic log, nothing else *)
Theorem panic_contained qs s j v s' :
  step qs s (WEnd j (Some v)) = Some s' ->
  exists b0 q0 t,
    nth_error (lanes s) j = Some (mkLane b0 q0 (WRun t)) /\
    lanes s' = upd (lanes s) j (mkLane b0 q0 WTop) /\
    last_panic s' = Some v /\ panics s' = v :: panics s /\ finished s' = t :: finished s /\
    cancelled s' = cancelled s /\ cnt s' = cnt s /\ accepted s' = accepted s /\ started s' = started s /\
    prods s' = prods s /\ obs s' = obs s /\ pushed s' = pushed s /\ failed s' = failed s /\ snaps s' = snaps s.
Proof.
  intros Hs. cbn [step] in Hs. inv_step Hs. injection Hs as <-. st_simpl.
  eexists _, _, _. repeat split; eauto.
Qed.

Lemma upd_nth_other {A} (l : list A) j x k : k <> j -> nth_error (upd l j x) k = nth_error l k.
Proof. intros H. apply nth_error_upd_other. auto. Qed.

(* a panic is a return plus the write of the panic slot *)
Theorem panic_like_return qs s j v s' :
  step qs s (WEnd j (Some v)) = Some s' ->
  exists s0, step qs s (WEnd j None) = Some s0 /\ s' = set_panic s0 v.
Proof.
  intros Hs. cbn [step] in *. inv_step Hs. injection Hs as <-. eexists. split; reflexivity.
Qed.

(* the worker that recovered is back at its loop top and can go on *)
Theorem worker_survives qs s j r s' :
  step qs s (WEnd j r) = Some s' -> step qs s' (WCheck j) <> None.
Proof.
  intros Hs. cbn [step] in Hs. inv_step Hs.
  match goal with H : nth_error (lanes s) j = Some _ |- _ => pose proof (nth_error_upd_same _ _ _ (mkLane b qq WTop) H) as Hn end.
  destruct r; injection Hs as <-; cbn [step]; st_simpl; rewrite Hn; discriminate.
Qed.

(* ---------- what a producer's recorded result means ---------- *)
Definition pstate_ok (s : state) (x : pstate) : Prop :=
  match x with
  | Idle => True
  | Pending i t => i < length (lanes s) /\ In t (pushed s)
  | Done t ROk => In t (accepted s)
  | Done t _ => In t (failed s)
  end.
Definition ProdInv (s : state) : Prop := forall p, pstate_ok s (pstate_of s p).

Theorem step_prodinv qs s l s' : ProdInv s -> step qs s l = Some s' -> ProdInv s'.
Proof.
  intros HI Hs p'. pose proof (HI p') as HIp. unfold pstate_of, pstate_ok in *.
  step_cases Hs s' l; unfold pstate_of in *; st_simpl; rewrite ?length_upd; try exact HIp;
    rewrite aget_aset; destruct (Nat.eqb_spec p' p) as [->|Hne];
    try (destruct (aget Idle (prods s) p') as [|? ?|? []]; cbn [In]; tauto);
    cbn [In]; auto.
  - split; [|auto]. match goal with H : (_ <? _) = true |- _ => apply Nat.ltb_lt in H; exact H end.
Qed.

Theorem reachable_prodinv qs n ls s : run qs (init n) ls = Some s -> ProdInv s.
Proof. apply (run_invariant ProdInv qs (step_prodinv qs)). intros p. cbn. exact I. Qed.

Theorem result_meaning qs n ls s p t r :
  run qs (init n) ls = Some s -> pstate_of s p = Done t r ->
  match r with ROk => In t (accepted s) | _ => In t (failed s) end.
Proof.
  intros Hr Hp. pose proof (reachable_prodinv _ _ _ _ Hr p) as H. rewrite Hp in H. destruct r; exact H.
Qed.
