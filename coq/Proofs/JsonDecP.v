(** Facts about the decimal printers: the text denotes the number, and it is a canonical
    JSON integer (digits only, no leading zero). *)
From Coq Require Import List NArith ZArith Lia Bool.
From Coq Require Import ZifyBool ZifyN ZifyNat.
Import ListNotations.
From Glb Require Import Lib.JsonDec Lib.Json.
Open Scope N_scope.
Ltac Zify.zify_post_hook ::= Z.div_mod_to_equations.

Lemma of_dec_snoc l d : of_dec (l ++ [d]) = of_dec l * 10 + (d - 48).
Proof. unfold of_dec. rewrite fold_left_app. reflexivity. Qed.

Lemma udec_value : forall f n, n < 2 ^ N.of_nat f -> of_dec (udec f n) = n.
Proof.
  induction f as [|f IH]; intros n Hn.
  { cbn in Hn. assert (n = 0) by lia. subst. reflexivity. }
  cbn [udec]. rewrite of_dec_snoc.
  rewrite Nat2N.inj_succ, N.pow_succ_r' in Hn.
  destruct (n / 10 =? 0) eqn:E.
  - cbn [of_dec fold_left]. unfold of_dec. cbn [fold_left]. lia.
  - rewrite IH by lia. lia.
Qed.

Lemma udec_digits : forall f n, forallb is_digit (udec f n) = true.
Proof.
  induction f as [|f IH]; intros n; [reflexivity|].
  cbn [udec]. rewrite forallb_app. cbn [forallb]. unfold is_digit at 2.
  replace ((48 <=? 48 + n mod 10) && (48 + n mod 10 <=? 57)) with true by lia.
  destruct (n / 10 =? 0); [reflexivity|]. rewrite IH. reflexivity.
Qed.

(** a positive number starts with a non-zero digit *)
Lemma udec_head : forall f n, 0 < n -> n < 2 ^ N.of_nat f ->
  exists d t, udec f n = d :: t /\ 49 <= d /\ d <= 57.
Proof.
  induction f as [|f IH]; intros n Hp Hn.
  { cbn in Hn. lia. }
  cbn [udec]. rewrite Nat2N.inj_succ, N.pow_succ_r' in Hn.
  destruct (n / 10 =? 0) eqn:E.
  - exists (48 + n mod 10), []. cbn [app]. repeat split; lia.
  - destruct (IH (n / 10)) as (d & t & Hd & H1 & H2); [lia|lia|].
    rewrite Hd. exists d, (t ++ [48 + n mod 10]). repeat split; assumption.
Qed.

Lemma size_bound n : n < 2 ^ N.of_nat (S (N.to_nat (N.size n))).
Proof.
  rewrite Nat2N.inj_succ, N2Nat.id, N.pow_succ_r'.
  pose proof (N.size_gt n). lia.
Qed.

Theorem of_dec_to_dec n : of_dec (to_dec n) = n.
Proof. apply udec_value, size_bound. Qed.

(** the canonical shape the JSON number grammar wants *)
Definition canon_digits (l : list N) : Prop :=
  exists d ds, l = d :: ds /\ is_digit d = true /\ forallb is_digit ds = true /\ (d = 48 -> ds = []).

Lemma to_dec_canon n : canon_digits (to_dec n).
Proof.
  unfold to_dec. pose proof (size_bound n) as Hb. set (f := S (N.to_nat (N.size n))) in *.
  pose proof (udec_digits f n) as Hd.
  destruct (N.eq_dec n 0) as [->|Hn].
  - exists 48, []. subst f. repeat split; reflexivity.
  - destruct (udec_head f n) as (d & t & E & H1 & H2); [lia|exact Hb|].
    rewrite E in Hd |- *. cbn [forallb] in Hd. apply andb_true_iff in Hd as [Hd1 Hd2].
    exists d, t. repeat split; try assumption. intros ->. lia.
Qed.

Theorem of_dec_z_to_dec_z z : of_dec_z (to_dec_z z) = z.
Proof.
  destruct z as [|p|p]; unfold to_dec_z, of_dec_z.
  - reflexivity.
  - destruct (to_dec_canon (Z.to_N (Z.pos p))) as (d & ds & E & Hd & _ & _).
    pose proof (of_dec_to_dec (Z.to_N (Z.pos p))) as Hv. rewrite E in Hv |- *.
    unfold is_digit in Hd. replace (d =? 45) with false by lia. rewrite Hv. lia.
  - change (45 =? 45) with true. cbv iota. rewrite of_dec_to_dec. lia.
Qed.

(** sign + canonical digits *)
Definition canon_int (l : list N) : Prop :=
  exists sg body, l = sg ++ body /\ (sg = [] \/ sg = [45]) /\ canon_digits body.

Lemma to_dec_z_canon z : canon_int (to_dec_z z).
Proof.
  destruct z as [|p|p]; unfold to_dec_z.
  - exists [], (to_dec (Z.to_N 0)). repeat split; auto. apply to_dec_canon.
  - exists [], (to_dec (Z.to_N (Z.pos p))). repeat split; auto. apply to_dec_canon.
  - exists [45], (to_dec (N.pos p)). repeat split; auto. apply to_dec_canon.
Qed.

Lemma to_dec_canon_int n : canon_int (to_dec n).
Proof. exists [], (to_dec n). repeat split; auto. apply to_dec_canon. Qed.

Lemma canon_int_no_nl l : canon_int l -> ~ In 10 l.
Proof.
  intros (sg & body & -> & Hs & d & ds & -> & Hd & Hds & _) H.
  apply in_app_or in H as [H|H].
  - destruct Hs as [->| ->]; cbn [In] in H; [contradiction|]. destruct H as [H|[]]. lia.
  - cbn [In] in H. destruct H as [H|H].
    + subst d. discriminate Hd.
    + rewrite forallb_forall in Hds. apply Hds in H. discriminate H.
Qed.
