(** With-is-call-site for the JSON byte model (Model/LoggerJson.v, the model the C01 correspondence
    exercises): attributes handed to With/WithAttrs are rendered exactly as if they had been passed
    at the call site ahead of the call's own attributes - whatever groups are open, whatever the
    separator state.  This discharges the [compositional] hypothesis of the generic chain theorem
    (Model/LoggerChain.v) for the real JSON renderer. *)
From Coq Require Import List NArith Bool.
Import ListNotations.
From Glb Require Import Model.LoggerJson.

Lemma aja_app a : forall b s,
  append_json_attrs (a ++ b) s =
  (fst (append_json_attrs a s) ++ fst (append_json_attrs b (snd (append_json_attrs a s))),
   snd (append_json_attrs b (snd (append_json_attrs a s)))).
Proof.
  induction a as [|[k v] t IH]; intros b s.
  - cbn [app append_json_attrs fst snd]. destruct (append_json_attrs b s); reflexivity.
  - cbn [app append_json_attrs]. destruct (append_json_attr k v s) as [o1 s1]. rewrite IH.
    destruct (append_json_attrs t s1) as [o2 s2]. cbn [fst snd]. rewrite app_assoc. reflexivity.
Qed.

(** the record with [l] moved to the call site *)
Definition prepend (l : list (list N * value)) (r : record) : record :=
  mkR (time_txt r) (lvl r) (src r) (msg r) (l ++ attrs r).

Lemma json_with_is_callsite h l r : handle (with_attrs h l) r = handle h (prepend l r).
Proof.
  destruct l as [|a l']; [destruct r; reflexivity|].
  unfold with_attrs. set (l := a :: l').
  destruct (append_json_attrs l (addsep h)) as [o s] eqn:E.
  unfold handle, prepend. cbn [pre nopen addsep time_txt lvl src msg attrs].
  rewrite aja_app, E. cbn [fst snd]. rewrite <- !app_assoc. reflexivity.
Qed.

Lemma json_with_with h a b : with_attrs (with_attrs h a) b = with_attrs h (a ++ b).
Proof.
  destruct a as [|x a']; [reflexivity|]. destruct b as [|y b']; [rewrite app_nil_r; reflexivity|].
  set (a := x :: a'). set (b := y :: b').
  assert (Hab : exists z t, a ++ b = z :: t) by (eexists; eexists; reflexivity).
  destruct Hab as (z & t & Hab).
  unfold with_attrs at 2. fold a.
  change (match a with [] => h | _ :: _ => let (o, s) := append_json_attrs a (addsep h) in mkH (pre h ++ o) (nopen h) s end)
    with (let (o, s) := append_json_attrs a (addsep h) in mkH (pre h ++ o) (nopen h) s).
  destruct (append_json_attrs a (addsep h)) as [o1 s1] eqn:E1.
  unfold with_attrs. fold b. rewrite Hab, <- Hab.
  change (match b with [] => mkH (pre h ++ o1) (nopen h) s1 | _ :: _ => let (o, s) := append_json_attrs b (addsep (mkH (pre h ++ o1) (nopen h) s1)) in
            mkH (pre (mkH (pre h ++ o1) (nopen h) s1) ++ o) (nopen (mkH (pre h ++ o1) (nopen h) s1)) s end)
    with (let (o, s) := append_json_attrs b s1 in mkH ((pre h ++ o1) ++ o) (nopen h) s).
  rewrite aja_app, E1. cbn [fst snd].
  destruct (append_json_attrs b s1) as [o2 s2]. cbn [fst snd]. rewrite app_assoc. reflexivity.
Qed.

Lemma derive_snoc c d :
  derive (c ++ [d]) = match d with DAttrs al => with_attrs (derive c) al | DGroup g => with_group (derive c) g end.
Proof. unfold derive, derive_from. rewrite fold_left_app. reflexivity. Qed.

Lemma json_with_chain c l r : handle (derive (c ++ [DAttrs l])) r = handle (derive c) (prepend l r).
Proof. rewrite derive_snoc. apply json_with_is_callsite. Qed.

Lemma json_with_split c a b r :
  handle (derive (c ++ [DAttrs a; DAttrs b])) r = handle (derive (c ++ [DAttrs (a ++ b)])) r.
Proof.
  change [DAttrs a; DAttrs b] with ([DAttrs a] ++ [DAttrs b]). rewrite app_assoc, !derive_snoc, json_with_with. reflexivity.
Qed.
