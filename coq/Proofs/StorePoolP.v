(** Lemmas about the pooled Store model (Model/StorePool.v): the invariant of the Mux LTS,
    request isolation against a fresh Mux, panic-freedom, frame properties, id uniqueness. *)
From Coq Require Import List NArith Bool Arith Lia.
Import ListNotations.
From Glb Require Import Lib.RouteBytes Lib.RouteSpec Lib.CounterFacts Model.Router Proofs.RouterP Model.StorePool.

(** * base-36 rendering is injective below 36^13 *)
Definition undigit36 (c : N) : N := if (c <? 58)%N then (c - 48)%N else (c - 87)%N.
Fixpoint val36 (l : list N) (acc : N) : N :=
  match l with [] => acc | c :: r => val36 r (acc * 36 + undigit36 c)%N end.

Lemma val36_app : forall a b acc, val36 (a ++ b) acc = val36 b (val36 a acc).
Proof. induction a; intros; cbn [val36 app]; auto. Qed.

Lemma undigit_digit : forall d, (d < 36)%N -> undigit36 (digit36 d) = d.
Proof.
  intros d H. unfold digit36, undigit36.
  destruct (d <? 10)%N eqn:E.
  - apply N.ltb_lt in E. assert ((48 + d <? 58)%N = true) as -> by (apply N.ltb_lt; lia). lia.
  - apply N.ltb_ge in E. assert ((87 + d <? 58)%N = false) as -> by (apply N.ltb_ge; lia). lia.
Qed.

Lemma render36_val : forall fuel n, (n < 36 ^ N.of_nat fuel)%N -> val36 (render36 fuel n) 0 = n.
Proof.
  induction fuel as [|f IH]; intros n H.
  - change (36 ^ N.of_nat 0)%N with 1%N in H. cbn [render36 val36]. lia.
  - cbn [render36]. destruct (n <? 36)%N eqn:E.
    + apply N.ltb_lt in E. cbn [val36]. rewrite undigit_digit by auto. lia.
    + apply N.ltb_ge in E. rewrite val36_app. cbn [val36].
      rewrite Nat2N.inj_succ, N.pow_succ_r' in H.
      rewrite IH by (apply N.div_lt_upper_bound; lia).
      rewrite undigit_digit by (apply N.mod_lt; lia).
      pose proof (N.div_mod n 36). lia.
Qed.

Definition id_bound : N := (36 ^ 13)%N.

Lemma render_id_inj : forall a b, (a < id_bound)%N -> (b < id_bound)%N -> render_id a = render_id b -> a = b.
Proof.
  intros a b Ha Hb E. unfold render_id in E.
  rewrite <- (render36_val 13 a), <- (render36_val 13 b) by exact Ha || exact Hb. rewrite E. auto.
Qed.

Lemma uint64_below_bound : (2 ^ 64 <= id_bound)%N.
Proof. vm_compute. discriminate. Qed.

(** * what a handler reads is determined by the request and the routes *)

Lemma route_param_of_nil : forall ps name, pK ps = [] -> route_param_of ps name = Some [].
Proof. intros ps name H. unfold route_param_of, params_get. rewrite H. reflexivity. Qed.

Lemma find_route_view : forall routes t path method ps0 info ps',
  Repr t routes -> v_items (pV ps0) = [] -> pK ps0 = [] ->
  find_route (t_root t) path method ps0 = Some (info, ps') ->
  match match_spec routes (segments path) method with
  | Some m => info = Some (m_route m)
              /\ forall name, route_param_of ps' name = Some (lookup_param (m_names m) (m_values m) name)
  | None => info = None /\ forall name, route_param_of ps' name = Some []
  end.
Proof.
  intros routes t path method ps0 info ps' [HK [Hwf _]] Hv Hk E.
  destruct (find_route_spec routes (t_root t) path method ps0 HK Hwf Hv) as [info2 [ps2 [E2 H]]].
  rewrite E in E2. inversion E2; subst info2 ps2. clear E2.
  destruct (match_spec routes (segments path) method) as [m|] eqn:Em.
  - destruct H as [-> [H1 H2]]. split; auto. intros name.
    pose proof (match_spec_bal _ _ _ _ Em) as Hb.
    rewrite route_param_of_spec by congruence. rewrite H1, H2. reflexivity.
  - destruct H as [-> H1]. split; auto. intros name. apply route_param_of_nil. congruence.
Qed.

Definition core (o : obs) := (ob_target o, ob_vals o, ob_any o).

Lemma fresh_core_of_find : forall routes t path method names ps0 info ps',
  register_all routes = Some t -> v_items (pV ps0) = [] -> pK ps0 = [] ->
  find_route (t_root t) path method ps0 = Some (info, ps') ->
  fresh_core routes path method names
  = Some (match info with Some r => Route r | None => NoRoute end,
          map (route_param_of ps') names, route_param_any_of ps').
Proof.
  intros routes t path method names ps0 info ps' Hreg Hv Hk E.
  pose proof (register_all_repr _ _ Hreg) as [HR _].
  pose proof (find_route_view routes t path method ps0 info ps' HR Hv Hk E) as H1.
  unfold fresh_core, serve_http. rewrite Hreg.
  destruct HR as [HK [Hwf Hc]].
  destruct (find_route_spec routes (t_root t) path method (fresh_params (t_max_params t)) HK Hwf eq_refl)
    as [info2 [ps2 [E2 _]]].
  rewrite E2.
  pose proof (find_route_view routes t path method (fresh_params (t_max_params t)) info2 ps2 (conj HK (conj Hwf Hc)) eq_refl eq_refl E2) as H2.
  unfold route_param_any_of.
  destruct (match_spec routes (segments path) method) as [m|].
  - destruct H1 as [-> H1]. destruct H2 as [-> H2]. f_equal. f_equal; [f_equal|].
    + apply map_ext. intros. rewrite H1, H2. auto.
    + rewrite H1, H2. auto.
  - destruct H1 as [-> H1]. destruct H2 as [-> H2]. f_equal. f_equal; [f_equal|].
    + apply map_ext. intros. rewrite H1, H2. auto.
    + rewrite H1, H2. auto.
Qed.

(** * the invariant *)

Definition pooled_ok (prefix : list N) (s : store) : Prop :=
  pK (s_params s) = [] /\ v_items (pV (s_params s)) = [] /\ s_status s = 0%N /\ s_id s = prefix.

Definition flight_ok (m : mux) (f : flight) : Prop :=
  s_id (f_store f) = m_prefix m ++ render_id (f_ticket f)
  /\ (0 < f_ticket f <= m_next_id m)%N
  /\ exists ps0, pK ps0 = [] /\ v_items (pV ps0) = []
       /\ find_route (t_root (m_table m)) (f_path f) (f_method f) ps0 = Some (f_info f, s_params (f_store f)).

Definition Inv (m : mux) : Prop :=
  m_table m = register_attempts (m_routes m)
  /\ length (m_prefix m) = 9
  /\ Forall (pooled_ok (m_prefix m)) (m_pool m)
  /\ Forall (flight_ok m) (m_flights m)
  /\ NoDup (map f_key (m_flights m))
  /\ NoDup (map f_ticket (m_flights m)).

Lemma fit9_length : forall p, length (fit9 p) = 9.
Proof. intros. unfold fit9. rewrite firstn_length, app_length, repeat_length. lia. Qed.

Lemma fit9_id : forall p, length p = 9 -> fit9 p = p.
Proof.
  intros p H. unfold fit9. rewrite <- H. rewrite firstn_app, Nat.sub_diag, firstn_O, app_nil_r. apply firstn_all.
Qed.

Lemma Inv_new : forall prefix, Inv (new_mux prefix).
Proof.
  intros. unfold Inv, new_mux. cbn. repeat split; try constructor. apply fit9_length.
Qed.

Lemma find_flight_In : forall k fs f, find_flight k fs = Some f -> In f fs /\ f_key f = k.
Proof.
  induction fs as [|g fs IH]; intros f H; cbn [find_flight] in H; [discriminate|].
  destruct (Nat.eqb (f_key g) k) eqn:E.
  - inversion H; subst. apply Nat.eqb_eq in E. split; auto. left. auto.
  - destruct (IH f H). split; auto. right. auto.
Qed.

Lemma find_flight_none : forall k fs, find_flight k fs = None -> ~ In k (map f_key fs).
Proof.
  induction fs as [|g fs IH]; intros H; cbn [find_flight map In] in *; [tauto|].
  destruct (Nat.eqb (f_key g) k) eqn:E; [discriminate|]. apply Nat.eqb_neq in E.
  intros [H1 | H1]; [contradiction | apply IH; auto].
Qed.

Lemma remove_nth_Forall : forall A (P : A -> Prop) i l, Forall P l -> Forall P (remove_nth i l).
Proof.
  intros A P i l. revert i. induction l as [|x l IH]; intros i H; [destruct i; auto|].
  inversion H; subst. destruct i; cbn [remove_nth]; auto.
Qed.

Lemma remove_flight_incl : forall k fs f, In f (remove_flight k fs) -> In f fs.
Proof.
  induction fs as [|g fs IH]; intros f H; cbn [remove_flight] in H; auto.
  destruct (Nat.eqb (f_key g) k); [right; auto|]. destruct H as [H | H]; [left; auto | right; auto].
Qed.

Lemma remove_flight_NoDup : forall A (pr : flight -> A) k fs,
  NoDup (map pr fs) -> NoDup (map pr (remove_flight k fs)).
Proof.
  induction fs as [|g fs IH]; intros H; cbn [remove_flight map] in *; auto.
  inversion H; subst. destruct (Nat.eqb (f_key g) k); auto. cbn [map]. constructor; auto.
  intros Hin. apply H2. apply in_map_iff in Hin. destruct Hin as [x [E Hx]].
  apply in_map_iff. exists x. split; auto. eapply remove_flight_incl; eauto.
Qed.

Lemma update_flight_map : forall A (pr : flight -> A) k g fs,
  (forall f, pr (g f) = pr f) -> map pr (update_flight k g fs) = map pr fs.
Proof.
  induction fs as [|h fs IH]; intros H; cbn [update_flight map]; auto.
  destruct (Nat.eqb (f_key h) k); cbn [map]; [rewrite H | rewrite IH]; auto.
Qed.

Lemma update_flight_Forall : forall (P : flight -> Prop) k g fs,
  (forall f, P f -> P (g f)) -> Forall P fs -> Forall P (update_flight k g fs).
Proof.
  induction fs as [|h fs IH]; intros H HF; cbn [update_flight]; auto.
  inversion HF; subst. destruct (Nat.eqb (f_key h) k); constructor; auto.
Qed.

(** [flight_ok] reads the mux only through table, prefix and (monotonically) the counter *)
Lemma flight_ok_transfer : forall m m' f,
  m_table m' = m_table m -> m_prefix m' = m_prefix m -> (m_next_id m <= m_next_id m')%N ->
  flight_ok m f -> flight_ok m' f.
Proof.
  intros m m' f Ht Hp Hn [H1 [H2 H3]]. unfold flight_ok. rewrite Ht, Hp. split; auto. split; [lia | auto].
Qed.

Lemma firstn9_prefix : forall (p r : list N), length p = 9 -> firstn 9 (p ++ r) = p.
Proof.
  intros p r H. rewrite <- H. rewrite firstn_app, Nat.sub_diag, firstn_O, app_nil_r. apply firstn_all.
Qed.

Theorem step_preserves_Inv : forall m l m', Inv m -> step m l = Ok m' -> Inv m'.
Proof.
  intros m l m' [Hreg [Hlen [Hpool [Hfl [Hk Ht]]]]] Hs. unfold step in Hs.
  destruct l as [p meth | k choice path meth | k code | k how | i]; cbn [step_gen] in Hs.
  - (* LRegister *)
    destruct (m_flights m) eqn:Ef; [|discriminate].
    inversion Hs; subst m'; clear Hs. unfold Inv. cbn [m_table m_routes m_prefix m_pool m_flights m_next_id].
    repeat split; auto; try constructor.
    rewrite register_attempts_snoc, Hreg. reflexivity.
  - (* LBegin *)
    destruct (find_flight k (m_flights m)) eqn:Ek; [discriminate|].
    set (got := match choice with
                | None => Some (new_store (m_prefix m) (t_max_params (m_table m)), m_pool m)
                | Some i => match nth_error (m_pool m) i with
                            | Some s => Some (s, remove_nth i (m_pool m))
                            | None => None
                            end
                end) in *.
    assert (Hgot : forall s pool', got = Some (s, pool') ->
                   pooled_ok (m_prefix m) s /\ Forall (pooled_ok (m_prefix m)) pool').
    { intros s pool' E. subst got. destruct choice as [i|].
      - destruct (nth_error (m_pool m) i) eqn:En; [|discriminate]. inversion E; subst.
        split; [|apply remove_nth_Forall; auto].
        rewrite Forall_forall in Hpool. apply Hpool. eapply nth_error_In; eauto.
      - inversion E; subst. split; auto. unfold pooled_ok, new_store. cbn. repeat split; auto. apply fit9_id. auto. }
    destruct got as [[s pool']|]; [|discriminate].
    destruct (Hgot s pool' eq_refl) as [[Hs1 [Hs2 [Hs3 Hs4]]] Hpool'].
    cbn [with_id s_params] in Hs.
    destruct (find_route_gen push_append (t_root (m_table m)) path meth (s_params s)) as [[info ps']|] eqn:Efr; [|discriminate].
    inversion Hs; subst m'; clear Hs. unfold Inv. cbn [m_table m_routes m_prefix m_pool m_flights m_next_id].
    split; auto. split; auto. split; auto.
    assert (Hle : forall f, In f (m_flights m) -> (f_ticket f <= m_next_id m)%N).
    { intros f Hin. rewrite Forall_forall in Hfl. destruct (Hfl f Hin) as [_ [H _]]. lia. }
    split; [|split].
    + constructor.
      * unfold flight_ok. cbn. rewrite Hs4. split; auto. split; [lia|].
        exists (s_params s). auto.
      * eapply Forall_impl; [|exact Hfl]. intros f Hf. eapply flight_ok_transfer; [| | |exact Hf]; cbn; auto. lia.
    + cbn [map f_key]. constructor; auto. apply find_flight_none. auto.
    + cbn [map f_ticket]. constructor; auto. intros Hin. apply in_map_iff in Hin. destruct Hin as [f [E Hin]].
      specialize (Hle f Hin). lia.
  - (* LWriteHeader *)
    destruct (find_flight k (m_flights m)) eqn:Ek; [|discriminate].
    inversion Hs; subst m'; clear Hs. unfold Inv. cbn [m_table m_routes m_prefix m_pool m_flights m_next_id].
    split; auto. split; auto. split; auto. split; [|split].
    + apply update_flight_Forall.
      * intros f0 [H1 [H2 H3]]. unfold flight_ok. cbn. auto.
      * eapply Forall_impl; [|exact Hfl]. intros f0 Hf. eapply flight_ok_transfer; [| | |exact Hf]; cbn; auto. lia.
    + rewrite update_flight_map; auto.
    + rewrite update_flight_map; auto.
  - (* LEnd *)
    destruct (find_flight k (m_flights m)) as [f|] eqn:Ek; [|discriminate].
    inversion Hs; subst m'; clear Hs. unfold Inv. cbn [m_table m_routes m_prefix m_pool m_flights m_next_id].
    split; auto. split; auto.
    apply find_flight_In in Ek. destruct Ek as [Hin _].
    split; [|split; [|split]].
    + destruct how; auto; apply Forall_app; split; auto; constructor; auto;
        rewrite Forall_forall in Hfl; destruct (Hfl f Hin) as [H1 _];
        unfold pooled_ok, reset_store; cbn; repeat split; auto; rewrite H1; apply firstn9_prefix; auto.
    + rewrite Forall_forall in *. intros f0 Hf0. apply remove_flight_incl in Hf0.
      eapply flight_ok_transfer; [| | |apply Hfl; auto]; cbn; auto. lia.
    + apply remove_flight_NoDup. auto.
    + apply remove_flight_NoDup. auto.
  - (* LDrop *)
    destruct (nth_error (m_pool m) i); [|discriminate].
    inversion Hs; subst m'; clear Hs. unfold Inv. cbn [m_table m_routes m_prefix m_pool m_flights m_next_id].
    split; auto. split; auto. split; [apply remove_nth_Forall; auto|]. split; auto.
Qed.

Theorem run_preserves_Inv : forall ls m m', Inv m -> run m ls = Ok m' -> Inv m'.
Proof.
  induction ls as [|l ls IH]; intros m m' HI Hr; cbn [run run_gen] in Hr.
  - inversion Hr; subst. auto.
  - fold (step m l) in Hr. destruct (step m l) as [m1| |] eqn:Es; try discriminate.
    eapply IH; [|exact Hr]. eapply step_preserves_Inv; eauto.
Qed.

(** * consequences *)

Theorem step_no_panic : forall m l, Inv m -> step m l <> Panic.
Proof.
  intros m l [Hreg [Hlen [Hpool _]]]. unfold step.
  destruct l as [p meth | k choice path meth | k code | k how | i]; cbn [step_gen].
  - destruct (m_flights m); discriminate.
  - destruct (find_flight k (m_flights m)); [discriminate|].
    assert (Hfr : forall s, pooled_ok (m_prefix m) s -> forall x,
              find_route_gen push_append (t_root (m_table m)) path meth (s_params (with_id s x)) <> None).
    { intros s _ x. cbn [with_id s_params]. apply (find_route_total (t_root (m_table m)) path meth (s_params s)). }
    destruct choice as [i|].
    + destruct (nth_error (m_pool m) i) as [s|] eqn:En; [|discriminate].
      assert (Hs : pooled_ok (m_prefix m) s).
      { rewrite Forall_forall in Hpool. apply Hpool. eapply nth_error_In; eauto. }
      specialize (Hfr s Hs (s_id s ++ render_id (m_next_id m + 1))).
      destruct (find_route_gen _ _ _ _ _) as [[? ?]|]; [discriminate | contradiction].
    + assert (Hs : pooled_ok (m_prefix m) (new_store (m_prefix m) (t_max_params (m_table m)))).
      { unfold pooled_ok, new_store. cbn. repeat split; auto. apply fit9_id. auto. }
      specialize (Hfr _ Hs (s_id (new_store (m_prefix m) (t_max_params (m_table m))) ++ render_id (m_next_id m + 1))).
      destruct (find_route_gen _ _ _ _ _) as [[? ?]|]; [discriminate | contradiction].
  - destruct (find_flight k (m_flights m)); discriminate.
  - destruct (find_flight k (m_flights m)); discriminate.
  - destruct (nth_error (m_pool m) i); discriminate.
Qed.

(** the isolation statement for one request in flight: it reads what it would read on a fresh Mux on which the same
    registration attempts were made (whatever trie nodes rejected ones left behind) *)
Theorem flight_isolated_attempts : forall m f names, Inv m -> In f (m_flights m) ->
  fresh_core_attempts (m_routes m) (f_path f) (f_method f) names = Some (core (observe_flight f names))
  /\ ob_id (observe_flight f names) = m_prefix m ++ render_id (f_ticket f).
Proof.
  intros m f names [Hreg [Hlen [_ [Hfl _]]]] Hin.
  rewrite Forall_forall in Hfl. destruct (Hfl f Hin) as [Hid [_ [ps0 [Hk [Hv Hfr]]]]].
  split; [|exact Hid].
  unfold fresh_core_attempts, serve_http. rewrite <- Hreg.
  pose proof (find_route_cap_irrelevant (t_root (m_table m)) (f_path f) (f_method f)
                (fresh_params (t_max_params (m_table m))) ps0) as H.
  rewrite Hfr in H.
  destruct (find_route (t_root (m_table m)) (f_path f) (f_method f) (fresh_params (t_max_params (m_table m))))
    as [[info2 ps2]|]; [|contradiction (H (eq_sym Hk) (eq_sym Hv))].
  destruct (H (eq_sym Hk) (eq_sym Hv)) as [-> [HK2 HV2]].
  unfold core, observe_flight, route_param_any_of. cbn [ob_target ob_vals ob_any].
  f_equal. f_equal; [f_equal|].
  - apply map_ext. intros name. apply route_param_of_ext; auto.
  - apply route_param_of_ext; auto.
Qed.

(** when all registrations so far were accepted, that is the specification's answer and no lookup panics *)
Theorem flight_isolated : forall m f names t, Inv m -> In f (m_flights m) ->
  register_all (m_routes m) = Some t ->
  fresh_core (m_routes m) (f_path f) (f_method f) names = Some (core (observe_flight f names))
  /\ ob_id (observe_flight f names) = m_prefix m ++ render_id (f_ticket f)
  /\ Forall (fun v => v <> None) (ob_vals (observe_flight f names))
  /\ ob_any (observe_flight f names) <> None.
Proof.
  intros m f names t [Hatt [Hlen [_ [Hfl _]]]] Hin Hall.
  assert (Hreg : register_all (m_routes m) = Some (m_table m)).
  { rewrite Hatt. rewrite (register_attempts_all _ _ Hall). exact Hall. }
  clear Hall t.
  rewrite Forall_forall in Hfl. destruct (Hfl f Hin) as [Hid [_ [ps0 [Hk [Hv Hfr]]]]].
  pose proof (fresh_core_of_find _ _ _ _ names ps0 _ _ Hreg Hv Hk Hfr) as Hc.
  split; [exact Hc|]. split; [exact Hid|].
  pose proof (register_all_repr _ _ Hreg) as [HR _].
  pose proof (find_route_view _ _ _ _ ps0 _ _ HR Hv Hk Hfr) as Hview.
  assert (Hsome : forall name, route_param_of (s_params (f_store f)) name <> None).
  { intros name. destruct (match_spec (m_routes m) (segments (f_path f)) (f_method f));
      destruct Hview as [_ Hv2]; rewrite Hv2; discriminate. }
  split.
  - unfold observe_flight. cbn [ob_vals]. apply Forall_forall. intros v Hv0.
    apply in_map_iff in Hv0. destruct Hv0 as [name [<- _]]. apply Hsome.
  - unfold observe_flight. cbn [ob_any]. apply Hsome.
Qed.

Definition label_key (l : label) : option nat :=
  match l with
  | LBegin k _ _ _ => Some k
  | LWrite k _ => Some k
  | LEnd k _ => Some k
  | _ => None
  end.

Lemma find_flight_remove_other : forall k k' fs, k <> k' ->
  find_flight k' (remove_flight k fs) = find_flight k' fs.
Proof.
  induction fs as [|h fs IH]; intros Hne; cbn [remove_flight find_flight]; auto.
  destruct (Nat.eqb (f_key h) k) eqn:E1.
  - apply Nat.eqb_eq in E1. destruct (Nat.eqb (f_key h) k') eqn:E2; auto. apply Nat.eqb_eq in E2. congruence.
  - cbn [find_flight]. destruct (Nat.eqb (f_key h) k'); auto.
Qed.

(** a step of another request (or a registration, or the pool forgetting a Store) does not touch request k's Store *)
Theorem step_frame : forall m l m' k, step m l = Ok m' -> label_key l <> Some k ->
  find_flight k (m_flights m') = find_flight k (m_flights m).
Proof.
  intros m l m' k Hs Hne. unfold step in Hs.
  destruct l as [p meth | k0 choice path meth | k0 code | k0 how | i]; cbn [step_gen label_key] in *.
  - destruct (m_flights m); [|discriminate]. inversion Hs; subst; auto.
  - destruct (find_flight k0 (m_flights m)); [discriminate|].
    destruct (match choice with None => _ | Some i => _ end) as [[s pool']|]; [|discriminate].
    destruct (find_route_gen _ _ _ _ _) as [[info ps']|]; [|discriminate].
    inversion Hs; subst; clear Hs. cbn [m_flights find_flight f_key].
    destruct (Nat.eqb k0 k) eqn:E; auto. apply Nat.eqb_eq in E. congruence.
  - destruct (find_flight k0 (m_flights m)); [|discriminate]. inversion Hs; subst; clear Hs. cbn [m_flights].
    assert (k0 <> k) by congruence.
    induction (m_flights m) as [|h fs IH]; cbn [update_flight find_flight]; auto.
    destruct (Nat.eqb (f_key h) k0) eqn:E1; cbn [find_flight f_key].
    + apply Nat.eqb_eq in E1. destruct (Nat.eqb (f_key h) k) eqn:E2; auto. apply Nat.eqb_eq in E2. congruence.
    + destruct (Nat.eqb (f_key h) k); auto.
  - destruct (find_flight k0 (m_flights m)); [|discriminate]. inversion Hs; subst; clear Hs. cbn [m_flights].
    apply find_flight_remove_other. congruence.
  - destruct (nth_error (m_pool m) i); [|discriminate]. inversion Hs; subst; auto.
Qed.

(** at handler entry: W.Status is 0 and the id carries the request's own ticket *)
Theorem begin_entry : forall m k choice path meth m', Inv m -> step m (LBegin k choice path meth) = Ok m' ->
  exists f, find_flight k (m_flights m') = Some f
    /\ s_status (f_store f) = 0%N /\ f_ticket f = (m_next_id m + 1)%N /\ m_next_id m' = (m_next_id m + 1)%N
    /\ f_path f = path /\ f_method f = meth.
Proof.
  intros m k choice path meth m' [Hreg [Hlen [Hpool _]]] Hs. unfold step in Hs. cbn [step_gen] in Hs.
  destruct (find_flight k (m_flights m)); [discriminate|].
  assert (Hst : forall s pool',
     match choice with
     | None => Some (new_store (m_prefix m) (t_max_params (m_table m)), m_pool m)
     | Some i => match nth_error (m_pool m) i with Some s => Some (s, remove_nth i (m_pool m)) | None => None end
     end = Some (s, pool') -> s_status s = 0%N).
  { intros s pool' E. destruct choice as [i|].
    - destruct (nth_error (m_pool m) i) eqn:En; [|discriminate]. inversion E; subst.
      rewrite Forall_forall in Hpool. apply (Hpool s). eapply nth_error_In; eauto.
    - inversion E; subst. reflexivity. }
  destruct (match choice with None => _ | Some i => _ end) as [[s pool']|]; [|discriminate].
  specialize (Hst s pool' eq_refl).
  destruct (find_route_gen _ _ _ _ _) as [[info ps']|]; [|discriminate].
  inversion Hs; subst; clear Hs. cbn [m_flights find_flight f_key]. rewrite Nat.eqb_refl.
  eexists. split; [reflexivity|]. cbn. auto.
Qed.

(** the request's own WriteHeader is the only thing that changes what it reads, and only W.Status *)
Theorem write_header_own : forall m k op m' f, step m (LWrite k op) = Ok m' ->
  find_flight k (m_flights m) = Some f ->
  exists f', find_flight k (m_flights m') = Some f'
    /\ s_status (f_store f') = apply_wop op (s_status (f_store f)) /\ s_params (f_store f') = s_params (f_store f)
    /\ s_id (f_store f') = s_id (f_store f) /\ f_info f' = f_info f /\ f_ticket f' = f_ticket f.
Proof.
  intros m k op m' f Hs Hf. unfold step in Hs. cbn [step_gen] in Hs. rewrite Hf in Hs.
  inversion Hs; subst; clear Hs. cbn [m_flights].
  induction (m_flights m) as [|h fs IH]; cbn [find_flight update_flight] in *; [discriminate|].
  destruct (Nat.eqb (f_key h) k) eqn:E; cbn [find_flight f_key].
  - rewrite E. inversion Hf; subst. eexists. split; [reflexivity|]. cbn. auto.
  - rewrite E. auto.
Qed.

(** ** ids are pairwise distinct *)

Lemma step_next_id_mono : forall m l m', step m l = Ok m' -> (m_next_id m <= m_next_id m')%N.
Proof.
  intros m l m' Hs. unfold step in Hs.
  destruct l as [p meth | k0 choice path meth | k0 code | k0 how | i]; cbn [step_gen] in Hs.
  - destruct (m_flights m); [|discriminate]. inversion Hs; subst; cbn; lia.
  - destruct (find_flight k0 (m_flights m)); [discriminate|].
    destruct (match choice with None => _ | Some i => _ end) as [[s pool']|]; [|discriminate].
    destruct (find_route_gen _ _ _ _ _) as [[info ps']|]; [|discriminate].
    inversion Hs; subst; cbn; lia.
  - destruct (find_flight k0 (m_flights m)); inversion Hs; subst; cbn; lia.
  - destruct (find_flight k0 (m_flights m)); inversion Hs; subst; cbn; lia.
  - destruct (nth_error (m_pool m) i); inversion Hs; subst; cbn; lia.
Qed.

Lemma run_next_id_mono : forall ls m m', run m ls = Ok m' -> (m_next_id m <= m_next_id m')%N.
Proof.
  induction ls as [|l ls IH]; intros m m' Hr; cbn [run run_gen] in Hr.
  - inversion Hr; subst. lia.
  - fold (step m l) in Hr. destruct (step m l) as [m1| |] eqn:Es; try discriminate.
    apply step_next_id_mono in Es. fold (run m1 ls) in Hr. apply IH in Hr. lia.
Qed.

Lemma begin_ids_shape : forall ls m m', Inv m -> run m ls = Ok m' ->
  Forall (fun id => exists t, id = m_prefix m ++ render_id t /\ (m_next_id m < t <= m_next_id m')%N) (begin_ids m ls).
Proof.
  induction ls as [|l ls IH]; intros m m' HI Hr; cbn [begin_ids]; [constructor|].
  cbn [run run_gen] in Hr. fold (step m l) in Hr. destruct (step m l) as [m1| |] eqn:Es; try discriminate.
  fold (run m1 ls) in Hr.
  pose proof (step_preserves_Inv _ _ _ HI Es) as HI1.
  pose proof (step_next_id_mono _ _ _ Es) as Hm1.
  pose proof (run_next_id_mono _ _ _ Hr) as Hm2.
  assert (Hp : m_prefix m1 = m_prefix m).
  { unfold step in Es. destruct l as [p meth | k0 choice path meth | k0 code | k0 how | i]; cbn [step_gen] in Es.
    - destruct (m_flights m); [|discriminate]. inversion Es; subst; auto.
    - destruct (find_flight k0 (m_flights m)); [discriminate|].
      destruct (match choice with None => _ | Some i => _ end) as [[s pool']|]; [|discriminate].
      destruct (find_route_gen _ _ _ _ _) as [[info ps']|]; [|discriminate]. inversion Es; subst; auto.
    - destruct (find_flight k0 (m_flights m)); inversion Es; subst; auto.
    - destruct (find_flight k0 (m_flights m)); inversion Es; subst; auto.
    - destruct (nth_error (m_pool m) i); inversion Es; subst; auto. }
  assert (Rest : Forall (fun id => exists t, id = m_prefix m ++ render_id t /\ (m_next_id m < t <= m_next_id m')%N)
                        (begin_ids m1 ls)).
  { eapply Forall_impl; [|apply (IH m1 m' HI1 Hr)]. intros id [t [E Ht]]. exists t. rewrite <- Hp. split; auto. lia. }
  destruct l as [p meth | k0 choice path meth | k0 code | k0 how | i]; auto.
  destruct (begin_entry _ _ _ _ _ _ HI Es) as [f [Ef [_ [Ht [Hn _]]]]]. rewrite Ef.
  constructor; auto.
  destruct HI1 as [_ [_ [_ [Hfl _]]]]. rewrite Forall_forall in Hfl.
  apply find_flight_In in Ef. destruct Ef as [Hin _]. destruct (Hfl f Hin) as [Hid _].
  exists (f_ticket f). rewrite Hid, Hp. split; auto. lia.
Qed.

Theorem begin_ids_NoDup : forall ls m m', Inv m -> run m ls = Ok m' -> (m_next_id m' < id_bound)%N ->
  NoDup (begin_ids m ls).
Proof.
  induction ls as [|l ls IH]; intros m m' HI Hr Hb; cbn [begin_ids]; [constructor|].
  pose proof Hr as Hr0.
  cbn [run run_gen] in Hr. fold (step m l) in Hr. destruct (step m l) as [m1| |] eqn:Es; try discriminate.
  fold (run m1 ls) in Hr.
  pose proof (step_preserves_Inv _ _ _ HI Es) as HI1.
  specialize (IH m1 m' HI1 Hr Hb).
  destruct l as [p meth | k0 choice path meth | k0 code | k0 how | i]; auto.
  destruct (begin_entry _ _ _ _ _ _ HI Es) as [f [Ef [_ [Ht [Hn _]]]]]. rewrite Ef.
  constructor; auto.
  intros Hin. pose proof (begin_ids_shape ls m1 m' HI1 Hr) as Hsh. rewrite Forall_forall in Hsh.
  destruct (Hsh _ Hin) as [t [E Ht2]].
  destruct HI1 as [_ [Hlen1 [_ [Hfl _]]]]. rewrite Forall_forall in Hfl.
  apply find_flight_In in Ef. destruct Ef as [Hinf _]. destruct (Hfl f Hinf) as [Hid _].
  rewrite Hid in E. apply app_inv_head in E. apply render_id_inj in E; try lia.
Qed.

Theorem run_no_panic : forall ls m, Inv m -> run m ls <> Panic.
Proof.
  induction ls as [|l ls IH]; intros m HI; cbn [run run_gen]; [discriminate|].
  fold (step m l). destruct (step m l) as [m1| |] eqn:Es; [|discriminate|].
  - apply IH. eapply step_preserves_Inv; eauto.
  - exfalso. eapply step_no_panic; eauto.
Qed.

Lemma run_routes : forall ls m m', run m ls = Ok m' -> m_routes m' = m_routes m ++ registered ls.
Proof.
  induction ls as [|l ls IH]; intros m m' Hr; cbn [run run_gen] in Hr.
  - inversion Hr; subst. cbn. rewrite app_nil_r. auto.
  - fold (step m l) in Hr. destruct (step m l) as [m1| |] eqn:Es; try discriminate.
    fold (run m1 ls) in Hr. rewrite (IH _ _ Hr). unfold step in Es.
    destruct l as [p meth | k0 choice path meth | k0 code | k0 how | i]; cbn [step_gen registered] in *.
    + destruct (m_flights m); [|discriminate]. inversion Es; subst. cbn. rewrite <- app_assoc. auto.
    + destruct (find_flight k0 (m_flights m)); [discriminate|].
      destruct (match choice with None => _ | Some i => _ end) as [[s pool']|]; [|discriminate].
      destruct (find_route_gen _ _ _ _ _) as [[info ps']|]; [|discriminate]. inversion Es; subst; auto.
    + destruct (find_flight k0 (m_flights m)); inversion Es; subst; auto.
    + destruct (find_flight k0 (m_flights m)); inversion Es; subst; auto.
    + destruct (nth_error (m_pool m) i); inversion Es; subst; auto.
Qed.

Lemma run_prefix : forall ls m m', run m ls = Ok m' -> m_prefix m' = m_prefix m.
Proof.
  induction ls as [|l ls IH]; intros m0 m1 Hr0; cbn [run run_gen] in Hr0; [inversion Hr0; auto|].
  fold (step m0 l) in Hr0. destruct (step m0 l) as [m2| |] eqn:Es; try discriminate.
  fold (run m2 ls) in Hr0. rewrite (IH _ _ Hr0). unfold step in Es.
  destruct l as [p meth | k0 choice path meth | k0 code | k0 how | i]; cbn [step_gen] in Es.
  - destruct (m_flights m0); [|discriminate]. inversion Es; subst; auto.
  - destruct (find_flight k0 (m_flights m0)); [discriminate|].
    destruct (match choice with None => _ | Some i => _ end) as [[s pool']|]; [|discriminate].
    destruct (find_route_gen _ _ _ _ _) as [[info ps']|]; [|discriminate]. inversion Es; subst; auto.
  - destruct (find_flight k0 (m_flights m0)); inversion Es; subst; auto.
  - destruct (find_flight k0 (m_flights m0)); inversion Es; subst; auto.
  - destruct (nth_error (m_pool m0) i); inversion Es; subst; auto.
Qed.

Theorem reachable_isolated_attempts : forall prefix ls m f names,
  run (new_mux prefix) ls = Ok m -> In f (m_flights m) ->
  fresh_core_attempts (registered ls) (f_path f) (f_method f) names = Some (core (observe_flight f names))
  /\ ob_id (observe_flight f names) = fit9 prefix ++ render_id (f_ticket f).
Proof.
  intros prefix ls m f names Hr Hin.
  pose proof (run_preserves_Inv _ _ _ (Inv_new prefix) Hr) as HI.
  pose proof (run_routes _ _ _ Hr) as Hrt. cbn in Hrt.
  pose proof (flight_isolated_attempts m f names HI Hin) as H. rewrite Hrt in H.
  assert (Hp : m_prefix m = fit9 prefix) by (apply (run_prefix _ _ _ Hr)).
  rewrite Hp in H. exact H.
Qed.

Theorem reachable_isolated : forall prefix ls m f names t,
  run (new_mux prefix) ls = Ok m -> In f (m_flights m) ->
  register_all (registered ls) = Some t ->
  fresh_core (registered ls) (f_path f) (f_method f) names = Some (core (observe_flight f names))
  /\ ob_id (observe_flight f names) = fit9 prefix ++ render_id (f_ticket f)
  /\ Forall (fun v => v <> None) (ob_vals (observe_flight f names))
  /\ ob_any (observe_flight f names) <> None.
Proof.
  intros prefix ls m f names t Hr Hin Hall.
  pose proof (run_preserves_Inv _ _ _ (Inv_new prefix) Hr) as HI.
  pose proof (run_routes _ _ _ Hr) as Hrt. cbn in Hrt.
  rewrite <- Hrt in Hall.
  pose proof (flight_isolated m f names t HI Hin Hall) as H. rewrite Hrt in H.
  assert (Hp : m_prefix m = fit9 prefix) by (apply (run_prefix _ _ _ Hr)).
  rewrite Hp in H. exact H.
Qed.

Theorem reachable_pool_clean : forall prefix ls m,
  run (new_mux prefix) ls = Ok m -> Forall (pooled_ok (fit9 prefix)) (m_pool m).
Proof.
  intros prefix ls m Hr.
  pose proof (run_preserves_Inv _ _ _ (Inv_new prefix) Hr) as [_ [_ [Hpool _]]].
  assert (Hp : m_prefix m = fit9 prefix) by (apply (run_prefix _ _ _ Hr)).
  rewrite <- Hp. exact Hpool.
Qed.

(** ids are unique as long as the counter of the SOURCE AT HAND has not wrapped: [check_counter] (evaluated on the facts
    extracted from the source on every run) gives the width 64 that [begin_ids_NoDup] needs. *)
Theorem ids_unique_for_source : forall f, CounterFacts.check_counter f = true ->
  CounterFacts.counter_width f = 64%N /\
  forall prefix history m, run (new_mux prefix) history = Ok m ->
    (m_next_id m < 2 ^ CounterFacts.counter_width f)%N -> NoDup (begin_ids (new_mux prefix) history).
Proof.
  intros f H. unfold CounterFacts.check_counter in H.
  repeat (apply andb_true_iff in H; destruct H as [H ?]). apply N.eqb_eq in H.
  split; auto. intros prefix history m Hr Hb. rewrite H in Hb.
  apply (begin_ids_NoDup history (new_mux prefix) m (Inv_new prefix) Hr).
  pose proof uint64_below_bound. unfold id_bound in *. eapply N.lt_le_trans; eauto.
Qed.
