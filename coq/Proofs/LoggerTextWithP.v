(** With-is-call-site for the Text byte model (Model/LoggerText.v, the model the C13 correspondence
    exercises): attributes handed to With/WithAttrs are rendered exactly as if they had been passed
    at the call site ahead of the call's own attributes, under the same group prefix.  The key fact
    is a frame property of appendTextAttr: what it appends does not depend on what the buffer
    already holds (so rendering into [preformatted] at derivation time = rendering into the
    record's buffer at Handle time). *)
From Coq Require Import List NArith Bool.
Import ListNotations.
From Glb Require Import Lib.Utf8 Lib.GoQuote Lib.TextTok Model.LoggerText Proofs.LoggerTextP.

Section W.
  Variable isSpace : N -> bool.
  Variable isPrint : N -> bool.
  Variable sp_print : N -> bool.
  Notation ATA := (append_text_attr isSpace isPrint sp_print).
  Notation append_attrs := (append_attrs isSpace isPrint sp_print).
  Notation with_attrs := (with_attrs isSpace isPrint sp_print).
  Notation handle := (handle isSpace isPrint sp_print).
  Notation derive := (derive isSpace isPrint sp_print).
  Notation group_loop := (group_loop isSpace isPrint sp_print).

  Definition framed (v : value) : Prop :=
    forall b0 buf prefix key,
      ATA (b0 ++ buf) prefix key v = (b0 ++ fst (ATA buf prefix key v), snd (ATA buf prefix key v)).

  Lemma framed_leaf v :
    (forall b0 buf, append_text_value isSpace isPrint sp_print (b0 ++ buf) v
                    = b0 ++ append_text_value isSpace isPrint sp_print buf v) ->
    (forall buf prefix key, ATA buf prefix key v =
       (let buf1 := buf ++ [32] in
        let r := if negb (is_empty prefix)
                 then (append_text_string isSpace isPrint sp_print buf1 (prefix ++ 46 :: key), prefix ++ 46 :: key)
                 else (append_text_string isSpace isPrint sp_print buf1 key, prefix) in
        (append_text_value isSpace isPrint sp_print (fst r ++ [61]) v, snd r))) ->
    framed v.
  Proof.
    intros Hval Hata b0 buf prefix key. rewrite !Hata. cbv zeta.
    destruct (negb (is_empty prefix)); cbn [fst snd]; unfold append_text_string;
      rewrite <- !app_assoc, Hval; reflexivity.
  Qed.

  Lemma framed_group ms : Forall (fun kv => framed (snd kv)) ms -> framed (VGroup ms).
  Proof.
    intros Hms b0 buf prefix key. rewrite !attr_group.
    generalize (length prefix) as ori. intros ori. revert buf prefix.
    induction ms as [|[k v'] ms' IH]; intros buf prefix.
    - reflexivity.
    - inversion Hms as [|? ? Hv' Hms']; subst. cbn [snd] in Hv'.
      cbn [LoggerTextP.group_loop]. cbv zeta. rewrite Hv'. cbn [fst snd]. apply IH. exact Hms'.
  Qed.

  Lemma framed_all v : framed v.
  Proof.
    induction v as [s|s|ms Hms] using value_ind2.
    - apply framed_leaf; [|reflexivity]. intros b0 buf. cbn [append_text_value]. unfold append_text_string.
      rewrite app_assoc. reflexivity.
    - apply framed_leaf; [|reflexivity]. intros b0 buf. cbn [append_text_value]. rewrite app_assoc. reflexivity.
    - apply framed_group. exact Hms.
  Qed.

  Lemma append_attrs_frame l : forall b0 buf gp, append_attrs (b0 ++ buf) gp l = b0 ++ append_attrs buf gp l.
  Proof.
    induction l as [|[k v] t IH]; intros b0 buf gp; [reflexivity|].
    rewrite !append_attrs_cons. rewrite (framed_all v). cbn [fst]. apply IH.
  Qed.

  Lemma append_attrs_app a b buf gp : append_attrs buf gp (a ++ b) = append_attrs (append_attrs buf gp a) gp b.
  Proof. unfold LoggerText.append_attrs. apply fold_left_app. Qed.

  Definition prepend (l : list attr) (r : record) : record :=
    mkRecord (time_txt r) (lvl r) (src r) (msg r) (l ++ attrs r).

  Lemma text_with_is_callsite h l r : handle (with_attrs h l) r = handle h (prepend l r).
  Proof.
    destruct l as [|a l']; [destruct r; reflexivity|].
    unfold LoggerText.with_attrs. set (l := a :: l').
    unfold LoggerText.handle, prepend. cbv zeta. cbn [preformatted groupPrefix time_txt lvl src msg attrs].
    rewrite append_attrs_app, (append_attrs_frame l). reflexivity.
  Qed.

  Lemma text_with_with h a b : with_attrs (with_attrs h a) b = with_attrs h (a ++ b).
  Proof.
    destruct a as [|x a']; [reflexivity|]. destruct b as [|y b']; [rewrite app_nil_r; reflexivity|].
    cbn [LoggerText.with_attrs app preformatted groupPrefix].
    change (x :: a' ++ y :: b') with ((x :: a') ++ y :: b'). rewrite append_attrs_app. reflexivity.
  Qed.

  Lemma tderive_snoc c d : derive (c ++ [d]) = derive_step isSpace isPrint sp_print (derive c) d.
  Proof. unfold LoggerText.derive. rewrite fold_left_app. reflexivity. Qed.

  Lemma text_with_chain c l r : handle (derive (c ++ [DAttrs l])) r = handle (derive c) (prepend l r).
  Proof. rewrite tderive_snoc. apply text_with_is_callsite. Qed.
End W.
