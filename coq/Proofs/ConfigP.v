(** Lemmas for C09: priority of the configuration sources; laws of strutil.Underscore. *)
From Coq Require Import List NArith ZArith Bool Arith Lia.
Import ListNotations.
From Glb Require Import Lib.ArgGrammar Model.ArgParse Model.FlagValue Model.Config Proofs.ArgParseP.
Open Scope N_scope.

(** * the finite map *)
Lemma get_put_same st n v : get (put st n v) n = Some v.
Proof.
  induction st as [|[m w] r IH]; cbn [put get].
  - rewrite bytes_eqb_refl. reflexivity.
  - destruct (bytes_eqb m n) eqn:E; cbn [get]; rewrite E; [reflexivity | exact IH].
Qed.

Lemma get_put_other st n m v : n <> m -> get (put st n v) m = get st m.
Proof.
  intros H. induction st as [|[k w] r IH]; cbn [put get].
  - apply bytes_eqb_neq in H. rewrite H. reflexivity.
  - destruct (bytes_eqb k n) eqn:E; cbn [get].
    + apply bytes_eqb_eq in E. subst k. apply bytes_eqb_neq in H. rewrite H. reflexivity.
    + destruct (bytes_eqb k m); [reflexivity | exact IH].
Qed.

(** * Value.Set *)
Lemma set_T_empty o k : set_T o k [] = SOk (zero k).
Proof. reflexivity. Qed.

Lemma set_T_string o t : set_T o KString t = SOk (VString t).
Proof. destruct t; reflexivity. Qed.

(** * names *)
Definition names (fs : flagset) : list token := map fname fs.

Lemma defined_false fs n : defined fs n = false -> ~ In n (names fs).
Proof.
  unfold defined, names. induction fs as [|g r IH]; cbn [existsb map In]; [tauto|].
  intros H. apply orb_false_iff in H as [H1 H2]. intros [A|A].
  - subst n. rewrite bytes_eqb_refl in H1. discriminate.
  - exact (IH H2 A).
Qed.

Lemma NoDup_snoc (T : Type) (l : list T) x : NoDup l -> ~ In x l -> NoDup (l ++ [x]).
Proof.
  induction l as [|a l IH]; cbn [app]; intros Hn Hx.
  - constructor; [intros [] | constructor].
  - apply NoDup_cons_iff in Hn as [H1 H2]. constructor.
    + rewrite in_app_iff. cbn [In]. intros [A|[A|[]]]; [contradiction | subst; apply Hx; left; reflexivity].
    + apply IH; [exact H2 | intros A; apply Hx; right; exact A].
Qed.

Lemma names_unique fs f g : NoDup (names fs) -> In f fs -> In g fs -> fname f = fname g -> f = g.
Proof.
  unfold names. induction fs as [|h r IH]; cbn [map In]; [tauto|].
  intros Hn Hf Hg E. apply NoDup_cons_iff in Hn as [H1 H2].
  destruct Hf as [Hf|Hf], Hg as [Hg|Hg]; subst.
  - reflexivity.
  - exfalso. apply H1. rewrite E. apply in_map. exact Hg.
  - exfalso. apply H1. rewrite <- E. apply in_map. exact Hf.
  - apply IH; assumption.
Qed.

(** * NewFlagSet establishes: unique names, every cell holds the parsed tag default, the
    config cell is empty *)
Definition Inv (o : oracle) (fs : flagset) (st : state) : Prop :=
  NoDup (names fs)
  /\ (forall f, In f fs -> exists v, get st (fname f) = Some v /\ set_T o (fkind f) (fdef f) = SOk v)
  /\ get st config_name = Some (VString [])
  /\ In config_name (names fs)
  /\ (forall f, In f fs -> In f builtins \/ (starts_with_dash (fname f) = false /\ mem 61 (fname f) = false)).

Lemma inv_builtins o : Inv o builtins [(help_name, VBool false); (config_name, VString [])].
Proof.
  repeat split.
  - unfold names, builtins. cbn [map fname]. constructor; [|constructor; [intros []|constructor]].
    intros [A|[]]. discriminate A.
  - intros f [<-|[<-|[]]].
    + exists (VBool false). split; reflexivity.
    + exists (VString []). split; reflexivity.
  - right. left. reflexivity.
  - intros f H. left. exact H.
Qed.

Lemma add_fields_inv o : forall fields fs st fs' st',
  Inv o fs st -> add_fields o fields fs st = NOk fs' st' -> Inv o fs' st'.
Proof.
  induction fields as [|f r IH]; intros fs st fs' st' HI H; cbn [add_fields] in H.
  - injection H as <- <-. exact HI.
  - destruct (starts_with_dash (fname f)) eqn:E1; [discriminate|].
    destruct (mem 61 (fname f)) eqn:E2; [discriminate|].
    destruct (defined fs (fname f)) eqn:E3; [discriminate|].
    destruct (set_T o (fkind f) (fdef f)) as [v|] eqn:E4; [|discriminate].
    apply (IH _ _ _ _) in H; [exact H|]. clear IH H.
    destruct HI as [H1 [H2 [H3 [H4 H5]]]]. apply defined_false in E3.
    assert (Hne : forall g, In g fs -> fname f <> fname g).
    { intros g Hg E. apply E3. rewrite E. apply in_map. exact Hg. }
    repeat split.
    + unfold names. rewrite map_app. apply NoDup_snoc; assumption.
    + intros g Hg. apply in_app_iff in Hg as [Hg|[<-|[]]].
      * destruct (H2 g Hg) as [w [A B]]. exists w. split; [|exact B].
        rewrite get_put_other; [exact A | apply Hne; exact Hg].
      * exists v. split; [apply get_put_same | exact E4].
    + rewrite get_put_other; [exact H3|]. intros E. apply E3. rewrite E. exact H4.
    + unfold names. rewrite map_app, in_app_iff. left. exact H4.
    + intros g Hg. apply in_app_iff in Hg as [Hg|[<-|[]]]; [apply H5; exact Hg | right; split; assumption].
Qed.

Lemma new_flag_set_inv o fields fs st0 : new_flag_set o fields = NOk fs st0 -> Inv o fs st0.
Proof. apply add_fields_inv, inv_builtins. Qed.

(** the table NewFlagSet builds is well-formed in the sense of C10 (given non-empty names) *)
Lemma mem_false c s : mem c s = false -> ~ In c s.
Proof.
  induction s as [|x r IH]; cbn [mem In]; [tauto|]. intros H. apply orb_false_iff in H as [H1 H2].
  apply N.eqb_neq in H1. intros [A|A]; [contradiction | exact (IH H2 A)].
Qed.

Lemma new_flag_set_table_wf o fields fs st0 :
  new_flag_set o fields = NOk fs st0 -> (forall f, In f fields -> fname f <> []) ->
  (forall f, In f fs -> In f builtins \/ In f fields) -> wf_table (table_of fs).
Proof.
  intros H Hne Hsub. apply new_flag_set_inv in H. destruct H as [_ [_ [_ [_ H5]]]].
  intros n b Hin. unfold table_of in Hin. apply in_map_iff in Hin as [f [E Hf]]. injection E as <- _.
  destruct (H5 f Hf) as [[<-|[<-|[]]] | [A B]].
  - split; [discriminate | cbn; intuition discriminate].
  - split; [discriminate | cbn; intuition discriminate].
  - destruct (Hsub f Hf) as [[<-|[<-|[]]] | Hfield].
    + split; [discriminate | cbn; intuition discriminate].
    + split; [discriminate | cbn; intuition discriminate].
    + split; [|apply mem_false; exact B].
      destruct (fname f) as [|c r] eqn:En; [exact (Hne f Hfield En)|].
      cbn [starts_with_dash] in A. apply N.eqb_neq in A. exact A.
Qed.

Lemma add_fields_sub o : forall fields fs st fs' st',
  add_fields o fields fs st = NOk fs' st' -> forall f, In f fs' -> In f fs \/ In f fields.
Proof.
  induction fields as [|g r IH]; intros fs st fs' st' H f Hf; cbn [add_fields] in H.
  - injection H as <- <-. left. exact Hf.
  - destruct (starts_with_dash (fname g)); [discriminate|]. destruct (mem 61 (fname g)); [discriminate|].
    destruct (defined fs (fname g)); [discriminate|]. destruct (set_T o (fkind g) (fdef g)); [|discriminate].
    destruct (IH _ _ _ _ H f Hf) as [A|A].
    + apply in_app_iff in A as [A|[<-|[]]]; [left; exact A | right; left; reflexivity].
    + right. right. exact A.
Qed.

(** * the JSON overlay *)
Lemma apply_overlay_cons f r ov st :
  apply_overlay (f :: r) ov st
  = apply_overlay r ov (match json_of ov f with Some v => put st (fname f) v | None => st end).
Proof. reflexivity. Qed.

Lemma apply_overlay_get ov : forall fs st, NoDup (names fs) ->
  (forall n, ~ In n (names fs) -> get (apply_overlay fs ov st) n = get st n)
  /\ (forall f, In f fs -> get (apply_overlay fs ov st) (fname f)
                          = match json_of ov f with Some v => Some v | None => get st (fname f) end).
Proof.
  induction fs as [|f r IH]; intros st Hn.
  - split; [reflexivity | intros f []].
  - unfold names in Hn. cbn [map] in Hn. apply NoDup_cons_iff in Hn as [H1 H2].
    rewrite apply_overlay_cons.
    set (st' := match json_of ov f with Some v => put st (fname f) v | None => st end).
    destruct (IH st' H2) as [IH1 IH2]. split.
    + intros n Hnot. unfold names in Hnot. cbn [map In] in Hnot. rewrite IH1 by tauto.
      unfold st'. destruct (json_of ov f); [|reflexivity]. apply get_put_other. tauto.
    + intros g [<-|Hg].
      * rewrite IH1 by exact H1. unfold st'. destruct (json_of ov f); [apply get_put_same | reflexivity].
      * rewrite (IH2 g Hg). destruct (json_of ov g); [reflexivity|].
        unfold st'. destruct (json_of ov f); [|reflexivity]. apply get_put_other.
        intros E. apply H1. rewrite E. apply in_map. exact Hg.
Qed.

(** * the flags loop *)
Definition text_src (w : world) (asg : list (token * token)) (f : flag) : option (list N) :=
  match cli_of asg f with Some t => Some t | None => env_of w f end.

Lemma set_flags_get w asg : forall fs st s, NoDup (names fs) -> set_flags w fs asg st = Some s ->
  (forall n, ~ In n (names fs) -> get s n = get st n)
  /\ (forall f, In f fs ->
        match text_src w asg f with
        | Some t => exists v, set_T (w_set w) (fkind f) t = SOk v /\ get s (fname f) = Some v
        | None => get s (fname f) = get st (fname f)
        end).
Proof.
  induction fs as [|f r IH]; intros st s Hn H; cbn [set_flags] in H.
  - injection H as <-. split; [reflexivity | intros f []].
  - unfold names in Hn. cbn [map] in Hn. apply NoDup_cons_iff in Hn as [H1 H2].
    fold (text_src w asg f) in H.
    destruct (text_src w asg f) as [t|] eqn:Et.
    + destruct (set_T (w_set w) (fkind f) t) as [v|] eqn:Es; [|discriminate].
      destruct (IH _ _ H2 H) as [IH1 IH2]. split.
      * intros n Hnot. unfold names in Hnot. cbn [map In] in Hnot. rewrite IH1 by tauto. apply get_put_other. tauto.
      * intros g [<-|Hg].
        -- rewrite Et. exists v. split; [exact Es|]. rewrite IH1 by exact H1. apply get_put_same.
        -- pose proof (IH2 g Hg) as A. destruct (text_src w asg g); [exact A|]. rewrite A.
           apply get_put_other. intros E. apply H1. rewrite E. apply in_map. exact Hg.
    + destruct (IH _ _ H2 H) as [IH1 IH2]. split.
      * intros n Hnot. unfold names in Hnot. cbn [map In] in Hnot. apply IH1. tauto.
      * intros g [<-|Hg]; [rewrite Et; apply IH1; exact H1 | exact (IH2 g Hg)].
Qed.

(** * priority *)
Definition winner_holds (w : world) (asg : list (token * token)) (ov : list (token * value)) (f : flag) (v : value) : Prop :=
  match cli_of asg f, env_of w f, json_of ov f with
  | Some t, _, _ => set_T (w_set w) (fkind f) t = SOk v
  | None, Some t, _ => set_T (w_set w) (fkind f) t = SOk v
  | None, None, Some jv => v = jv
  | None, None, None => set_T (w_set w) (fkind f) (fdef f) = SOk v
  end.

Lemma finish_priority w fs st0 st1 st2 asg ov rest s rest' :
  Inv (w_set w) fs st0 ->
  (forall f, cli_of asg f = None -> get st1 (fname f) = get st0 (fname f)) ->
  (forall f, In f fs -> get st2 (fname f) = match json_of ov f with Some v => Some v | None => get st1 (fname f) end) ->
  finish w fs asg rest st2 = POk s rest' ->
  rest' = rest /\ forall f, In f fs -> exists v, get s (fname f) = Some v /\ winner_holds w asg ov f v.
Proof.
  intros [H1 [H2 _]] F1 F2 H. unfold finish in H.
  destruct (set_flags w fs asg st2) as [s'|] eqn:Es; [|discriminate]. injection H as <- <-.
  split; [reflexivity|]. intros f Hf.
  destruct (set_flags_get w asg fs st2 s' H1 Es) as [_ G]. specialize (G f Hf).
  unfold winner_holds, text_src in *.
  destruct (cli_of asg f) as [t|] eqn:Ec.
  - destruct G as [v [A B]]. exists v. split; assumption.
  - destruct (env_of w f) as [t|] eqn:Ee.
    + destruct G as [v [A B]]. exists v. split; assumption.
    + rewrite G, (F2 f Hf). destruct (json_of ov f) as [jv|].
      * exists jv. split; reflexivity.
      * rewrite (F1 f Ec). destruct (H2 f Hf) as [v [A B]]. exists v. split; assumption.
Qed.

Lemma json_of_nil f : json_of [] f = None.
Proof. unfold json_of. destruct (fpath f); reflexivity. Qed.

Lemma parse_priority w fs st0 args s rest :
  Inv (w_set w) fs st0 ->
  parse w fs st0 args = POk s rest ->
  exists asg ov,
    arg_parse (table_of fs) args = Ok asg rest
    /\ json_overlay w asg = Some ov
    /\ forall f, In f fs -> exists v, get s (fname f) = Some v /\ winner_holds w asg ov f v.
Proof.
  intros HI H. unfold parse in H.
  destruct (arg_parse (table_of fs) args) as [asg rest0 | e |] eqn:Ea; try discriminate.
  exists asg.
  set (st1 := match final_value asg config_name with Some t => put st0 config_name (VString t) | None => st0 end).
  assert (F1 : forall f, cli_of asg f = None -> get st1 (fname f) = get st0 (fname f)).
  { intros f Hc. unfold st1. destruct (final_value asg config_name) as [t|] eqn:Ec; [|reflexivity].
    apply get_put_other. intros E. unfold cli_of in Hc. rewrite <- E, Ec in Hc. discriminate. }
  assert (F0 : get st1 config_name = Some (VString (match final_value asg config_name with Some t => t | None => [] end))).
  { unfold st1. destruct (final_value asg config_name); [apply get_put_same | apply HI]. }
  assert (H' : match json_data w st1 with
               | JErr => PErr
               | JNone => finish w fs asg rest0 st1
               | JData d => match w_json w d with None => PErr | Some ov => finish w fs asg rest0 (apply_overlay fs ov st1) end
               end = POk s rest).
  { unfold st1. destruct (final_value asg config_name) as [t|]; [rewrite set_T_string in H|]; exact H. }
  clear H. unfold json_data in H'. rewrite F0 in H'. unfold json_overlay.
  assert (Fnone : forall f, In f fs ->
            get st1 (fname f) = match json_of [] f with Some v => Some v | None => get st1 (fname f) end).
  { intros f _. rewrite json_of_nil. reflexivity. }
  assert (Fdata : forall ov f, In f fs -> get (apply_overlay fs ov st1) (fname f)
                    = match json_of ov f with Some v => Some v | None => get st1 (fname f) end).
  { intros ov. apply apply_overlay_get. apply HI. }
  destruct (final_value asg config_name) as [[|c p]|] eqn:Ec.
  - destruct (w_env w b64_env_name) as [b|].
    + destruct (w_b64 w b) as [d|]; [|discriminate]. destruct (w_json w d) as [ov|]; [|discriminate].
      exists ov. destruct (finish_priority w fs st0 st1 _ asg ov rest0 s rest HI F1 (Fdata ov) H') as [-> G]. auto.
    + exists []. destruct (finish_priority w fs st0 st1 _ asg [] rest0 s rest HI F1 Fnone H') as [-> G]. auto.
  - destruct (w_file w (c :: p)) as [d|]; [|discriminate]. destruct (w_json w d) as [ov|]; [|discriminate].
    exists ov. destruct (finish_priority w fs st0 st1 _ asg ov rest0 s rest HI F1 (Fdata ov) H') as [-> G]. auto.
  - destruct (w_env w b64_env_name) as [b|].
    + destruct (w_b64 w b) as [d|]; [|discriminate]. destruct (w_json w d) as [ov|]; [|discriminate].
      exists ov. destruct (finish_priority w fs st0 st1 _ asg ov rest0 s rest HI F1 (Fdata ov) H') as [-> G]. auto.
    + exists []. destruct (finish_priority w fs st0 st1 _ asg [] rest0 s rest HI F1 Fnone H') as [-> G]. auto.
Qed.

Lemma run_priority w fields args s rest :
  run w fields args = RParse (POk s rest) ->
  exists fs st0 asg ov,
    new_flag_set (w_set w) fields = NOk fs st0
    /\ arg_parse (table_of fs) args = Ok asg rest
    /\ json_overlay w asg = Some ov
    /\ forall f, In f fs -> exists v, get s (fname f) = Some v /\ winner_holds w asg ov f v.
Proof.
  unfold run. destruct (new_flag_set (w_set w) fields) as [fs st0|] eqn:En; [|discriminate].
  intros H. injection H as H. exists fs, st0.
  destruct (parse_priority w fs st0 args s rest (new_flag_set_inv _ _ _ _ En) H) as [asg [ov [A [B C]]]].
  exists asg, ov. auto.
Qed.

(** the value depends only on the highest-priority source that mentions the flag *)
Lemma winner_top_source w asg ov f v :
  winner_holds w asg ov f v ->
  match top_source (cli_of asg f) (env_of w f) (json_of ov f) with
  | SrcText t => set_T (w_set w) (fkind f) t = SOk v
  | SrcJson jv => v = jv
  | SrcDefault => set_T (w_set w) (fkind f) (fdef f) = SOk v
  end.
Proof.
  unfold winner_holds, top_source.
  destruct (cli_of asg f); [tauto|]. destruct (env_of w f); [tauto|]. destruct (json_of ov f); tauto.
Qed.

Lemma set_T_ext o1 o2 k t : oracle_agree o1 o2 -> set_T o1 k t = set_T o2 k t.
Proof.
  intros [Hs H]. unfold set_T. destruct t; [reflexivity|].
  destruct (in_model k (n :: t)); [destruct k; try rewrite Hs; auto | apply H].
Qed.

Lemma add_fields_ext o1 o2 : oracle_agree o1 o2 ->
  forall fields fs st, add_fields o1 fields fs st = add_fields o2 fields fs st.
Proof.
  intros H. induction fields as [|f r IH]; intros fs st; cbn [add_fields]; [reflexivity|].
  rewrite (set_T_ext o1 o2 _ _ H). destruct (starts_with_dash (fname f)); [reflexivity|].
  destruct (mem 61 (fname f)); [reflexivity|]. destruct (defined fs (fname f)); [reflexivity|].
  destruct (set_T o2 (fkind f) (fdef f)); [apply IH | reflexivity].
Qed.

Lemma sources_independent w1 w2 fs asg1 asg2 ov1 ov2 f v1 v2 :
  oracle_agree (w_set w1) (w_set w2) ->
  winner_holds w1 asg1 ov1 f v1 -> winner_holds w2 asg2 ov2 f v2 ->
  top_source (cli_of asg1 f) (env_of w1 f) (json_of ov1 f) = top_source (cli_of asg2 f) (env_of w2 f) (json_of ov2 f) ->
  In f fs -> v1 = v2.
Proof.
  intros Ho H1 H2 E _. apply winner_top_source in H1. apply winner_top_source in H2.
  rewrite E in H1. destruct (top_source (cli_of asg2 f) (env_of w2 f) (json_of ov2 f));
    try rewrite (set_T_ext _ _ _ _ Ho) in H1; congruence.
Qed.

Lemma empty_text_is_zero w asg ov f v :
  winner_holds w asg ov f v ->
  top_source (cli_of asg f) (env_of w f) (json_of ov f) = SrcText [] -> v = zero (fkind f).
Proof.
  intros H E. apply winner_top_source in H. rewrite E, set_T_empty in H. congruence.
Qed.

(** * strutil.Underscore *)
Definition out_char (upper : bool) (c : N) : bool :=
  if upper then is_upper c || is_digit c else is_lower c || is_digit c.

(** the shape  X+ (_ X+)*  (or empty): '_' only between two alphanumerics *)
Fixpoint snake_tail (upper : bool) (t : list N) : bool :=
  match t with
  | [] => true
  | c :: r =>
      if c =? 95 then match r with x :: _ => out_char upper x && snake_tail upper r | [] => false end
      else out_char upper c && snake_tail upper r
  end.

Definition no_lead (t : list N) : bool := match t with c :: _ => negb (c =? 95) | [] => true end.

Lemma out_char_not95 upper c : out_char upper c = true -> (c =? 95) = false.
Proof.
  unfold out_char, is_upper, is_lower, is_digit. intros H. apply N.eqb_neq. intros ->.
  destruct upper; vm_compute in H; discriminate.
Qed.

Lemma upper_conv c : is_lower c = true -> out_char true (c - 32) = true.
Proof.
  unfold out_char, is_lower, is_upper. intros H. apply andb_true_iff in H as [H1 H2].
  apply N.leb_le in H1, H2. apply orb_true_iff. left. apply andb_true_iff. split; apply N.leb_le; lia.
Qed.

Lemma lower_conv c : is_upper c = true -> out_char false (c + 32) = true.
Proof.
  unfold out_char, is_lower, is_upper. intros H. apply andb_true_iff in H as [H1 H2].
  apply N.leb_le in H1, H2. apply orb_true_iff. left. apply andb_true_iff. split; apply N.leb_le; lia.
Qed.

Lemma snake_cons upper c r : out_char upper c = true -> snake_tail upper r = true -> snake_tail upper (c :: r) = true.
Proof. intros H1 H2. cbn [snake_tail]. rewrite (out_char_not95 _ _ H1), H1, H2. reflexivity. Qed.

Lemma snake_us_cons upper c r : out_char upper c = true -> snake_tail upper r = true -> snake_tail upper (95 :: c :: r) = true.
Proof.
  intros H1 H2.
  change (snake_tail upper (95 :: c :: r))
    with (if 95 =? 95 then out_char upper c && snake_tail upper (c :: r) else out_char upper 95 && snake_tail upper (c :: r)).
  rewrite N.eqb_refl, H1, (snake_cons upper c r H1 H2). reflexivity.
Qed.

Lemma underscore_from_shape upper : forall s last ne,
  snake_tail upper (underscore_from s upper last ne) = true
  /\ (ne = false -> no_lead (underscore_from s upper last ne) = true).
Proof.
  induction s as [|c r IH]; intros last ne; [split; reflexivity|].
  cbn [underscore_from].
  assert (Hl : is_lower c = true -> out_char upper (if upper then c - 32 else c) = true).
  { intros H. destruct upper; [apply upper_conv; exact H | unfold out_char; rewrite H; reflexivity]. }
  assert (Hu : is_upper c = true -> out_char upper (if upper then c else c + 32) = true).
  { intros H. destruct upper; [unfold out_char; rewrite H; reflexivity | apply lower_conv; exact H]. }
  assert (Hd : is_digit c = true -> out_char upper c = true).
  { intros H. unfold out_char. rewrite H. destruct upper; apply orb_true_r. }
  destruct (is_lower c) eqn:E1.
  { specialize (Hl eq_refl). destruct (IH LLower true) as [A _].
    destruct (ne && is_not_alnum last) eqn:En.
    - split; [apply snake_us_cons; assumption | intros ->; discriminate En].
    - split; [apply snake_cons; assumption | intros _; cbn [no_lead]; rewrite (out_char_not95 _ _ Hl); reflexivity]. }
  destruct (is_upper c) eqn:E2.
  { specialize (Hu eq_refl). destruct (IH LUpper true) as [A _].
    destruct (ne && is_lower_or_not_alnum last) eqn:En.
    - split; [apply snake_us_cons; assumption | intros ->; discriminate En].
    - destruct (ne && next_is_lower r) eqn:En2.
      + split; [apply snake_us_cons; assumption | intros ->; discriminate En2].
      + split; [apply snake_cons; assumption | intros _; cbn [no_lead]; rewrite (out_char_not95 _ _ Hu); reflexivity]. }
  destruct (is_digit c) eqn:E3.
  { specialize (Hd eq_refl). destruct (IH LInitial true) as [A _].
    destruct (ne && is_not_alnum last) eqn:En.
    - split; [apply snake_us_cons; assumption | intros ->; discriminate En].
    - split; [apply snake_cons; assumption | intros _; cbn [no_lead]; rewrite (out_char_not95 _ _ Hd); reflexivity]. }
  apply IH.
Qed.

Lemma underscore_shape s upper :
  snake_tail upper (underscore s upper) = true /\ no_lead (underscore s upper) = true.
Proof. destruct (underscore_from_shape upper s LInitial false) as [A B]. split; [exact A | apply B; reflexivity]. Qed.

Lemma snake_chars upper : forall t c, snake_tail upper t = true -> In c t -> c = 95 \/ out_char upper c = true.
Proof.
  induction t as [|x r IH]; intros c H Hin; [destruct Hin|]. cbn [snake_tail] in H.
  destruct (x =? 95) eqn:E.
  - apply N.eqb_eq in E. destruct Hin as [<-|Hin]; [left; exact E|].
    destruct r as [|y r']; [discriminate|]. apply andb_true_iff in H as [_ H]. exact (IH c H Hin).
  - apply andb_true_iff in H as [H1 H2]. destruct Hin as [<-|Hin]; [right; exact H1 | exact (IH c H2 Hin)].
Qed.

Lemma underscore_charset s upper c : In c (underscore s upper) -> c = 95 \/ out_char upper c = true.
Proof. apply snake_chars. apply underscore_shape. Qed.

(** no trailing '_' and no "__" *)
Lemma snake_no_double upper : forall t a b, snake_tail upper t = true -> t = a ++ 95 :: b -> b <> [] /\ (forall x r', b = x :: r' -> x <> 95).
Proof.
  induction t as [|c r IH]; intros a b H E; [destruct a; discriminate|].
  destruct a as [|a0 a'].
  - cbn [app] in E. injection E as -> ->. cbn [snake_tail] in H. rewrite N.eqb_refl in H.
    destruct b as [|x r']; [discriminate|]. apply andb_true_iff in H as [H1 _].
    split; [discriminate|]. intros y r'' Ey. injection Ey as <- _. apply N.eqb_neq. exact (out_char_not95 _ _ H1).
  - cbn [app] in E. injection E as -> ->. cbn [snake_tail] in H.
    destruct (a0 =? 95).
    + destruct (a' ++ 95 :: b) as [|y l] eqn:El; [discriminate|]. apply andb_true_iff in H as [_ H].
      rewrite <- El in *. exact (IH a' b H eq_refl).
    + apply andb_true_iff in H as [_ H]. exact (IH a' b H eq_refl).
Qed.

(** idempotence: on its own output the function is the identity *)
Definition last_ok (upper : bool) (last : ulast) : bool :=
  if upper then negb (is_lower_or_not_alnum last) else negb (is_not_alnum last).

Lemma out_char_classes upper c : out_char upper c = true ->
  (upper = true /\ is_lower c = false /\ (is_upper c = true \/ (is_upper c = false /\ is_digit c = true)))
  \/ (upper = false /\ (is_lower c = true \/ (is_lower c = false /\ is_upper c = false /\ is_digit c = true))).
Proof.
  unfold out_char. destruct upper; intros H; apply orb_true_iff in H.
  - left. split; [reflexivity|].
    assert (is_lower c = false).
    { unfold is_lower, is_upper, is_digit in *. destruct H as [H|H]; apply andb_true_iff in H as [H1 H2];
        apply N.leb_le in H1, H2; apply andb_false_iff; left; apply N.leb_gt; lia. }
    split; [assumption|]. destruct (is_upper c); [left; reflexivity | right; split; [reflexivity|]].
    destruct H as [H|H]; [discriminate | exact H].
  - right. split; [reflexivity|]. destruct (is_lower c) eqn:E; [left; reflexivity | right].
    destruct H as [H|H]; [discriminate|]. split; [reflexivity|]. split; [|exact H].
    unfold is_upper, is_digit in *. apply andb_true_iff in H as [H1 H2]. apply N.leb_le in H1, H2.
    apply andb_false_iff. left. apply N.leb_gt. lia.
Qed.

Lemma next_is_lower_snake_upper r : snake_tail true r = true -> next_is_lower r = false.
Proof.
  destruct r as [|x r']; [reflexivity|]. cbn [snake_tail next_is_lower]. intros H.
  destruct (x =? 95) eqn:E.
  - apply N.eqb_eq in E. subst x. reflexivity.
  - apply andb_true_iff in H as [H _]. destruct (out_char_classes true x H) as [[_ [A _]]|[A _]]; [exact A | discriminate].
Qed.

Lemma underscore_from_fix upper : forall n t last ne, (length t <= n)%nat ->
  snake_tail upper t = true -> last_ok upper last = true -> (no_lead t = false -> ne = true) ->
  underscore_from t upper last ne = t.
Proof.
  induction n as [|n IH]; intros t last ne Hlen Hs Hl Hne.
  - destruct t; [reflexivity | cbn [length] in Hlen; lia].
  - destruct t as [|c r]; [reflexivity|]. cbn [length] in Hlen. cbn [snake_tail] in Hs.
    destruct (c =? 95) eqn:E95.
    + (* '_' x r' *)
      apply N.eqb_eq in E95. subst c. destruct r as [|x r']; [discriminate|].
      apply andb_true_iff in Hs as [Hx Hs].
      assert (ne = true) by (apply Hne; reflexivity). subst ne.
      assert (Hx95 := out_char_not95 _ _ Hx).
      cbn [snake_tail] in Hs. rewrite Hx95, Hx in Hs. cbn [andb] in Hs.
      cbn [length] in Hlen.
      change (underscore_from (95 :: x :: r') upper last true) with (underscore_from (x :: r') upper LNotAlnum true).
      cbn [underscore_from].
      destruct (out_char_classes upper x Hx) as [[-> [A [B|[B C]]]] | [-> [A|[A [B C]]]]].
      * rewrite A, B. cbn [andb is_lower_or_not_alnum]. f_equal. f_equal.
        apply (IH r' LUpper true); [lia | exact Hs | reflexivity | reflexivity].
      * rewrite A, B, C. cbn [andb is_not_alnum]. f_equal. f_equal.
        apply (IH r' LInitial true); [lia | exact Hs | reflexivity | reflexivity].
      * rewrite A. cbn [andb is_not_alnum]. f_equal. f_equal.
        apply (IH r' LLower true); [lia | exact Hs | reflexivity | reflexivity].
      * rewrite A, B, C. cbn [andb is_not_alnum]. f_equal. f_equal.
        apply (IH r' LInitial true); [lia | exact Hs | reflexivity | reflexivity].
    + apply andb_true_iff in Hs as [Hc Hs]. cbn [underscore_from].
      destruct (out_char_classes upper c Hc) as [[-> [A [B|[B C]]]] | [-> [A|[A [B C]]]]].
      * rewrite A, B. unfold last_ok in Hl. apply negb_true_iff in Hl. rewrite Hl, andb_false_r.
        rewrite (next_is_lower_snake_upper r Hs), andb_false_r. f_equal.
        apply (IH r LUpper true); [lia | exact Hs | reflexivity | reflexivity].
      * rewrite A, B, C. unfold last_ok in Hl. apply negb_true_iff in Hl.
        assert (is_not_alnum last = false) by (destruct last; try reflexivity; discriminate Hl).
        rewrite H, andb_false_r. f_equal.
        apply (IH r LInitial true); [lia | exact Hs | reflexivity | reflexivity].
      * rewrite A. unfold last_ok in Hl. apply negb_true_iff in Hl. rewrite Hl, andb_false_r. f_equal.
        apply (IH r LLower true); [lia | exact Hs | reflexivity | reflexivity].
      * rewrite A, B, C. unfold last_ok in Hl. apply negb_true_iff in Hl. rewrite Hl, andb_false_r. f_equal.
        apply (IH r LInitial true); [lia | exact Hs | reflexivity | reflexivity].
Qed.

Lemma underscore_idempotent s upper : underscore (underscore s upper) upper = underscore s upper.
Proof.
  destruct (underscore_shape s upper) as [A B]. unfold underscore at 1.
  apply (underscore_from_fix upper (length (underscore s upper))); [lia | exact A | destruct upper; reflexivity |].
  intros H. rewrite B in H. discriminate.
Qed.

Lemma run_sources_independent : forall w1 w2 fields args1 args2 s1 s2 rest1 rest2,
  oracle_agree (w_set w1) (w_set w2) ->
  run w1 fields args1 = RParse (POk s1 rest1) -> run w2 fields args2 = RParse (POk s2 rest2) ->
  exists fs st0 asg1 asg2 ov1 ov2,
    new_flag_set (w_set w1) fields = NOk fs st0
    /\ arg_parse (table_of fs) args1 = Ok asg1 rest1 /\ arg_parse (table_of fs) args2 = Ok asg2 rest2
    /\ json_overlay w1 asg1 = Some ov1 /\ json_overlay w2 asg2 = Some ov2
    /\ forall f, In f fs ->
         top_source (cli_of asg1 f) (env_of w1 f) (json_of ov1 f) = top_source (cli_of asg2 f) (env_of w2 f) (json_of ov2 f) ->
         get s1 (fname f) = get s2 (fname f).
Proof.
  intros w1 w2 fields args1 args2 s1 s2 rest1 rest2 Ho H1 H2.
  destruct (run_priority _ _ _ _ _ H1) as [fs [st0 [asg1 [ov1 [N1 [A1 [J1 P1]]]]]]].
  destruct (run_priority _ _ _ _ _ H2) as [fs' [st0' [asg2 [ov2 [N2 [A2 [J2 P2]]]]]]].
  unfold new_flag_set in N1, N2. rewrite <- (add_fields_ext _ _ Ho), N1 in N2. injection N2 as <- <-.
  fold (new_flag_set (w_set w1) fields) in N1. exists fs, st0, asg1, asg2, ov1, ov2. repeat split; try assumption.
  intros f Hf E. destruct (P1 f Hf) as [v1 [G1 W1]]. destruct (P2 f Hf) as [v2 [G2 W2]].
  rewrite G1, G2. f_equal. exact (sources_independent w1 w2 fs asg1 asg2 ov1 ov2 f v1 v2 Ho W1 W2 E Hf).
Qed.

(** * an unparsable winning text makes Parse fail; nothing panics *)
Lemma set_flags_fails w asg : forall fs st f t,
  In f fs -> text_src w asg f = Some t -> set_T (w_set w) (fkind f) t = SErr -> set_flags w fs asg st = None.
Proof.
  induction fs as [|g r IH]; intros st f t Hf Et Es; [destruct Hf|].
  cbn [set_flags]. fold (text_src w asg g). destruct Hf as [<-|Hf].
  - rewrite Et, Es. reflexivity.
  - destruct (text_src w asg g) as [tg|]; [|eapply IH; eassumption].
    destruct (set_T (w_set w) (fkind g) tg); [eapply IH; eassumption | reflexivity].
Qed.

Lemma parse_unparsable_fails w fs st0 args asg rest f t :
  arg_parse (table_of fs) args = Ok asg rest -> In f fs ->
  text_src w asg f = Some t -> set_T (w_set w) (fkind f) t = SErr ->
  parse w fs st0 args = PErr.
Proof.
  intros Ea Hf Et Es. unfold parse. rewrite Ea.
  assert (F : forall st, finish w fs asg rest st = PErr).
  { intros st. unfold finish. rewrite (set_flags_fails w asg fs st f t Hf Et Es). reflexivity. }
  destruct (final_value asg config_name) as [tc|]; [rewrite set_T_string|];
    (destruct (json_data w _) as [| |d]; [apply F | reflexivity | destruct (w_json w d); [apply F | reflexivity]]).
Qed.

Lemma parse_never_panics w fs st0 args : parse w fs st0 args <> PPanic.
Proof.
  unfold parse. pose proof (proj2 (proj2 (grammar_equiv (table_of fs) args))) as Hp.
  destruct (arg_parse (table_of fs) args) as [asg rest|e|]; [|discriminate|contradiction].
  assert (F : forall st, finish w fs asg rest st <> PPanic).
  { intros st. unfold finish. destruct (set_flags w fs asg st); discriminate. }
  destruct (final_value asg config_name) as [tc|]; [rewrite set_T_string|];
    (destruct (json_data w _) as [| |d]; [apply F | discriminate | destruct (w_json w d); [apply F | discriminate]]).
Qed.

Lemma run_never_panics w fields args : run w fields args <> RParse PPanic.
Proof.
  unfold run. destruct (new_flag_set (w_set w) fields); [|discriminate].
  intros H. injection H as H. exact (parse_never_panics _ _ _ _ H).
Qed.

Lemma run_unparsable_fails w fields args fs st0 asg rest f t :
  new_flag_set (w_set w) fields = NOk fs st0 ->
  arg_parse (table_of fs) args = Ok asg rest -> In f fs ->
  match cli_of asg f with Some x => Some x | None => env_of w f end = Some t ->
  set_T (w_set w) (fkind f) t = SErr ->
  run w fields args = RParse PErr.
Proof.
  intros En Ea Hf Et Es. unfold run. rewrite En. f_equal.
  exact (parse_unparsable_fails w fs st0 args asg rest f t Ea Hf Et Es).
Qed.

(** * tags *)
Lemma cut_app sep a b : ~ In sep a -> cut sep (a ++ sep :: b) = Some (a, b).
Proof.
  induction a as [|c r IH]; cbn [app cut In]; intros H.
  - rewrite N.eqb_refl. reflexivity.
  - destruct (c =? sep) eqn:E; [apply N.eqb_eq in E; exfalso; apply H; left; exact E|].
    rewrite IH; [reflexivity | intros A; apply H; right; exact A].
Qed.

Lemma cut_none sep s : ~ In sep s -> cut sep s = None.
Proof.
  induction s as [|c r IH]; cbn [cut In]; intros H; [reflexivity|].
  destruct (c =? sep) eqn:E; [apply N.eqb_eq in E; exfalso; apply H; left; exact E|].
  rewrite IH; [reflexivity | intros A; apply H; right; exact A].
Qed.

Definition name_or_lower (n fld : list N) : list N := match n with [] => ascii_lower fld | _ => n end.

Lemma split_tag3 sep n v u fld : ~ In sep n -> ~ In sep v ->
  split_tag sep (n ++ sep :: v ++ sep :: u) fld = (name_or_lower n fld, v, u).
Proof. intros H1 H2. unfold split_tag. rewrite (cut_app sep n _ H1), (cut_app sep v u H2). reflexivity. Qed.

Lemma split_tag2 sep n v fld : ~ In sep n -> ~ In sep v ->
  split_tag sep (n ++ sep :: v) fld = (name_or_lower n fld, v, []).
Proof. intros H1 H2. unfold split_tag. rewrite (cut_app sep n _ H1), (cut_none sep v H2). reflexivity. Qed.

Lemma split_tag1 sep n fld : ~ In sep n -> split_tag sep n fld = (name_or_lower n fld, [], []).
Proof. intros H1. unfold split_tag. rewrite (cut_none sep n H1). reflexivity. Qed.

Lemma parse_tag_pipe t fld : parse_tag (124 :: t) fld = split_tag 124 t fld.
Proof. reflexivity. Qed.

Lemma parse_tag_comma t fld : (forall r, t <> 124 :: r) -> parse_tag t fld = split_tag 44 t fld.
Proof.
  intros H. destruct t as [|c r]; [reflexivity|]. unfold parse_tag.
  destruct (c =? 124) eqn:E; [apply N.eqb_eq in E; subst c; exfalso; exact (H r eq_refl) | reflexivity].
Qed.

Lemma tag_syntax n v u fld : forall sep t,
  (sep = 44 /\ (forall r, n <> 124 :: r) /\ t = (fun x => x)) \/ (sep = 124 /\ t = cons 124) ->
  ~ In sep n -> ~ In sep v ->
  parse_tag (t (n ++ sep :: v ++ sep :: u)) fld = (name_or_lower n fld, v, u)
  /\ parse_tag (t (n ++ sep :: v)) fld = (name_or_lower n fld, v, [])
  /\ parse_tag (t n) fld = (name_or_lower n fld, [], []).
Proof.
  intros sep t [[-> [Hn ->]] | [-> ->]] H1 H2.
  - assert (A : forall x r, n ++ x <> 124 :: r \/ n = []).
    { intros x r. destruct n as [|c n']; [right; reflexivity | left]. cbn [app]. intros E. injection E as -> _. exact (Hn n' eq_refl). }
    repeat split.
    + rewrite parse_tag_comma; [apply split_tag3; assumption|]. intros r E.
      destruct n as [|c n']; [cbn [app] in E; discriminate E | cbn [app] in E; injection E as -> _; exact (Hn n' eq_refl)].
    + rewrite parse_tag_comma; [apply split_tag2; assumption|]. intros r E.
      destruct n as [|c n']; [cbn [app] in E; discriminate E | cbn [app] in E; injection E as -> _; exact (Hn n' eq_refl)].
    + rewrite parse_tag_comma; [apply split_tag1; assumption | exact Hn].
  - repeat split; rewrite parse_tag_pipe; [apply split_tag3 | apply split_tag2 | apply split_tag1]; assumption.
Qed.

Lemma flatten_struct group n fs :
  flatten_field group (SStruct n fs) = flat_map (flatten_field (group ++ n ++ [95])) fs.
Proof. cbn [flatten_field]. induction fs as [|x r IH]; [reflexivity|]. cbn [flat_map]. rewrite IH. reflexivity. Qed.

Lemma flatten_leaf group n tag k :
  flatten_field group (SLeaf n tag k) =
  [ {| fname := fst (fst (parse_tag tag n)); fpath := group ++ n; fkind := k; fdef := snd (fst (parse_tag tag n)) |} ].
Proof. cbn [flatten_field]. unfold flag_of_field. destruct (parse_tag tag n) as [[a b] c]. reflexivity. Qed.

(** * one FlagSet, several Parse calls *)
Lemma parse_call_again w ob args : ob_parsed ob = true -> parse_call w ob args = (ob, PAlready).
Proof. intros H. unfold parse_call. rewrite H. reflexivity. Qed.

Lemma history_sealed : forall cs ob, ob_parsed ob = true -> history ob cs = repeat PAlready (length cs).
Proof.
  induction cs as [|[w a] r IH]; intros ob H; [reflexivity|].
  cbn [history length repeat]. rewrite (parse_call_again w ob a H). rewrite (IH ob H). reflexivity.
Qed.

Lemma history_first w fields ob a cs :
  new_object (w_set w) fields = Some ob ->
  exists r0, run w fields a = RParse r0 /\ history ob ((w, a) :: cs) = r0 :: repeat PAlready (length cs).
Proof.
  unfold new_object, run. destruct (new_flag_set (w_set w) fields) as [fs st0|]; [|discriminate].
  intros H. injection H as <-. exists (parse w fs st0 a). split; [reflexivity|].
  cbn [history]. unfold parse_call. cbn [ob_parsed ob_st ob_fs].
  destruct (parse w fs st0 a); cbn [fst snd]; rewrite history_sealed by reflexivity; reflexivity.
Qed.
