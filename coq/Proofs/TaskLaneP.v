From Coq Require Import List Arith Bool Lia.
Import ListNotations.
From Glb Require Import Model.TaskLane.

Definition qtask (x : qpc) : list task :=
  match x with QTook t | QHeld t | QTry t | QOffer t => [t] | QDead (Some t) => [t] | _ => [] end.
Definition ltasks (l : lane) : list task := buf l ++ qtask (q l).
Definition cnt_in (t : task) (l : list task) := count_occ Nat.eq_dec l t.
Definition where_ (s : state) (t : task) : nat :=
  list_sum (map (fun l => cnt_in t (ltasks l)) (lanes s)) + cnt_in t (started s).
Definition acc (s : state) (t : task) : nat := if existsb (Nat.eqb t) (accepted s) then 1 else 0.
Definition Inv (s : state) : Prop := forall t, where_ s t = acc s t.

Lemma sum_upd {A} (f : A -> nat) l i a x :
  nth_error l i = Some a ->
  list_sum (map f (upd l i x)) + f a = list_sum (map f l) + f x.
Proof.
  revert i; induction l as [|h tl IH]; intros [|i] H; cbn [nth_error upd map] in *; try discriminate.
  - inversion H; subst. change (list_sum (?a :: ?l)) with (a + list_sum l). lia.
  - specialize (IH i H). change (list_sum (f h :: ?l)) with (f h + list_sum l). lia.
Qed.

Lemma cnt_app t a b : cnt_in t (a ++ b) = cnt_in t a + cnt_in t b.
Proof. unfold cnt_in. apply count_occ_app. Qed.
Lemma cnt_nil t : cnt_in t [] = 0. Proof. reflexivity. Qed.
Lemma cnt_cons t x l : cnt_in t (x :: l) = (if Nat.eqb t x then 1 else 0) + cnt_in t l.
Proof. unfold cnt_in. cbn [count_occ]. destruct (Nat.eq_dec x t); destruct (Nat.eqb_spec t x); subst; try congruence; lia. Qed.

Lemma where_setl s i a x t :
  nth_error (lanes s) i = Some a ->
  where_ (setl s i x) t + cnt_in t (ltasks a) = where_ s t + cnt_in t (ltasks x).
Proof.
  intros H. unfold where_, setl; cbn [lanes started].
  pose proof (sum_upd (fun l => cnt_in t (ltasks l)) _ _ _ x H). lia.
Qed.

Lemma handover_where s i j t s' li :
  nth_error (lanes s) i = Some li -> q li = QTry t \/ q li = QOffer t ->
  handover s i j t = Some s' ->
  (forall u, where_ s' u = where_ s u) /\ accepted s' = accepted s.
Proof.
  intros Hi Hq Hh. unfold handover in Hh. rewrite Hi in Hh.
  destruct (nth_error (lanes (setl s i _)) j) as [lj|] eqn:Hj; [|discriminate].
  inversion Hh; subst s'; clear Hh. split; [|reflexivity]. intros u.
  pose proof (where_setl s i _ (mkLane (buf li) QSent (w li)) u Hi) as E1.
  pose proof (where_setl _ j _ (mkLane (buf lj) (q lj) (WRun t)) u Hj) as E2.
  match goal with |- where_ ?S u = _ =>
    assert (W : where_ S u = where_ (setl (setl s i (mkLane (buf li) QSent (w li))) j (mkLane (buf lj) (q lj) (WRun t))) u
                + (if Nat.eqb u t then 1 else 0) + 0) end.
  { unfold where_; cbn [lanes started setl]. rewrite cnt_cons. lia. }
  rewrite W; clear W.
  unfold ltasks in E1, E2; cbn [buf q w qtask] in E1, E2.
  rewrite ?cnt_app, ?cnt_nil in E1. rewrite ?cnt_app, ?cnt_nil in E2.
  assert (cnt_in u (qtask (q li)) = (if Nat.eqb u t then 1 else 0)) as E3.
  { destruct Hq as [-> | ->]; cbn [qtask]; rewrite cnt_cons, cnt_nil; lia. }
  lia.
Qed.

(* one-lane steps: s' has lanes = upd .. and the same started *)
Ltac one_lane s i u Hn :=
  unfold setl;
  match goal with |- where_ ?S u = acc ?S u =>
    match S with context [upd (lanes s) i ?X] =>
      change (where_ S u) with (where_ (setl s i X) u);
      let E := fresh "E" in
      pose proof (where_setl s i _ X u Hn) as E;
      unfold ltasks in E; cbn [buf q w qtask] in E; rewrite ?cnt_app, ?cnt_cons, ?cnt_nil in E
    end
  end.

Ltac dq Hs q0 := destruct q0; cbv beta iota in Hs; try discriminate.
Ltac dc Hs c := destruct c eqn:?; cbv beta iota in Hs; [|discriminate].

Theorem step_inv qs s l s' : Inv s -> step qs s l = Some s' -> Inv s'.
Proof.
  intros HI Hs u. specialize (HI u).
  destruct l; cbn [step] in Hs;
  try (destruct (cancelled s) eqn:Hcan; cbv beta iota in Hs; [|discriminate]);
  try match type of Hs with (match nth_error (lanes s) ?i with _ => _ end) = _ =>
        destruct (nth_error (lanes s) i) as [[b0 q0 w0]|] eqn:Hn; cbv beta iota delta [buf q w] in Hs; [|discriminate] end.
  - (* Push *)
    destruct ((length b0 <? qs) && negb (existsb (Nat.eqb t) (accepted s))) eqn:Hc; cbv beta iota in Hs; [|discriminate].
    inversion Hs; subst s'; clear Hs. apply andb_true_iff in Hc as [_ Hfresh]. apply negb_true_iff in Hfresh.
    one_lane s i u Hn. unfold acc in *; cbn [accepted setl existsb].
    destruct (Nat.eqb_spec u t) as [->|Hne]; cbn [orb].
    + rewrite Hfresh in HI. lia.
    + destruct (existsb (Nat.eqb u) (accepted s)); lia.
  - (* Cancel *) destruct (cancelled s); [discriminate|]. inversion Hs; subst; exact HI.
  - (* QTake *)
    destruct b0 as [|t b]; cbv beta iota in Hs; [discriminate|]. dq Hs q0.
    inversion Hs; subst s'; clear Hs. one_lane s i u Hn. unfold acc in *; cbn [accepted setl]. lia.
  - (* QDie *)
    dq Hs q0; inversion Hs; subst s'; clear Hs; one_lane s i u Hn; unfold acc in *; cbn [accepted setl]; lia.
  - (* QCount *)
    dq Hs q0. inversion Hs; subst s'; clear Hs. one_lane s i u Hn. unfold acc in *; cbn [accepted setl]. lia.
  - (* QCheck *)
    dq Hs q0. inversion Hs; subst s'; clear Hs. one_lane s i u Hn. unfold acc in *; cbn [accepted setl].
    destruct (cancelled s); cbn [qtask] in *; rewrite ?cnt_cons, ?cnt_nil in *; lia.
  - (* QTryOwn *)
    dq Hs q0. destruct (receptive_own w0); cbv beta iota in Hs; [|discriminate].
    destruct (handover_where s i i t s' _ Hn (or_introl eq_refl) Hs) as [E Ea]. unfold acc. rewrite E, Ea. exact HI.
  - (* QTryFail *)
    dq Hs q0. inversion Hs; subst s'; clear Hs. one_lane s i u Hn. unfold acc in *; cbn [accepted setl]. lia.
  - (* QOfferOwn *)
    dq Hs q0. destruct (receptive_own w0); cbv beta iota in Hs; [|discriminate].
    destruct (handover_where s i i t s' _ Hn (or_intror eq_refl) Hs) as [E Ea]. unfold acc. rewrite E, Ea. exact HI.
  - (* QOfferUni *)
    dq Hs q0.
    destruct (nth_error (lanes s) j) as [[bj qj wj]|]; cbv beta iota delta [buf q w] in Hs; [|discriminate]. destruct (receptive_uni wj); cbv beta iota in Hs; [|discriminate].
    destruct (handover_where s i j t s' _ Hn (or_intror eq_refl) Hs) as [E Ea]. unfold acc. rewrite E, Ea. exact HI.
  - (* QDecr *)
    dq Hs q0. inversion Hs; subst s'; clear Hs. one_lane s i u Hn. unfold acc in *; cbn [accepted setl]. lia.
  - (* WCheck *)
    dq Hs w0. inversion Hs; subst s'; clear Hs. one_lane s j u Hn. unfold acc in *; cbn [accepted setl]. lia.
  - (* WTryFail *)
    dq Hs w0. inversion Hs; subst s'; clear Hs. one_lane s j u Hn. unfold acc in *; cbn [accepted setl]. lia.
  - (* WDie *)
    dq Hs w0. inversion Hs; subst s'; clear Hs. one_lane s j u Hn. unfold acc in *; cbn [accepted setl]. lia.
  - (* WEnd *)
    dq Hs w0. inversion Hs; subst s'; clear Hs. one_lane s j u Hn. unfold acc in *; cbn [accepted setl]. lia.
Qed.

Lemma init_inv n : Inv (init n).
Proof.
  intros t. unfold where_, acc, init; cbn [lanes started accepted existsb]. rewrite cnt_nil.
  induction n; cbn [repeat map]; [reflexivity|].
  change (list_sum (?a :: ?l)) with (a + list_sum l). unfold ltasks at 1; cbn [buf q qtask app]. rewrite cnt_nil. lia.
Qed.

Fixpoint run qs (s : state) (ls : list label) : option state :=
  match ls with [] => Some s | l :: r => match step qs s l with Some s' => run qs s' r | None => None end end.

Theorem reachable_inv qs n ls s : run qs (init n) ls = Some s -> Inv s.
Proof.
  remember (init n) as s0. assert (Inv s0) by (subst; apply init_inv). clear Heqs0.
  revert s0 H; induction ls as [|l r IH]; cbn [run]; intros s0 H0 Hr.
  - inversion Hr; subst; auto.
  - destruct (step qs s0 l) eqn:Hs; [|discriminate]. eapply IH; [eapply step_inv; eauto|auto].
Qed.

Corollary exactly_once qs n ls s t :
  run qs (init n) ls = Some s -> In t (started s) ->
  cnt_in t (started s) = 1 /\ existsb (Nat.eqb t) (accepted s) = true.
Proof.
  intros Hr Hin. pose proof (reachable_inv _ _ _ _ Hr t) as HI. unfold where_, acc in HI.
  assert (cnt_in t (started s) >= 1) by (unfold cnt_in; apply count_occ_In; auto).
  destruct (existsb (Nat.eqb t) (accepted s)); split; auto; lia.
Qed.
