(** TaskLane: proof infrastructure (step inversion, list-update sums, association lists) and the
    per-task location invariant [Inv] (exactly-once). *)
From Coq Require Import List Arith Bool Lia.
Import ListNotations.
From Glb Require Import Model.TaskLane.

(* ---------- simplification of projections of updated states ---------- *)
Ltac st_simpl :=
  cbn [lanes cancelled cnt accepted started finished last_panic panics prods obs pushed failed snaps
       setl set_cancelled set_cnt set_accepted set_started set_finished set_panic set_prods set_obs
       set_pushed set_failed set_snaps pstate_of ostate_of].
Ltac st_simpl_in H :=
  cbn [lanes cancelled cnt accepted started finished last_panic panics prods obs pushed failed snaps
       setl set_cancelled set_cnt set_accepted set_started set_finished set_panic set_prods set_obs
       set_pushed set_failed set_snaps pstate_of ostate_of] in H.
Ltac st_simpl_all :=
  cbn [lanes cancelled cnt accepted started finished last_panic panics prods obs pushed failed snaps
       setl set_cancelled set_cnt set_accepted set_started set_finished set_panic set_prods set_obs
       set_pushed set_failed set_snaps pstate_of ostate_of] in *.

(* ---------- list update ---------- *)
Lemma sum_upd {A} (f : A -> nat) l i a x :
  nth_error l i = Some a ->
  list_sum (map f (upd l i x)) + f a = list_sum (map f l) + f x.
Proof.
  revert i; induction l as [|h tl IH]; intros [|i] H; cbn [nth_error upd map] in *; try discriminate.
  - inversion H; subst. change (list_sum (?a :: ?l)) with (a + list_sum l). lia.
  - specialize (IH i H). change (list_sum (f h :: ?l)) with (f h + list_sum l). lia.
Qed.

Lemma length_upd {A} (l : list A) i x : length (upd l i x) = length l.
Proof. revert i; induction l as [|h tl IH]; intros [|i]; cbn [upd length]; auto. Qed.

Lemma nth_error_upd_same {A} (l : list A) i a x : nth_error l i = Some a -> nth_error (upd l i x) i = Some x.
Proof. revert i; induction l as [|h tl IH]; intros [|i] H; cbn [nth_error upd] in *; try discriminate; auto. Qed.

Lemma nth_error_upd_other {A} (l : list A) i j x : i <> j -> nth_error (upd l i x) j = nth_error l j.
Proof.
  revert i j; induction l as [|h tl IH]; intros [|i] [|j] H; cbn [nth_error upd] in *; auto; try congruence.
Qed.

Lemma nth_error_upd_inv {A} (l : list A) i j a x y :
  nth_error l i = Some a -> nth_error (upd l i x) j = Some y ->
  (i = j /\ y = x) \/ (i <> j /\ nth_error l j = Some y).
Proof.
  intros Hi Hj. destruct (Nat.eq_dec i j) as [->|Hne].
  - left. rewrite (nth_error_upd_same _ _ _ _ Hi) in Hj. inversion Hj; auto.
  - right. rewrite nth_error_upd_other in Hj by auto. auto.
Qed.

Lemma Forall_upd {A} (P : A -> Prop) l i x : Forall P l -> P x -> Forall P (upd l i x).
Proof.
  intros H Hx. revert i; induction H as [|h tl Hh Ht IH]; intros [|i]; cbn [upd]; constructor; auto.
Qed.

Lemma Forall_nth_error {A} (P : A -> Prop) l i a : Forall P l -> nth_error l i = Some a -> P a.
Proof. intros H Hn. rewrite Forall_forall in H. apply H. eapply nth_error_In; eauto. Qed.

Lemma sum_le_length {A} (f : A -> nat) l : (forall a, f a <= 1) -> list_sum (map f l) <= length l.
Proof.
  intros H. induction l as [|h tl IH]; cbn [map length]; [cbn; lia|].
  change (list_sum (?a :: ?l)) with (a + list_sum l). specialize (H h). lia.
Qed.

Lemma sum_Forall_le {A} (f : A -> nat) k l : Forall (fun a => f a <= k) l -> list_sum (map f l) <= length l * k.
Proof.
  induction 1 as [|h tl Hh Ht IH]; cbn [map length]; [cbn; lia|].
  change (list_sum (?a :: ?l)) with (a + list_sum l). lia.
Qed.

(* ---------- association lists ---------- *)
Lemma aget_aset {A} (d : A) l k v k' : aget d (aset l k v) k' = if Nat.eqb k' k then v else aget d l k'.
Proof.
  induction l as [|[k0 v0] r IH]; cbn [aset aget fst snd].
  - destruct (Nat.eqb k' k); reflexivity.
  - destruct (Nat.eqb_spec k k0) as [->|Hne]; cbn [aget fst snd].
    + destruct (Nat.eqb k' k0); reflexivity.
    + rewrite IH. destruct (Nat.eqb_spec k' k0) as [->|]; auto.
      destruct (Nat.eqb_spec k0 k); congruence.
Qed.

Lemma sum_aset {A} (d : A) (f : A -> nat) l k v : f d = 0 ->
  list_sum (map (fun kv => f (snd kv)) (aset l k v)) + f (aget d l k) = list_sum (map (fun kv => f (snd kv)) l) + f v.
Proof.
  intros Hd. induction l as [|[k0 v0] r IH]; cbn [aset aget map fst snd].
  - change (list_sum (?a :: ?l)) with (a + list_sum l). cbn [list_sum fold_right snd]. lia.
  - destruct (Nat.eqb_spec k k0) as [->|Hne]; cbn [map snd];
      change (list_sum (?a :: ?l)) with (a + list_sum l); lia.
Qed.

(* ---------- counting ---------- *)
Definition cnt_in (t : task) (l : list task) := count_occ Nat.eq_dec l t.
Lemma cnt_app t a b : cnt_in t (a ++ b) = cnt_in t a + cnt_in t b.
Proof. unfold cnt_in. apply count_occ_app. Qed.
Lemma cnt_nil t : cnt_in t [] = 0. Proof. reflexivity. Qed.
Lemma cnt_cons t x l : cnt_in t (x :: l) = (if Nat.eqb t x then 1 else 0) + cnt_in t l.
Proof. unfold cnt_in. cbn [count_occ]. destruct (Nat.eq_dec x t); destruct (Nat.eqb_spec t x); subst; try congruence; lia. Qed.
Lemma cnt_pos_In t l : In t l <-> cnt_in t l >= 1.
Proof. unfold cnt_in. rewrite (count_occ_In Nat.eq_dec). lia. Qed.
Lemma cnt_zero_notIn t l : ~ In t l <-> cnt_in t l = 0.
Proof. unfold cnt_in. apply count_occ_not_In. Qed.
Lemma cnt_existsb t l : existsb (Nat.eqb t) l = false -> cnt_in t l = 0.
Proof.
  induction l as [|x r IH]; cbn [existsb]; [reflexivity|]. intros H. apply orb_false_iff in H as [H1 H2].
  rewrite cnt_cons, H1, IH; auto.
Qed.
Lemma NoDup_cnt l : (forall t, cnt_in t l <= 1) -> NoDup l.
Proof. intros H. apply (NoDup_count_occ Nat.eq_dec). exact H. Qed.
Lemma cnt_flat_map {A} (f : A -> list task) t l :
  cnt_in t (flat_map f l) = list_sum (map (fun x => cnt_in t (f x)) l).
Proof.
  induction l as [|h tl IH]; cbn [flat_map map]; [reflexivity|].
  rewrite cnt_app, IH. reflexivity.
Qed.
Lemma length_flat_map {A B} (f : A -> list B) l :
  length (flat_map f l) = list_sum (map (fun x => length (f x)) l).
Proof.
  induction l as [|h tl IH]; cbn [flat_map map]; [reflexivity|].
  rewrite app_length, IH. reflexivity.
Qed.

(* ---------- step inversion ---------- *)
Lemma handover_spec s i j t s' li :
  nth_error (lanes s) i = Some li -> handover s i j t = Some s' ->
  exists lj, nth_error (upd (lanes s) i (mkLane (buf li) QSent (w li))) j = Some lj /\
    s' = set_started (setl (setl s i (mkLane (buf li) QSent (w li))) j (mkLane (buf lj) (q lj) (WRun t))) (t :: started s).
Proof.
  intros Hi Hh. unfold handover in Hh. rewrite Hi in Hh. cbv zeta in Hh.
  destruct (nth_error (lanes (setl s i _)) j) as [lj|] eqn:Hj; [|discriminate].
  exists lj. split; [exact Hj|]. inversion Hh. reflexivity.
Qed.

(* destruct every match/if at the head of [Hs : ... = Some s'] until it is [Some X = Some s'] or a handover *)
Ltac inv_step Hs :=
  repeat (cbv beta iota zeta in Hs;
    lazymatch type of Hs with
    | (match ?x with _ => _ end) = Some _ =>
        first [ is_var x;
                lazymatch type of x with
                | lane => let b := fresh "b" in let qq := fresh "qq" in let ww := fresh "ww" in destruct x as [b qq ww]
                | _ => destruct x
                end
              | destruct x eqn:? ]; try discriminate Hs
    end).

(* after inv_step: turn the remaining equation into a substitution *)
Ltac fin_step Hs s' :=
  lazymatch type of Hs with
  | Some _ = Some _ =>
      try match type of Hs with context [match ?r with Some _ => _ | None => _ end] => destruct r end;
      injection Hs as Hs; subst s'
  | handover _ _ _ _ = Some _ =>
      match goal with
      | Hn : nth_error (lanes _) _ = Some _ |- _ =>
          let lj := fresh "lj" in let Hj := fresh "Hj" in
          destruct (handover_spec _ _ _ _ _ _ Hn Hs) as (lj & Hj & ->); clear Hs;
          let b := fresh "bj" in let qq := fresh "qj" in let ww := fresh "wj" in destruct lj as [b qq ww]
      end
  end;
  cbn [buf q w] in *.

(* ---------- the location invariant ---------- *)
Definition qtask (x : qpc) : list task :=
  match x with QTook t | QHeld t | QTry t | QOffer t => [t] | QDead (Some t) => [t] | _ => [] end.
Definition ltasks (l : lane) : list task := buf l ++ qtask (q l).
Definition lcount (t : task) (l : lane) : nat := cnt_in t (ltasks l).
Definition where_ (s : state) (t : task) : nat :=
  list_sum (map (lcount t) (lanes s)) + cnt_in t (started s).
Definition Inv (s : state) : Prop := forall t, where_ s t = cnt_in t (accepted s).

(* pose the sum_upd equation of [f] for every [upd L i x] (with known [nth_error L i]) *)
Ltac upd_facts f :=
  repeat match goal with
  | Hn : nth_error ?L ?i = Some ?a |- _ =>
    match goal with
    | |- context [upd L i ?x] =>
      lazymatch goal with
      | _ : list_sum (map f (upd L i x)) + f a = _ |- _ => fail
      | _ => pose proof (sum_upd f L i a x Hn)
      end
    | _ : context [upd L i ?x] |- _ =>
      lazymatch goal with
      | _ : list_sum (map f (upd L i x)) + f a = _ |- _ => fail
      | _ => pose proof (sum_upd f L i a x Hn)
      end
    end
  end.

Ltac lc_simpl :=
  unfold lcount, ltasks in *; cbn [buf q w qtask] in *;
  rewrite ?cnt_app, ?cnt_cons, ?cnt_nil in *.

Lemma push_lane_count qs li t li' u :
  push_lane qs li t = Some li' -> lcount u li' = lcount u li + (if Nat.eqb u t then 1 else 0).
Proof.
  unfold push_lane. intros H. destruct li as [b0 q0 w0]. cbn [buf q w] in H.
  destruct (qs =? 0).
  - destruct q0; try discriminate. injection H as <-. lc_simpl. lia.
  - destruct (length b0 <? qs); [|discriminate]. injection H as <-. lc_simpl. lia.
Qed.

Theorem step_inv qs s l s' : Inv s -> step qs s l = Some s' -> Inv s'.
Proof.
  intros HI Hs u. specialize (HI u). unfold where_ in *.
  destruct l; cbn [step] in Hs; inv_step Hs; fin_step Hs s'; st_simpl; st_simpl_in HI;
    try exact HI; upd_facts (lcount u);
    try (lc_simpl; lia).
  - (* PushOk *)
    match goal with H : push_lane _ _ _ = Some _ |- _ => pose proof (push_lane_count _ _ _ _ u H) end.
    rewrite cnt_cons. lia.
  - (* QCheck *) destruct (cancelled s); lc_simpl; lia.
Qed.

Lemma init_inv n : Inv (init n).
Proof.
  intros t. unfold where_, init; cbn [lanes started accepted]. rewrite !cnt_nil.
  induction n; cbn [repeat map]; [reflexivity|].
  change (list_sum (?a :: ?l)) with (a + list_sum l). unfold lcount at 1, ltasks at 1; cbn [buf q qtask app]. rewrite cnt_nil. lia.
Qed.

(* generic: an invariant that holds initially and is preserved holds in every reachable state *)
Lemma run_invariant (P : state -> Prop) qs :
  (forall s l s', P s -> step qs s l = Some s' -> P s') ->
  forall ls s s', P s -> run qs s ls = Some s' -> P s'.
Proof.
  intros Hstep. induction ls as [|l r IH]; cbn [run]; intros s s' H0 Hr.
  - inversion Hr; subst; auto.
  - destruct (step qs s l) eqn:Hs; [|discriminate]. eapply IH; [eapply Hstep; eauto|auto].
Qed.

Lemma run_app qs ls1 ls2 s : run qs s (ls1 ++ ls2) = match run qs s ls1 with Some s1 => run qs s1 ls2 | None => None end.
Proof.
  revert s; induction ls1 as [|l r IH]; intros s; cbn [run app]; [reflexivity|].
  destruct (step qs s l); auto.
Qed.

Theorem reachable_inv qs n ls s : run qs (init n) ls = Some s -> Inv s.
Proof. apply (run_invariant Inv qs (step_inv qs)). apply init_inv. Qed.

(* ---------- producers: every task id is in exactly one of pending / accepted / failed ---------- *)
Definition ptask (x : pstate) : list task := match x with Pending _ t => [t] | _ => [] end.
Definition pcount (t : task) (x : pstate) : nat := cnt_in t (ptask x).
Definition pending_cnt (s : state) (t : task) : nat := list_sum (map (fun kv => pcount t (snd kv)) (prods s)).
Definition PInv (s : state) : Prop :=
  forall t, pending_cnt s t + cnt_in t (accepted s) + cnt_in t (failed s) = cnt_in t (pushed s)
            /\ cnt_in t (pushed s) <= 1.

Lemma init_pinv n : PInv (init n).
Proof. intros t. cbn. lia. Qed.

Ltac aset_facts u :=
  repeat match goal with
  | |- context [aset ?L ?p ?x] =>
      lazymatch goal with
      | _ : list_sum (map _ (aset L p x)) + _ = _ |- _ => fail
      | _ => pose proof (sum_aset Idle (pcount u) L p x eq_refl)
      end
  end.

Theorem step_pinv qs s l s' : PInv s -> step qs s l = Some s' -> PInv s'.
Proof.
  intros HI Hs u. specialize (HI u). unfold pending_cnt in *.
  destruct l; cbn [step] in Hs; inv_step Hs; fin_step Hs s'; st_simpl; st_simpl_all;
    try exact HI; unfold pstate_of in *;
    aset_facts u;
    repeat match goal with H : aget Idle _ _ = _ |- _ => rewrite H in * end;
    unfold pcount in *; cbn [ptask] in *; rewrite ?cnt_cons, ?cnt_nil in *;
    try lia.
  - (* PushBegin, cancelled *)
    match goal with H : existsb _ _ = false |- _ => apply cnt_existsb in H end.
    destruct (aget Idle (prods s) p); cbn [ptask is_pending] in *; try discriminate; rewrite ?cnt_nil in *;
      destruct (Nat.eqb_spec u t); subst; lia.
  - match goal with H : existsb _ _ = false |- _ => apply cnt_existsb in H end.
    destruct (aget Idle (prods s) p); cbn [ptask is_pending] in *; try discriminate; rewrite ?cnt_nil in *;
      destruct (Nat.eqb_spec u t); subst; lia.
Qed.

Theorem reachable_pinv qs n ls s : run qs (init n) ls = Some s -> PInv s.
Proof. apply (run_invariant PInv qs (step_pinv qs)). apply init_pinv. Qed.

(* ---------- exactly once ---------- *)
Theorem exactly_once qs n ls s :
  run qs (init n) ls = Some s ->
  NoDup (started s) /\ incl (started s) (accepted s) /\ NoDup (accepted s) /\
  (forall t, In t (failed s) -> ~ In t (accepted s) /\ ~ In t (started s)).
Proof.
  intros Hr. pose proof (reachable_inv _ _ _ _ Hr) as HI. pose proof (reachable_pinv _ _ _ _ Hr) as HP.
  assert (Hle : forall t, cnt_in t (started s) <= cnt_in t (accepted s)).
  { intros t. specialize (HI t). unfold where_ in HI. lia. }
  assert (Ha : forall t, cnt_in t (accepted s) <= 1).
  { intros t. destruct (HP t). lia. }
  split; [|split; [|split]].
  - apply NoDup_cnt. intros t. specialize (Hle t). specialize (Ha t). lia.
  - intros t Hin. apply cnt_pos_In in Hin. apply cnt_pos_In. specialize (Hle t). lia.
  - apply NoDup_cnt. exact Ha.
  - intros t Hin. apply cnt_pos_In in Hin. destruct (HP t) as [E1 E2]. specialize (Hle t).
    split; apply cnt_zero_notIn; lia.
Qed.
